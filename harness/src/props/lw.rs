//! Shared workbench of C02 and C05: the S-expression language of script bodies, its rendering
//! to truth syntax, generated mapfiles for several intrinsic tables, the `TestLanguage` pipeline
//! of `/repo/tests/expr_compile.rs` (parse .. desugar .. `Lowerer::lower_sub` .. `Raiser`),
//! decoding of the emitted instructions and the independent syntactic register scan.
//!
//! Body language (all atoms/lists, consumed unchanged by the Lean drivers of C02/C05):
//!   expr  ::= (i N) | (f BITS) | (reg ID SIG FORM) | (loc NAME SIG) | (un OP e) | (bin OP a b)
//!           | (tern c a b) | (sw e|_ e|_ e|_ e|_) | (predec var)
//!   SIG   ::= i | f | n          FORM ::= raw | alias
//!   stmt  ::= (decl TY NAME [e]) | (asg OP var e) | (call OPCODE e...) | (block s...)
//!           | (if KW c (s...) [(s...)]) | (while c (s...)) | (dowhile c (s...)) | (times e (s...))
//!           | (timesc var e (s...)) | (loop (s...)) | (break) | (goto L [T]) | (label L)
//!           | (ifgoto KW c L [T]) | (wait N) | (anti) | (diff "MASK" stmt)
#![allow(dead_code)]

use crate::rng::Rng;
use crate::sexp::Sexp;
use crate::util::{canon_bits, diag_class};
use std::collections::{BTreeMap, BTreeSet};
use truth::{ast, llir, LanguageKey, RegId, ScalarValue};

// ---------------------------------------------------------------------------------------------
// register file of the test language

pub const INT_REGS: &[i32] = &[1000, 1001, 1002, 1003, 1004, 1005, 1006, 1007];
pub const FLOAT_REGS: &[i32] = &[1010, 1011, 1012, 1013, 1014, 1015];
/// never general-purpose
pub const NS_INT: i32 = 1020;
pub const NS_FLOAT: i32 = 1021;

pub fn reg_is_float(id: i32) -> bool { FLOAT_REGS.contains(&id) || id == NS_FLOAT }
pub fn all_regs() -> Vec<i32> { INT_REGS.iter().chain(FLOAT_REGS).copied().chain([NS_INT, NS_FLOAT]).collect() }
pub fn reg_alias(id: i32) -> String {
    if let Some(k) = INT_REGS.iter().position(|&r| r == id) { return format!("I{k}"); }
    if let Some(k) = FLOAT_REGS.iter().position(|&r| r == id) { return format!("F{k}"); }
    if id == NS_INT { "CNT".into() } else { "FNS".into() }
}

// ---------------------------------------------------------------------------------------------
// intrinsic tables

pub const T_NO_ASSIGN_OPS: u32 = 1;   // only `=` is native; `a op= b` goes through the binop
pub const T_NO_UNOPS: u32 = 2;        // no native `-x` `~x` `!x`; fallbacks through const binops
pub const T_NO_MUL_SUB: u32 = 4;      // additionally no `*` / int `-`: with T_NO_UNOPS `-x`, `~x` are unsupported
pub const T_TWO_PART: u32 = 8;        // cmp + jmp instead of a single conditional jump
pub const T_COUNT_GT: u32 = 16;       // CountJmp(op=">") instead of CountJmp()
pub const T_TIME_FIRST: u32 = 32;     // jump arguments `to` instead of `ot`
pub const T_BOTH_COUNT: u32 = 64;     // both count jumps
pub const T_NO_MATH: u32 = 128;       // no sin/cos/sqrt
pub const T_FEW_COND: u32 = 256;      // native conditional jumps only for `==` `<` `>=` (with T_TWO_PART: next to the pair)
pub const T_NO_COND: u32 = 512;       // no native conditional jump at all
pub const T_NO_COUNT: u32 = 1024;     // no counting jump
pub const T_NO_JMP: u32 = 2048;       // no unconditional jump
pub const T_LOC_ONLY: u32 = 4096;     // jump instructions have an offset but no time argument (`o`, like TH06 ANM `ins_5`)
/// the comparisons that keep their native conditional jump under T_FEW_COND
pub const FEW_COND: &[&str] = &["eq", "lt", "ge"];

pub const OP_JMP: u16 = 1;
pub const OP_COUNT_NE: u16 = 2;
pub const OP_COUNT_GT: u16 = 3;
pub const OP_ASSIGN: u16 = 10;   // 12 ops x {int,float}
pub const OP_BINOP: u16 = 40;    // 19 ops x {int,float}
pub const OP_CONDJMP: u16 = 80;  // 6 x 2
pub const OP_CMP: u16 = 94;      // int, float
pub const OP_CMPJMP: u16 = 96;   // 6
pub const OP_ANTI: u16 = 105;
pub const OP_UNOP: u16 = 110;
pub const OP_PLAIN: u16 = 200;   // one per signature of length 0..=4 over {S,f}

pub const ASSIGN_OPS: &[&str] = &["=", "+=", "-=", "*=", "/=", "%=", "|=", "^=", "&=", "<<=", ">>=", ">>>="];
pub const ASSIGN_NAMES: &[&str] = &["set", "add", "sub", "mul", "div", "rem", "bor", "xor", "band", "shl", "shr", "ushr"];
pub const BIN_OPS: &[(&str, &str)] = &[
    ("add", "+"), ("sub", "-"), ("mul", "*"), ("div", "/"), ("rem", "%"),
    ("eq", "=="), ("ne", "!="), ("lt", "<"), ("le", "<="), ("gt", ">"), ("ge", ">="),
    ("bor", "|"), ("xor", "^"), ("band", "&"), ("lor", "||"), ("land", "&&"),
    ("shl", "<<"), ("shr", ">>"), ("ushr", ">>>"),
];
pub const CMP_OPS: &[&str] = &["eq", "ne", "lt", "le", "gt", "ge"];
/// (name, source text, int?, float?)
pub const UN_OPS: &[(&str, &str, bool, bool)] = &[
    ("neg", "-", true, true), ("not", "!", true, false), ("bnot", "~", true, false),
    ("sin", "sin", false, true), ("cos", "cos", false, true), ("sqrt", "sqrt", false, true),
];

pub fn binop_text(name: &str) -> &'static str { BIN_OPS.iter().find(|x| x.0 == name).unwrap_or_else(|| panic!("binop {name}")).1 }
pub fn binop_index(name: &str) -> usize { BIN_OPS.iter().position(|x| x.0 == name).unwrap_or_else(|| panic!("binop {name}")) }
pub fn is_cmp(name: &str) -> bool { CMP_OPS.contains(&name) }
pub fn float_binop_ok(name: &str) -> bool { matches!(name, "add" | "sub" | "mul" | "div" | "rem") || is_cmp(name) }

pub fn plain_sigs() -> Vec<String> {
    let mut out = vec![String::new()];
    let mut layer = vec![String::new()];
    for _ in 0..4 {
        let mut next = vec![];
        for s in &layer { for c in ["S", "f"] { next.push(format!("{s}{c}")); } }
        out.extend(next.iter().cloned());
        layer = next;
    }
    out
}
pub fn plain_opcode(sig: &str) -> u16 { OP_PLAIN + plain_sigs().iter().position(|s| s == sig).unwrap_or_else(|| panic!("sig {sig}")) as u16 }

/// opcode -> signature string, for decoding the emitted blobs
pub fn signatures(table: u32) -> BTreeMap<u16, String> {
    let j = if table & T_LOC_ONLY != 0 { "o" } else if table & T_TIME_FIRST != 0 { "to" } else { "ot" };
    let mut m = BTreeMap::new();
    m.insert(OP_JMP, j.to_string());
    m.insert(OP_COUNT_NE, format!("S{j}"));
    m.insert(OP_COUNT_GT, format!("S{j}"));
    for k in 0..12u16 { m.insert(OP_ASSIGN + 2 * k, "SS".into()); m.insert(OP_ASSIGN + 2 * k + 1, "ff".into()); }
    for (k, (name, _)) in BIN_OPS.iter().enumerate() {
        m.insert(OP_BINOP + 2 * k as u16, "SSS".into());
        m.insert(OP_BINOP + 2 * k as u16 + 1, if is_cmp(name) { "Sff".into() } else { "fff".into() });
    }
    for k in 0..6u16 { m.insert(OP_CONDJMP + 2 * k, format!("SS{j}")); m.insert(OP_CONDJMP + 2 * k + 1, format!("ff{j}")); }
    m.insert(OP_CMP, "SS".into());
    m.insert(OP_CMP + 1, "ff".into());
    for k in 0..6u16 { m.insert(OP_CMPJMP + k, j.to_string()); }
    m.insert(OP_ANTI, String::new());
    for (k, _) in UN_OPS.iter().enumerate() { m.insert(OP_UNOP + 2 * k as u16, "SS".into()); m.insert(OP_UNOP + 2 * k as u16 + 1, "ff".into()); }
    for s in plain_sigs() { m.insert(plain_opcode(&s), s); }
    m
}

pub fn mapfile(table: u32) -> String {
    let sigs = signatures(table);
    let mut lines = vec!["!anmmap".to_string(), "!gvar_types".to_string()];
    for r in all_regs() { lines.push(format!("{r} {}", if reg_is_float(r) { "%" } else { "$" })); }
    lines.push("!gvar_names".into());
    for r in all_regs() { lines.push(format!("{r} {}", reg_alias(r))); }
    lines.push("!ins_signatures".into());
    for (op, s) in &sigs { lines.push(format!("{op} {s}")); }
    lines.push("!ins_intrinsics".into());
    if table & T_NO_JMP == 0 { lines.push(format!("{OP_JMP} Jmp()")); }
    if table & T_NO_COUNT == 0 {
        if table & T_COUNT_GT == 0 || table & T_BOTH_COUNT != 0 { lines.push(format!("{OP_COUNT_NE} CountJmp()")); }
        if table & T_COUNT_GT != 0 || table & T_BOTH_COUNT != 0 { lines.push(format!("{OP_COUNT_GT} CountJmp(op=\">\")")); }
    }
    for (k, op) in ASSIGN_OPS.iter().enumerate() {
        if k > 0 && table & T_NO_ASSIGN_OPS != 0 { continue; }
        lines.push(format!("{} AssignOp(op=\"{op}\"; type=\"int\")", OP_ASSIGN + 2 * k as u16));
        if k < 6 { lines.push(format!("{} AssignOp(op=\"{op}\"; type=\"float\")", OP_ASSIGN + 2 * k as u16 + 1)); }
    }
    for (k, (name, op)) in BIN_OPS.iter().enumerate() {
        let removed_int = table & T_NO_MUL_SUB != 0 && matches!(*name, "mul" | "sub");
        let removed_float = table & T_NO_MUL_SUB != 0 && *name == "mul";
        if !removed_int { lines.push(format!("{} BinOp(op=\"{op}\"; type=\"int\")", OP_BINOP + 2 * k as u16)); }
        if float_binop_ok(name) && !removed_float { lines.push(format!("{} BinOp(op=\"{op}\"; type=\"float\")", OP_BINOP + 2 * k as u16 + 1)); }
    }
    if (table & T_TWO_PART == 0 || table & T_FEW_COND != 0) && table & T_NO_COND == 0 {
        for (k, name) in CMP_OPS.iter().enumerate() {
            if table & T_FEW_COND != 0 && !FEW_COND.contains(name) { continue; }
            let op = binop_text(name);
            lines.push(format!("{} CondJmp(op=\"{op}\"; type=\"int\")", OP_CONDJMP + 2 * k as u16));
            lines.push(format!("{} CondJmp(op=\"{op}\"; type=\"float\")", OP_CONDJMP + 2 * k as u16 + 1));
        }
    }
    if table & T_TWO_PART != 0 {
        lines.push(format!("{OP_CMP} DedicatedCmp(type=\"int\")"));
        lines.push(format!("{} DedicatedCmp(type=\"float\")", OP_CMP + 1));
        for (k, name) in CMP_OPS.iter().enumerate() { lines.push(format!("{} DedicatedCmpJmp(op=\"{}\")", OP_CMPJMP + k as u16, binop_text(name))); }
    }
    for (k, (name, op, int, float)) in UN_OPS.iter().enumerate() {
        let is_math = matches!(*name, "sin" | "cos" | "sqrt");
        if is_math && table & T_NO_MATH != 0 { continue; }
        if !is_math && table & T_NO_UNOPS != 0 { continue; }
        if *int { lines.push(format!("{} UnOp(op=\"{op}\"; type=\"int\")", OP_UNOP + 2 * k as u16)); }
        if *float { lines.push(format!("{} UnOp(op=\"{op}\"; type=\"float\")", OP_UNOP + 2 * k as u16 + 1)); }
    }
    lines.join("\n")
}

// ---------------------------------------------------------------------------------------------
// configuration of a case

#[derive(Clone, Debug)]
pub struct Cfg { pub ints: usize, pub floats: usize, pub table: u32, pub simplify: bool }

impl Cfg {
    pub fn to_sexp(&self) -> Sexp { Sexp::app("cfg", vec![Sexp::int(self.ints as i64), Sexp::int(self.floats as i64), Sexp::int(self.table as i64), Sexp::int(self.simplify as i64)]) }
    pub fn from_sexp(s: &Sexp) -> Cfg { let a = s.args(); Cfg { ints: a[0].as_usize(), floats: a[1].as_usize(), table: a[2].as_u32(), simplify: a[3].as_i64() != 0 } }
    pub fn pool_ints(&self) -> Vec<i32> { INT_REGS[..self.ints.min(INT_REGS.len())].to_vec() }
    pub fn pool_floats(&self) -> Vec<i32> { FLOAT_REGS[..self.floats.min(FLOAT_REGS.len())].to_vec() }
    pub fn language(&self) -> llir::TestLanguage {
        let mut l = llir::TestLanguage::default();
        l.language = LanguageKey::Anm;
        l.general_use_int_regs = self.pool_ints().into_iter().map(RegId).collect();
        l.general_use_float_regs = self.pool_floats().into_iter().map(RegId).collect();
        l.anti_scratch_opcode = Some(OP_ANTI);
        l
    }
}

// ---------------------------------------------------------------------------------------------
// rendering

pub fn float_text(bits: u32) -> String {
    let x = f32::from_bits(bits);
    let mag = x.abs();
    let body = if mag.is_infinite() { "INF".to_string() } else { let mut s = format!("{}", mag); if !s.contains('.') { s.push_str(".0"); } s };
    if x.is_sign_negative() { format!("(-{body})") } else { body }
}

pub trait RegNames { fn reg_text(&self, id: i32, sig: &str, form: &str) -> String; }
pub struct TestNames;
impl RegNames for TestNames {
    fn reg_text(&self, id: i32, sig: &str, form: &str) -> String {
        let sg = match sig { "i" => "$", "f" => "%", _ => "" };
        if form == "alias" { format!("{sg}{}", reg_alias(id)) } else {
            // a raw register needs a sigil; `n` means its natural type
            let sg = if sg.is_empty() { if reg_is_float(id) { "%" } else { "$" } } else { sg };
            format!("{sg}REG[{id}]")
        }
    }
}

pub fn var_text(n: &dyn RegNames, v: &Sexp) -> String {
    let a = v.args();
    match v.head().expect("var head") {
        "reg" => n.reg_text(a[0].as_i32(), a[1].as_atom(), a[2].as_atom()),
        "loc" => format!("{}{}", match a[1].as_atom() { "i" => "$", "f" => "%", _ => "" }, a[0].as_atom()),
        h => panic!("bad var {h}"),
    }
}

pub fn expr_text(n: &dyn RegNames, e: &Sexp) -> String {
    let a = e.args();
    match e.head().expect("expr head") {
        "i" => format!("{}", a[0].as_i64() as i32 as u32),
        "f" => float_text(a[0].as_i64() as u32),
        "reg" | "loc" => var_text(n, e),
        "un" => match a[0].as_atom() {
            "castI" => format!("int({})", expr_text(n, &a[1])),
            "castF" => format!("float({})", expr_text(n, &a[1])),
            "sigI" => format!("$({})", expr_text(n, &a[1])),
            "sigF" => format!("%({})", expr_text(n, &a[1])),
            "neg" => format!("(- {})", expr_text(n, &a[1])),
            "not" => format!("(! {})", expr_text(n, &a[1])),
            "bnot" => format!("(~ {})", expr_text(n, &a[1])),
            op => format!("{op}({})", expr_text(n, &a[1])),
        },
        "bin" => format!("({} {} {})", expr_text(n, &a[1]), binop_text(a[0].as_atom()), expr_text(n, &a[2])),
        "tern" => format!("({} ? {} : {})", expr_text(n, &a[0]), expr_text(n, &a[1]), expr_text(n, &a[2])),
        "sw" => format!("({})", a.iter().map(|c| if matches!(c, Sexp::Atom(_)) { String::new() } else { expr_text(n, c) }).collect::<Vec<_>>().join(":")),
        "predec" => format!("--{}", var_text(n, &a[0])),
        h => panic!("bad expr head {h}"),
    }
}

pub fn assign_op_text(name: &str) -> &'static str { ASSIGN_OPS[ASSIGN_NAMES.iter().position(|x| *x == name).unwrap_or_else(|| panic!("assign op {name}"))] }

pub fn stmts_text(n: &dyn RegNames, ss: &[Sexp], ind: usize, out: &mut String) { for s in ss { stmt_text(n, s, ind, out); } }

pub fn stmt_text(n: &dyn RegNames, s: &Sexp, ind: usize, out: &mut String) {
    let pad = "  ".repeat(ind);
    let a = s.args();
    let block = |ss: &Sexp, out: &mut String| { out.push_str("{\n"); stmts_text(n, ss.as_list(), ind + 1, out); out.push_str(&pad); out.push('}'); };
    match s.head().expect("stmt head") {
        "decl" => {
            let ty = if a[0].as_atom() == "i" { "int" } else { "float" };
            match a.get(2) { Some(e) => out.push_str(&format!("{pad}{ty} {} = {};\n", a[1].as_atom(), expr_text(n, e))), None => out.push_str(&format!("{pad}{ty} {};\n", a[1].as_atom())) }
        },
        "asg" => out.push_str(&format!("{pad}{} {} {};\n", var_text(n, &a[1]), assign_op_text(a[0].as_atom()), expr_text(n, &a[2]))),
        "call" => out.push_str(&format!("{pad}ins_{}({});\n", a[0].as_i64(), a[1..].iter().map(|e| expr_text(n, e)).collect::<Vec<_>>().join(", "))),
        "block" => { out.push_str(&pad); out.push_str("{\n"); stmts_text(n, a, ind + 1, out); out.push_str(&pad); out.push_str("}\n"); },
        "if" => {
            out.push_str(&format!("{pad}{} ({}) ", a[0].as_atom(), expr_text(n, &a[1])));
            block(&a[2], out);
            if let Some(e) = a.get(3) { out.push_str(" else "); block(e, out); }
            out.push('\n');
        },
        "while" => { out.push_str(&format!("{pad}while ({}) ", expr_text(n, &a[0]))); block(&a[1], out); out.push('\n'); },
        "dowhile" => { out.push_str(&format!("{pad}do ")); block(&a[1], out); out.push_str(&format!(" while ({});\n", expr_text(n, &a[0]))); },
        "times" => { out.push_str(&format!("{pad}times({}) ", expr_text(n, &a[0]))); block(&a[1], out); out.push('\n'); },
        "timesc" => { out.push_str(&format!("{pad}times({} = {}) ", var_text(n, &a[0]), expr_text(n, &a[1]))); block(&a[2], out); out.push('\n'); },
        "loop" => { out.push_str(&format!("{pad}loop ")); block(&a[0], out); out.push('\n'); },
        "break" => out.push_str(&format!("{pad}break;\n")),
        "goto" => match a.get(1) { Some(t) => out.push_str(&format!("{pad}goto {} @ {};\n", a[0].as_atom(), t.as_i64())), None => out.push_str(&format!("{pad}goto {};\n", a[0].as_atom())) },
        "label" => out.push_str(&format!("{}:\n", a[0].as_atom())),
        "ifgoto" => match a.get(3) {
            Some(t) => out.push_str(&format!("{pad}{} ({}) goto {} @ {};\n", a[0].as_atom(), expr_text(n, &a[1]), a[2].as_atom(), t.as_i64())),
            None => out.push_str(&format!("{pad}{} ({}) goto {};\n", a[0].as_atom(), expr_text(n, &a[1]), a[2].as_atom())),
        },
        "wait" => out.push_str(&format!("+{}:\n", a[0].as_i64())),
        "anti" => out.push_str(&format!("{pad}ins_{OP_ANTI}();\n")),
        // an instruction given by its raw bytes (the opcode still counts, e.g. for the anti-scratch rule)
        "callblob" => out.push_str(&format!("{pad}ins_{}(@blob=\"{}\");\n", a[0].as_i64(), if a[1].as_atom() == "-" { "" } else { a[1].as_atom() })),
        "diff" => { out.push_str(&format!("{pad}{{\"{}\"}}: ", a[0].as_atom())); let mut inner = String::new(); stmt_text(n, &a[1], 0, &mut inner); out.push_str(&inner); },
        h => panic!("bad stmt head {h}"),
    }
}

pub fn body_text(n: &dyn RegNames, stmts: &[Sexp]) -> String {
    let mut out = String::from("{\n");
    stmts_text(n, stmts, 1, &mut out);
    out.push_str("}\n");
    out
}

// ---------------------------------------------------------------------------------------------
// independent syntactic scans of the case

/// Every register id named in the body; the flag says whether at least one occurrence is outside every
/// difficulty switch.  A case of a switch nested in a case of another switch that no difficulty can
/// reach (`((a:b:c:d):::e)` reaches `a`, `b`, `c` of the inner switch on difficulties 0-2, never `d`) is
/// dead text for which no code exists, and so is a case excluded by the difficulty label of its statement
/// (`{"02"}: ins(a:b:c:d)` never reaches `b`); registers named only there are not counted.
pub fn mentioned_regs(stmts: &[Sexp]) -> BTreeMap<i32, bool> {
    fn walk(s: &Sexp, in_switch: bool, reach: u32, out: &mut BTreeMap<i32, bool>) {
        if s.head() == Some("reg") {
            let e = out.entry(s.args()[0].as_i32()).or_insert(false);
            if !in_switch { *e = true; }
            return;
        }
        if s.head() == Some("sw") {
            let cs = s.args();
            let n = cs.len();
            let mut k = 0;
            while k < n {
                if matches!(cs[k], Sexp::Atom(_)) { k += 1; continue; }
                let mut end = k + 1;
                while end < n && matches!(cs[end], Sexp::Atom(_)) { end += 1; }
                // difficulties this case covers (the last case also covers every higher difficulty bit)
                let mut mask = 0u32;
                for d in k..end { mask |= 1 << d; }
                if end == n { mask |= !0u32 << n; }
                let r = reach & mask;
                if r != 0 { walk(&cs[k], true, r, out); }
                k = end;
            }
            return;
        }
        if s.head() == Some("diff") {
            // `{"02"}: stmt` exists on difficulties 0 and 2 only
            let mut mask = 0u32;
            for c in s.args()[0].as_atom().chars() { if let Some(d) = c.to_digit(10) { mask |= 1 << d; } }
            walk(&s.args()[1], in_switch, reach & mask, out);
            return;
        }
        if let Sexp::List(v) = s { for x in v { walk(x, in_switch, reach, out); } }
    }
    let mut out = BTreeMap::new();
    for s in stmts { walk(s, false, 0xf, &mut out); }
    out
}

pub fn declared_locals(stmts: &[Sexp]) -> Vec<(String, bool)> {
    fn walk(s: &Sexp, out: &mut Vec<(String, bool)>) {
        if s.head() == Some("decl") { out.push((s.args()[1].as_atom().to_string(), s.args()[0].as_atom() == "f")); }
        if let Sexp::List(v) = s { for x in v { walk(x, out); } }
    }
    let mut out = vec![];
    for s in stmts { walk(s, &mut out); }
    out
}

pub fn has_var(e: &Sexp) -> bool { matches!(e.head(), Some("reg") | Some("loc")) || matches!(e, Sexp::List(v) if v.iter().any(has_var)) }

pub fn contains_head(stmts: &[Sexp], head: &str) -> bool {
    fn walk(s: &Sexp, head: &str) -> bool { s.head() == Some(head) || matches!(s, Sexp::List(v) if v.iter().any(|x| walk(x, head))) }
    stmts.iter().any(|s| walk(s, head))
}

// ---------------------------------------------------------------------------------------------
// the pipeline of tests/expr_compile.rs

pub struct Lowered<'a, 'ctx> {
    pub truth: &'a mut truth::Truth<'ctx>,
    pub hooks: &'a llir::TestLanguage,
    /// the desugared source the Lowerer saw
    pub old_stmts: Vec<truth::Sp<ast::Stmt>>,
    pub instrs: Vec<llir::RawInstr>,
    /// debug info `locals`: (name, span start, span end, is_float, register)
    pub locals: Vec<(String, i64, i64, bool, i32)>,
    pub text: String,
}

pub enum Lower { Rejected { stage: &'static str, class: String, diagnostics: String, no_error_diag: bool }, Warned(String) }

/// Runs parse .. lower on `stmts` and hands the result to `f`.  Returns `Err(Lower::Rejected)` when some
/// pass reports an error (with the stage), `Err(Lower::Warned)` when a warning was printed.
pub fn with_lowered<T>(cfg: &Cfg, stmts: &[Sexp], f: impl FnOnce(&mut Lowered) -> T) -> Result<T, Lower> {
    let text = body_text(&TestNames, stmts);
    let mut scope = truth::Builder::new().capture_diagnostics(true).build();
    let mut truth = scope.truth();
    truth.apply_mapfile_str(&mapfile(cfg.table), truth::Game::Th10).unwrap_or_else(|_| panic!("mapfile rejected: {}", truth.get_captured_diagnostics().unwrap_or_default()));
    let hooks = cfg.language();
    let mut stage = "parse";
    let r: Result<(Vec<truth::Sp<ast::Stmt>>, Vec<llir::RawInstr>, Vec<(String, i64, i64, bool, i32)>), truth::ErrorReported> = (|| {
        let mut block = truth.parse::<ast::Block>("<input>", text.as_bytes())?.value;
        let ctx = truth.ctx();
        stage = "resolve";
        truth::passes::resolution::assign_languages(&mut block, LanguageKey::Anm, ctx)?;
        truth::passes::resolution::resolve_names(&block, ctx)?;
        stage = "type_check";
        truth::passes::type_check::run(&block, ctx)?;
        stage = "prepare";
        truth::passes::resolution::aliases_to_raw(&mut block, ctx)?;
        truth::passes::resolution::compute_diff_label_masks(&mut block, ctx)?;
        if cfg.simplify {
            stage = "const_simplify";
            truth::passes::evaluate_const_vars::run(ctx)?;
            truth::passes::const_simplify::run(&mut block, ctx)?;
        }
        stage = "desugar";
        truth::passes::desugar_blocks::run(&mut block, ctx, LanguageKey::Anm)?;
        stage = "lower";
        let old_stmts = block.0;
        let mut errors = truth::error::ErrorFlag::new();
        let mut lowerer = llir::Lowerer::new(&hooks);
        let (instrs, info) = lowerer.lower_sub(&old_stmts, None, ctx, true).unwrap_or_else(|e| { errors.set(e); (vec![], None) });
        lowerer.finish(ctx).unwrap_or_else(|e| errors.set(e));
        errors.into_result(())?;
        let mut locals = vec![];
        if let Some(info) = info {
            for l in &info.register_info.locals {
                let v = serde_json::to_value(l).expect("serialize local");
                let (s, e) = match v["name-span"].as_array() { Some(t) => (t[1].as_i64().unwrap_or(-1), t[2].as_i64().unwrap_or(-1)), None => (-1, -1) };
                let reg = v["bound-to"]["reg"].as_i64().unwrap_or(i64::MIN) as i32;
                locals.push((l.name.clone(), s, e, v["type"].as_str() == Some("float"), reg));
            }
        }
        Ok((old_stmts, instrs, locals))
    })();
    let diagnostics = truth.get_captured_diagnostics().unwrap_or_default();
    match r {
        Err(e) => {
            e.ignore();
            let no_error_diag = !diagnostics.lines().any(|l| l.starts_with("error"));
            Err(Lower::Rejected { stage, class: diag_class(&diagnostics), diagnostics, no_error_diag })
        },
        Ok((old_stmts, instrs, locals)) => {
            if diagnostics.lines().any(|l| l.starts_with("warning")) {
                let w = diagnostics.lines().find(|l| l.starts_with("warning")).unwrap_or("").to_string();
                return Err(Lower::Warned(crate::props::strip_digits(&w)));
            }
            let mut l = Lowered { truth: &mut truth, hooks: &hooks, old_stmts, instrs, locals, text };
            Ok(f(&mut l))
        },
    }
}

/// decoded argument of an emitted instruction
#[derive(Clone, Debug, PartialEq)]
pub enum DArg { Reg(i32, bool), Int(i32), Float(u32) }

pub fn decode_instr(sigs: &BTreeMap<u16, String>, ins: &llir::RawInstr) -> Option<Vec<DArg>> {
    let sig = sigs.get(&ins.opcode)?;
    if ins.args_blob.len() != 4 * sig.len() { return None; }
    let mut out = vec![];
    for (k, c) in sig.chars().enumerate() {
        let w = u32::from_le_bytes(ins.args_blob[4 * k..4 * k + 4].try_into().unwrap());
        let is_reg = ins.param_mask & (1 << k) != 0;
        out.push(match (c, is_reg) {
            ('f', true) => DArg::Reg(f32::from_bits(w) as i32, true),
            ('f', false) => DArg::Float(canon_bits(f32::from_bits(w))),
            (_, true) => DArg::Reg(w as i32, false),
            (_, false) => DArg::Int(w as i32),
        });
    }
    Some(out)
}

pub fn darg_sexp(a: &DArg) -> Sexp {
    match a {
        DArg::Reg(r, fl) => Sexp::app("r", vec![Sexp::int(*r), Sexp::atom(if *fl { "f" } else { "i" })]),
        DArg::Int(v) => Sexp::app("i", vec![Sexp::int(*v)]),
        DArg::Float(b) => Sexp::app("f", vec![Sexp::int(*b)]),
    }
}

pub fn instr_sexp(sigs: &BTreeMap<u16, String>, ins: &llir::RawInstr) -> Sexp {
    let args = match decode_instr(sigs, ins) { Some(a) => a.iter().map(darg_sexp).collect(), None => vec![Sexp::atom("undecodable")] };
    let mut v = vec![Sexp::int(ins.time), Sexp::int(ins.opcode), Sexp::int(ins.difficulty as i64)];
    v.extend(args);
    Sexp::app("ins", v)
}

/// The emitted stream with every jump-offset argument (`o` in the signature) replaced by `(label K)`, K = the
/// position in the stream of the instruction that starts at that byte offset (the stream length for the end).
/// Under `TestLanguage` an instruction occupies 4 header bytes + its argument blob and offsets are absolute.
pub fn instrs_sexp_labels(sigs: &BTreeMap<u16, String>, instrs: &[llir::RawInstr]) -> Vec<Sexp> {
    let mut offsets = vec![];
    let mut off = 0u64;
    for i in instrs { offsets.push(off); off += 4 + i.args_blob.len() as u64; }
    offsets.push(off);
    instrs.iter().map(|ins| {
        let mut v = vec![Sexp::int(ins.time), Sexp::int(ins.opcode), Sexp::int(ins.difficulty as i64)];
        match (decode_instr(sigs, ins), sigs.get(&ins.opcode)) {
            (Some(args), Some(sig)) => for (a, c) in args.iter().zip(sig.chars()) {
                match (c, a) {
                    ('o', DArg::Int(w)) => match offsets.iter().position(|&o| o == *w as u32 as u64) {
                        Some(k) => v.push(Sexp::app("label", vec![Sexp::int(k as i64)])),
                        None => v.push(Sexp::app("label-inside-instruction", vec![Sexp::int(*w)])),
                    },
                    _ => v.push(darg_sexp(a)),
                }
            },
            _ => v.push(Sexp::atom("undecodable")),
        }
        Sexp::app("ins", v)
    }).collect()
}

pub fn value_sexp(v: &ScalarValue) -> Sexp {
    match v {
        ScalarValue::Int(i) => Sexp::app("i", vec![Sexp::int(*i)]),
        ScalarValue::Float(f) => Sexp::app("f", vec![Sexp::int(canon_bits(*f))]),
        ScalarValue::String(s) => Sexp::app("s", vec![Sexp::str(s.clone())]),
    }
}

pub fn skip(kind: &str, detail: impl Into<String>) -> Sexp { Sexp::app("skip", vec![Sexp::atom(kind), Sexp::str(detail.into())]) }

// ---------------------------------------------------------------------------------------------
// generator

#[derive(Clone)]
pub struct GenOpts {
    pub table: u32,
    /// loops, jumps, conditionals
    pub control: bool,
    pub switches: bool,
    pub ternary: bool,
    pub anti: bool,
    pub diff_labels: bool,
    pub max_depth: u32,
    pub time_labels: bool,
    /// restrict to what the Lean lowering model covers
    pub model_fragment: bool,
}

/// registers the generator may name
#[derive(Clone)]
pub struct RegFile { pub ints: Vec<i32>, pub floats: Vec<i32>, pub ns_int: i32, pub ns_float: i32, pub aliases: bool, pub plain_base: u16 }

impl RegFile {
    pub fn test() -> RegFile { RegFile { ints: INT_REGS.to_vec(), floats: FLOAT_REGS.to_vec(), ns_int: NS_INT, ns_float: NS_FLOAT, aliases: true, plain_base: OP_PLAIN } }
    pub fn is_float(&self, id: i32) -> bool { self.floats.contains(&id) || id == self.ns_float }
}

pub struct BodyGen<'a> {
    pub rng: &'a mut Rng,
    pub o: GenOpts,
    pub rf: RegFile,
    /// only operators every real game has natively (+ - * / %, unary minus, comparisons inside conditions)
    pub real_ops: bool,
    /// which counting-jump conditions the language has: `--x` / `--x != 0`, `--x > 0`
    pub predec_ne: bool,
    pub predec_gt: bool,
    pub casts: bool,
    /// conditions of ternaries take every shape a jump condition can have (bodies for the jump model)
    pub jump_model: bool,
    /// locals in scope: (name, is_float)
    scope: Vec<Vec<(String, bool)>>,
    next_local: usize,
    next_label: usize,
    /// variables that may not be written inside the current loop (its counter)
    frozen: Vec<Sexp>,
    pub in_loop: usize,
}

impl<'a> BodyGen<'a> {
    pub fn new(rng: &'a mut Rng, o: GenOpts) -> Self { Self::with_regs(rng, o, RegFile::test()) }
    pub fn with_regs(rng: &'a mut Rng, o: GenOpts, rf: RegFile) -> Self {
        // every body names only a few registers, so that some stay available as scratch
        let mut rf = rf;
        let ki = 1 + rng.below(rf.ints.len().min(4));
        let kf = 1 + rng.below(rf.floats.len().min(3));
        rng.shuffle(&mut rf.ints);
        rng.shuffle(&mut rf.floats);
        rf.ints.truncate(ki);
        rf.floats.truncate(kf);
        let (ne, gt) = (o.table & T_COUNT_GT == 0 || o.table & T_BOTH_COUNT != 0, o.table & (T_COUNT_GT | T_BOTH_COUNT) != 0);
        let (ne, gt) = (ne && o.table & T_NO_COUNT == 0, gt && o.table & T_NO_COUNT == 0);
        BodyGen { rng, o, rf, real_ops: false, predec_ne: ne, predec_gt: gt, casts: true, jump_model: false, scope: vec![vec![]], next_local: 0, next_label: 0, frozen: vec![], in_loop: 0 } }

    pub fn add_param(&mut self, name: &str, float: bool) { self.scope[0].push((name.to_string(), float)); }

    fn locals_of(&self, float: bool) -> Vec<String> { self.scope.iter().flatten().filter(|l| l.1 == float).map(|l| l.0.clone()).collect() }

    fn reg(&mut self, float: bool) -> Sexp {
        let natural_float = if self.rng.chance(1, 6) { !float } else { float };
        let id = if natural_float {
            if self.rng.chance(1, 8) { self.rf.ns_float } else { let k = self.rng.below(self.rf.floats.len()); self.rf.floats[k] }
        } else if self.rng.chance(1, 8) { self.rf.ns_int } else { let k = self.rng.below(self.rf.ints.len()); self.rf.ints[k] };
        let sig = if natural_float != float || self.rng.chance(1, 3) { if float { "f" } else { "i" } } else { "n" };
        let form = if self.rf.aliases && self.rng.chance(1, 2) { "alias" } else { "raw" };
        Sexp::app("reg", vec![Sexp::int(id), Sexp::atom(sig), Sexp::atom(form)])
    }

    fn local(&mut self, float: bool) -> Option<Sexp> {
        let same = self.locals_of(float);
        let other = self.locals_of(!float);
        if !other.is_empty() && self.rng.chance(1, 8) {
            let n = self.rng.pick(&other).clone();
            return Some(Sexp::app("loc", vec![Sexp::atom(n), Sexp::atom(if float { "f" } else { "i" })]));
        }
        if same.is_empty() { return None; }
        let n = self.rng.pick(&same).clone();
        let sig = if self.rng.chance(1, 4) { if float { "f" } else { "i" } } else { "n" };
        Some(Sexp::app("loc", vec![Sexp::atom(n), Sexp::atom(sig)]))
    }

    pub fn leaf(&mut self, float: bool) -> Sexp {
        match self.rng.below(10) {
            0..=2 => if float { Sexp::app("f", vec![Sexp::int(self.small_float())]) } else { Sexp::app("i", vec![Sexp::int(self.small_or_boundary_int())]) },
            3..=5 => self.local(float).unwrap_or_else(|| self.reg(float)),
            _ => self.reg(float),
        }
    }

    fn small_or_boundary_int(&mut self) -> i32 { if self.rng.chance(2, 3) { self.rng.range(-5, 9) as i32 } else { self.rng.int_boundary() } }
    /// finite only: `INF`/`NAN` are named constants, which only `const_simplify` turns into literals
    fn small_float(&mut self) -> u32 {
        if self.rng.chance(2, 3) { return ((self.rng.range(-12, 12) as f32) * 0.25).to_bits(); }
        let b = self.rng.float_bits();
        if f32::from_bits(b).is_finite() { b } else { 1.5f32.to_bits() }
    }
    /// condition of a ternary: never a constant (constant folding would drop the untaken branch and the
    /// registers named in it)
    fn tern_cond(&mut self, d: u32) -> Sexp {
        let c = if self.real_ops || (self.jump_model && self.rng.chance(1, 2)) { self.cond(1) } else { self.expr(false, d) };
        if has_var(&c) { c } else { Sexp::app("bin", vec![Sexp::atom("ne"), self.reg(false), c]) }
    }
    fn nonzero_int_leaf(&mut self) -> Sexp { let mut v = self.rng.range(1, 9) as i32; if self.rng.chance(1, 3) { v = -v; } Sexp::app("i", vec![Sexp::int(v)]) }

    pub fn expr(&mut self, float: bool, depth: u32) -> Sexp {
        if depth == 0 || self.rng.chance(1, 4) { return self.leaf(float); }
        let d = depth - 1;
        let k = self.rng.below(20);
        if self.real_ops {
            return match k {
                0..=11 => {
                    let op = if float { *self.rng.pick(&["add", "sub", "mul", "div"]) } else { *self.rng.pick(&["add", "sub", "mul", "div", "rem"]) };
                    let a = self.expr(float, d);
                    let b = if !float && matches!(op, "div" | "rem") { self.nonzero_int_leaf() } else { self.expr(float, d) };
                    Sexp::app("bin", vec![Sexp::atom(op), a, b])
                },
                12 | 13 => Sexp::app("un", vec![Sexp::atom("neg"), self.expr(float, d)]),
                14 | 15 if self.casts => Sexp::app("un", vec![Sexp::atom(if float { "castF" } else { "castI" }), self.expr(!float, d)]),
                16 | 17 if self.o.switches => self.switch(float, d),
                18 if self.o.ternary => Sexp::app("tern", vec![self.tern_cond(d), self.expr(float, d), self.expr(float, d)]),
                _ => self.leaf(float),
            };
        }
        if !float {
            match k {
                0..=7 => {
                    let ops = ["add", "sub", "mul", "div", "rem", "add", "sub", "mul", "bor", "xor", "band", "lor", "land", "shl", "shr", "ushr", "eq", "ne", "lt", "le", "gt", "ge"];
                    let op = self.pick_supported(&ops, false, 'b');
                    let a = self.expr(false, d);
                    let b = if matches!(op, "div" | "rem") && self.rng.chance(4, 5) { self.nonzero_int_leaf() } else { self.expr(false, d) };
                    Sexp::app("bin", vec![Sexp::atom(op), a, b])
                },
                8 | 9 => { let op = *self.rng.pick(CMP_OPS); let a = self.expr(true, d); let b = self.expr(true, d); Sexp::app("bin", vec![Sexp::atom(op), a, b]) },
                10 | 11 => { let op = self.pick_supported(&["neg", "neg", "not", "bnot"], false, 'u'); Sexp::app("un", vec![Sexp::atom(op), self.expr(false, d)]) },
                12 | 13 => { let op = *self.rng.pick(&["castI", "sigI"]); Sexp::app("un", vec![Sexp::atom(op), self.expr(true, d)]) },
                14 => { let op = *self.rng.pick(&["castI", "sigI"]); let e = self.nonleaf(false, d); Sexp::app("un", vec![Sexp::atom(op), e]) },
                15 | 16 if self.o.ternary => Sexp::app("tern", vec![self.tern_cond(d), self.expr(false, d), self.expr(false, d)]),
                17 | 18 if self.o.switches => self.switch(false, d),
                _ => self.leaf(false),
            }
        } else {
            match k {
                0..=7 => {
                    let op = self.pick_supported(&["add", "sub", "mul", "div", "add", "sub", "mul", "rem"], true, 'b');
                    Sexp::app("bin", vec![Sexp::atom(op), self.expr(true, d), self.expr(true, d)])
                },
                8..=10 => { let op = self.pick_supported(&["neg", "neg", "sin", "cos", "sqrt"], true, 'u'); Sexp::app("un", vec![Sexp::atom(op), self.expr(true, d)]) },
                11..=13 => { let op = *self.rng.pick(&["castF", "sigF"]); Sexp::app("un", vec![Sexp::atom(op), self.expr(false, d)]) },
                14 => { let op = *self.rng.pick(&["castF", "sigF"]); let e = self.nonleaf(true, d); Sexp::app("un", vec![Sexp::atom(op), e]) },
                15 | 16 if self.o.ternary => Sexp::app("tern", vec![self.tern_cond(d), self.expr(true, d), self.expr(true, d)]),
                17 | 18 if self.o.switches => self.switch(true, d),
                _ => self.leaf(true),
            }
        }
    }

    /// is the operator compilable under the intrinsic table of this case (natively or by a fallback)?
    pub fn supported(&self, op: &str, float: bool, kind: char) -> bool {
        let t = self.o.table;
        match kind {
            'b' => !(t & T_NO_MUL_SUB != 0 && (op == "mul" || (op == "sub" && !float))),
            'u' => match op {
                "sin" | "cos" | "sqrt" => t & T_NO_MATH == 0,
                "not" => t & T_NO_UNOPS == 0,
                "neg" => t & T_NO_UNOPS == 0 || t & T_NO_MUL_SUB == 0,
                "bnot" => t & T_NO_UNOPS == 0 || t & T_NO_MUL_SUB == 0,
                _ => true,
            },
            // assignment operators: native, or through the binop
            _ => t & T_NO_ASSIGN_OPS == 0 || self.supported(op, float, 'b'),
        }
    }
    /// mostly a supported operator; sometimes any (the rejection must be a diagnostic)
    fn pick_supported(&mut self, ops: &[&'static str], float: bool, kind: char) -> &'static str {
        for _ in 0..6 {
            let op = *self.rng.pick(ops);
            if self.supported(op, float, kind) || self.rng.chance(1, 40) { return op; }
        }
        ops[0]
    }
    fn nonleaf(&mut self, float: bool, d: u32) -> Sexp {
        let op = self.pick_supported(&["add", "sub", "mul"], float, 'b');
        Sexp::app("bin", vec![Sexp::atom(op), self.expr(float, d), self.leaf(float)])
    }

    fn switch(&mut self, float: bool, d: u32) -> Sexp {
        let simple = self.rng.chance(1, 2);
        let mut cases = vec![];
        for k in 0..4 {
            if k > 0 && self.rng.chance(1, 3) { cases.push(Sexp::atom("_")); continue; }
            cases.push(if simple { self.leaf(float) } else { self.expr(float, d.min(2)) });
        }
        Sexp::app("sw", cases)
    }

    fn cond(&mut self, depth: u32) -> Sexp {
        match self.rng.below(if self.real_ops { 6 } else { 8 }) {
            0..=3 => { let fl = self.rng.chance(1, 3); let op = *self.rng.pick(CMP_OPS); let a = self.expr(fl, depth); let b = self.expr(fl, depth); Sexp::app("bin", vec![Sexp::atom(op), a, b]) },
            4 => { let op = *self.rng.pick(&["lor", "land"]); let a = self.cond(depth.saturating_sub(1)); let b = self.cond(depth.saturating_sub(1)); Sexp::app("bin", vec![Sexp::atom(op), a, b]) },
            5 => Sexp::app("un", vec![Sexp::atom("not"), self.cond(depth.saturating_sub(1))]),
            _ => self.expr(false, depth),
        }
    }

    fn assignable(&mut self, float: bool) -> Sexp {
        for _ in 0..8 {
            let v = if self.rng.chance(1, 2) { self.local(float).unwrap_or_else(|| self.reg(float)) } else { self.reg(float) };
            // write with the natural sigil only (a write through the other sigil stores a value of the other type)
            let v = match v.head() {
                Some("reg") => { let a = v.args(); let id = a[0].as_i32(); if self.rf.is_float(id) != float { continue; } Sexp::app("reg", vec![a[0].clone(), Sexp::atom(if self.rng.chance(1, 2) { "n" } else if float { "f" } else { "i" }), a[2].clone()]) },
                _ => { let a = v.args(); let name = a[0].as_atom().to_string(); if self.scope.iter().flatten().any(|l| l.0 == name && l.1 != float) { continue; } Sexp::app("loc", vec![a[0].clone(), Sexp::atom("n")]) },
            };
            let key = match v.head() { Some("reg") => format!("r{}", v.args()[0]), _ => format!("l{}", v.args()[0]) };
            if self.frozen.iter().any(|f| f.as_atom() == key) { continue; }
            return v;
        }
        // fall back to a register that is never a loop counter
        Sexp::app("reg", vec![Sexp::int(if float { *self.rf.floats.last().unwrap() } else { *self.rf.ints.last().unwrap() }), Sexp::atom("n"), Sexp::atom("raw")])
    }

    fn fresh_local(&mut self) -> String { self.next_local += 1; format!("v{}", self.next_local) }
    fn fresh_label(&mut self) -> String { self.next_label += 1; format!("lab{}", self.next_label) }

    fn block(&mut self, depth: u32, n: usize) -> Sexp {
        self.scope.push(vec![]);
        let mut out = vec![];
        for _ in 0..n { self.stmt(depth, &mut out); }
        self.scope.pop();
        Sexp::list(out)
    }

    pub fn call(&mut self, depth: u32) -> Sexp {
        let n = self.rng.below(4) + if self.rng.chance(1, 3) { 1 } else { 0 };
        let n = n.min(4);
        let mut sig = String::new();
        let mut args = vec![];
        for _ in 0..n {
            let fl = self.rng.chance(2, 5);
            sig.push(if fl { 'f' } else { 'S' });
            let d = if self.rng.chance(1, 2) { 0 } else { depth };
            args.push(self.expr(fl, d));
        }
        let mut v = vec![Sexp::int(plain_opcode(&sig) - OP_PLAIN + self.rf.plain_base)];
        v.extend(args);
        Sexp::app("call", v)
    }

    pub fn stmt(&mut self, depth: u32, out: &mut Vec<Sexp>) {
        let ed = 1 + self.rng.below(self.o.max_depth as usize) as u32;
        let k = self.rng.below(if self.o.control && depth > 0 { 30 } else { 18 });
        match k {
            0..=3 => {
                let fl = self.rng.chance(1, 3);
                let name = self.fresh_local();
                let mut v = vec![Sexp::atom(if fl { "f" } else { "i" }), Sexp::atom(name.clone())];
                if self.rng.chance(9, 10) { v.push(self.expr(fl, ed)); }
                self.scope.last_mut().unwrap().push((name, fl));
                out.push(Sexp::app("decl", v));
            },
            4..=9 => {
                let fl = self.rng.chance(1, 3);
                let op = if self.rng.chance(3, 5) { "set" } else if fl { self.pick_supported(&["add", "sub", "mul", "div"], true, 'a') } else if self.real_ops { *self.rng.pick(&["add", "sub", "mul", "div", "rem"]) } else { self.pick_supported(&ASSIGN_NAMES[1..], false, 'a') };
                let var = self.assignable(fl);
                let e = if matches!(op, "div" | "rem") && self.rng.chance(4, 5) && !fl { self.nonzero_int_leaf() } else { self.expr(fl, ed) };
                out.push(Sexp::app("asg", vec![Sexp::atom(op), var, e]));
            },
            10..=14 => out.push(self.call(ed)),
            15 => if self.o.time_labels { out.push(Sexp::app("wait", vec![Sexp::int(self.rng.range(1, 20))])) } else { out.push(self.call(ed)) },
            16 => if self.o.anti && self.rng.chance(1, 4) { out.push(Sexp::app("anti", vec![])) } else { out.push(self.call(ed)) },
            17 => { let n = 1 + self.rng.below(3); let b = self.block(depth.saturating_sub(1), n); let mut v = vec![]; v.extend(b.as_list().iter().cloned()); out.push(Sexp::app("block", v)); },
            18..=20 => {
                let kw = if self.rng.chance(3, 4) { "if" } else { "unless" };
                let c = self.cond(ed.min(2));
                let n = 1 + self.rng.below(3);
                let mut v = vec![Sexp::atom(kw), c, self.block(depth - 1, n)];
                if self.rng.chance(1, 2) { let n = 1 + self.rng.below(2); v.push(self.block(depth - 1, n)); }
                out.push(Sexp::app("if", v));
            },
            21 | 22 => {
                // times with a small count (literal or expression clamped by `% 4`)
                let count = if self.rng.chance(1, 2) { Sexp::app("i", vec![Sexp::int(self.rng.range(0, 3))]) } else {
                    Sexp::app("bin", vec![Sexp::atom("band"), self.expr(false, 1), Sexp::app("i", vec![Sexp::int(3)])])
                };
                let n = 1 + self.rng.below(3);
                if self.rng.chance(1, 2) {
                    self.in_loop += 1;
                    let b = self.block(depth - 1, n);
                    self.in_loop -= 1;
                    out.push(Sexp::app("times", vec![count, b]));
                } else {
                    let var = self.assignable(false);
                    let key = match var.head() { Some("reg") => format!("r{}", var.args()[0]), _ => format!("l{}", var.args()[0]) };
                    self.frozen.push(Sexp::atom(key));
                    self.in_loop += 1;
                    let b = self.block(depth - 1, n);
                    self.in_loop -= 1;
                    self.frozen.pop();
                    out.push(Sexp::app("timesc", vec![var, count, b]));
                }
            },
            23 | 24 => {
                // counted while / do-while over a fresh local
                let name = self.fresh_local();
                out.push(Sexp::app("decl", vec![Sexp::atom("i"), Sexp::atom(name.clone()), Sexp::app("i", vec![Sexp::int(self.rng.range(0, 3))])]));
                self.scope.last_mut().unwrap().push((name.clone(), false));
                self.frozen.push(Sexp::atom(format!("l{name}")));
                self.in_loop += 1;
                let n = 1 + self.rng.below(2);
                let b = self.block(depth - 1, n);
                self.in_loop -= 1;
                self.frozen.pop();
                let mut body: Vec<Sexp> = b.as_list().to_vec();
                body.push(Sexp::app("asg", vec![Sexp::atom("sub"), Sexp::app("loc", vec![Sexp::atom(name.clone()), Sexp::atom("n")]), Sexp::app("i", vec![Sexp::int(1)])]));
                let c = Sexp::app("bin", vec![Sexp::atom("gt"), Sexp::app("loc", vec![Sexp::atom(name), Sexp::atom("n")]), Sexp::app("i", vec![Sexp::int(0)])]);
                out.push(Sexp::app(if self.rng.chance(1, 2) { "while" } else { "dowhile" }, vec![c, Sexp::list(body)]));
            },
            25 => {
                // loop { ...; if (c) break; ...; break; }
                self.in_loop += 1;
                let n = 1 + self.rng.below(2);
                let b = self.block(depth - 1, n);
                self.in_loop -= 1;
                let mut body: Vec<Sexp> = b.as_list().to_vec();
                if self.rng.chance(1, 2) { let c = self.cond(1); body.insert(self.rng.below(body.len() + 1), Sexp::app("if", vec![Sexp::atom("if"), c, Sexp::list(vec![Sexp::app("break", vec![])])])); }
                body.push(Sexp::app("break", vec![]));
                out.push(Sexp::app("loop", vec![Sexp::list(body)]));
            },
            26 | 27 => {
                // forward conditional / unconditional jump over a few statements, label at this level
                let l = self.fresh_label();
                if self.rng.chance(1, 3) { out.push(Sexp::app("goto", vec![Sexp::atom(l.clone())])); }
                else { let kw = if self.rng.chance(2, 3) { "if" } else { "unless" }; let c = self.cond(ed.min(2)); out.push(Sexp::app("ifgoto", vec![Sexp::atom(kw), c, Sexp::atom(l.clone())])); }
                let n = 1 + self.rng.below(2);
                for _ in 0..n { let mut tmp = vec![]; self.simple_stmt(&mut tmp); out.extend(tmp); }
                out.push(Sexp::app("label", vec![Sexp::atom(l)]));
            },
            28 => {
                // counting jump backwards: L = k; lab: ...; if (--L) goto lab;   (or `--L > 0`)
                let l = self.fresh_label();
                let var = self.assignable(false);
                let key = match var.head() { Some("reg") => format!("r{}", var.args()[0]), _ => format!("l{}", var.args()[0]) };
                out.push(Sexp::app("asg", vec![Sexp::atom("set"), var.clone(), Sexp::app("i", vec![Sexp::int(self.rng.range(1, 3))])]));
                out.push(Sexp::app("label", vec![Sexp::atom(l.clone())]));
                self.frozen.push(Sexp::atom(key));
                let n = 1 + self.rng.below(2);
                for _ in 0..n { let mut tmp = vec![]; self.simple_stmt(&mut tmp); out.extend(tmp); }
                self.frozen.pop();
                let pre = Sexp::app("predec", vec![var]);
                // mostly a form the language has; sometimes the other one (must be diagnosed)
                let want_gt = if self.rng.chance(1, 12) { self.rng.chance(1, 2) } else if self.predec_gt && self.predec_ne { self.rng.chance(1, 2) } else { self.predec_gt };
                let c = if want_gt { Sexp::app("bin", vec![Sexp::atom("gt"), pre, Sexp::app("i", vec![Sexp::int(0)])]) } else if self.rng.chance(1, 2) { pre } else { Sexp::app("bin", vec![Sexp::atom("ne"), pre, Sexp::app("i", vec![Sexp::int(0)])]) };
                out.push(Sexp::app("ifgoto", vec![Sexp::atom(if self.rng.chance(4, 5) { "if" } else { "unless" }), c, Sexp::atom(l)]));
            },
            _ => {
                if self.o.diff_labels && self.rng.chance(1, 2) {
                    let mask = *self.rng.pick(&["0", "1", "23", "01", "123", "02"]);
                    let mut tmp = vec![];
                    self.simple_stmt(&mut tmp);
                    for s in tmp { if matches!(s.head(), Some("asg") | Some("call")) { out.push(Sexp::app("diff", vec![Sexp::atom(mask), s])); } else { out.push(s); } }
                } else { out.push(self.call(ed)); }
            },
        }
    }

    /// assignment or call (no declaration: usable where a new scope entry would leak)
    fn simple_stmt(&mut self, out: &mut Vec<Sexp>) {
        let ed = 1 + self.rng.below(self.o.max_depth as usize) as u32;
        if self.rng.chance(1, 2) { out.push(self.call(ed)); } else {
            let fl = self.rng.chance(1, 3);
            let op = if self.rng.chance(3, 5) { "set" } else if fl { self.pick_supported(&["add", "sub", "mul"], true, 'a') } else if self.real_ops { *self.rng.pick(&["add", "sub", "mul"]) } else { self.pick_supported(&["add", "sub", "mul", "bor", "xor", "shl"], false, 'a') };
            let var = self.assignable(fl);
            let e = self.expr(fl, ed);
            out.push(Sexp::app("asg", vec![Sexp::atom(op), var, e]));
        }
    }

    /// a counting-jump condition: `--x`, `--x != 0`, `--x > 0` (mostly a form the table has)
    fn predec_cond(&mut self) -> Sexp {
        let var = self.assignable(false);
        let pre = Sexp::app("predec", vec![var]);
        let want_gt = if self.rng.chance(1, 8) || (!self.predec_gt && !self.predec_ne) { self.rng.chance(1, 2) } else if self.predec_gt && self.predec_ne { self.rng.chance(1, 2) } else { self.predec_gt };
        if want_gt { Sexp::app("bin", vec![Sexp::atom("gt"), pre, Sexp::app("i", vec![Sexp::int(0)])]) }
        else if self.rng.chance(1, 2) { pre } else { Sexp::app("bin", vec![Sexp::atom("ne"), pre, Sexp::app("i", vec![Sexp::int(0)])]) }
    }

    /// a jump condition of a chosen shape
    fn jump_cond(&mut self, depth: u32) -> Sexp {
        let d = depth;
        match self.rng.below(14) {
            // comparison of complex operands, int or float
            0..=3 => { let fl = self.rng.chance(1, 3); let op = *self.rng.pick(CMP_OPS); let a = self.expr(fl, d); let b = self.expr(fl, d); Sexp::app("bin", vec![Sexp::atom(op), a, b]) },
            // comparison with one simple side
            4 => { let fl = self.rng.chance(1, 3); let op = *self.rng.pick(CMP_OPS); let a = self.leaf(fl); let b = self.expr(fl, d.max(1)); if self.rng.chance(1, 2) { Sexp::app("bin", vec![Sexp::atom(op), a, b]) } else { Sexp::app("bin", vec![Sexp::atom(op), b, a]) } },
            // nested logic
            5..=7 => { let op = *self.rng.pick(&["lor", "land"]); let a = self.jump_cond(d.saturating_sub(1)); let b = self.jump_cond(d.saturating_sub(1)); Sexp::app("bin", vec![Sexp::atom(op), a, b]) },
            8 | 9 => Sexp::app("un", vec![Sexp::atom("not"), self.jump_cond(d.saturating_sub(1))]),
            // constants
            10 => if self.rng.chance(1, 2) { Sexp::app("i", vec![Sexp::int(self.small_or_boundary_int())]) } else { let op = *self.rng.pick(CMP_OPS); Sexp::app("bin", vec![Sexp::atom(op), Sexp::app("i", vec![Sexp::int(self.rng.range(-2, 3))]), Sexp::app("i", vec![Sexp::int(self.rng.range(-2, 3))])]) },
            // a leaf
            11 => self.leaf(false),
            // any integer expression (non-comparison operators, casts, ternaries, switches)
            _ => self.expr(false, d.max(1)),
        }
    }

    /// Body for the jump model: labels, `if|unless (c) goto L [@ t]`, `goto L [@ t]`, counting jumps, mixed with
    /// declarations / assignments / calls (ternaries in their expressions), relative time labels and nested blocks.
    pub fn jump_body(&mut self, n: usize) -> Vec<Sexp> {
        let nlabels = 1 + self.rng.below(3);
        let labels: Vec<String> = (0..nlabels).map(|_| self.fresh_label()).collect();
        let mut pending: Vec<String> = labels.clone();
        self.rng.shuffle(&mut pending);
        let mut out = vec![];
        let total = n + nlabels;
        for k in 0..total {
            // place the remaining labels at random positions (all of them by the end)
            let left = total - k;
            if !pending.is_empty() && (self.rng.below(left) < pending.len()) {
                let l = pending.pop().unwrap();
                out.push(Sexp::app("label", vec![Sexp::atom(l)]));
                continue;
            }
            let l = self.rng.pick(&labels).clone();
            let time = if self.rng.chance(1, 4) { Some(Sexp::int(self.rng.range(0, 40))) } else { None };
            match self.rng.below(12) {
                0..=4 => {
                    let kw = if self.rng.chance(3, 5) { "if" } else { "unless" };
                    let d = 1 + self.rng.below(2) as u32;
                    let c = self.jump_cond(d);
                    let mut v = vec![Sexp::atom(kw), c, Sexp::atom(l)];
                    if let Some(t) = time { v.push(t); }
                    out.push(Sexp::app("ifgoto", v));
                },
                5 => {
                    let kw = if self.rng.chance(2, 3) { "if" } else { "unless" };
                    let c = self.predec_cond();
                    let mut v = vec![Sexp::atom(kw), c, Sexp::atom(l)];
                    if let Some(t) = time { v.push(t); }
                    out.push(Sexp::app("ifgoto", v));
                },
                6 => { let mut v = vec![Sexp::atom(l)]; if let Some(t) = time { v.push(t); } out.push(Sexp::app("goto", v)); },
                7 => {
                    // a nested block with its own locals and a jump inside
                    self.scope.push(vec![]);
                    let mut inner = vec![];
                    self.stmt(0, &mut inner);
                    let kw = if self.rng.chance(1, 2) { "if" } else { "unless" };
                    let c = self.jump_cond(1);
                    inner.push(Sexp::app("ifgoto", vec![Sexp::atom(kw), c, Sexp::atom(l)]));
                    self.stmt(0, &mut inner);
                    self.scope.pop();
                    out.push(Sexp::app("block", inner));
                },
                _ => self.stmt(0, &mut out),
            }
        }
        while let Some(l) = pending.pop() { out.push(Sexp::app("label", vec![Sexp::atom(l)])); }
        // rarely: a jump to a label that does not exist, or a label defined twice (both are diagnostics)
        if self.rng.chance(1, 60) { out.push(Sexp::app("goto", vec![Sexp::atom("lab999")])); }
        if self.rng.chance(1, 60) { out.push(Sexp::app("label", vec![Sexp::atom(labels[0].clone())])); }
        out
    }

    /// Flat body for the `srcvm` / `tgtvm` cases (the machines of Lean `Model/BodySem.lean` against the real VM):
    /// a few locals declared WITH initialiser at the top (no jump can skip a declaration, so no local is read
    /// before it was written), then labels, `if|unless (c) goto L [@ t]`, `goto L [@ t]`, counting jumps (also
    /// the backward counting loop), assignments, calls and relative time labels; no nested blocks.
    pub fn flat_jump_body(&mut self, n: usize) -> Vec<Sexp> {
        let mut out = vec![];
        for _ in 0..self.rng.below(3) {
            let fl = self.rng.chance(1, 3);
            let name = self.fresh_local();
            let e = self.expr(fl, 1);
            out.push(Sexp::app("decl", vec![Sexp::atom(if fl { "f" } else { "i" }), Sexp::atom(name.clone()), e]));
            self.scope.last_mut().unwrap().push((name, fl));
        }
        let nlabels = 1 + self.rng.below(3);
        let labels: Vec<String> = (0..nlabels).map(|_| self.fresh_label()).collect();
        let mut pending: Vec<String> = labels.clone();
        self.rng.shuffle(&mut pending);
        let total = n + nlabels;
        for k in 0..total {
            let left = total - k;
            if !pending.is_empty() && (self.rng.below(left) < pending.len()) {
                let l = pending.pop().unwrap();
                out.push(Sexp::app("label", vec![Sexp::atom(l)]));
                continue;
            }
            let l = self.rng.pick(&labels).clone();
            let time = if self.rng.chance(1, 4) { Some(Sexp::int(self.rng.range(0, 40))) } else { None };
            match self.rng.below(14) {
                0..=3 => {
                    let kw = if self.rng.chance(3, 5) { "if" } else { "unless" };
                    let d = 1 + self.rng.below(2) as u32;
                    let c = self.jump_cond(d);
                    let mut v = vec![Sexp::atom(kw), c, Sexp::atom(l)];
                    if let Some(t) = time { v.push(t); }
                    out.push(Sexp::app("ifgoto", v));
                },
                4 => {
                    let kw = if self.rng.chance(2, 3) { "if" } else { "unless" };
                    let c = self.predec_cond();
                    let mut v = vec![Sexp::atom(kw), c, Sexp::atom(l)];
                    if let Some(t) = time { v.push(t); }
                    out.push(Sexp::app("ifgoto", v));
                },
                5 => { let mut v = vec![Sexp::atom(l)]; if let Some(t) = time { v.push(t); } out.push(Sexp::app("goto", v)); },
                6 => {
                    // backward counting loop over its own label: `x = k; lab: ..; if (--x) goto lab [@ t];`
                    let lab = self.fresh_label();
                    let var = self.assignable(false);
                    let key = match var.head() { Some("reg") => format!("r{}", var.args()[0]), _ => format!("l{}", var.args()[0]) };
                    out.push(Sexp::app("asg", vec![Sexp::atom("set"), var.clone(), Sexp::app("i", vec![Sexp::int(self.rng.range(1, 4))])]));
                    out.push(Sexp::app("label", vec![Sexp::atom(lab.clone())]));
                    self.frozen.push(Sexp::atom(key));
                    let m = 1 + self.rng.below(2);
                    for _ in 0..m { if self.rng.chance(1, 3) { out.push(Sexp::app("wait", vec![Sexp::int(self.rng.range(1, 9))])); } let mut tmp = vec![]; self.simple_stmt(&mut tmp); out.extend(tmp); }
                    self.frozen.pop();
                    let pre = Sexp::app("predec", vec![var]);
                    let want_gt = if self.predec_gt && self.predec_ne { self.rng.chance(1, 2) } else { self.predec_gt };
                    let c = if want_gt { Sexp::app("bin", vec![Sexp::atom("gt"), pre, Sexp::app("i", vec![Sexp::int(0)])]) } else if self.rng.chance(1, 2) { pre } else { Sexp::app("bin", vec![Sexp::atom("ne"), pre, Sexp::app("i", vec![Sexp::int(0)])]) };
                    let mut v = vec![Sexp::atom("if"), c, Sexp::atom(lab)];
                    if let Some(t) = time { v.push(t); }
                    out.push(Sexp::app("ifgoto", v));
                },
                7 | 8 => out.push(Sexp::app("wait", vec![Sexp::int(self.rng.range(1, 20))])),
                _ => { let mut tmp = vec![]; self.simple_stmt(&mut tmp); out.extend(tmp); },
            }
        }
        while let Some(l) = pending.pop() { out.push(Sexp::app("label", vec![Sexp::atom(l)])); }
        if self.rng.chance(1, 80) { out.push(Sexp::app("goto", vec![Sexp::atom("lab999")])); }
        out
    }

    pub fn body(&mut self, n: usize, depth: u32) -> Vec<Sexp> {
        let mut out = vec![];
        for _ in 0..n { self.stmt(depth, &mut out); }
        out
    }
}

pub fn valuation(rng: &mut Rng, boundary: bool) -> Sexp {
    let mut regs = vec![];
    for &r in INT_REGS.iter().chain([NS_INT].iter()) {
        let v = if boundary { rng.int_boundary() } else { rng.range(-7, 7) as i32 };
        regs.push(Sexp::list(vec![Sexp::int(r), Sexp::atom("i"), Sexp::int(v)]));
    }
    for &r in FLOAT_REGS.iter().chain([NS_FLOAT].iter()) {
        let v = if boundary { rng.float_bits() } else { ((rng.range(-12, 12) as f32) * 0.25 + 0.125).to_bits() };
        regs.push(Sexp::list(vec![Sexp::int(r), Sexp::atom("f"), Sexp::int(v)]));
    }
    Sexp::app("val", vec![Sexp::int(rng.below(4) as i64), Sexp::list(regs)])
}

pub fn used_regs_set(stmts: &[Sexp]) -> BTreeSet<i32> { mentioned_regs(stmts).keys().copied().collect() }

/// development aid: `VERIF_DUMP_CASES=<file>` writes the generated cases, one per line
pub fn dump_cases(cases: &[crate::props::Case]) {
    if let Ok(path) = std::env::var("VERIF_DUMP_CASES") {
        let text: String = cases.iter().map(|c| format!("{}\n", c.sexp)).collect();
        let _ = std::fs::write(path, text);
    }
}
