//! C05 — scratch registers never collide with registers the script uses.
//!
//! corr   `(assign CFG (body ...))`: debug-info locals (type, register, in allocation order) and the
//!        emitted instructions of the real `Lowerer` under `TestLanguage` == Lean lowering model + `assign`.
//! search `(regs CFG (body ...))` under `TestLanguage` with pools of every size, and
//!        `(real GAME FORMAT (params ...) (body ...))` through the real ANM / old-ECL compilers:
//!        registers bound to compiler-chosen locals/temporaries (debug info) and registers in the emitted
//!        instructions vs an independent syntactic scan of the case.

use super::lw::{self, BodyGen, Cfg, GenOpts, Lower, RegFile};
use super::{fail, Case, Prop, Tier};
use crate::rng::Rng;
use crate::sexp::Sexp;
use crate::tc;
use crate::util::diag_class;
use std::collections::{BTreeMap, BTreeSet};
use truth::llir::ArgEncoding;

pub struct C05;

pub const SIG_SWITCH: &str = "scratch-reg-collides-with-source-reg via=diff-switch";
pub const SIG_DIRECT: &str = "scratch-reg-collides-with-source-reg via=direct";

/// one `locals[]` entry of the debug info
#[derive(Clone, Debug)]
pub struct Loc { pub name: String, pub start: i64, pub end: i64, pub float: bool, pub reg: i32 }

/// `[start, end)` text interval in which a declared local is alive: from its declaration to the
/// closing brace of the enclosing block
fn lexical_interval(text: &str, name: &str) -> Option<(i64, i64)> {
    let b = text.as_bytes();
    for kw in ["int ", "float "] {
        let pat = format!("{kw}{name}");
        let mut from = 0;
        while let Some(p) = text[from..].find(&pat) {
            let at = from + p;
            let after = at + pat.len();
            let ok_after = after >= b.len() || !(b[after].is_ascii_alphanumeric() || b[after] == b'_');
            let ok_before = at == 0 || !(b[at - 1].is_ascii_alphanumeric() || b[at - 1] == b'_');
            if ok_after && ok_before { return Some(((at + kw.len()) as i64, block_end(text, after)?)); }
            from = after;
        }
    }
    None
}

fn block_end(text: &str, from: usize) -> Option<i64> {
    let mut depth = 0i32;
    for (k, c) in text.bytes().enumerate().skip(from) {
        match c { b'{' => depth += 1, b'}' => { if depth == 0 { return Some(k as i64); } depth -= 1; }, _ => {} }
    }
    None
}

/// the oracle shared by the test-language and real-language searches
pub struct Facts<'a> {
    pub text: &'a str,
    pub locals: &'a [Loc],
    /// registers in emitted instructions
    pub emitted: BTreeSet<i32>,
    /// independent scan of the case: register -> mentioned outside every switch
    pub mentioned: BTreeMap<i32, bool>,
    pub pool_int: Vec<i32>,
    pub pool_float: Vec<i32>,
    /// (name, register) of the sub's parameters
    pub params: Vec<(String, i32)>,
    pub declared: Vec<(String, bool)>,
    /// registers the language itself writes (call argument registers ...); never checked
    pub exempt: BTreeSet<i32>,
}

pub fn oracle(f: &Facts) -> Option<Sexp> {
    let param_names: BTreeSet<&str> = f.params.iter().map(|p| p.0.as_str()).collect();
    let param_regs: BTreeSet<i32> = f.params.iter().map(|p| p.1).collect();
    let chosen: Vec<&Loc> = f.locals.iter().filter(|l| !param_names.contains(l.name.as_str())).collect();
    for l in &chosen {
        let pool = if l.float { &f.pool_float } else { &f.pool_int };
        if !pool.contains(&l.reg) {
            return Some(fail("scratch-reg-not-general-purpose", format!("local {} ({}) bound to {} outside {:?}", l.name, if l.float { "float" } else { "int" }, l.reg, pool)));
        }
        if let Some(&outside) = f.mentioned.get(&l.reg) {
            let sig = if outside { SIG_DIRECT } else { SIG_SWITCH };
            return Some(fail(sig, format!("local {} bound to register {} which the source names{}; source: {}", l.name, l.reg, if outside { "" } else { " (only inside difficulty switches)" }, f.text.replace('\n', " "))));
        }
        if param_regs.contains(&l.reg) {
            return Some(fail("scratch-reg-is-parameter-register", format!("local {} bound to parameter register {}", l.name, l.reg)));
        }
    }
    // live ranges: a declared local (or parameter) is alive from its declaration to the end of its block;
    // anything allocated inside that interval must get another register
    let mut intervals: Vec<(&Loc, i64, i64)> = vec![];
    for l in f.locals.iter() {
        if param_names.contains(l.name.as_str()) { intervals.push((l, 0, i64::MAX)); continue; }
        if f.declared.iter().any(|d| d.0 == l.name) {
            if let Some((s, e)) = lexical_interval(f.text, &l.name) { intervals.push((l, s, e)); }
        } else if l.name.contains("count") && l.end >= 0 {
            // implicit `times` counter: alive until the end of the loop block that follows the count expression
            if let Some(open) = f.text[l.end as usize..].find('{') {
                if let Some(e) = block_end(f.text, l.end as usize + open + 1) { intervals.push((l, l.start, e)); }
            }
        }
    }
    for (a, s, e) in &intervals {
        for b in f.locals.iter() {
            if std::ptr::eq(*a, b) || b.start < 0 { continue; }
            if b.start > *s && b.start < *e && b.reg == a.reg && !(param_names.contains(b.name.as_str())) {
                return Some(fail("live-locals-share-register", format!("{} and {} are alive together and both bound to {}; source: {}", a.name, b.name, a.reg, f.text.replace('\n', " "))));
            }
        }
    }
    // every register in the emitted code is accounted for
    let bound: BTreeSet<i32> = f.locals.iter().map(|l| l.reg).collect();
    for r in &f.emitted {
        if !f.mentioned.contains_key(r) && !bound.contains(r) && !f.exempt.contains(r) {
            return Some(fail("emitted-register-unaccounted", format!("register {r} occurs in the emitted instructions but is neither named in the source nor recorded for a local")));
        }
    }
    None
}

fn locs_of(l: &[(String, i64, i64, bool, i32)]) -> Vec<Loc> { l.iter().map(|x| Loc { name: x.0.clone(), start: x.1, end: x.2, float: x.3, reg: x.4 }).collect() }

fn body_of(case: &Sexp, k: usize) -> Vec<Sexp> { case.args()[k].args().to_vec() }

/// what an error at stage `lower` may be for this property
fn lower_error_ok(class: &str) -> bool {
    matches!(class, "script too complex to compile" | "scratch registers are disabled in this script" | "scratch registers are disabled in this entire file"
        | "feature not supported by format" | "runtime temporary of non-numeric type" | "undefined label" | "duplicate label")
}

fn eval_regs(case: &Sexp) -> Sexp {
    let cfg = Cfg::from_sexp(&case.args()[0]);
    let stmts = body_of(case, 1);
    let has_anti = lw::contains_head(&stmts, "anti");
    let sigs = lw::signatures(cfg.table);
    let r = lw::with_lowered(&cfg, &stmts, |l| {
        let locals = locs_of(&l.locals);
        let mut emitted = BTreeSet::new();
        for ins in &l.instrs {
            match lw::decode_instr(&sigs, ins) {
                Some(args) => for a in args { if let lw::DArg::Reg(r, _) = a { emitted.insert(r); } },
                None => return fail("emitted-instruction-undecodable", format!("opcode {}", ins.opcode)),
            }
        }
        if has_anti && !locals.is_empty() {
            return fail("scratch-used-despite-anti-scratch-instruction", format!("{} locals allocated; source: {}", locals.len(), l.text.replace('\n', " ")));
        }
        let facts = Facts { text: &l.text, locals: &locals, emitted, mentioned: lw::mentioned_regs(&stmts), pool_int: cfg.pool_ints(), pool_float: cfg.pool_floats(),
                            params: vec![], declared: lw::declared_locals(&stmts), exempt: BTreeSet::new() };
        match oracle(&facts) { Some(f) => f, None => Sexp::app("pass", vec![Sexp::atom("compiled"), Sexp::int(locals.len() as i64)]) }
    });
    match r {
        Ok(s) => s,
        Err(Lower::Warned(w)) => lw::skip("warning", w),
        Err(Lower::Rejected { stage, class, no_error_diag, diagnostics }) => {
            if no_error_diag { return fail("failure-without-error-diagnostic", format!("stage {stage}: {diagnostics}")); }
            if stage == "lower" && !lower_error_ok(&class) { return fail(format!("unexpected-lowering-error {class}"), diagnostics); }
            if std::env::var("VERIF_VERBOSE").is_ok() { eprintln!("{diagnostics}"); }
            Sexp::app("pass-rejected", vec![Sexp::atom(stage), Sexp::str(class)])
        },
    }
}

// ---------------------------------------------------------------------------------------------
// correspondence: locals + instructions

pub fn eval_assign(case: &Sexp, with_locals: bool) -> Sexp {
    let cfg = Cfg::from_sexp(&case.args()[0]);
    let stmts = body_of(case, 1);
    let sigs = lw::signatures(cfg.table);
    let r = lw::with_lowered(&cfg, &stmts, |l| {
        let mut out = vec![];
        if with_locals {
            out.push(Sexp::app("locals", l.locals.iter().map(|x| Sexp::list(vec![Sexp::atom(if x.3 { "f" } else { "i" }), Sexp::int(x.4)])).collect()));
        }
        out.extend(l.instrs.iter().map(|i| lw::instr_sexp(&sigs, i)));
        Sexp::app("ok", out)
    });
    match r {
        Ok(s) => s,
        Err(Lower::Warned(w)) => Sexp::app("warn", vec![Sexp::str(w)]),
        Err(Lower::Rejected { stage, class, .. }) => if stage == "lower" { Sexp::app("err", vec![Sexp::str(class)]) } else { Sexp::app("rejected", vec![Sexp::atom(stage), Sexp::str(class)]) },
    }
}

// ---------------------------------------------------------------------------------------------
// real languages

struct RealLang { game: &'static str, format: tc::Format, ints: Vec<i32>, floats: Vec<i32>, ns_int: i32, ns_float: i32, params: &'static [(&'static str, i32, bool)], switches: bool, anti: Option<u16> }

fn real_lang(game: &str) -> RealLang {
    match game {
        "th12" => RealLang { game: "th12", format: tc::Format::Anm, ints: vec![10000, 10001, 10002, 10003, 10008, 10009], floats: vec![10004, 10005, 10006, 10007], ns_int: 10022, ns_float: 10013, params: &[], switches: false, anti: None },
        "th14" => RealLang { game: "th14", format: tc::Format::Anm, ints: vec![10000, 10001, 10002, 10003, 10008, 10009], floats: vec![10004, 10005, 10006, 10007], ns_int: 10022, ns_float: 10013, params: &[], switches: false, anti: Some(509) },
        "th06" => RealLang { game: "th06", format: tc::Format::Ecl, ints: vec![-10001, -10002, -10003, -10004, -10009, -10010, -10011, -10012], floats: vec![-10005, -10006, -10007, -10008], ns_int: -10014, ns_float: -10016,
                             params: &[("pa", -10001, false), ("pb", -10005, true)], switches: true, anti: Some(130) },
        "th07" => RealLang { game: "th07", format: tc::Format::Ecl, ints: vec![10000, 10001, 10002, 10003, 10012, 10013, 10014, 10015], floats: vec![10004, 10005, 10006, 10007, 10008, 10009, 10010, 10011, 10072, 10074], ns_int: 10016, ns_float: 10018,
                             params: &[("pa", 10029, false), ("pb", 10033, true), ("pc", 10030, false)], switches: true, anti: Some(130) },
        "th08" => RealLang { game: "th08", format: tc::Format::Ecl, ints: vec![10000, 10001, 10002, 10003, 10004, 10005, 10006, 10007, 10036, 10037, 10038, 10039], floats: vec![10016, 10017, 10018, 10019, 10020, 10021, 10022, 10023, 10094, 10095], ns_int: 10040, ns_float: 10024,
                             params: &[("pa", 10053, false), ("pb", 10057, true), ("pc", 10054, false)], switches: true, anti: Some(151) },
        g => panic!("no real language for {g}"),
    }
}

const REAL_PLAIN_BASE: u16 = 900;

struct RealNames<'a>(&'a RealLang);
impl lw::RegNames for RealNames<'_> {
    fn reg_text(&self, id: i32, sig: &str, form: &str) -> String {
        let float = self.0.floats.contains(&id) || id == self.0.ns_float;
        let sg = match sig { "i" => "$", "f" => "%", _ => "" };
        if form == "alias" { format!("{sg}{}", real_alias(id)) } else { format!("{}REG[{id}]", if sg.is_empty() { if float { "%" } else { "$" } } else { sg }) }
    }
}
fn real_alias(id: i32) -> String { if id < 0 { format!("VRM{}", -id) } else { format!("VR{id}") } }

fn real_mapfile(rl: &RealLang) -> String {
    let magic = if rl.format == tc::Format::Anm { "!anmmap" } else { "!eclmap" };
    let mut lines = vec![magic.to_string(), "!ins_signatures".to_string()];
    for s in lw::plain_sigs() { lines.push(format!("{} {s}", lw::plain_opcode(&s) - lw::OP_PLAIN + REAL_PLAIN_BASE)); }
    lines.push("!gvar_names".into());
    for &r in rl.ints.iter().chain(&rl.floats).chain([rl.ns_int, rl.ns_float].iter()) { lines.push(format!("{r} {}", real_alias(r))); }
    lines.push("!gvar_types".into());
    for &r in rl.ints.iter().chain([rl.ns_int].iter()) { lines.push(format!("{r} $")); }
    for &r in rl.floats.iter().chain([rl.ns_float].iter()) { lines.push(format!("{r} %")); }
    lines.join("\n")
}

fn decode_real(encs: &[ArgEncoding], ins: &truth::llir::RawInstr, eosd: bool) -> Option<Vec<i32>> {
    let mut regs = vec![];
    let mut pos = 0usize;
    let mut bit = 0u32;
    for enc in encs {
        let (size, float) = match enc {
            ArgEncoding::Padding { size } => { pos += *size as usize; continue; },
            ArgEncoding::Integer { arg0: true, .. } => continue,
            ArgEncoding::Integer { size, .. } => (*size as usize, false),
            ArgEncoding::JumpOffset | ArgEncoding::JumpTime => (4, false),
            ArgEncoding::Float { .. } => (4, true),
            ArgEncoding::String { .. } => return None,
        };
        if pos + size > ins.args_blob.len() { return None; }
        let mut w = [0u8; 4];
        w[..size].copy_from_slice(&ins.args_blob[pos..pos + size]);
        let raw = u32::from_le_bytes(w);
        let val = if float { f32::from_bits(raw) as i32 } else if size == 2 { raw as u16 as i16 as i32 } else { raw as i32 };
        let is_reg = if eosd { (-10025..=-10001).contains(&val) && !matches!(enc, ArgEncoding::JumpOffset | ArgEncoding::JumpTime) } else { ins.param_mask & (1 << bit) != 0 };
        if is_reg { regs.push(val); }
        pos += size;
        bit += 1;
    }
    Some(regs)
}

fn eval_real(case: &Sexp) -> Sexp {
    let a = case.args();
    let rl = real_lang(a[0].as_atom());
    let params: Vec<(String, bool)> = a[1].args().iter().map(|p| (p.as_list()[1].as_atom().to_string(), p.as_list()[0].as_atom() == "f")).collect();
    let stmts = body_of(case, 2);
    let names = RealNames(&rl);
    let body = lw::body_text(&names, &stmts);
    let text = if rl.format == tc::Format::Anm {
        format!("entry {{ path: \"a.png\", has_data: false, img_width: 16, img_height: 16, img_format: 3, offset_x: 0, offset_y: 0, colorkey: 0, memory_priority: 0, low_res_scale: false, sprites: {{}} }}\nscript s {body}")
    } else {
        let ps: Vec<String> = params.iter().map(|p| format!("{} {}", if p.1 { "float" } else { "int" }, p.0)).collect();
        format!("script timeline0 {{}}\nvoid sub0({}) {body}", ps.join(", "))
    };
    let game = tc::game(rl.game);
    let language = if rl.format == tc::Format::Anm { truth::LanguageKey::Anm } else { truth::LanguageKey::Ecl };
    let maps = vec![real_mapfile(&rl)];
    let has_anti = lw::contains_head(&stmts, "anti")
        || stmts.iter().any(|s| matches!(s.head(), Some("call") | Some("callblob")) && rl.anti.map_or(false, |op| s.args()[0].as_i64() == op as i64));
    let out = tc::with_truth(rl.format, game, &maps, |truth| {
        let script = truth.parse::<truth::ast::ScriptFile>("<input>", text.as_bytes())?.value;
        let compiled = tc::compile_ast(truth, rl.format, game, &script)?;
        let mut locals = vec![];
        for s in &truth.ctx().script_debug_info {
            let v = serde_json::to_value(s).expect("serialize debug info");
            if let Some(ls) = v["locals"].as_array() {
                for l in ls {
                    let (st, en) = match l["name-span"].as_array() { Some(t) => (t[1].as_i64().unwrap_or(-1), t[2].as_i64().unwrap_or(-1)), None => (-1, -1) };
                    locals.push(Loc { name: l["name"].as_str().unwrap_or("?").to_string(), start: st, end: en, float: l["type"].as_str() == Some("float"), reg: l["bound-to"]["reg"].as_i64().unwrap_or(i64::MIN) as i32 });
                }
            }
        }
        let instrs: Vec<truth::llir::RawInstr> = match &compiled {
            tc::Compiled::Anm(f) => f.entries.iter().flat_map(|e| e.scripts.values().flat_map(|s| s.script.instrs.iter().cloned())).collect(),
            tc::Compiled::Ecl(truth::EclFile::Olde(f)) => f.subs.values().flat_map(|s| s.instrs.iter().cloned()).collect(),
            _ => vec![],
        };
        let mut emitted = BTreeSet::new();
        let mut undecodable = 0usize;
        for ins in &instrs {
            let encs: Option<Vec<ArgEncoding>> = truth.ctx().defs.ins_abi(language, ins.opcode).map(|(abi, _)| abi.arg_encodings().cloned().collect());
            match encs.and_then(|e| decode_real(&e, ins, rl.game == "th06")) { Some(rs) => emitted.extend(rs), None => undecodable += 1 }
        }
        Ok((locals, emitted, undecodable, instrs.len()))
    });
    let (has_warn, has_err, diagnostics) = (out.has_warning_diag(), out.has_error_diag(), out.diagnostics.clone());
    match out.value {
        Some((locals, emitted, undecodable, n_instrs)) => {
            if has_warn && !diagnostics.contains("used under multiple names") { return lw::skip("warning", diag_warning(&diagnostics)); }
            if has_anti && locals.iter().any(|l| !params.iter().any(|p| p.0 == l.name)) {
                return fail("scratch-used-despite-anti-scratch-instruction", format!("{} locals; source: {}", locals.len(), text.replace('\n', " ")));
            }
            let mut param_regs = vec![];
            let mut pk = [0usize; 2];
            for p in &params {
                let cands: Vec<&(&str, i32, bool)> = rl.params.iter().filter(|x| x.2 == p.1).collect();
                if let Some(c) = cands.get(pk[p.1 as usize]) { param_regs.push((p.0.clone(), c.1)); }
                pk[p.1 as usize] += 1;
            }
            let facts = Facts { text: &text, locals: &locals, emitted, mentioned: lw::mentioned_regs(&stmts), pool_int: rl.ints.clone(), pool_float: rl.floats.clone(),
                                params: param_regs, declared: lw::declared_locals(&stmts), exempt: BTreeSet::new() };
            match oracle(&facts) { Some(f) => f, None => Sexp::app("pass", vec![Sexp::atom("compiled"), Sexp::int(locals.len() as i64), Sexp::int(n_instrs as i64), Sexp::int(undecodable as i64)]) }
        },
        None => {
            if !has_err { return fail("failure-without-error-diagnostic", diagnostics); }
            Sexp::app("pass-rejected", vec![Sexp::str(diag_class(&diagnostics))])
        },
    }
}

fn diag_warning(d: &str) -> String { super::strip_digits(d.lines().find(|l| l.starts_with("warning")).unwrap_or("")) }

// ---------------------------------------------------------------------------------------------

fn opts(table: u32, control: bool, model: bool) -> GenOpts {
    GenOpts { table, control, switches: true, ternary: !model, anti: true, diff_labels: false, max_depth: 3, time_labels: false, model_fragment: model }
}

/// the confirmed TH07 witness of DESIGN.md section 8 and its test-language twin
fn witness_cases() -> Vec<Case> {
    let p = |s: &str| crate::sexp::parse(s).expect("witness parses");
    vec![
        Case::search(p("(real th07 (params) (body (decl i x (bin add (reg 10001 n raw) (i 3))) (call 903 (loc x n) (i 7)) (call 903 (sw (reg 10000 n raw) (reg 10000 n raw) (reg 10000 n raw) (reg 10002 n raw)) (i 8))))")).tag("witness-th07-diff-switch"),
        Case::search(p("(regs (cfg 2 1 0 0) (body (decl i x (bin add (reg 1001 n alias) (i 3))) (call 203 (loc x n) (i 7)) (call 203 (sw (reg 1000 n alias) (reg 1000 n raw) _ (reg 1002 i raw)) (i 8))))")).tag("witness-test-diff-switch"),
    ]
}

impl Prop for C05 {
    fn id(&self) -> &'static str { "C05" }
    fn relation(&self) -> &'static str {
        "assign: debug-info locals (type, bound register, allocation order) + emitted instructions (time, opcode, difficulty mask, argument kinds/values) of Lowerer::lower_sub under TestLanguage == Lean `Lower.compile` (lowering model + `Regs.assign` in mode `Regs.currentMode` + switch elaboration); error class on rejection"
    }
    fn rule(&self) -> &'static str {
        "generated bodies (declarations in nested blocks, times with/without counter, loops, conditions, calls with complex arguments, registers named raw / by alias / with either sigil / inside difficulty switches) x scratch pools of 0..8 int and 0..6 float registers x intrinsic tables; real ANM th12/th14 and ECL th06/th07/th08 subs with parameters; non-trivial = the body needs at least one compiler-chosen register or is rejected for lack of one"
    }
    fn theorems(&self) -> &'static [&'static str] { &["TruthModel.C05.assign_inv", "TruthModel.C05.assign_result", "TruthModel.C05.assign_locals", "TruthModel.C05.assign_result_deep", "TruthModel.C05.assign_no_reuse_empty", "TruthModel.C05.assign_no_reuse_anti", "TruthModel.C05.rewrite_total"] }

    fn gen(&self, tier: Tier, rng: &mut Rng) -> Vec<Case> {
        let scale = if tier == Tier::Quick { 1 } else { 15 };
        let mut out = witness_cases();
        // search, test language: pool sizes 0..n
        for k in 0..6000 * scale {
            let full = rng.chance(1, 2);
            let cfg = Cfg { ints: if full { 8 } else { rng.below(9) }, floats: if full { 6 } else { rng.below(7) }, table: *rng.pick(&[0, 0, lw::T_NO_ASSIGN_OPS | lw::T_NO_UNOPS, lw::T_TWO_PART, lw::T_COUNT_GT]), simplify: false };
            let control = k % 3 != 0;
            let mut g = BodyGen::new(rng, opts(cfg.table, control, false));
            let n = 1 + g.rng.below(5);
            let body = g.body(n, 2);
            let nt = lw::contains_head(&body, "decl") || lw::contains_head(&body, "bin") || lw::contains_head(&body, "times");
            out.push(Case::search(Sexp::app("regs", vec![cfg.to_sexp(), Sexp::app("body", body)])).tag(format!("regs-pool-{}-{}", cfg.ints, cfg.floats)).tag(if control { "regs-control" } else { "regs-straight" }).trivial(!nt));
        }
        // search, real languages
        for _ in 0..1000 * scale {
            let game = *rng.pick(&["th12", "th14", "th06", "th07", "th07", "th08"]);
            let rl = real_lang(game);
            let rf = RegFile { ints: rl.ints.clone(), floats: rl.floats.clone(), ns_int: rl.ns_int, ns_float: rl.ns_float, aliases: true, plain_base: REAL_PLAIN_BASE };
            let mut o = opts(0, true, false);
            o.switches = rl.switches;
            o.anti = false;
            // the built-in tables of the games have few operators: keep to + - * / and comparisons in conditions
            let mut g = BodyGen::with_regs(rng, o, rf);
            g.real_ops = true;
            g.casts = game != "th06";
            g.predec_ne = rl.format == tc::Format::Anm;
            g.predec_gt = rl.format != tc::Format::Anm;
            let mut params = vec![];
            if !rl.params.is_empty() {
                let n = g.rng.below(rl.params.len().min(if game == "th06" { 2 } else { 3 }) + 1);
                for p in rl.params.iter().take(n) { params.push(Sexp::list(vec![Sexp::atom(if p.2 { "f" } else { "i" }), Sexp::atom(p.0)])); g.add_param(p.0, p.2); }
            }
            let n = 1 + g.rng.below(4);
            let mut body = g.body(n, 2);
            if let Some(op) = rl.anti { if g.rng.chance(1, 6) {
                // the scratch-forbidding instruction, written by name-less call or by its raw bytes, anywhere in the body
                let st = if g.rng.chance(1, 2) { Sexp::app("call", if rl.format == tc::Format::Anm { vec![Sexp::int(op as i64)] } else { vec![Sexp::int(op as i64), Sexp::app("i", vec![Sexp::int(1)])] }) }
                         else { Sexp::app("callblob", vec![Sexp::int(op as i64), Sexp::atom(if rl.format == tc::Format::Anm { "-" } else { "01000000" })]) };
                let at = g.rng.below(body.len() + 1);
                body.insert(at, st);
            } }
            out.push(Case::search(Sexp::app("real", vec![Sexp::atom(game), Sexp::app("params", params), Sexp::app("body", body)])).tag(format!("real-{game}")));
        }
        // search, real languages: pool boundary - exactly as many / one more simultaneously live locals of one
        // type than the language has general-purpose registers (all used after the last declaration)
        for game in ["th12", "th14", "th06", "th07", "th08"] {
            let rl = real_lang(game);
            for float in [false, true] {
                let pool = if float { rl.floats.len() } else { rl.ints.len() };
                for extra in 0..3usize {
                    let n = pool + extra;
                    if n == 0 { continue; }
                    let ty = if float { "f" } else { "i" };
                    let mut body = vec![];
                    for k in 0..n {
                        let init = if float { Sexp::app("f", vec![Sexp::int((k as f32 + 0.5).to_bits() as i64)]) } else { Sexp::app("i", vec![Sexp::int(k as i64)]) };
                        body.push(Sexp::app("decl", vec![Sexp::atom(ty), Sexp::atom(format!("v{k}")), init]));
                    }
                    let sig = if float { lw::plain_opcode("f") } else { lw::plain_opcode("S") };
                    for k in 0..n { body.push(Sexp::app("call", vec![Sexp::int((sig - lw::OP_PLAIN + REAL_PLAIN_BASE) as i64), Sexp::app("loc", vec![Sexp::atom(format!("v{k}")), Sexp::atom("n")])])); }
                    out.push(Case::search(Sexp::app("real", vec![Sexp::atom(game), Sexp::app("params", vec![]), Sexp::app("body", body)])).tag(format!("real-{game}-pool-boundary")));
                }
            }
        }
        // correspondence with the Lean model: straight-line fragment
        for _ in 0..3000 * scale {
            let cfg = Cfg { ints: rng.below(9), floats: rng.below(7), table: *rng.pick(&[0, 0, lw::T_NO_ASSIGN_OPS | lw::T_NO_UNOPS, lw::T_NO_ASSIGN_OPS | lw::T_NO_UNOPS | lw::T_NO_MUL_SUB]), simplify: false };
            let mut g = BodyGen::new(rng, opts(cfg.table, false, true));
            let n = 1 + g.rng.below(5);
            let body = g.body(n, 2);
            let nt = lw::contains_head(&body, "decl") || lw::contains_head(&body, "bin");
            out.push(Case::corr(Sexp::app("assign", vec![cfg.to_sexp(), Sexp::app("body", body)])).tag(format!("assign-pool-{}-{}", cfg.ints, cfg.floats)).trivial(!nt));
        }
        lw::dump_cases(&out);
        out
    }

    fn eval(&self, case: &Sexp) -> Sexp {
        match case.head() {
            Some("regs") => eval_regs(case),
            Some("real") => eval_real(case),
            Some("assign") => eval_assign(case, true),
            _ => Sexp::atom("bad-case"),
        }
    }

    fn neighbours(&self, case: &Sexp, _rng: &mut Rng) -> Vec<Case> {
        if case.head() == Some("assign") { vec![Case::search(Sexp::app("regs", case.args().to_vec()))] } else { vec![] }
    }
}
