//! The ANM container through the real reader / writer (`truth::AnmFile::{read_from_stream, write_to_stream}`),
//! shared by C03 and C16.  Compared with the Lean model `TruthModel.Files.{readAnm, writeAnm}` (Model/FilesAnm.lean).
//!
//!   (ranm variant with-images (undecodable strings) x<bytes> game)  -> (ok <structure>) | (err class) | (panic file msg)
//!   (wanm variant <structure> game)                                  -> (ok x<bytes>)    | (err class) | (panic file msg)
//!   (wranm variant <structure> game)      oracle: written structure read back == requested, up to the normalisations of
//!                                         the Lean theorem `anm_read_write`; every other difference is a failure
//!   (anmsrc game source [kind])           oracle: what a source asks for is what a reader of the compiled file sees; a source
//!                                         with an unrepresentable request of `kind` (1 path_2, 2 offset_x/offset_y/low_res_scale,
//!                                         3 colorkey where the layout has no field, 4 image beyond 16 bits) must be rejected
//!                                         with the matching diagnostic (db48965 / 9635fc8); a silent drop / narrowing that comes
//!                                         back is reported under the old signatures
//!   (anmwide game width height)           oracle: an image FILE of that size as image source: stored as asked (<= 65535) or rejected
//!
//! variant = container version of the game (v0 v2 v3 v4 v7 v8; the harness' own table).  Structure:
//!   (anm (e (specs rt_width rt_height rt_format colorkey offset_x offset_y memory_priority low_res_scale) x<path> x<path_2>|none
//!           (sprites (s name id|none x y w h)..) (scripts (c name id (instr ..)..)..) (tex format width height)|none x<data>|none)..)
//! Names are numbers: the number in the reader's generated name (`sprite{id}`, `script{n}`) for a file that was read, the
//! position otherwise (the writer ignores names).  Text is the Shift-JIS byte string; for files that were read it is taken
//! from the raw bytes (an independent walk of the entry chain) after checking that the reader's string is its decoding.

use super::Case;
use super::instr_io::{instr_sexp, raw_of_fields};
use crate::rng::Rng;
use crate::sexp::{Sexp, hex, unhex};
use crate::tc::{self, Format};
use crate::gensrc;
use std::io::Cursor;
use truth::{Game, Ident};
use truth::io::{BinReader, BinWriter, Encoded, DEFAULT_ENCODING};
use truth::llir::{RawInstr, RawScript};

/// container version of a game (the harness' own table; a change of the selection in the code shows up as a disagreement)
pub fn variant(game: Game) -> &'static str {
    use Game::*;
    match game {
        Th06 => "v0", Th07 => "v2", Th08 | Th09 => "v3", Th095 | Th10 | Alcostg => "v4",
        Th11 | Th12 | Th125 | Th128 => "v7", _ => "v8",
    }
}
pub fn version_number(game: Game) -> u32 { variant(game)[1..].parse().unwrap() }
pub fn old_header(game: Game) -> bool { version_number(game) < 7 }

// ---------------------------------------------------------------------------------------------
// independent walk of the raw bytes: entry chain and the block-padded strings

fn u16_at(b: &[u8], p: usize) -> Option<u32> { if p.checked_add(2)? <= b.len() { Some(u16::from_le_bytes([b[p], b[p + 1]]) as u32) } else { None } }
fn u32_at(b: &[u8], p: usize) -> Option<u32> { if p.checked_add(4)? <= b.len() { Some(u32::from_le_bytes([b[p], b[p + 1], b[p + 2], b[p + 3]])) } else { None } }

/// positions of the entries the reader will visit (bounded)
pub fn entry_positions(b: &[u8], old: bool) -> Vec<usize> {
    let mut out = vec![];
    let mut p = 0usize;
    while out.len() < 4096 && p + 64 <= b.len() {
        out.push(p);
        let next = u32_at(b, p + if old { 0x38 } else { 0x24 }).unwrap_or(0) as usize;
        if next == 0 { break; }
        p += next;
    }
    out
}

/// 16-byte blocks until one ends in NUL; trailing NULs stripped
fn cstr16(b: &[u8], mut p: usize) -> Option<Vec<u8>> {
    let mut out = vec![];
    loop {
        if p.checked_add(16)? > b.len() { return None; }
        out.extend_from_slice(&b[p..p + 16]);
        p += 16;
        if out[out.len() - 1] == 0 { break; }
    }
    while out.last() == Some(&0) { out.pop(); }
    Some(out)
}

/// the strings in the order the reader decodes them: per entry the path, then the secondary path (old header, nonzero offset)
pub fn text_slots(b: &[u8], old: bool) -> Vec<Vec<u8>> {
    let mut out = vec![];
    for p in entry_positions(b, old) {
        let name = u32_at(b, p + if old { 0x1c } else { 0x10 }).unwrap_or(0) as usize;
        match cstr16(b, p + name) { Some(s) => out.push(s), None => break };
        if old {
            let sec = u32_at(b, p + 0x24).unwrap_or(0) as usize;
            if sec != 0 { match cstr16(b, p + sec) { Some(s) => out.push(s), None => break }; }
        }
    }
    out
}

fn decodes(b: &[u8]) -> Option<String> { Encoded(b.to_vec()).decode(DEFAULT_ENCODING).ok() }
fn encode(s: &str) -> Option<Vec<u8>> { Encoded::encode(&sp!(s), DEFAULT_ENCODING).ok().map(|e| e.0) }

pub fn undecodable_slots(b: &[u8], old: bool) -> Vec<Vec<u8>> {
    let mut out: Vec<Vec<u8>> = vec![];
    for s in text_slots(b, old) { if decodes(&s).is_none() && !out.contains(&s) { out.push(s); } }
    out
}

// ---------------------------------------------------------------------------------------------
// structure <-> S-expression

fn number_in(name: &str, prefix: &str) -> Option<i64> { name.strip_prefix(prefix).and_then(|d| d.parse().ok()) }

/// `raw = Some(input bytes)`: the file was read from these bytes
pub fn anm_sexp(f: &truth::AnmFile, raw: Option<(&[u8], bool)>) -> Sexp {
    let mut slots = raw.map(|(b, old)| text_slots(b, old).into_iter());
    let mut text = |s: &str| -> Sexp {
        match &mut slots {
            Some(it) => match it.next() {
                Some(r) => if decodes(&r).as_deref() == Some(s) { Sexp::atom(hex(&r)) } else { Sexp::atom(format!("STRING-IS-NOT-THE-DECODED-SLOT:{}", hex(s.as_bytes()))) },
                None => Sexp::atom("STRING-WITHOUT-SLOT"),
            },
            None => match encode(s) { Some(b) => Sexp::atom(hex(&b)), None => Sexp::atom("UNENCODABLE") },
        }
    };
    let by_number = raw.is_some();
    let mut script_pos = 0i64;
    let entries = f.entries.iter().map(|e| {
        let sp = &e.specs;
        let specs = Sexp::app("specs", vec![Sexp::int(sp.rt_width as i64), Sexp::int(sp.rt_height as i64), Sexp::int(sp.rt_format as i64), Sexp::int(sp.colorkey as i64),
            Sexp::int(sp.offset_x as i64), Sexp::int(sp.offset_y as i64), Sexp::int(sp.memory_priority as i64), Sexp::int(sp.low_res_scale as i64)]);
        let path = text(&e.path.value);
        let path2 = match &e.path_2 { Some(p) => text(&p.value), None => Sexp::atom("none") };
        let sprites = e.sprites.iter().enumerate().map(|(i, (k, s))| Sexp::app("s", vec![
            Sexp::int(if by_number { number_in(k.as_str(), "sprite").unwrap_or(-1) } else { i as i64 }),
            match s.id { Some(id) => Sexp::int(id as i64), None => Sexp::atom("none") },
            Sexp::int(s.offset[0].to_bits() as i64), Sexp::int(s.offset[1].to_bits() as i64), Sexp::int(s.size[0].to_bits() as i64), Sexp::int(s.size[1].to_bits() as i64)])).collect();
        let scripts = e.scripts.iter().map(|(k, s)| {
            let name = if by_number { number_in(k.as_str(), "script").unwrap_or(-1) } else { script_pos };
            script_pos += 1;
            let mut v = vec![Sexp::int(name), Sexp::int(s.id as i64)];
            v.extend(s.script.instrs.iter().map(instr_sexp));
            Sexp::app("c", v)
        }).collect();
        let tex = match (e.img_format(), e.img_width(), e.img_height()) {
            (Some(f), Some(w), Some(h)) => Sexp::app("tex", vec![Sexp::int(f as i64), Sexp::int(w as i64), Sexp::int(h as i64)]),
            _ => Sexp::atom("none"),
        };
        let data = match e.img_data() { Some(d) => Sexp::atom(hex(d)), None => Sexp::atom("none") };
        Sexp::app("e", vec![specs, path, path2, Sexp::app("sprites", sprites), Sexp::app("scripts", scripts), tex, data])
    }).collect();
    Sexp::app("anm", entries)
}

fn put16(v: &mut Vec<u8>, x: u32) { v.extend_from_slice(&(x as u16).to_le_bytes()); }
fn put32(v: &mut Vec<u8>, x: u32) { v.extend_from_slice(&x.to_le_bytes()); }

/// One entry written from the format description (see `layout::parse_anm`): header, sprite offsets, script table, path,
/// [path 2], sprites, scripts (already encoded), [THTX].  Everything is taken as given: no check, no normalisation.
pub struct RawEntry<'a> {
    pub old: bool, pub version: u32, pub specs: [u32; 8], pub path: &'a [u8], pub path2: Option<&'a [u8]>,
    pub sprites: &'a [[u32; 5]], pub scripts: &'a [(u32, Vec<u8>)], pub tex: Option<(u32, u32, u32, u32)>, pub data: Option<&'a [u8]>, pub has_data: u32,
}
fn pad16(s: &[u8]) -> Vec<u8> { let mut v = s.to_vec(); v.push(0); while v.len() % 16 != 0 { v.push(0); } v }
pub fn raw_entry_bytes(e: &RawEntry, next_follows: bool) -> Vec<u8> {
    let base = 64 + 4 * e.sprites.len() + 8 * e.scripts.len();
    let p1 = pad16(e.path);
    let p2 = e.path2.map(pad16).unwrap_or_default();
    let sprites_at = base + p1.len() + p2.len();
    let scripts_at = sprites_at + 20 * e.sprites.len();
    let mut script_offs = vec![];
    let mut sb = vec![];
    for (_, b) in e.scripts { script_offs.push(scripts_at + sb.len()); sb.extend_from_slice(b); }
    let thtx_at = if e.tex.is_some() { scripts_at + sb.len() } else { 0 };
    let mut tex = vec![];
    if let Some((f, w, h, size)) = e.tex { tex.extend_from_slice(b"THTX"); put16(&mut tex, 0); put16(&mut tex, f); put16(&mut tex, w); put16(&mut tex, h); put32(&mut tex, size); if let Some(d) = e.data { tex.extend_from_slice(d); } }
    let total = scripts_at + sb.len() + tex.len();
    let next = if next_follows { total as u32 } else { 0 };
    let [rw, rh, rf, ck, ox, oy, mp, lrs] = e.specs;
    let mut h = vec![];
    if e.old {
        for x in [e.sprites.len() as u32, e.scripts.len() as u32, 0, rw, rh, rf, ck, base as u32, 0, if e.path2.is_some() { (base + p1.len()) as u32 } else { 0 }, e.version, mp, thtx_at as u32] { put32(&mut h, x); }
        put16(&mut h, e.has_data); put16(&mut h, 0); put32(&mut h, next); put32(&mut h, 0);
    } else {
        put32(&mut h, e.version); for x in [e.sprites.len() as u32, e.scripts.len() as u32, 0, rw, rh, rf] { put16(&mut h, x); }
        put32(&mut h, base as u32); put16(&mut h, ox); put16(&mut h, oy); put32(&mut h, mp); put32(&mut h, thtx_at as u32); put16(&mut h, e.has_data); put16(&mut h, lrs); put32(&mut h, next);
        h.extend_from_slice(&[0; 24]);
    }
    assert_eq!(h.len(), 64);
    for i in 0..e.sprites.len() { put32(&mut h, (sprites_at + 20 * i) as u32); }
    for (i, (id, _)) in e.scripts.iter().enumerate() { put32(&mut h, *id); put32(&mut h, script_offs[i] as u32); }
    h.extend(p1); h.extend(p2);
    for s in e.sprites { for x in s { put32(&mut h, *x); } }
    h.extend(sb); h.extend(tex);
    h
}

fn read_anm(truth: &mut truth::Truth, game: Game, bytes: &[u8], with_images: bool) -> Result<truth::AnmFile, truth::ErrorReported> {
    let emitter = truth.ctx().emitter;
    let mut r = BinReader::from_reader(emitter, "<input>", Cursor::new(bytes.to_vec()));
    truth::AnmFile::read_from_stream(&mut r, game, with_images)
}

fn write_anm(truth: &mut truth::Truth, game: Game, f: &truth::AnmFile) -> Result<Vec<u8>, truth::ErrorReported> {
    let emitter = truth.ctx().emitter;
    let mut w = BinWriter::from_writer(emitter, "<output>", Cursor::new(Vec::new()));
    f.write_to_stream(&mut w, game)?;
    Ok(w.into_inner().into_inner())
}

fn ident(prefix: &str, n: usize) -> Ident { Ident::new_system(&format!("{prefix}{n}")).expect("ascii") }

/// why a structure cannot be handed to the real writer (private texture fields: they are obtained by reading a template)
pub fn unbuildable(st: &Sexp) -> Option<&'static str> {
    for e in st.args() {
        let a = e.args();
        let has_tex = a[5].head() == Some("tex");
        if !has_tex && a[6].as_atom() != "none" { return Some("texture-data-without-metadata"); }
        if has_tex && a[5].args().iter().any(|x| x.as_i64() > 0xffff) { return Some("texture-dimension-beyond-16-bits"); }
        if decodes(&unhex(a[1].as_atom())).is_none() { return Some("undecodable-text"); }
        if a[2].as_atom() != "none" && decodes(&unhex(a[2].as_atom())).is_none() { return Some("undecodable-text"); }
    }
    None
}

/// builds the in-memory file a structure describes: the texture part of each entry comes from reading a one-entry template
/// file with the real reader (the fields are private), every public field is then overwritten
pub fn build_anm(truth: &mut truth::Truth, game: Game, st: &Sexp) -> Result<truth::AnmFile, truth::ErrorReported> {
    let old = old_header(game);
    let mut file: Option<truth::AnmFile> = None;
    let mut entries = vec![];
    let (mut nsprite, mut nscript) = (0usize, 0usize);
    for e in st.args() {
        let a = e.args();
        let tex = if a[5].head() == Some("tex") { let t = a[5].args(); Some((t[0].as_i64() as u32, t[1].as_i64() as u32, t[2].as_i64() as u32)) } else { None };
        let data = if a[6].as_atom() == "none" { None } else { Some(unhex(a[6].as_atom())) };
        let template = raw_entry_bytes(&RawEntry { old, version: version_number(game), specs: [0; 8], path: b"a", path2: None, sprites: &[], scripts: &[],
            tex: tex.map(|(f, w, h)| (f, w, h, data.as_ref().map(|d| d.len()).unwrap_or(0) as u32)), data: data.as_deref(), has_data: tex.is_some() as u32 }, false);
        let mut t = read_anm(truth, game, &template, data.is_some())?;
        let mut entry = t.entries.remove(0);
        let sp = a[0].args();
        entry.specs = truth::anm::EntrySpecs { rt_width: sp[0].as_i64() as u32, rt_height: sp[1].as_i64() as u32, rt_format: sp[2].as_i64() as u32, colorkey: sp[3].as_i64() as u32,
            offset_x: sp[4].as_i64() as u32, offset_y: sp[5].as_i64() as u32, memory_priority: sp[6].as_i64() as u32, low_res_scale: sp[7].as_i64() != 0 };
        entry.path = sp!(decodes(&unhex(a[1].as_atom())).unwrap_or_default());
        entry.path_2 = if a[2].as_atom() == "none" { None } else { Some(sp!(decodes(&unhex(a[2].as_atom())).unwrap_or_default())) };
        entry.sprites = a[3].args().iter().map(|s| { let x = s.args(); nsprite += 1; (sp!(ident("sp", nsprite)), truth::anm::Sprite {
            id: if x[1].as_atom() == "none" { None } else { Some(x[1].as_i64() as u32) },
            offset: [f32::from_bits(x[2].as_i64() as u32), f32::from_bits(x[3].as_i64() as u32)], size: [f32::from_bits(x[4].as_i64() as u32), f32::from_bits(x[5].as_i64() as u32)] }) }).collect();
        entry.scripts = a[4].args().iter().map(|s| { let x = s.args(); nscript += 1; (sp!(ident("sc", nscript)), truth::anm::Script {
            id: x[1].as_i64() as i32, script: RawScript { instrs: x[2..].iter().map(|i| raw_of_fields(i.args())).collect::<Vec<RawInstr>>(), file_offset: None } }) }).collect();
        entries.push(entry);
        if file.is_none() { file = Some(t); }
    }
    let mut f = match file { Some(f) => f, None => {
        // no entry: any file that was read, emptied
        let template = raw_entry_bytes(&RawEntry { old, version: version_number(game), specs: [0; 8], path: b"a", path2: None, sprites: &[], scripts: &[], tex: None, data: None, has_data: 0 }, false);
        read_anm(truth, game, &template, false)?
    } };
    f.entries = entries;
    Ok(f)
}

// ---------------------------------------------------------------------------------------------
// evaluation

pub fn anm_err_class(diags: &str) -> String {
    let line = diags.lines().find(|l| l.starts_with("error")).unwrap_or("");
    const TABLE: &[(&[&str], &str)] = &[
        (&["too large for this version of the ANM format"], "too large for this version of the ANM format"),
        (&["cannot be stored in this version of the ANM format"], "cannot be stored in this version of the ANM format"),
        (&["too large for an embedded image"], "too large for an embedded image"),
        (&["inconsistency between thtx_offset and has_data/name"], "inconsistency between thtx_offset and has_data/name"),
        (&["loop in entries"], "loop in entries"),
    ];
    for (needles, class) in TABLE { if needles.iter().any(|n| line.contains(n)) { return class.to_string(); } }
    super::files::file_err_class(diags)
}

fn strip_panic_line(r: Sexp) -> Sexp {
    if r.head() == Some("panic") {
        let a = r.args();
        let file = a[0].as_atom().split(':').next().unwrap_or("?").to_string();
        return Sexp::app("panic", vec![Sexp::str(file), Sexp::str(a[1].as_atom().to_string())]);
    }
    r
}

pub fn eval_ranm(case: &Sexp) -> Sexp {
    let a = case.args();
    let with_images = a[1].as_i64() != 0;
    let bytes = unhex(a[3].as_atom());
    let game = tc::game(a[4].as_atom());
    strip_panic_line(crate::pool::guarded(std::panic::AssertUnwindSafe(|| {
        let out = tc::with_truth(Format::Anm, game, &[], |truth| read_anm(truth, game, &bytes, with_images));
        match out.value {
            Some(f) => Sexp::app("ok", vec![anm_sexp(&f, Some((&bytes, old_header(game))))]),
            None => Sexp::app("err", vec![Sexp::str(anm_err_class(&out.diagnostics))]),
        }
    })))
}

pub fn eval_wanm(case: &Sexp) -> Sexp {
    let a = case.args();
    let game = tc::game(a[2].as_atom());
    if let Some(why) = unbuildable(&a[1]) { return Sexp::app("skip", vec![Sexp::atom(why)]); }
    strip_panic_line(crate::pool::guarded(std::panic::AssertUnwindSafe(|| {
        let out = tc::with_truth(Format::Anm, game, &[], |truth| { let f = build_anm(truth, game, &a[1])?; write_anm(truth, game, &f) });
        match out.value {
            Some(b) => Sexp::app("ok", vec![Sexp::atom(hex(&b))]),
            None => Sexp::app("err", vec![Sexp::str(anm_err_class(&out.diagnostics))]),
        }
    })))
}

// --- the round-trip oracle -------------------------------------------------------------------

fn entry_fields(e: &Sexp) -> &[Sexp] { e.args() }

/// what the writer's numbering makes of the sprite ids (`id.unwrap_or(next)`, `wrapping_add(1)`, across entries)
fn actual_ids(st: &Sexp) -> Vec<Vec<u32>> {
    let mut next = 0u32;
    st.args().iter().map(|e| entry_fields(e)[3].args().iter().map(|s| { let x = s.args(); let id = if x[1].as_atom() == "none" { next } else { x[1].as_i64() as u32 }; next = id.wrapping_add(1); id }).collect()).collect()
}

/// a structure with the differences a reader may legitimately introduce removed: names dropped, sprite ids made explicit
fn canon(st: &Sexp) -> Vec<Vec<Sexp>> {
    let ids = actual_ids(st);
    st.args().iter().zip(ids).map(|(e, ids)| {
        let a = entry_fields(e);
        let sprites = Sexp::app("sprites", a[3].args().iter().zip(ids).map(|(s, id)| { let x = s.args(); Sexp::app("s", vec![Sexp::int(id as i64), x[2].clone(), x[3].clone(), x[4].clone(), x[5].clone()]) }).collect());
        let scripts = Sexp::app("scripts", a[4].args().iter().map(|s| Sexp::app("c", s.args()[1..].to_vec())).collect());
        vec![a[0].clone(), a[1].clone(), a[2].clone(), sprites, scripts, a[5].clone(), a[6].clone()]
    }).collect()
}

/// Compares the requested structure with what was read back and names the first difference.  `None` = equal up to names
/// and explicit sprite ids.
fn first_difference(want: &Sexp, got: &Sexp, old: bool, with_images: bool) -> Option<(String, String)> {
    let (w, g) = (canon(want), canon(got));
    if w.len() != g.len() { return Some(("entry-count".into(), format!("{} entries written, {} read", w.len(), g.len()))); }
    for (i, (we, ge)) in w.iter().zip(&g).enumerate() {
        let ws = we[0].args(); let gs = ge[0].args();
        let names = ["rt_width", "rt_height", "rt_format", "colorkey", "offset_x", "offset_y", "memory_priority", "low_res_scale"];
        for k in 0..8 {
            if ws[k] != gs[k] {
                let absent = if old { matches!(k, 4 | 5 | 7) } else { k == 3 };
                let sig = if absent { format!("field-not-in-this-header-layout-dropped {}", names[k]) } else { format!("specs {}", names[k]) };
                return Some((sig, format!("entry {i}: {} = {} written, {} read", names[k], ws[k], gs[k])));
            }
        }
        if we[1] != ge[1] { return Some(("path".into(), format!("entry {i}: path {} read as {}", we[1], ge[1]))); }
        if we[2] != ge[2] {
            let sig = if !old && ge[2].as_atom() == "none" { "field-not-in-this-header-layout-dropped path_2".to_string() } else { "path_2".to_string() };
            return Some((sig, format!("entry {i}: path_2 {} read as {}", we[2], ge[2])));
        }
        if we[3] != ge[3] {
            let mut ids: Vec<i64> = we[3].args().iter().map(|s| s.args()[0].as_i64()).collect(); ids.sort(); let n = ids.len(); ids.dedup();
            let sig = if ids.len() != n { "sprites duplicate-id-in-entry".to_string() } else { "sprites".to_string() };
            return Some((sig, format!("entry {i}: sprites {} read as {}", we[3], ge[3])));
        }
        if we[4] != ge[4] { return Some(("scripts".into(), format!("entry {i}: scripts {} read as {}", we[4], ge[4]))); }
        // a texture header without data is not written at all (has_data = 0)
        let wrote_tex = we[6].as_atom() != "none";
        let want_tex = if wrote_tex { we[5].clone() } else { Sexp::atom("none") };
        if want_tex != ge[5] {
            let narrowed = want_tex.head() == Some("tex") && want_tex.args().iter().any(|x| x.as_i64() > 0xffff);
            return Some((if narrowed { "texture-dimension-narrowed".into() } else { "texture-metadata".into() }, format!("entry {i}: texture {} read as {}", want_tex, ge[5])));
        }
        let want_data = if with_images { we[6].clone() } else { Sexp::atom("none") };
        if want_data != ge[6] { return Some(("texture-data".into(), format!("entry {i}: {} data bytes written, {} read", we[6].as_atom().len() / 2, ge[6].as_atom().len() / 2))); }
    }
    None
}

fn clip(s: String) -> String { if s.len() > 500 { format!("{}...", &s[..500]) } else { s } }

/// shared by `wranm` (structure built directly) and `anmsrc` (structure taken from the compiler)
fn judge_roundtrip(game: Game, want: &Sexp, bytes: &[u8]) -> Sexp {
    let old = old_header(game);
    let back = tc::with_truth(Format::Anm, game, &[], |truth| read_anm(truth, game, bytes, true));
    let v0_multi = variant(game) == "v0" && want.args().len() > 1;
    match back.value {
        None => {
            let class = anm_err_class(&back.diagnostics);
            let at_path = want.args().iter().any(|e| { let a = e.args(); a[6].as_atom() != "none" && a[1].as_atom().starts_with("x40") });
            let sig = if v0_multi { "anm-v0-multi-entry: written-file-unreadable anm".to_string() }
                else if at_path && class.contains("inconsistency") { "written-file-unreadable anm image-under-at-path".to_string() }
                else { "written-file-unreadable anm".to_string() };
            super::fail(sig, format!("{game}: {class}"))
        },
        Some(f) => {
            let got = anm_sexp(&f, Some((bytes, old)));
            match first_difference(want, &got, old, true) {
                None => Sexp::app("pass", vec![Sexp::int(bytes.len() as i64)]),
                Some((what, detail)) => {
                    let sig = if v0_multi { "anm-v0-multi-entry: written-file-differs anm".to_string() } else { format!("written-file-differs anm {what}") };
                    super::fail(sig, format!("{game}: {}", clip(detail)))
                },
            }
        },
    }
}

pub fn eval_wranm(case: &Sexp) -> Sexp {
    let a = case.args();
    let game = tc::game(a[2].as_atom());
    if let Some(why) = unbuildable(&a[1]) { return Sexp::app("skip", vec![Sexp::atom(why)]); }
    // outside the round-trip theorem and not something a compile produces / the reader promises: a file without entries
    // (the compiler rejects an empty source), two sprites with one id in an entry (the reader keeps one and warns)
    if a[1].args().is_empty() { return Sexp::app("skip", vec![Sexp::atom("no-entries")]); }
    if actual_ids(&a[1]).iter().any(|ids| { let mut v = ids.clone(); v.sort(); v.dedup(); v.len() != ids.len() }) { return Sexp::app("skip", vec![Sexp::atom("duplicate-sprite-id-in-entry")]); }
    let out = tc::with_truth(Format::Anm, game, &[], |truth| { let f = build_anm(truth, game, &a[1])?; write_anm(truth, game, &f) });
    match out.value {
        None => Sexp::app("rejected", vec![Sexp::str(anm_err_class(&out.diagnostics))]),
        Some(bytes) => judge_roundtrip(game, &a[1], &bytes),
    }
}

/// compile a source; the compiled in-memory file is the request; also the self-check that the structure rebuilt from the
/// S-expression is written exactly like the compiler's own object (so that `wanm` cases speak about compiler output)
pub fn eval_anmsrc(case: &Sexp) -> Sexp {
    let a = case.args();
    let game = tc::game(a[0].as_atom());
    let text = a[1].as_atom();
    let out = tc::with_truth(Format::Anm, game, &[], |truth| {
        let script = truth.parse::<truth::ast::ScriptFile>("<input>", text.as_bytes())?.value;
        let compiled = match tc::compile_ast(truth, Format::Anm, game, &script)? { tc::Compiled::Anm(f) => f, _ => unreachable!() };
        let st = anm_sexp(&compiled, None);
        let bytes = write_anm(truth, game, &compiled)?;
        Ok((st, bytes))
    });
    // an unrepresentable request (kinds 1-4; 0 and 5 are the two open findings, -1 = none) must end in its diagnostic
    let kind = a.get(2).map(|k| k.as_i64()).unwrap_or(-1);
    let expected = match kind { 1 | 2 | 3 => Some("cannot be stored in this version of the ANM format"), 4 => Some("too large for an embedded image"), _ => None };
    let (st, bytes) = match out.value {
        Some(v) => v,
        None => return if !out.has_error_diag() { super::fail("compile-fails-without-error-diagnostic", format!("anm {game}")) }
            else { Sexp::app("rejected", vec![Sexp::str(anm_err_class(&out.diagnostics)), Sexp::atom(if expected.map_or(true, |n| out.diagnostics.contains(n)) { "as-expected" } else { "other-diagnostic" })]) },
    };
    if unbuildable(&st).is_none() {
        let again = tc::with_truth(Format::Anm, game, &[], |truth| { let f = build_anm(truth, game, &st)?; write_anm(truth, game, &f) });
        if again.value.as_deref() != Some(&bytes[..]) { return super::fail("harness-self-check: rebuilt structure is written differently", format!("{game}: {}", clip(format!("{st}")))); }
    }
    let r = judge_roundtrip(game, &st, &bytes);
    // accepted although unrepresentable: the round trip names what was dropped / narrowed (the signatures of the repaired
    // findings); if it even passes, the request was not honoured in some way the comparison does not see
    if expected.is_some() && r.head() == Some("pass") { return super::fail(format!("unrepresentable-request-accepted anm kind-{kind}"), format!("{game}: compiled without a diagnostic")); }
    r
}

// --- an image file wider / taller than the 16-bit THTX fields (the one way to `write_texture` with such metadata) ----

fn crc32(data: &[u8]) -> u32 {
    let mut c = 0xFFFF_FFFFu32;
    for &b in data { c ^= b as u32; for _ in 0..8 { c = if c & 1 != 0 { 0xEDB8_8320 ^ (c >> 1) } else { c >> 1 }; } }
    !c
}
fn adler32(data: &[u8]) -> u32 {
    let (mut a, mut b) = (1u32, 0u32);
    for &x in data { a = (a + x as u32) % 65521; b = (b + a) % 65521; }
    (b << 16) | a
}
fn png_chunk(out: &mut Vec<u8>, kind: &[u8; 4], data: &[u8]) {
    out.extend_from_slice(&(data.len() as u32).to_be_bytes());
    let mut body = kind.to_vec(); body.extend_from_slice(data);
    out.extend_from_slice(&body);
    out.extend_from_slice(&crc32(&body).to_be_bytes());
}
/// RGBA8 PNG of one colour, filter 0, stored deflate blocks
fn png_plain(w: u32, h: u32) -> Vec<u8> {
    let mut raw = vec![];
    for _ in 0..h { raw.push(0); for _ in 0..w { raw.extend_from_slice(&[0x20, 0x40, 0x60, 0xff]); } }
    let mut z = vec![0x78, 0x01];
    let mut chunks = raw.chunks(65535).peekable();
    while let Some(c) = chunks.next() {
        z.push(chunks.peek().is_none() as u8);
        z.extend_from_slice(&(c.len() as u16).to_le_bytes()); z.extend_from_slice(&(!(c.len() as u16)).to_le_bytes()); z.extend_from_slice(c);
    }
    z.extend_from_slice(&adler32(&raw).to_be_bytes());
    let mut out = vec![0x89, b'P', b'N', b'G', 0x0D, 0x0A, 0x1A, 0x0A];
    let mut ihdr = vec![]; ihdr.extend_from_slice(&w.to_be_bytes()); ihdr.extend_from_slice(&h.to_be_bytes()); ihdr.extend_from_slice(&[8, 6, 0, 0, 0]);
    png_chunk(&mut out, b"IHDR", &ihdr); png_chunk(&mut out, b"IDAT", &z); png_chunk(&mut out, b"IEND", &[]);
    out
}

pub fn eval_anmwide(case: &Sexp) -> Sexp {
    let a = case.args();
    let game = tc::game(a[0].as_atom());
    let (w, h) = (a[1].as_i64() as u32, a[2].as_i64() as u32);
    let dir = tempfile::tempdir().expect("tempdir");
    std::fs::write(dir.path().join("t.png"), png_plain(w, h)).expect("write");
    let text = "entry {\n    path: \"t.png\",\n    has_data: true,\n    img_format: 7,\n    rt_width: 64,\n    rt_height: 64,\n    sprites: {},\n}\nscript s { }\n";
    let out = tc::with_truth(Format::Anm, game, &[], |truth| {
        let script = truth.parse::<truth::ast::ScriptFile>("<input>", text.as_bytes())?.value;
        let compiled = {
            let mut t = truth.validate_defs()?;
            let mut compiled = t.compile_anm(game, &script)?;
            let source = t.read_image_source(game, dir.path())?;
            let fs = t.fs();
            compiled.apply_image_source(source, &fs)?;
            t.finalize_anm(game, compiled)?
        };
        write_anm(truth, game, &compiled)
    });
    let fits = w <= 0xffff && h <= 0xffff;
    let bytes = match out.value {
        Some(b) => b,
        None => return if !out.has_error_diag() { super::fail("compile-fails-without-error-diagnostic", format!("anm {game}")) }
            else if fits { super::fail("image-rejected-although-it-fits anm", format!("{game}: {w}x{h}: {}", anm_err_class(&out.diagnostics))) }
            else { Sexp::app("rejected", vec![Sexp::str(anm_err_class(&out.diagnostics))]) },
    };
    let back = tc::with_truth(Format::Anm, game, &[], |truth| read_anm(truth, game, &bytes, true));
    match back.value {
        None => super::fail("written-file-unreadable anm", format!("{game}: {}", anm_err_class(&back.diagnostics))),
        Some(f) => {
            let e = &f.entries[0];
            let (gw, gh, n) = (e.img_width().unwrap_or(0), e.img_height().unwrap_or(0), e.img_data().map(|d| d.len()).unwrap_or(0));
            if (gw, gh) == (w, h) && n == (w * h) as usize && fits { Sexp::app("pass", vec![Sexp::int(bytes.len() as i64)]) }
            else { super::fail("written-file-differs anm texture-dimension-narrowed", format!("{game}: image file of {w}x{h} stored as {gw}x{gh} with {n} bytes; exit status 0, no diagnostic")) }
        },
    }
}

// ---------------------------------------------------------------------------------------------
// generators

pub struct Seed { pub game: Game, pub bytes: Vec<u8>, pub structure: Option<Sexp>, pub origin: &'static str }

const GAMES: &[Game] = &[Game::Th06, Game::Th07, Game::Th08, Game::Th09, Game::Th095, Game::Th10, Game::Th11, Game::Th12, Game::Th125, Game::Th128, Game::Th13, Game::Th14, Game::Th16, Game::Th17];

/// an ANM source with embedded (generated) textures, secondary paths, several entries; within what `anm_read_write` covers
/// (`wild = None`) or with exactly one kind of request the container cannot hold (`Some(kind)`: 0 image under an `@` path,
/// 1 `path_2`, 2 `offset_x` / `offset_y` / `low_res_scale`, 3 `colorkey` - each where the header layout of the game has no
/// such field -, 4 texture dimensions beyond 16 bits, 5 EoSD entries without image followed by another entry)
pub fn gen_source(rng: &mut Rng, game: Game, wild: Option<usize>) -> String {
    let mut text = String::new();
    let old = old_header(game);
    let nentries = if wild == Some(5) { 2 + rng.below(2) } else if game == Game::Th06 { 1 + rng.below(2) } else { 1 + rng.below(3) };
    let mut script_no = 0;
    for e in 0..nentries {
        // EoSD: an entry that is followed by another one needs an image (its last script is delimited by the THTX offset)
        let with_image = (rng.chance(1, 2) || (game == Game::Th06 && e + 1 < nentries) || matches!(wild, Some(0) | Some(4))) && wild != Some(5);
        let path_len = *rng.pick(&[1usize, 5, 14, 15, 16, 17, 30, 31, 32, 33, 47, 48]);
        let mut path: String = format!("e{e}/").chars().chain(std::iter::repeat('p')).take(path_len.max(3)).collect();
        if rng.chance(1, 6) { path = format!("\u{7d05}{path}"); }
        if wild == Some(0) { path = format!("@{path}"); }
        if !with_image && rng.chance(1, 4) { path = format!("@{path}"); }
        text.push_str(&format!("entry {{\n    path: \"{path}\",\n"));
        if (old && rng.chance(1, 3)) || wild == Some(1) { text.push_str(&format!("    path_2: \"{}\",\n", rng.pick(&["alpha.png", "0123456789abcde", "0123456789abcdef", "x"]))); }
        let fmt = *rng.pick(&[1u32, 3, 5, 7]);
        let (w, h) = if wild == Some(4) { if rng.chance(1, 2) { (*rng.pick(&[65536u32, 65537, 70000]), 1) } else { (1, *rng.pick(&[65536u32, 70000])) } } else { (*rng.pick(&[1u32, 2, 3, 8, 255]), *rng.pick(&[1u32, 2, 5])) };
        if with_image { text.push_str(&format!("    has_data: \"dummy\",\n    img_width: {w},\n    img_height: {h},\n    img_format: {fmt},\n")); }
        else { text.push_str(&format!("    has_data: false,\n    img_width: {w},\n    img_height: {h},\n    img_format: {fmt},\n")); }
        text.push_str(&format!("    rt_width: {},\n    rt_height: {},\n", rng.pick(&[1u32, 16, 256, 65535]), rng.pick(&[2u32, 32, 512])));
        if rng.chance(1, 3) { text.push_str(&format!("    rt_format: {},\n", rng.pick(&[0u32, 1, 3, 255]))); }
        if (!old && rng.chance(1, 3)) || wild == Some(2) { text.push_str(&format!("    offset_x: {},\n    offset_y: {},\n", rng.pick(&[if old { 3u32 } else { 0 }, 1, 255, 65535]), rng.pick(&[0u32, 7, 256]))); }
        if (old && rng.chance(1, 3)) || wild == Some(3) { text.push_str(&format!("    colorkey: {:#x},\n", rng.next_u32() | 1)); }
        if rng.chance(1, 3) { text.push_str(&format!("    memory_priority: {},\n", rng.pick(&[0u32, 1, 10, 0xffffffff]))); }
        if (!old && rng.chance(1, 3)) || (wild == Some(2) && rng.chance(1, 2)) { text.push_str(&format!("    low_res_scale: {},\n", if old { "true" } else { *rng.pick(&["true", "false"]) })); }
        text.push_str("    sprites: {\n");
        for s in 0..rng.below(4) {
            let id = if rng.chance(1, 3) { format!("id: {}, ", 100 * (e + 1) + 10 * s + rng.below(5)) } else { String::new() };
            text.push_str(&format!("        sprite_{e}_{s}: {{{id}x: {}, y: {}, w: {}, h: {}}},\n", gensrc::float_text(rng.below(64) as f32), gensrc::float_text(rng.below(8) as f32 * 0.5), gensrc::float_text(1.0 + rng.below(64) as f32), gensrc::float_text(16.0)));
        }
        text.push_str("    },\n}\n\n");
        for _ in 0..rng.below(3) {
            let mut body = String::new();
            for _ in 0..rng.below(4) {
                let t = *rng.pick(&[0i32, 0, 1, 10, -1, 32767]);
                let op = if game == Game::Th06 { *rng.pick(&[0u32, 1, 2, 255]) } else { *rng.pick(&[0u32, 1, 300, 65534]) };
                let len = 4 * rng.below(4);
                let blob: String = (0..len).map(|i| format!("{:02x}", (i * 37 + 1) % 256)).collect();
                body.push_str(&format!("{t}:\n    ins_{op}(@blob=\"{blob}\");\n"));
            }
            let num = if rng.chance(1, 3) { format!("{} ", 7 * script_no + rng.below(3) as i64 - 1) } else { String::new() };
            text.push_str(&format!("script {num}script{script_no} {{\n{body}}}\n\n"));
            script_no += 1;
        }
    }
    text
}

pub fn compile_seed(game: Game, text: &str) -> Option<Seed> {
    let r = std::panic::catch_unwind(|| {
        tc::with_truth(Format::Anm, game, &[], |truth| {
            let script = truth.parse::<truth::ast::ScriptFile>("<input>", text.as_bytes())?.value;
            let compiled = match tc::compile_ast(truth, Format::Anm, game, &script)? { tc::Compiled::Anm(f) => f, _ => unreachable!() };
            let st = anm_sexp(&compiled, None);
            let bytes = write_anm(truth, game, &compiled)?;
            Ok((st, bytes))
        }).value
    });
    let (st, bytes) = r.ok().flatten()?;
    Some(Seed { game, bytes, structure: Some(st), origin: "generated" })
}

pub fn seeds(rng: &mut Rng, n_generated: usize) -> Vec<Seed> {
    let mut out = vec![];
    for (format, game, bytes, _name) in super::c16::bundled_files() {
        if format == Format::Anm { out.push(Seed { game, bytes, structure: None, origin: "bundled" }); }
    }
    let mut tries = 0;
    while out.iter().filter(|s| s.origin == "generated").count() < n_generated && tries < 4 * n_generated {
        tries += 1;
        let game = *rng.pick(GAMES);
        let text = if rng.chance(1, 3) { gensrc::gen_anm(rng, game).text } else { gen_source(rng, game, None) };
        if let Some(s) = compile_seed(game, &text) { if s.bytes.len() <= 6000 { out.push(s); } }
    }
    out
}

pub fn ranm_case(game: Game, bytes: &[u8], with_images: bool) -> Sexp {
    let bad = undecodable_slots(bytes, old_header(game));
    Sexp::app("ranm", vec![Sexp::atom(variant(game)), Sexp::int(with_images as i64), Sexp::list(bad.iter().map(|b| Sexp::atom(hex(b))).collect()), Sexp::atom(hex(bytes)), Sexp::atom(format!("{game}"))])
}
pub fn wanm_case(head: &str, game: Game, st: &Sexp) -> Sexp { Sexp::app(head, vec![Sexp::atom(variant(game)), st.clone(), Sexp::atom(format!("{game}"))]) }

const FIELD_VALUES: &[u32] = &[0, 1, 2, 3, 4, 8, 0x10, 0x14, 0x3f, 0x40, 0x41, 0x7f, 0x80, 0xff, 0x100, 0x7fff, 0x8000, 0xfffe, 0xffff, 0x10000, 0x7fffffff, 0x80000000, 0xfffffffc, 0xffffffff];

/// truncations; every header field of every entry, every sprite offset, script table word and THTX header field set to
/// boundary values / the file length / small deltas; header dword sweeps; random damage
pub fn mutants(rng: &mut Rng, s: &Seed, budget: usize) -> Vec<(Vec<u8>, &'static str)> {
    let b = &s.bytes;
    let old = old_header(s.game);
    let mut out: Vec<(Vec<u8>, &'static str)> = vec![];
    let cuts: Vec<usize> = if b.len() <= budget / 3 { (0..b.len()).collect() } else { (0..budget / 3).map(|_| rng.below(b.len())).collect() };
    for c in cuts { out.push((b[..c].to_vec(), "truncate")); }
    // field positions: (offset, width)
    let mut fields: Vec<(usize, usize)> = vec![];
    let widths: &[usize] = if old { &[4, 4, 4, 4, 4, 4, 4, 4, 4, 4, 4, 4, 4, 2, 2, 4, 4] } else { &[4, 2, 2, 2, 2, 2, 2, 4, 2, 2, 4, 4, 2, 2, 4, 4, 4, 4, 4, 4, 4] };
    for p in entry_positions(b, old) {
        let mut q = p;
        for w in widths { fields.push((q, *w)); q += w; }
        let (ns, nsc) = if old { (u32_at(b, p).unwrap_or(0), u32_at(b, p + 4).unwrap_or(0)) } else { (u16_at(b, p + 4).unwrap_or(0), u16_at(b, p + 6).unwrap_or(0)) };
        for i in 0..(ns as usize).min(8) { fields.push((p + 64 + 4 * i, 4)); }
        for i in 0..(2 * nsc as usize).min(12) { fields.push((p + 64 + 4 * ns as usize + 4 * i, 4)); }
        let thtx = u32_at(b, p + if old { 0x30 } else { 0x1c }).unwrap_or(0) as usize;
        if thtx != 0 { for (o, w) in [(0, 4), (4, 2), (6, 2), (8, 2), (10, 2), (12, 4)] { fields.push((p + thtx + o, w)); } }
    }
    fields.retain(|(p, w)| p + w <= b.len());
    let set = |m: &mut Vec<u8>, p: usize, w: usize, v: u32| { for k in 0..w { m[p + k] = (v >> (8 * k)) as u8; } };
    let get = |p: usize, w: usize| -> u32 { (0..w).map(|k| (b[p + k] as u32) << (8 * k)).sum() };
    for _ in 0..budget / 3 {
        if fields.is_empty() { break; }
        let (p, w) = *rng.pick(&fields);
        let v = match rng.below(4) { 0 => (b.len() as u32).wrapping_add(rng.range(-20, 20) as u32), 1 => get(p, w).wrapping_add(*rng.pick(&[1i32, -1, 2, -2, 4, -4, 8, 12, 16, -16, 20, 64, -64]) as u32), _ => *rng.pick(FIELD_VALUES) };
        let mut m = b.clone(); set(&mut m, p, w, v);
        if m != *b { out.push((m, if w == 4 { "field32" } else { "field16" })); }
    }
    // systematic: every field of the first two entries set to 0, all ones, the file length
    for &(p, w) in fields.iter().take(2 * widths.len() + 40) {
        for v in [0u32, 0xffffffff, b.len() as u32] {
            let mut m = b.clone(); set(&mut m, p, w, v);
            if m != *b { out.push((m, "field-sweep")); }
        }
    }
    for _ in 0..budget / 3 { let (m, k) = super::c16::mutate(rng, b); out.push((m, k)); }
    out
}

fn gen_instr_sexp(rng: &mut Rng, v0: bool, allow_misfit: bool) -> Sexp {
    let fmt = if v0 { "msg" } else { "anm07" };
    let fitting = !(allow_misfit && rng.chance(1, 12));
    let (t, o, m, _, _, mut b) = super::instr_io::gen_instr(rng, fmt, fitting);
    b.truncate(if rng.chance(1, 10) { 300 } else { 24 });
    let m = if v0 { 0 } else { m };
    if v0 && rng.chance(1, 6) { return Sexp::app("instr", super::instr_io::instr_fields(0, 0, 0, 255, None, &[])); }
    Sexp::app("instr", super::instr_io::instr_fields(t, o, m, 255, None, &b))
}

/// structures generated directly, at and beyond what the format can hold
pub fn gen_structure(rng: &mut Rng) -> (Game, Sexp) {
    let game = *rng.pick(GAMES);
    let v0 = game == Game::Th06;
    let old = old_header(game);
    let nentries = *rng.pick(&[0usize, 1, 1, 1, 2, 2, 3]);
    let dim = |rng: &mut Rng| -> i64 { *rng.pick(&[0u32, 1, 16, 255, 256, 65535, 65535, 65536, 70000, 0xffffffff]) as i64 };
    let small = |rng: &mut Rng| -> i64 { *rng.pick(&[0u32, 1, 2, 16, 256, 65535]) as i64 };
    let text = |rng: &mut Rng| -> Vec<u8> {
        let n = *rng.pick(&[0usize, 1, 3, 14, 15, 16, 17, 31, 32, 33]);
        let mut s: String = "abcdefghijklmnopqrstuvwxyz0123456789".chars().cycle().take(n).collect();
        if rng.chance(1, 5) { s = format!("\u{3042}{s}"); }
        if rng.chance(1, 6) { s = format!("@{s}"); }
        encode(&s).unwrap_or_default()
    };
    let entries: Vec<Sexp> = (0..nentries).map(|_| {
        let wide = rng.chance(1, 4);
        let specs = Sexp::app("specs", vec![Sexp::int(if wide { dim(rng) } else { small(rng) }), Sexp::int(if wide { dim(rng) } else { small(rng) }), Sexp::int(if wide { dim(rng) } else { small(rng) }),
            Sexp::int(if old || rng.chance(1, 8) { rng.next_u32() as i64 >> rng.below(32) } else { 0 }),
            Sexp::int(if !old || rng.chance(1, 8) { if wide { dim(rng) } else { small(rng) } } else { 0 }), Sexp::int(if !old || rng.chance(1, 8) { if wide { dim(rng) } else { small(rng) } } else { 0 }),
            Sexp::int(*rng.pick(&[0u32, 10, 0xffffffff]) as i64), Sexp::int(if !old || rng.chance(1, 8) { rng.below(2) as i64 } else { 0 })]);
        let path = Sexp::atom(hex(&text(rng)));
        let path2 = if (old && rng.chance(1, 3)) || rng.chance(1, 10) { Sexp::atom(hex(&text(rng))) } else { Sexp::atom("none") };
        let nsprites = rng.below(4);
        let dup = rng.chance(1, 10);
        let sprites = (0..nsprites).map(|i| Sexp::app("s", vec![Sexp::int(i as i64),
            if rng.chance(1, 2) { Sexp::atom("none") } else { Sexp::int(if dup { 5 } else { *rng.pick(&[0u32, 1, 7, 100, 0xfffffffe, 0xffffffff]) as i64 }) },
            Sexp::int(rng.float_bits() as i64), Sexp::int(rng.float_bits() as i64), Sexp::int(rng.float_bits() as i64), Sexp::int(rng.float_bits() as i64)])).collect();
        let scripts = (0..rng.below(4)).map(|i| { let mut v = vec![Sexp::int(i as i64), Sexp::int(*rng.pick(&[0i64, 1, 2, -1, 2147483647, -2147483648]))];
            for _ in 0..rng.below(4) { v.push(gen_instr_sexp(rng, v0, true)); } Sexp::app("c", v) }).collect();
        let (tex, data) = match rng.below(4) {
            0 | 1 => (Sexp::atom("none"), Sexp::atom("none")),
            2 => { let n = rng.below(20); (Sexp::app("tex", vec![Sexp::int(*rng.pick(&[1u32, 3, 5, 7, 0, 9, 65535]) as i64), Sexp::int(small(rng)), Sexp::int(small(rng))]), Sexp::atom(hex(&(0..n).map(|k| (k * 11 + 3) as u8).collect::<Vec<u8>>()))) },
            _ => (Sexp::app("tex", vec![Sexp::int(1), Sexp::int(small(rng)), Sexp::int(small(rng))]), Sexp::atom("none")),
        };
        Sexp::app("e", vec![specs, path, path2, Sexp::app("sprites", sprites), Sexp::app("scripts", scripts), tex, data])
    }).collect();
    (game, Sexp::app("anm", entries))
}

/// counts at and beyond the 16-bit header fields of TH11+ (and far beyond them in the 32-bit layout)
fn count_structure(nsprites: usize, nscripts: usize) -> Sexp {
    let sprites = (0..nsprites).map(|i| Sexp::app("s", vec![Sexp::int(i as i64), Sexp::atom("none"), Sexp::int(0), Sexp::int(0), Sexp::int(0), Sexp::int(0)])).collect();
    let scripts = (0..nscripts).map(|i| Sexp::app("c", vec![Sexp::int(i as i64), Sexp::int(i as i64)])).collect();
    Sexp::app("anm", vec![Sexp::app("e", vec![Sexp::app("specs", (0..8).map(|_| Sexp::int(0)).collect()), Sexp::atom("x61"), Sexp::atom("none"), Sexp::app("sprites", sprites), Sexp::app("scripts", scripts), Sexp::atom("none"), Sexp::atom("none")])])
}

/// `n` entries whose THTX offsets all point at one texture of `size` bytes (TH12 layout); byte for byte the file
/// `sharedTexAnm n size` of `Props/C16Anm.lean` (`anm_shared_texture_reads`, `anm_read_alloc_bound_full_false`)
pub fn shared_texture_anm(n: usize, size: usize) -> Vec<u8> {
    let mut f = vec![];
    let data_at = 64 * n + 16;          // after the headers and the shared path block
    for i in 0..n {
        let here = 64 * i;
        let mut h = vec![];
        put32(&mut h, 7); for x in [0u32, 0, 0, 16, 16, 1] { put16(&mut h, x); }
        put32(&mut h, (64 * n - here) as u32); put16(&mut h, 0); put16(&mut h, 0); put32(&mut h, 0);
        put32(&mut h, (data_at - here) as u32); put16(&mut h, 1); put16(&mut h, 0); put32(&mut h, if i + 1 < n { 64 } else { 0 });
        h.extend_from_slice(&[0; 24]);
        f.extend(h);
    }
    let mut name = b"a".to_vec(); name.resize(16, 0); f.extend(name);
    f.extend_from_slice(b"THTX"); put16(&mut f, 0); put16(&mut f, 7); put16(&mut f, 1); put16(&mut f, 1); put32(&mut f, size as u32);
    f.extend(std::iter::repeat(0x55u8).take(size));
    f
}

/// one entry whose `n` script table entries all point at one script of `k` instructions (TH12 layout); byte for byte
/// `sharedScriptAnm n k` of `Props/C16Anm.lean`
pub fn shared_script_anm(n: usize, k: usize) -> Vec<u8> {
    let base = 64 + 8 * n;
    let mut script = vec![];
    for _ in 0..k { put16(&mut script, 1); put16(&mut script, 8); put16(&mut script, 0); put16(&mut script, 0); }
    put16(&mut script, 0xffff); put16(&mut script, 0); put16(&mut script, 0); put16(&mut script, 0);
    let mut f = vec![];
    put32(&mut f, 7); for x in [0u32, n as u32, 0, 16, 16, 1] { put16(&mut f, x); }
    put32(&mut f, base as u32); put16(&mut f, 0); put16(&mut f, 0); put32(&mut f, 0); put32(&mut f, 0); put16(&mut f, 0); put16(&mut f, 0); put32(&mut f, 0);
    f.extend_from_slice(&[0; 24]);
    for i in 0..n { put32(&mut f, i as u32); put32(&mut f, (base + 16) as u32); }
    let mut name = b"a".to_vec(); name.resize(16, 0); f.extend(name);
    f.extend(script);
    f
}

pub fn amplification_cases() -> Vec<Case> {
    let mut out = vec![];
    // the generators above produce the files the Lean theorems speak about (`#eval toHex (sharedTexAnm 2 3)`, `(sharedScriptAnm 2 1)`)
    assert_eq!(hex(&shared_texture_anm(2, 3)), "x07000000000000000000100010000100800000000000000000000000900000000100000040000000000000000000000000000000000000000000000000000000070000000000000000001000100001004000000000000000000000005000000001000000000000000000000000000000000000000000000000000000000000006100000000000000000000000000000054485458000007000100010003000000555555");
    assert_eq!(hex(&shared_script_anm(2, 1)), "x0700000000000200000010001000010050000000000000000000000000000000000000000000000000000000000000000000000000000000000000000000000000000000600000000100000060000000610000000000000000000000000000000100080000000000ffff000000000000");
    for (bytes, tag) in [(shared_texture_anm(20, 200), "shared-texture"), (shared_script_anm(10, 10), "shared-script")] {
        out.push(Case::corr(ranm_case(Game::Th12, &bytes, true)).tag(format!("ranm-{tag}")));
    }
    for (bytes, tag) in [(shared_texture_anm(1500, 150_000), "shared-texture"), (shared_texture_anm(20, 200), "shared-texture"), (shared_script_anm(4000, 600), "shared-script"), (shared_script_anm(10, 10), "shared-script")] {
        out.push(Case::search(Sexp::app("readalloc", vec![Sexp::atom("anm"), Sexp::atom("th12"), Sexp::atom(hex(&bytes))])).tag(format!("readalloc-{tag}-anm")));
    }
    out
}

/// the ANM cases of C03 (`for_c16 = false`) and C16
pub fn gen_cases(rng: &mut Rng, scale: usize, for_c16: bool) -> Vec<Case> {
    let mut out = vec![];
    let seeds = seeds(rng, if for_c16 { 30 * scale.min(6) } else { 60 * scale.min(8) });
    for s in &seeds {
        out.push(Case::corr(ranm_case(s.game, &s.bytes, true)).tag(format!("ranm-pristine-{}", s.origin)).trivial(for_c16));
        out.push(Case::corr(ranm_case(s.game, &s.bytes, false)).tag(format!("ranm-pristine-noimages-{}", s.origin)).trivial(for_c16));
        if let (false, Some(st)) = (for_c16, &s.structure) {
            out.push(Case::corr(wanm_case("wanm", s.game, st)).tag("wanm-compiled"));
        }
        if for_c16 {
            let budget = if s.origin == "bundled" { (if s.bytes.len() > 4000 { 40 } else { 150 }) * scale } else { 90 * scale.min(12) };
            for (m, kind) in mutants(rng, s, budget) {
                let with_images = !rng.chance(1, 5);
                out.push(Case::corr(ranm_case(s.game, &m, with_images)).tag(format!("ranm-{kind}")));
            }
        }
    }
    if for_c16 {
        for _ in 0..40 * scale {
            let game = *rng.pick(GAMES);
            let n = rng.below(260);
            let style = rng.below(6);
            let by: Vec<u8> = (0..n).map(|_| match style { 0 => 0, 1 => if rng.chance(1, 12) { rng.below(4) as u8 } else { 0 }, 2 => 0xff, _ => match rng.below(4) { 0 => 0, 1 => 0xff, 2 => rng.below(8) as u8, _ => rng.next_u32() as u8 } }).collect();
            out.push(Case::corr(ranm_case(game, &by, true)).tag("ranm-random"));
        }
        out.extend(amplification_cases());
    } else {
        // files the real reader produced, written again (bundled binaries and compiler outputs alike)
        for s in &seeds {
            let r = std::panic::catch_unwind(|| tc::with_truth(Format::Anm, s.game, &[], |truth| { let f = read_anm(truth, s.game, &s.bytes, true)?; Ok(anm_sexp(&f, Some((&s.bytes, old_header(s.game))))) }).value);
            if let Ok(Some(st)) = r {
                out.push(Case::corr(wanm_case("wanm", s.game, &st)).tag(format!("wanm-reread-{}", s.origin)));
                out.push(Case::search(wanm_case("wranm", s.game, &st)).tag(format!("wranm-reread-{}", s.origin)));
            }
        }
        for (game, ns, nsc) in [(Game::Th12, 65535usize, 1usize), (Game::Th12, 65536, 0), (Game::Th14, 2, 65535), (Game::Th14, 0, 65536), (Game::Th08, 65536, 2), (Game::Th06, 3, 65537)] {
            let st = count_structure(ns, nsc);
            out.push(Case::corr(wanm_case("wanm", game, &st)).tag("wanm-count-boundary"));
            out.push(Case::search(wanm_case("wranm", game, &st)).tag("wranm-count-boundary"));
        }
        for _ in 0..250 * scale {
            let (game, st) = gen_structure(rng);
            out.push(Case::corr(wanm_case("wanm", game, &st)).tag("wanm-structure"));
            out.push(Case::search(wanm_case("wranm", game, &st)).tag("wranm-structure"));
        }
        for k in 0..120 * scale {
            let mut game = *rng.pick(GAMES);
            let wild = if k % 3 == 0 { Some((k / 3) % 6) } else { None };
            // the kinds that need a particular header layout
            match wild { Some(1) | Some(3) => { while old_header(game) { game = *rng.pick(GAMES); } }, Some(2) => { while !old_header(game) { game = *rng.pick(GAMES); } }, Some(5) => { game = Game::Th06; }, _ => {} }
            let text = gen_source(rng, game, wild);
            out.push(Case::search(Sexp::app("anmsrc", vec![Sexp::atom(format!("{game}")), Sexp::str(text), Sexp::int(wild.map(|k| k as i64).unwrap_or(-1))])).tag(match wild { Some(k) => format!("anmsrc-unrepresentable-{k}"), None => "anmsrc".to_string() }));
        }
        // image files at and beyond the 16-bit THTX fields
        for (game, w, h) in [(Game::Th08, 65535u32, 1u32), (Game::Th08, 65536, 1), (Game::Th12, 1, 65535), (Game::Th12, 1, 65536), (Game::Th12, 70000, 1), (Game::Th06, 2, 70000)] {
            out.push(Case::search(Sexp::app("anmwide", vec![Sexp::atom(format!("{game}")), Sexp::int(w as i64), Sexp::int(h as i64)])).tag("anmwide"));
        }
    }
    out
}
