//! Container-level I/O through the real file readers / writers (MSG, STD, mission MSG, old ECL),
//! shared by C03 and C16.  Compared with the Lean models `TruthModel.Files.{read,write}{Msg,Std,Mission,Ecl}`.
//!
//!   (rfile kind variant (undecodable strings) x<bytes> format game)  -> (ok <structure>) | (err class) | (panic file msg)
//!   (wfile kind variant <structure> format game)                     -> (ok x<bytes>)    | (err class) | (panic file msg)
//!
//! Names (script / object identifiers) are numbers in the structures: the number in the reader's
//! generated name when a file was read, the position when a compiled file is written (only equality
//! of names matters).  Text is the Shift-JIS byte string; for files that were read it is taken from
//! the fixed-size slot of the input (trimmed at the first NUL) after checking that the real reader's
//! string is exactly its decoding, so that non-canonical encodings cannot cause false disagreements.

use super::Case;
use super::instr_io::{instr_sexp, raw_of_fields};
use crate::rng::Rng;
use crate::sexp::{Sexp, hex, unhex};
use crate::tc::{self, Format, Compiled};
use crate::gensrc;
use truth::{Game, Ident, Sp};
use truth::io::{Encoded, DEFAULT_ENCODING};
use truth::llir::{RawInstr, RawScript};

pub fn kind_variant(format: Format, game: Game) -> Option<(&'static str, &'static str)> {
    match format {
        Format::Msg | Format::End => match game {
            Game::Th095 | Game::Th125 => None,
            g if g >= Game::Th09 => Some(("msg", "flags")),
            _ => Some(("msg", "noflags")),
        },
        Format::Std => Some(("std", if game < Game::Th095 { "f06" } else { "f10" })),
        Format::Mission => match game { Game::Th095 => Some(("mission", "th095")), Game::Th125 => Some(("mission", "th125")), _ => None },
        Format::Ecl => match game {
            Game::Th06 => Some(("ecl", "th06")), Game::Th07 => Some(("ecl", "th07")), Game::Th08 => Some(("ecl", "th08")),
            Game::Th09 => Some(("ecl", "th09")), Game::Th095 => Some(("ecl", "th095")), _ => None,
        },
        Format::Anm => None,
    }
}

// ---------------------------------------------------------------------------------------------
// text slots

fn trim_nul(b: &[u8]) -> &[u8] { &b[..b.iter().position(|&x| x == 0).unwrap_or(b.len())] }
fn decodes(b: &[u8]) -> Option<String> { Encoded(b.to_vec()).decode(DEFAULT_ENCODING).ok() }
fn encode(s: &str) -> Option<Vec<u8>> { Encoded::encode(&sp!(s), DEFAULT_ENCODING).ok().map(|e| e.0) }

/// `ZunMissionCipher::bytes_for_line`, written from the format description
fn mission_cipher(stage: u16, scene: u16, player: u16, line: usize) -> Vec<u8> {
    let mut mask = 7u8.wrapping_mul(stage as u8).wrapping_add(11u8.wrapping_mul(scene as u8)).wrapping_add(13u8.wrapping_mul(player as u8)).wrapping_add(58);
    let mut vel = 23u8.wrapping_mul(line as u8 + 1);
    (0..64).map(|_| { let v = mask; mask = mask.wrapping_add(vel); vel = vel.wrapping_add(1); v }).collect()
}

/// The fixed-size text slots of a file, already deciphered and trimmed at the first NUL, in file order.
pub fn text_slots(kind: &str, variant: &str, b: &[u8]) -> Vec<Vec<u8>> {
    let mut out = vec![];
    match kind {
        "std" => {
            let n = if variant == "f06" { 9 } else { 1 };
            for k in 0..n { if 16 + 128 * (k + 1) <= b.len() { out.push(trim_nul(&b[16 + 128 * k..16 + 128 * (k + 1)]).to_vec()); } }
        },
        "mission" => {
            if b.len() < 4 { return out; }
            let n = u32::from_le_bytes([b[0], b[1], b[2], b[3]]) as u64;
            let (size, lines, text_at) = if variant == "th095" { (204u64, 3usize, 12u64) } else { (424, 6, 40) };
            let base = 4 + 4 * n;
            let mut i = 0u64;
            while i < n && base + i * size + 4 <= b.len() as u64 {
                let e = (base + i * size) as usize;
                let rd16 = |p: usize| if p + 2 <= b.len() { u16::from_le_bytes([b[p], b[p + 1]]) } else { 0 };
                let (stage, scene, player) = (rd16(e), rd16(e + 2), if variant == "th095" { 0 } else { rd16(e + 4) });
                for l in 0..lines {
                    let p = e + text_at as usize + 64 * l;
                    if p + 64 > b.len() { break; }
                    let plain: Vec<u8> = b[p..p + 64].iter().zip(mission_cipher(stage, scene, player, l)).map(|(x, c)| x.wrapping_add(c)).collect();
                    out.push(trim_nul(&plain).to_vec());
                }
                i += 1;
            }
        },
        _ => {},
    }
    out
}

/// the trimmed slot contents the real decoder rejects (the model's `decOk` parameter)
pub fn undecodable_slots(kind: &str, variant: &str, b: &[u8]) -> Vec<Vec<u8>> {
    let mut out: Vec<Vec<u8>> = vec![];
    for s in text_slots(kind, variant, b) { if decodes(&s).is_none() && !out.contains(&s) { out.push(s); } }
    out
}

/// read mode: the next slot, checked against the string the real reader produced; write mode: the encoding
struct Texts<'a> { slots: Option<std::vec::IntoIter<Vec<u8>>>, _p: std::marker::PhantomData<&'a ()> }
impl<'a> Texts<'a> {
    fn text(&mut self, s: &str) -> Sexp {
        match &mut self.slots {
            Some(it) => match it.next() {
                Some(raw) => if decodes(&raw).as_deref() == Some(s) { Sexp::atom(hex(&raw)) } else { Sexp::atom(format!("STRING-IS-NOT-THE-DECODED-SLOT:{}", hex(s.as_bytes()))) },
                None => Sexp::atom("STRING-WITHOUT-SLOT"),
            },
            None => match encode(s) { Some(b) => Sexp::atom(hex(&b)), None => Sexp::atom("UNENCODABLE") },
        }
    }
}

// ---------------------------------------------------------------------------------------------
// structure -> S-expression

fn number_in(name: &str, prefix: &str) -> Option<i64> { name.strip_prefix(prefix).and_then(|d| d.parse().ok()) }
fn instrs_sexp(is: &[RawInstr]) -> Vec<Sexp> { is.iter().map(instr_sexp).collect() }
fn f(x: f32) -> Sexp { Sexp::int(x.to_bits() as i64) }
fn fs(xs: &[f32]) -> Vec<Sexp> { xs.iter().map(|&x| f(x)).collect() }

/// `raw = Some(input bytes)`: the file was read from these bytes (names by number, text from the slots)
pub fn compiled_sexp(c: &Compiled, kind: &str, variant: &str, raw: Option<&[u8]>) -> Sexp {
    let by_number = raw.is_some();
    let mut texts = Texts { slots: raw.map(|b| text_slots(kind, variant, b).into_iter()), _p: std::marker::PhantomData };
    match c {
        Compiled::Msg(m) => {
            let mut unknown: Vec<Ident> = vec![];
            let mut name = |id: &Ident| -> i64 {
                if by_number { return number_in(id.as_str(), "script").unwrap_or(-1); }
                if let Some(i) = m.scripts.get_index_of(id) { return i as i64; }
                let k = match unknown.iter().position(|u| u == id) { Some(k) => k, None => { unknown.push(id.clone()); unknown.len() - 1 } };
                1_000_000 + k as i64
            };
            let table = m.dense_table.iter().map(|e| Sexp::app("e", vec![
                match &e.script.value { truth::msg::ScriptTableOffset::Zero => Sexp::atom("zero"), truth::msg::ScriptTableOffset::Name(id) => Sexp::int(name(id)) },
                Sexp::int(e.flags.value as i64)])).collect();
            let scripts = m.scripts.iter().map(|(id, s)| { let mut v = vec![Sexp::int(name(id))]; v.extend(instrs_sexp(&s.instrs)); Sexp::app("s", v) }).collect();
            Sexp::app("msg", vec![Sexp::app("table", table), Sexp::app("scripts", scripts)])
        },
        Compiled::Std(s) => {
            let oname = |id: &Ident| -> i64 {
                if by_number { return number_in(id.as_str(), "object").unwrap_or(-1); }
                s.objects.keys().position(|k| &k.value == id).map(|i| i as i64).unwrap_or(1_000_000)
            };
            let extra = match &s.extra {
                truth::std::StdExtra::Th06 { stage_name, bgm } => {
                    let mut v = vec![texts.text(&stage_name.value)];
                    for b in bgm.iter() { v.push(texts.text(&b.name.value)); }
                    for b in bgm.iter() { v.push(texts.text(&b.path.value)); }
                    Sexp::app("extra06", v)
                },
                truth::std::StdExtra::Th10 { anm_path } => Sexp::app("extra10", vec![texts.text(&anm_path.value)]),
            };
            let objects = s.objects.iter().map(|(k, o)| {
                let mut v = vec![Sexp::int(oname(&k.value)), Sexp::int(o.layer as i64)];
                v.extend(fs(&o.pos)); v.extend(fs(&o.size));
                v.push(Sexp::app("quads", o.quads.iter().map(|q| match &q.extra {
                    truth::std::QuadExtra::Rect { pos, size } => { let mut w = vec![Sexp::int(q.anm_script as i64)]; w.extend(fs(pos)); w.extend(fs(size)); Sexp::app("rect", w) },
                    truth::std::QuadExtra::Strip { start, end, width } => { let mut w = vec![Sexp::int(q.anm_script as i64)]; w.extend(fs(start)); w.extend(fs(end)); w.push(f(*width)); Sexp::app("strip", w) },
                }).collect()));
                Sexp::app("o", v)
            }).collect();
            let instances = s.instances.iter().map(|i| { let mut v = vec![Sexp::int(oname(&i.object.value)), Sexp::int(i.unknown as i64)]; v.extend(fs(&i.pos)); Sexp::app("i", v) }).collect();
            Sexp::app("std", vec![Sexp::int(s.unknown as i64), extra, Sexp::app("objects", objects), Sexp::app("instances", instances), Sexp::app("script", instrs_sexp(&s.script.instrs))])
        },
        Compiled::Mission(m) => {
            let entries: Vec<Sexp> = match m {
                truth::MissionMsgFile::Th095(x) => x.entries.iter().map(|e| Sexp::app("e", vec![
                    Sexp::int(e.stage as i64), Sexp::int(e.scene as i64), Sexp::int(0), Sexp::int(0), Sexp::int(0), Sexp::int(e.face as i64), Sexp::int(e.point as i64),
                    Sexp::app("fur", vec![]), Sexp::app("text", e.text.iter().map(|t| texts.text(&t.value)).collect())])).collect(),
                truth::MissionMsgFile::Th125(x) => x.entries.iter().map(|e| Sexp::app("e", vec![
                    Sexp::int(e.stage as i64), Sexp::int(e.scene as i64), Sexp::int(e.player as i64), Sexp::int(e.unknown_1 as i64), Sexp::int(e.unknown_2 as i64),
                    Sexp::int(e.point_1 as i64), Sexp::int(e.point_2 as i64),
                    Sexp::app("fur", e.furigana.iter().flat_map(|p| p.iter().map(|&x| Sexp::int(x as i64))).collect()),
                    Sexp::app("text", e.text.iter().map(|t| texts.text(&t.value)).collect())])).collect(),
            };
            Sexp::app("mission", entries)
        },
        Compiled::Ecl(truth::EclFile::Olde(e)) => Sexp::app("ecl", vec![
            Sexp::app("subs", e.subs.values().map(|s| Sexp::app("s", instrs_sexp(&s.instrs))).collect()),
            Sexp::app("timelines", e.timelines.iter().map(|s| Sexp::app("s", instrs_sexp(&s.instrs))).collect())]),
        _ => Sexp::atom("unsupported-structure"),
    }
}

// ---------------------------------------------------------------------------------------------
// S-expression -> structure (on top of a minimal compiled file: some fields are private)

fn base_source(format: Format, game: Game) -> String {
    match format {
        Format::Msg | Format::End => "meta { table: {0: {script: \"s\"}} }\nscript s { }\n".into(),
        Format::Std => if game < Game::Th095 {
            "meta { unknown: 0, stage_name: \"a\", bgm: [{path: \"a\", name: \"a\"}, {path: \"a\", name: \"a\"}, {path: \"a\", name: \"a\"}, {path: \"a\", name: \"a\"}], objects: {}, instances: [] }\nscript main { }\n".into()
        } else { "meta { unknown: 0, anm_path: \"a\", objects: {}, instances: [] }\nscript main { }\n".into() },
        Format::Mission => if game == Game::Th095 { "entry { stage: 1, scene: 1, face: 1, point: 2, text: [\"\", \"\", \"\"] }\n".into() }
            else { "entry { stage: 1, scene: 1, player: 0, unknown_1: 0, unknown_2: 0, point_1: 1, point_2: 2, furigana: [[0, 0], [0, 0], [0, 0]], text: [\"\", \"\", \"\", \"\", \"\", \"\"] }\n".into() },
        Format::Ecl => "script timeline0 { }\nvoid sub0() { }\n".into(),
        Format::Anm => String::new(),
    }
}

fn ident(prefix: &str, n: i64) -> Ident { Ident::new_system(&format!("{prefix}{n}")).expect("ascii") }
fn instrs_of(xs: &[Sexp]) -> Vec<RawInstr> { xs.iter().map(|i| raw_of_fields(i.args())).collect() }
fn fl(x: &Sexp) -> f32 { f32::from_bits(x.as_i64() as u32) }
fn f3(a: &[Sexp], i: usize) -> [f32; 3] { [fl(&a[i]), fl(&a[i + 1]), fl(&a[i + 2])] }

/// builds the in-memory file a structure describes (inside `with_truth`, which provides the base file)
pub fn build_compiled(truth: &mut truth::Truth, format: Format, game: Game, st: &Sexp) -> Result<Compiled, truth::ErrorReported> {
    let script = truth.parse::<truth::ast::ScriptFile>("<base>", base_source(format, game).as_bytes())?.value;
    // diagnostics of the writers point at spans: use one that exists in the file database
    let span = script.items[0].span;
    let text_of = |x: &Sexp| -> Sp<String> { sp!(span => decodes(&unhex(x.as_atom())).unwrap_or_default()) };
    let mut base = tc::compile_ast(truth, format, game, &script)?;
    let a = st.args();
    match &mut base {
        Compiled::Msg(m) => {
            m.dense_table = a[0].args().iter().map(|e| { let x = e.args(); truth::msg::ScriptTableEntry {
                script: sp!(span => if x[0].as_atom() == "zero" { truth::msg::ScriptTableOffset::Zero } else { truth::msg::ScriptTableOffset::Name(ident("n", x[0].as_i64())) }),
                flags: sp!(span => x[1].as_i64() as u32) } }).collect();
            m.scripts = a[1].args().iter().map(|s| { let x = s.args(); (ident("n", x[0].as_i64()), RawScript { instrs: instrs_of(&x[1..]), file_offset: None }) }).collect();
        },
        Compiled::Std(s) => {
            s.unknown = a[0].as_i64() as u32;
            let t = a[1].args();
            s.extra = if a[1].head() == Some("extra06") {
                truth::std::StdExtra::Th06 { stage_name: text_of(&t[0]), bgm: [0, 1, 2, 3].map(|k| truth::std::Std06Bgm { name: text_of(&t[1 + k]), path: text_of(&t[5 + k]) }) }
            } else { truth::std::StdExtra::Th10 { anm_path: text_of(&t[0]) } };
            s.objects = a[2].args().iter().map(|o| { let x = o.args(); (sp!(span => ident("n", x[0].as_i64())), truth::std::Object {
                layer: x[1].as_i64() as u16, pos: f3(x, 2), size: f3(x, 5),
                quads: x[8].args().iter().map(|q| { let y = q.args(); truth::std::Quad { anm_script: y[0].as_i64() as u16, extra:
                    if q.head() == Some("rect") { truth::std::QuadExtra::Rect { pos: f3(y, 1), size: [fl(&y[4]), fl(&y[5])] } }
                    else { truth::std::QuadExtra::Strip { start: f3(y, 1), end: f3(y, 4), width: fl(&y[7]) } } } }).collect() }) }).collect();
            s.instances = a[3].args().iter().map(|i| { let x = i.args(); truth::std::Instance { object: sp!(span => ident("n", x[0].as_i64())), unknown: x[1].as_i64() as u16, pos: f3(x, 2) } }).collect();
            s.script = RawScript { instrs: instrs_of(a[4].args()), file_offset: None };
        },
        Compiled::Mission(m) => match m {
            truth::MissionMsgFile::Th095(x) => {
                x.entries = a.iter().map(|e| { let y = e.args(); let t = y[8].args(); truth::mission::Entry095 {
                    stage: y[0].as_i64() as u16, scene: y[1].as_i64() as u16, face: y[5].as_i64() as u32, point: y[6].as_i64() as u32,
                    text: [text_of(&t[0]), text_of(&t[1]), text_of(&t[2])] } }).collect();
            },
            truth::MissionMsgFile::Th125(x) => {
                x.entries = a.iter().map(|e| { let y = e.args(); let t = y[8].args(); let fu: Vec<u32> = y[7].args().iter().map(|v| v.as_i64() as u32).collect(); truth::mission::Entry125 {
                    stage: y[0].as_i64() as u16, scene: y[1].as_i64() as u16, player: y[2].as_i64() as u16, unknown_1: y[3].as_i64() as u8, unknown_2: y[4].as_i64() as u8,
                    point_1: y[5].as_i64() as u32, point_2: y[6].as_i64() as u32, furigana: [[fu[0], fu[1]], [fu[2], fu[3]], [fu[4], fu[5]]],
                    text: [text_of(&t[0]), text_of(&t[1]), text_of(&t[2]), text_of(&t[3]), text_of(&t[4]), text_of(&t[5])] } }).collect();
            },
        },
        Compiled::Ecl(truth::EclFile::Olde(e)) => {
            e.subs = a[0].args().iter().enumerate().map(|(i, s)| (ident("n", i as i64), RawScript { instrs: instrs_of(s.args()), file_offset: None })).collect();
            e.timelines = a[1].args().iter().map(|s| RawScript { instrs: instrs_of(s.args()), file_offset: None }).collect();
        },
        _ => {},
    }
    Ok(base)
}

// ---------------------------------------------------------------------------------------------
// evaluation

/// the model's diagnostic classes for whole files
pub fn file_err_class(diags: &str) -> String {
    let line = diags.lines().find(|l| l.starts_with("error")).unwrap_or("");
    const TABLE: &[(&[&str], &str)] = &[
        (&["too large for this instruction format", "is reserved for the end-of-script marker", "but this format requires exactly"], "too large for this instruction format"),
        (&["bad instruction size"], "bad instruction size"),
        (&["failed to fill whole buffer", "incomplete word", "unexpected EOF", "UnexpectedEof", "unexpected end of file"], "unexpected EOF"),
        (&["script read past expected end"], "script read past expected end at offset"),
        (&["could not read string using encoding"], "could not read string using encoding"),
        (&["object index too large"], "object index too large"),
        (&["unexpected size for type"], "unexpected size for type"),
        (&["unknown quad type"], "unknown quad type"),
        (&["failed to find magic"], "failed to find magic"),
        (&["unexpected timeline offset"], "unexpected timeline offset"),
        (&["invalid script"], "invalid script"),
        (&["string is too long"], "string is too long"),
        (&["too many objects or quads"], "too many objects or quads for the STD format"),
        (&["no object named"], "no object named"),
        (&["too many timelines"], "too many timelines!"),
        (&["too many subs"], "too many subs!"),
        (&["timeline table has no entries"], "timeline table has no entries"),
    ];
    for (needles, class) in TABLE { if needles.iter().any(|n| line.contains(n)) { return class.to_string(); } }
    crate::util::diag_class(diags)
}

/// `(panic "file:line" msg)` -> `(panic "file" msg)`: the form the model prints
fn strip_panic_line(r: Sexp) -> Sexp {
    if r.head() == Some("panic") {
        let a = r.args();
        let file = a[0].as_atom().split(':').next().unwrap_or("?").to_string();
        return Sexp::app("panic", vec![Sexp::str(file), Sexp::str(a[1].as_atom().to_string())]);
    }
    r
}

pub fn eval_rfile(case: &Sexp) -> Sexp {
    let a = case.args();
    let (kind, variant) = (a[0].as_atom().to_string(), a[1].as_atom().to_string());
    let bytes = unhex(a[3].as_atom());
    let (format, game) = (Format::from_name(a[4].as_atom()), tc::game(a[5].as_atom()));
    strip_panic_line(crate::pool::guarded(std::panic::AssertUnwindSafe(|| {
        let out = tc::with_truth(format, game, &[], |truth| tc::read_bytes(truth, format, game, &bytes));
        match out.value {
            Some(c) => Sexp::app("ok", vec![compiled_sexp(&c, &kind, &variant, Some(&bytes))]),
            None => Sexp::app("err", vec![Sexp::str(file_err_class(&out.diagnostics))]),
        }
    })))
}

pub fn eval_wfile(case: &Sexp) -> Sexp {
    let a = case.args();
    let (format, game) = (Format::from_name(a[3].as_atom()), tc::game(a[4].as_atom()));
    strip_panic_line(crate::pool::guarded(std::panic::AssertUnwindSafe(|| {
        let out = tc::with_truth(format, game, &[], |truth| {
            let c = build_compiled(truth, format, game, &a[2])?;
            tc::write_bytes(truth, format, game, &c)
        });
        match out.value {
            Some(b) => Sexp::app("ok", vec![Sexp::atom(hex(&b))]),
            None => Sexp::app("err", vec![Sexp::str(file_err_class(&out.diagnostics))]),
        }
    })))
}

/// written file read back by the real reader must be the requested structure, up to the documented
/// normalisations (the same ones the Lean theorems state): search oracle over structures
pub fn eval_wrfile(case: &Sexp) -> Sexp {
    let a = case.args();
    let (kind, variant) = (a[0].as_atom().to_string(), a[1].as_atom().to_string());
    let (format, game) = (Format::from_name(a[3].as_atom()), tc::game(a[4].as_atom()));
    if !well_formed(&kind, &a[2]) { return Sexp::app("skip", vec![Sexp::atom("outside-the-round-trip-theorem")]); }
    let out = tc::with_truth(format, game, &[], |truth| {
        let c = build_compiled(truth, format, game, &a[2])?;
        let b = tc::write_bytes(truth, format, game, &c)?;
        Ok(b)
    });
    let bytes = match out.value { Some(b) => b, None => return Sexp::app("rejected", vec![Sexp::str(file_err_class(&out.diagnostics))]) };
    let back = tc::with_truth(format, game, &[], |truth| tc::read_bytes(truth, format, game, &bytes));
    // a count beyond the 16-bit header field gets its own signature (old ECL: sub and timeline counts)
    let wide_count = kind == "ecl" && (a[2].args()[0].args().len() > 0xffff || a[2].args()[1].args().len() > 0xffff);
    let clip = |s: String| -> String { if s.len() > 600 { format!("{}...", &s[..600]) } else { s } };
    match back.value {
        None => super::fail(if wide_count { "ecl-count-does-not-fit-u16".to_string() } else { format!("written-structure-unreadable {kind}") }, format!("{game}: {}", file_err_class(&back.diagnostics))),
        Some(c) => {
            let got = normalise(&kind, &variant, &compiled_sexp(&c, &kind, &variant, Some(&bytes)));
            let want = normalise(&kind, &variant, &a[2]);
            if got == want { Sexp::app("pass", vec![Sexp::int(bytes.len() as i64)]) }
            else { super::fail(if wide_count { "ecl-count-does-not-fit-u16".to_string() } else { format!("written-structure-differs {kind}") }, format!("{game}: wrote {} read {}", clip(want), clip(got))) }
        },
    }
}

/// the hypotheses of the Lean round-trip theorems that a structure can violate (`WfMsg`: every script is
/// referenced by the table; the others are implied by a successful write)
fn well_formed(kind: &str, st: &Sexp) -> bool {
    if kind == "msg" {
        let a = st.args();
        let used: Vec<&str> = a[0].args().iter().map(|e| e.args()[0].as_atom()).collect();
        return a[1].args().iter().all(|s| used.contains(&s.args()[0].as_atom()));
    }
    true
}

/// names renumbered by first appearance, MSG flags dropped where the format has none, TL06 arg0 `none` = 0
fn normalise(kind: &str, variant: &str, st: &Sexp) -> String {
    let mut s = format!("{st}");
    if kind == "msg" {
        let a = st.args();
        let mut names: Vec<String> = vec![];
        let mut num = |x: &Sexp| -> Sexp { let t = x.as_atom().to_string(); let k = match names.iter().position(|n| *n == t) { Some(k) => k, None => { names.push(t); names.len() - 1 } }; Sexp::int(k as i64) };
        let scripts: Vec<Sexp> = a[1].args().iter().map(|sc| { let x = sc.args(); let mut v = vec![num(&x[0])]; v.extend(x[1..].iter().cloned()); Sexp::app("s", v) }).collect();
        let table: Vec<Sexp> = a[0].args().iter().map(|e| { let x = e.args(); Sexp::app("e", vec![if x[0].as_atom() == "zero" { x[0].clone() } else { num(&x[0]) }, if variant == "flags" { x[1].clone() } else { Sexp::int(0) }]) }).collect();
        s = format!("{}", Sexp::app("msg", vec![Sexp::app("table", table), Sexp::app("scripts", scripts)]));
    }
    if kind == "std" {
        let a = st.args();
        let names: Vec<String> = a[2].args().iter().map(|o| o.args()[0].as_atom().to_string()).collect();
        let num = |x: &Sexp| Sexp::int(names.iter().position(|n| n == x.as_atom()).map(|k| k as i64).unwrap_or(-1));
        let objects: Vec<Sexp> = a[2].args().iter().map(|o| { let x = o.args(); let mut v = vec![num(&x[0])]; v.extend(x[1..].iter().cloned()); Sexp::app("o", v) }).collect();
        let instances: Vec<Sexp> = a[3].args().iter().map(|o| { let x = o.args(); let mut v = vec![num(&x[0])]; v.extend(x[1..].iter().cloned()); Sexp::app("i", v) }).collect();
        s = format!("{}", Sexp::app("std", vec![a[0].clone(), a[1].clone(), Sexp::app("objects", objects), Sexp::app("instances", instances), a[4].clone()]));
    }
    s
}

// ---------------------------------------------------------------------------------------------
// generators

pub struct Seed { pub format: Format, pub game: Game, pub kind: &'static str, pub variant: &'static str, pub bytes: Vec<u8>, pub structure: Option<Sexp>, pub origin: &'static str }

fn mission_source(rng: &mut Rng, game: Game) -> gensrc::GenSource {
    let words = ["", "a", "Stage 1", "\u{3042}\u{3044}", "\u{7d05}\u{9b54}\u{90f7}", "|ruby|text", "0123456789012345678901234567890123456789012345678901234567890", "x\\\\y"];
    let mut text = String::new();
    for _ in 0..1 + rng.below(4) {
        let lit = |rng: &mut Rng| format!("\"{}\"", rng.pick(&words));
        let stage = *rng.pick(&[0u32, 1, 9, 12, 255, 256, 300]);
        let scene = *rng.pick(&[0u32, 1, 8, 255, 257]);
        if game == Game::Th095 {
            text.push_str(&format!("entry {{ stage: {stage}, scene: {scene}, face: {}, point: {}, text: [{}, {}, {}] }}\n", rng.below(9), rng.next_u32() >> rng.below(32), lit(rng), lit(rng), lit(rng)));
        } else {
            text.push_str(&format!("entry {{ stage: {stage}, scene: {scene}, player: {}, unknown_1: {}, unknown_2: {}, point_1: {}, point_2: {}, furigana: [[{}, {}], [{}, {}], [{}, {}]], text: [{}, {}, {}, {}, {}, {}] }}\n",
                rng.pick(&[0u32, 1, 2, 255, 256]), rng.below(256), rng.below(256), rng.next_u32() >> rng.below(32), rng.below(1000),
                rng.below(5), rng.below(70), rng.below(5), rng.below(70), rng.below(5), rng.below(70), lit(rng), lit(rng), lit(rng), lit(rng), lit(rng), lit(rng)));
        }
    }
    gensrc::GenSource { format: Format::Mission, game, text, maps: vec![] }
}

/// a generated source of one of the modelled containers
pub fn gen_modelled_source(rng: &mut Rng) -> gensrc::GenSource {
    match rng.below(10) {
        0 | 1 | 2 => { let g = *rng.pick(gensrc::GAMES_MSG); gensrc::gen_msg(rng, g, false) },
        3 => { let g = *rng.pick(gensrc::GAMES_END); gensrc::gen_msg(rng, g, true) },
        4 | 5 | 6 => { let g = *rng.pick(gensrc::GAMES_STD); gensrc::gen_std(rng, g) },
        7 => { let g = *rng.pick(gensrc::GAMES_MISSION); mission_source(rng, g) },
        _ => { let g = *rng.pick(gensrc::GAMES_ECL); gensrc::gen_ecl(rng, g) },
    }
}

/// compile in this process (guarded): the in-memory structure and the written bytes
pub fn compile_seed(g: &gensrc::GenSource) -> Option<Seed> {
    let (kind, variant) = kind_variant(g.format, g.game)?;
    let r = std::panic::catch_unwind(|| {
        tc::with_truth(g.format, g.game, &g.maps, |truth| {
            let script = truth.parse::<truth::ast::ScriptFile>("<input>", g.text.as_bytes())?.value;
            let compiled = tc::compile_ast(truth, g.format, g.game, &script)?;
            let st = compiled_sexp(&compiled, kind, variant, None);
            let bytes = tc::write_bytes(truth, g.format, g.game, &compiled)?;
            Ok((st, bytes))
        }).value
    });
    let (st, bytes) = r.ok().flatten()?;
    Some(Seed { format: g.format, game: g.game, kind, variant, bytes, structure: Some(st), origin: "generated" })
}

pub fn seeds(rng: &mut Rng, n_generated: usize) -> Vec<Seed> {
    let mut out = vec![];
    for (format, game, bytes, _name) in super::c16::bundled_files() {
        if let Some((kind, variant)) = kind_variant(format, game) { out.push(Seed { format, game, kind, variant, bytes, structure: None, origin: "bundled" }); }
    }
    let mut tries = 0;
    while out.iter().filter(|s| s.origin == "generated").count() < n_generated && tries < 4 * n_generated {
        tries += 1;
        let g = gen_modelled_source(rng);
        if let Some(s) = compile_seed(&g) { if s.bytes.len() <= 6000 { out.push(s); } }
    }
    out
}

pub fn rfile_case(s: &Seed, bytes: &[u8]) -> Sexp {
    let bad = undecodable_slots(s.kind, s.variant, bytes);
    Sexp::app("rfile", vec![Sexp::atom(s.kind), Sexp::atom(s.variant), Sexp::list(bad.iter().map(|b| Sexp::atom(hex(b))).collect()),
        Sexp::atom(hex(bytes)), Sexp::atom(s.format.name()), Sexp::atom(format!("{}", s.game))])
}

pub fn wfile_case(head: &str, kind: &str, variant: &str, st: &Sexp, format: Format, game: Game) -> Sexp {
    Sexp::app(head, vec![Sexp::atom(kind), Sexp::atom(variant), st.clone(), Sexp::atom(format.name()), Sexp::atom(format!("{game}"))])
}

const FIELD_VALUES: &[u32] = &[0, 1, 2, 3, 4, 8, 0x10, 0x7f, 0x80, 0xff, 0x100, 0x7fff, 0x8000, 0xfffe, 0xffff, 0x10000, 0x7fffffff, 0x80000000, 0xfffffffc, 0xffffffff];

/// truncations, count / offset / size fields overwritten with boundary values, random damage
pub fn mutants(rng: &mut Rng, s: &Seed, budget: usize) -> Vec<(Vec<u8>, &'static str)> {
    let b = &s.bytes;
    let mut out: Vec<(Vec<u8>, &'static str)> = vec![];
    // every truncation point of small files, a sample of larger ones
    let cuts: Vec<usize> = if b.len() <= budget / 3 { (0..b.len()).collect() } else { (0..budget / 3).map(|_| rng.below(b.len())).collect() };
    for c in cuts { out.push((b[..c].to_vec(), "truncate")); }
    // header and table region: every aligned field, a few values each
    let table_end = match s.kind { "std" => if s.variant == "f06" { 16 + 1152 + 64 } else { 16 + 128 + 64 }, "mission" => 64, _ => 96 }.min(b.len());
    let mut positions: Vec<usize> = (0..16.min(b.len())).step_by(2).collect();
    positions.extend((0..table_end).step_by(4).filter(|p| !(s.kind == "std" && *p >= 16 && *p < table_end - 64)));
    for _ in 0..budget / 3 {
        if positions.is_empty() { break; }
        let p = *rng.pick(&positions);
        let wide = p % 4 == 0 && (p >= 16 || rng.chance(1, 2) || s.kind != "std");
        let v = match rng.below(4) { 0 => (b.len() as u32).wrapping_add(rng.range(-9, 9) as u32), 1 => { let cur = u32::from_le_bytes([b[p], *b.get(p + 1).unwrap_or(&0), *b.get(p + 2).unwrap_or(&0), *b.get(p + 3).unwrap_or(&0)]); cur.wrapping_add(*rng.pick(&[1i32, -1, 2, -2, 4, -4, 8, 12, 16, -16, 20]) as u32) }, _ => *rng.pick(FIELD_VALUES) };
        let mut m = b.clone();
        let w = if wide { 4 } else { 2 };
        for k in 0..w { if p + k < m.len() { m[p + k] = (v >> (8 * k)) as u8; } }
        out.push((m, if wide { "field32" } else { "field16" }));
    }
    // systematic: every aligned dword of the header / table region set to 0, all ones and the file length
    for p in (0..table_end).step_by(4).filter(|p| positions.contains(p)) {
        for v in [0u32, 0xffffffff, b.len() as u32] {
            let mut m = b.clone();
            for k in 0..4 { if p + k < m.len() { m[p + k] = (v >> (8 * k)) as u8; } }
            if m != *b { out.push((m, "field32-sweep")); }
        }
    }
    for _ in 0..budget / 3 { let (m, k) = super::c16::mutate(rng, b); out.push((m, k)); }
    out
}

// structure-level generators: boundary structures no source needs to produce

fn gen_instr_sexp(rng: &mut Rng, fmt: &str, allow_misfit: bool) -> Sexp {
    let fitting = !(allow_misfit && rng.chance(1, 12));
    let (t, o, m, d, e, mut b) = super::instr_io::gen_instr(rng, fmt, fitting);
    b.truncate(if rng.chance(1, 10) { 300 } else { 24 });
    if fmt == "std06" { b.resize(12, 0); }
    // fields the format does not store are left at the value a reader produces
    let (m, d) = match fmt { "msg" | "std06" | "std10" => (0, 255), "anm07" => (m, 255), "ecl06" => (255, d), "ecl07" => (m, d), "tl06" => (0, 255), _ => (0, d) };
    let e = if fmt == "tl06" { e.filter(|&x| !(t == -1 && x == 4)).or(Some(0)) } else { None };
    Sexp::app("instr", super::instr_io::instr_fields(t, o, m, d, e, &b))
}

fn gen_text(rng: &mut Rng, limit: usize) -> Sexp {
    let pool = ["", "a", "bgm/th06_01.mid", "\u{3042}\u{3044}\u{3046}", "\u{7d05}\u{9b54}\u{90f7}", "Stage 1"];
    let s = if rng.chance(1, 3) { let n = *rng.pick(&[limit - 2, limit - 1, limit, limit + 1, 2 * limit]); "x".repeat(n) } else { rng.pick(&pool).to_string() };
    Sexp::atom(hex(&encode(&s).unwrap_or_default()))
}

fn gen_f(rng: &mut Rng) -> Sexp { Sexp::int(rng.float_bits() as i64) }

pub fn gen_structure(rng: &mut Rng) -> (Format, Game, &'static str, &'static str, Sexp) {
    match rng.below(8) {
        0 | 1 | 2 => {
            let game = *rng.pick(gensrc::GAMES_MSG);
            let (kind, variant) = kind_variant(Format::Msg, game).unwrap();
            let nscripts = rng.below(4);
            let names: Vec<i64> = (0..nscripts as i64).map(|i| i * 7 + rng.below(3) as i64).collect();
            let scripts: Vec<Sexp> = names.iter().map(|&n| { let mut v = vec![Sexp::int(n)]; for _ in 0..rng.below(4) { v.push(if rng.chance(1, 6) { Sexp::app("instr", super::instr_io::instr_fields(0, 0, 0, 255, None, &[])) } else { gen_instr_sexp(rng, "msg", true) }); } Sexp::app("s", v) }).collect();
            let mut table = vec![];
            let style = rng.below(4);   // 0: every script once in order, 1: shuffled with repeats, 2: with zero entries / unknown names / unused scripts
            if style == 0 { for &n in &names { table.push((Some(n), 0u32)); } }
            else {
                for &n in &names { if style == 1 || rng.chance(4, 5) { table.push((Some(n), 0)); } }
                for _ in 0..rng.below(5) { table.push(if names.is_empty() || rng.chance(1, 4) { (None, 0) } else { (Some(*rng.pick(&names)), 0) }); }
                if style == 3 && rng.chance(1, 3) { table.push((Some(99), 0)); }
                rng.shuffle(&mut table);
            }
            let table: Vec<Sexp> = table.into_iter().map(|(n, _)| Sexp::app("e", vec![match n { Some(n) => Sexp::int(n), None => Sexp::atom("zero") }, Sexp::int(if rng.chance(1, 3) { *rng.pick(&[1u32, 256, 0xffffffff]) as i64 } else { 0 })])).collect();
            (Format::Msg, game, kind, variant, Sexp::app("msg", vec![Sexp::app("table", table), Sexp::app("scripts", scripts)]))
        },
        3 | 4 | 5 => {
            let game = *rng.pick(gensrc::GAMES_STD);
            let (kind, variant) = kind_variant(Format::Std, game).unwrap();
            let extra = if variant == "f06" { Sexp::app("extra06", (0..9).map(|_| gen_text(rng, 128)).collect()) } else { Sexp::app("extra10", vec![gen_text(rng, 128)]) };
            let nobj = rng.below(4);
            let objects: Vec<Sexp> = (0..nobj).map(|i| {
                let mut v = vec![Sexp::int(10 + 3 * i as i64), Sexp::int(*rng.pick(&[0u32, 1, 255, 256, 65535]) as i64)];
                for _ in 0..6 { v.push(gen_f(rng)); }
                v.push(Sexp::app("quads", (0..rng.below(4)).map(|_| {
                    let anm = Sexp::int(*rng.pick(&[0u32, 1, 255, 65535]) as i64);
                    if rng.chance(1, 3) { let mut w = vec![anm]; for _ in 0..7 { w.push(gen_f(rng)); } Sexp::app("strip", w) } else { let mut w = vec![anm]; for _ in 0..5 { w.push(gen_f(rng)); } Sexp::app("rect", w) }
                }).collect()));
                Sexp::app("o", v)
            }).collect();
            let instances: Vec<Sexp> = (0..rng.below(5)).map(|_| {
                let name = if nobj == 0 || rng.chance(1, 10) { 999 } else { 10 + 3 * rng.below(nobj) as i64 };
                Sexp::app("i", vec![Sexp::int(name), Sexp::int(*rng.pick(&[0u32, 256, 65535]) as i64), gen_f(rng), gen_f(rng), gen_f(rng)])
            }).collect();
            let ifmt = if variant == "f06" { "std06" } else { "std10" };
            let script: Vec<Sexp> = (0..rng.below(4)).map(|_| gen_instr_sexp(rng, ifmt, true)).collect();
            (Format::Std, game, kind, variant, Sexp::app("std", vec![Sexp::int(rng.next_u32() as i64 >> rng.below(32)), extra, Sexp::app("objects", objects), Sexp::app("instances", instances), Sexp::app("script", script)]))
        },
        6 => {
            let game = *rng.pick(gensrc::GAMES_MISSION);
            let (kind, variant) = kind_variant(Format::Mission, game).unwrap();
            let lines = if game == Game::Th095 { 3 } else { 6 };
            let entries: Vec<Sexp> = (0..rng.below(4)).map(|_| Sexp::app("e", vec![
                Sexp::int(*rng.pick(&[0u32, 1, 255, 256, 65535]) as i64), Sexp::int(*rng.pick(&[0u32, 3, 255, 257, 65535]) as i64),
                Sexp::int(if game == Game::Th095 { 0 } else { *rng.pick(&[0u32, 1, 255, 300]) as i64 }), Sexp::int(if game == Game::Th095 { 0 } else { rng.below(256) as i64 }), Sexp::int(if game == Game::Th095 { 0 } else { rng.below(256) as i64 }),
                Sexp::int(rng.next_u32() as i64), Sexp::int(rng.next_u32() as i64 >> rng.below(32)),
                Sexp::app("fur", if game == Game::Th095 { vec![] } else { (0..6).map(|_| Sexp::int(rng.next_u32() as i64 >> rng.below(32))).collect() }),
                Sexp::app("text", (0..lines).map(|_| gen_text(rng, 64)).collect())])).collect();
            (Format::Mission, game, kind, variant, Sexp::app("mission", entries))
        },
        _ => {
            let game = *rng.pick(gensrc::GAMES_ECL);
            let (kind, variant) = kind_variant(Format::Ecl, game).unwrap();
            let efmt = if game == Game::Th06 { "ecl06" } else { "ecl07" };
            let tfmt = if game <= Game::Th07 { "tl06" } else { "tl08" };
            let ntl = *rng.pick(&[0usize, 1, 1, 1, 2, 3, 15, 16, 17]);
            let subs: Vec<Sexp> = (0..rng.below(4)).map(|_| Sexp::app("s", (0..rng.below(4)).map(|_| gen_instr_sexp(rng, efmt, true)).collect())).collect();
            let tls: Vec<Sexp> = (0..ntl).map(|_| Sexp::app("s", (0..rng.below(3)).map(|_| gen_instr_sexp(rng, tfmt, true)).collect())).collect();
            (Format::Ecl, game, kind, variant, Sexp::app("ecl", vec![Sexp::app("subs", subs), Sexp::app("timelines", tls)]))
        },
    }
}

/// the file-level cases of C03 (`write = true`) and C16
pub fn gen_cases(rng: &mut Rng, scale: usize, for_c16: bool) -> Vec<Case> {
    let mut out = vec![];
    let seeds = seeds(rng, if for_c16 { 40 * scale.min(6) } else { 60 * scale.min(8) });
    for s in &seeds {
        out.push(Case::corr(rfile_case(s, &s.bytes)).tag(format!("rfile-pristine-{}-{}", s.origin, s.kind)).trivial(for_c16));
        if let (false, Some(st)) = (for_c16, &s.structure) {
            out.push(Case::corr(wfile_case("wfile", s.kind, s.variant, st, s.format, s.game)).tag(format!("wfile-compiled-{}", s.kind)));
        }
        if for_c16 {
            let budget = if s.origin == "bundled" { 150 * scale } else { 90 * scale.min(12) };
            for (m, kind) in mutants(rng, s, budget) {
                out.push(Case::corr(rfile_case(s, &m)).tag(format!("rfile-{}-{}", kind, s.kind)));
            }
        }
    }
    if for_c16 {
        // random bytes as every container
        let shapes: &[(Format, Game)] = &[(Format::Msg, Game::Th06), (Format::Msg, Game::Th12), (Format::Std, Game::Th07), (Format::Std, Game::Th12), (Format::Mission, Game::Th095), (Format::Mission, Game::Th125),
            (Format::Ecl, Game::Th06), (Format::Ecl, Game::Th07), (Format::Ecl, Game::Th08), (Format::Ecl, Game::Th09)];
        for _ in 0..60 * scale {
            let (format, game) = *rng.pick(shapes);
            let (kind, variant) = kind_variant(format, game).unwrap();
            let n = rng.below(200);
            let style = rng.below(6);   // mostly zero / mostly ones / small numbers / noise
            let by: Vec<u8> = (0..n).map(|_| match style { 0 => 0, 1 => if rng.chance(1, 12) { rng.below(4) as u8 } else { 0 }, 2 => 0xff, _ => match rng.below(4) { 0 => 0, 1 => 0xff, 2 => rng.below(8) as u8, _ => rng.next_u32() as u8 } }).collect();
            let s = Seed { format, game, kind, variant, bytes: by, structure: None, origin: "random" };
            out.push(Case::corr(rfile_case(&s, &s.bytes)).tag(format!("rfile-random-{kind}")));
        }
    } else {
        // counts at and beyond the 16-bit header fields of old ECL files
        for (game, nsubs, ntl) in [(Game::Th07, 65535usize, 1usize), (Game::Th07, 65536, 1), (Game::Th09, 1, 65535), (Game::Th09, 2, 65537)] {
            let (kind, variant) = kind_variant(Format::Ecl, game).unwrap();
            let st = Sexp::app("ecl", vec![Sexp::app("subs", (0..nsubs).map(|_| Sexp::app("s", vec![])).collect()), Sexp::app("timelines", (0..ntl).map(|_| Sexp::app("s", vec![])).collect())]);
            out.push(Case::corr(wfile_case("wfile", kind, variant, &st, Format::Ecl, game)).tag("wfile-count-boundary-ecl"));
            out.push(Case::search(wfile_case("wrfile", kind, variant, &st, Format::Ecl, game)).tag("wrfile-count-boundary-ecl"));
        }
        // counts at and beyond the 16-bit header fields of STD files (the writer must refuse 65536)
        for nquads in [65535usize, 65536] {
            let quad = Sexp::app("rect", (0..6).map(|_| Sexp::int(0)).collect());
            let obj = Sexp::app("o", vec![Sexp::int(0), Sexp::int(0), Sexp::int(0), Sexp::int(0), Sexp::int(0), Sexp::int(0), Sexp::int(0), Sexp::int(0), Sexp::app("quads", (0..nquads).map(|_| quad.clone()).collect())]);
            let st = Sexp::app("std", vec![Sexp::int(0), Sexp::app("extra10", vec![Sexp::atom("x61")]), Sexp::app("objects", vec![obj]), Sexp::app("instances", vec![]), Sexp::app("script", vec![])]);
            out.push(Case::corr(wfile_case("wfile", "std", "f10", &st, Format::Std, Game::Th10)).tag("wfile-count-boundary-std"));
        }
        for (game, field, values) in META_FIELDS {
            for &v in *values {
                out.push(Case::search(Sexp::app("metafield", vec![Sexp::atom(format!("{game}")), Sexp::atom(*field), Sexp::int(v)])).tag(format!("metafield-{field}")));
            }
        }
        for _ in 0..400 * scale {
            let (format, game, kind, variant, st) = gen_structure(rng);
            out.push(Case::corr(wfile_case("wfile", kind, variant, &st, format, game)).tag(format!("wfile-structure-{kind}")));
            out.push(Case::search(wfile_case("wrfile", kind, variant, &st, format, game)).tag(format!("wrfile-structure-{kind}")));
        }
    }
    out
}

// ---------------------------------------------------------------------------------------------
// numeric meta fields narrower than the source integer (STD, mission MSG, ANM entry header): a value that fits must be
// stored as asked, a value that does not fit must be rejected with a diagnostic (repaired by a8b1720 / c69e070; a silent
// narrowing that comes back is reported under the old signatures)

const W16: &[i64] = &[0, 1, 255, 256, 65535, 65536, 65537, 70000, 2147483647];
const W8: &[i64] = &[0, 1, 255, 256, 257, 65536];
/// fields parsed from a signed meta integer: negative values do not fit either
const S16: &[i64] = &[0, 1, 255, 256, 65535, 65536, 65537, 70000, 2147483647, -1, -32768];
const S8: &[i64] = &[0, 1, 255, 256, 257, 65536, -1];
pub const META_FIELDS: &[(Game, &str, &[i64])] = &[
    (Game::Th08, "std.layer", S16), (Game::Th12, "std.layer", S16), (Game::Th12, "std.anm_script", S16), (Game::Th08, "std.strip_anm_script", S16), (Game::Th12, "std.instance_unknown", S16),
    (Game::Th095, "mission.stage", S16), (Game::Th095, "mission.scene", S16), (Game::Th125, "mission.stage", S16), (Game::Th125, "mission.player", S16),
    (Game::Th125, "mission.unknown_1", S8), (Game::Th125, "mission.unknown_2", S8),
    // ANM entry header fields are 16 bits wide since TH11 (version 7; 32 bits and no offset_x / offset_y before)
    (Game::Th12, "anm.rt_width", W16), (Game::Th12, "anm.rt_height", W16), (Game::Th12, "anm.rt_format", W16), (Game::Th12, "anm.offset_x", W16), (Game::Th14, "anm.offset_y", W16),
    (Game::Th06, "anm.rt_width", W16), (Game::Th10, "anm.rt_height", W16),
];

pub fn eval_metafield(case: &Sexp) -> Sexp {
    let a = case.args();
    let game = tc::game(a[0].as_atom());
    let field = a[1].as_atom();
    let v = a[2].as_i64();
    let pick = |name: &str, default: i64| if field.ends_with(name) && field.split('.').nth(1) == Some(name) { v } else { default };
    let (format, text) = if field.starts_with("std.") {
        let head = if game < Game::Th095 { "unknown: 0, stage_name: \"a\", bgm: [{path: \"a\", name: \"a\"}, {path: \"a\", name: \"a\"}, {path: \"a\", name: \"a\"}, {path: \"a\", name: \"a\"}]" } else { "unknown: 0, anm_path: \"a.anm\"" };
        let quad = if field == "std.strip_anm_script" { format!("strip {{anm_script: {v}, start: [0.0, 0.0, 0.0], end: [1.0, 1.0, 1.0], width: 2.0}}") } else { format!("rect {{anm_script: {}, pos: [0.0, 0.0, 0.0], size: [1.0, 1.0]}}", pick("anm_script", 3)) };
        (Format::Std, format!("meta {{ {head}, objects: {{ obj0: {{layer: {}, pos: [0.0, 0.0, 0.0], size: [1.0, 1.0, 1.0], quads: [{quad}]}} }}, instances: [obj0 {{unknown: {}, pos: [0.0, 0.0, 0.0]}}] }}\nscript main {{ }}\n", pick("layer", 2), pick("instance_unknown", 256)))
    } else if field.starts_with("anm.") {
        let offsets = if game < Game::Th11 { String::new() } else { format!(" offset_x: {}, offset_y: {},", pick("offset_x", 0), pick("offset_y", 0)) };
        (Format::Anm, format!("entry {{ path: \"a.png\", has_data: false, img_width: 16, img_height: 16, img_format: 3, rt_width: {}, rt_height: {}, rt_format: {},{offsets} colorkey: 0, memory_priority: 0, low_res_scale: false, sprites: {{}} }}\nscript s {{ }}\n",
            pick("rt_width", 16), pick("rt_height", 16), pick("rt_format", 3)))
    } else if game == Game::Th095 {
        (Format::Mission, format!("entry {{ stage: {}, scene: {}, face: 1, point: 2, text: [\"a\", \"b\", \"c\"] }}\n", pick("stage", 1), pick("scene", 2)))
    } else {
        (Format::Mission, format!("entry {{ stage: {}, scene: {}, player: {}, unknown_1: {}, unknown_2: {}, point_1: 1, point_2: 2, furigana: [[0, 0], [1, 2], [3, 4]], text: [\"a\", \"b\", \"c\", \"d\", \"e\", \"f\"] }}\n",
            pick("stage", 1), pick("scene", 2), pick("player", 0), pick("unknown_1", 0), pick("unknown_2", 0)))
    };
    // the width of the field that stores the value (ANM headers before TH11 are 32 bits wide)
    let max: i64 = if field.ends_with("unknown_1") || field.ends_with("unknown_2") { 255 } else if format == Format::Anm && game < Game::Th11 { u32::MAX as i64 } else { 65535 };
    let fits = 0 <= v && v <= max;
    let c = tc::compile(format, game, &[], text.as_bytes());
    let bytes = match c.value {
        Some(b) => b,
        None => return if !c.has_error_diag() { super::fail("compile-fails-without-error-diagnostic", format!("{} {game}", format.name())) }
            else if fits { super::fail(format!("meta-field-rejected-although-it-fits {}", format.name()), format!("{game}: {field} = {v}: {}", crate::util::diag_class(&c.diagnostics))) }
            else { Sexp::app("rejected", vec![Sexp::str(crate::util::diag_class(&c.diagnostics))]) },
    };
    let back = tc::with_truth(format, game, &[], |truth| tc::read_bytes(truth, format, game, &bytes));
    let stored: i64 = match back.value {
        Some(Compiled::Std(s)) => { let o = s.objects.values().next(); match field {
            "std.layer" => o.map(|o| o.layer as i64).unwrap_or(-1),
            "std.anm_script" | "std.strip_anm_script" => o.and_then(|o| o.quads.first()).map(|q| q.anm_script as i64).unwrap_or(-1),
            _ => s.instances.first().map(|i| i.unknown as i64).unwrap_or(-1) } },
        Some(Compiled::Anm(f)) => f.entries.first().map(|e| match field { "anm.rt_width" => e.specs.rt_width as i64, "anm.rt_height" => e.specs.rt_height as i64, "anm.rt_format" => e.specs.rt_format as i64,
            "anm.offset_x" => e.specs.offset_x as i64, _ => e.specs.offset_y as i64 }).unwrap_or(-1),
        Some(Compiled::Mission(truth::MissionMsgFile::Th095(m))) => m.entries.first().map(|e| if field == "mission.stage" { e.stage as i64 } else { e.scene as i64 }).unwrap_or(-1),
        Some(Compiled::Mission(truth::MissionMsgFile::Th125(m))) => m.entries.first().map(|e| match field { "mission.stage" => e.stage as i64, "mission.scene" => e.scene as i64, "mission.player" => e.player as i64, "mission.unknown_1" => e.unknown_1 as i64, _ => e.unknown_2 as i64 }).unwrap_or(-1),
        _ => return super::fail(format!("written-file-unreadable {}", format.name()), format!("{game}: {}", file_err_class(&back.diagnostics))),
    };
    if stored == v && fits { Sexp::app("pass", vec![]) }
    else { super::fail(format!("meta-field-stored-different {}", format.name()), format!("{game}: source asks for {field} = {v}, the file stores {stored}; exit status 0, no diagnostic")) }
}

// ---------------------------------------------------------------------------------------------
// offset tables whose entries share one target: the reader materialises the target once per entry

fn put16(v: &mut Vec<u8>, x: u16) { v.extend_from_slice(&x.to_le_bytes()); }
fn put32(v: &mut Vec<u8>, x: u32) { v.extend_from_slice(&x.to_le_bytes()); }

/// STD (TH10+ layout) with `n` object offsets that all point at one object of `q` quads
pub fn shared_offsets_std(n: usize, q: usize) -> Vec<u8> {
    let hdr = 16 + 128 + 4 * n;
    let mut obj = vec![];
    put16(&mut obj, 0); put16(&mut obj, 0);
    for x in [0f32, 0.0, 0.0, 1.0, 1.0, 1.0] { put32(&mut obj, x.to_bits()); }
    for _ in 0..q { put16(&mut obj, 0); put16(&mut obj, 0x1c); put16(&mut obj, 0); put16(&mut obj, 0); for x in [0f32, 0.0, 0.0, 1.0, 1.0] { put32(&mut obj, x.to_bits()); } }
    put16(&mut obj, 0xffff); put16(&mut obj, 4);
    let inst_off = hdr + obj.len();
    let mut f = vec![];
    put16(&mut f, n as u16); put16(&mut f, q as u16); put32(&mut f, inst_off as u32); put32(&mut f, (inst_off + 16) as u32); put32(&mut f, 0);
    let mut name = b"a.anm".to_vec(); name.resize(128, 0); f.extend(name);
    for _ in 0..n { put32(&mut f, hdr as u32); }
    f.extend(obj); f.extend([0xffu8; 16]); f.extend([0xffu8; 20]);
    f
}

/// EoSD ECL with `n` sub offsets that all point at one sub of `k` instructions
pub fn shared_offsets_ecl06(n: usize, k: usize) -> Vec<u8> {
    let hdr = 4 + 12 + 4 * n;
    let mut sub = vec![];
    for _ in 0..k { put32(&mut sub, 0); put16(&mut sub, 0); put16(&mut sub, 12); put16(&mut sub, 0xff00); put16(&mut sub, 0xff); }
    let term = |v: &mut Vec<u8>| { put32(v, 0xffffffff); put16(v, 0xffff); put16(v, 12); put16(v, 0xff00); put16(v, 0xff); };
    term(&mut sub);
    let tl_off = hdr + sub.len();
    let mut f = vec![];
    put16(&mut f, n as u16); put16(&mut f, 0);
    put32(&mut f, tl_off as u32); put32(&mut f, 0); put32(&mut f, 0);
    for _ in 0..n { put32(&mut f, hdr as u32); }
    f.extend(sub);
    put16(&mut f, 0xffff); put16(&mut f, 4);
    f
}

/// read only (no decompilation): peak heap of the real reader against the bound of the property
pub fn eval_readalloc(case: &Sexp) -> Sexp {
    let a = case.args();
    let (format, game) = (Format::from_name(a[0].as_atom()), tc::game(a[1].as_atom()));
    let bytes = unhex(a[2].as_atom());
    let base = crate::alloc::reset_peak();
    let out = tc::with_truth(format, game, &[], |truth| tc::read_bytes(truth, format, game, &bytes).map(|_| ()));
    let peak = crate::alloc::peak_above(base);
    let bound = 64 * bytes.len() + (64 << 20);
    if peak > bound { return super::fail(format!("excessive-allocation offset-table-amplification {}", format.name()), format!("{game}: peak {} bytes for {} input bytes (bound 64 x input + 64 MiB = {})", peak, bytes.len(), bound)); }
    match out.value { Some(()) => Sexp::app("ok", vec![Sexp::int((peak >> 20) as i64)]), None => Sexp::app("err", vec![Sexp::str(file_err_class(&out.diagnostics))]) }
}

pub fn amplification_cases() -> Vec<Case> {
    let mut out = vec![];
    for (format, game, bytes) in [(Format::Std, Game::Th10, shared_offsets_std(8000, 400)), (Format::Std, Game::Th10, shared_offsets_std(40, 40)),
                                   (Format::Ecl, Game::Th06, shared_offsets_ecl06(5000, 300)), (Format::Ecl, Game::Th06, shared_offsets_ecl06(30, 30))] {
        out.push(Case::search(Sexp::app("readalloc", vec![Sexp::atom(format.name()), Sexp::atom(format!("{game}")), Sexp::atom(hex(&bytes))])).tag(format!("readalloc-shared-offsets-{}", format.name())));
    }
    out
}
