//! C20 — a name used in a script compiles to the id its target has in the output file.
//!
//! A case is an abstract *layout* (not source text); the harness renders it to source, compiles it
//! with the real implementation (`tc::compile`), parses the written bytes with the independent
//! `layout` parser and (a) compares the argument values found in the emitted instructions with the
//! ids / indices / offsets found in the tables of the same file, (b) prints a canonical result that is
//! compared with `Model/Ids.lean` run on the same layout.
//!
//! Case grammar (shared with lean/TruthModel/Driver/C20.lean):
//!   (anm GAME item..)   item = (entry (sp NAME none|EXPR)..) | (script NAME none|INT MARKER ref..) | (const NAME EXPR)
//!                       ref  = (ref sprite|script QUAL NAME OP PIDX)      EXPR = (i N)|(nm NAME)|(add a b)|(sub a b)|(mul a b)|(neg a)
//!   (ecl GAME item..)   item = (tl NAME none|INT MARKER ref..) | (sub NAME MARKER ref..)      ref = (ref NAME OP PIDX raw|call)
//!   (msg GAME (table (IDX NAME|0 FLAGS)..) (default NAME|0 FLAGS)|none LEN|none (scripts (NAME MARKER BLOBLEN..)..) METAPOS)
//!   (std GAME (objects NAME..) (instances NAME..))
//! Results: (ok ..) as printed by the model, (err CLASS), or (fail SIGNATURE DETAIL) from oracle (a).

use super::{Case, Prop, Tier, fail};
use crate::rng::Rng;
use crate::sexp::Sexp;
use crate::tc::{self, Format};
use crate::gensrc::{self, parse_sig, SigParam};
use crate::layout::{self, Instr};
use truth::{Game, LanguageKey};
use std::collections::{BTreeMap, HashMap};
use std::sync::Mutex;

pub struct C20;

const MARKER_OP: u16 = 250;
const FILLER_OP: u16 = 7;

// ------------------------------------------------------------------------------------------ signature sites

fn sig_table(game: Game, lang: LanguageKey) -> Vec<(i32, String)> {
    static CACHE: Mutex<Option<HashMap<(String, String), Vec<(i32, String)>>>> = Mutex::new(None);
    let key = (format!("{game}"), format!("{lang:?}"));
    let mut g = CACHE.lock().unwrap();
    let map = g.get_or_insert_with(HashMap::new);
    map.entry(key).or_insert_with(|| gensrc::signatures(game, lang)).clone()
}

fn sig_of(game: Game, lang: LanguageKey, op: i32) -> Option<Vec<SigParam>> {
    sig_table(game, lang).iter().find(|(o, _)| *o == op).map(|(_, s)| parse_sig(s))
}

fn simple_params(ps: &[SigParam]) -> bool { ps.iter().all(|p| "SsUuCcbfnNE_-".contains(p.ch)) }

fn enum_of(p: &SigParam) -> Option<&'static str> {
    if p.attrs.contains("enum=\"AnmSprite\"") { return Some("AnmSprite"); }
    if p.attrs.contains("enum=\"AnmScript\"") { return Some("AnmScript"); }
    if p.attrs.contains("enum=\"EclSub\"") { return Some("EclSub"); }
    if p.attrs.contains("enum=") { return None; }
    match p.ch { 'n' => Some("AnmSprite"), 'N' => Some("AnmScript"), 'E' => Some("EclSub"), _ => None }
}

/// (opcode, parameter index) of every position of the built-in table where a name of `enum_name` is expected
fn sites(game: Game, lang: LanguageKey, enum_name: &str) -> Vec<(i32, usize)> {
    let mut out = vec![];
    for (op, sig) in sig_table(game, lang) {
        if op < 0 || op == MARKER_OP as i32 { continue; }
        let ps = parse_sig(&sig);
        if !simple_params(&ps) { continue; }
        for (i, p) in ps.iter().enumerate() {
            if enum_of(p) == Some(enum_name) { out.push((op, i)); }
        }
    }
    out
}

fn call_opcode(game: Game) -> i32 { match game { Game::Th06 => 35, Game::Th07 => 41, _ => 52 } }

/// `ins_OP(...)` with `arg` at parameter `pidx` and zeros elsewhere
fn render_call(ps: &[SigParam], op: i32, pidx: usize, arg: &str) -> String {
    let mut args = vec![];
    for (i, p) in ps.iter().enumerate() {
        if p.ch == '_' || p.ch == '-' { continue; }
        if i == pidx { args.push(arg.to_string()); }
        else if p.ch == 'f' { args.push("0.0".into()); }
        else { args.push("0".into()); }
    }
    format!("ins_{op}({});", args.join(", "))
}

fn marker_stmt(m: i64) -> String {
    let v = 0x4d00_0000u32 | (m as u32 & 0xffff);
    let b = v.to_le_bytes();
    format!("ins_{MARKER_OP}(@blob=\"{:02x}{:02x}{:02x}{:02x}\");", b[0], b[1], b[2], b[3])
}

fn marker_of(instrs: &[Instr]) -> Option<i64> {
    let i = instrs.first()?;
    if i.opcode != MARKER_OP || i.blob.len() != 4 { return None; }
    let v = u32::from_le_bytes([i.blob[0], i.blob[1], i.blob[2], i.blob[3]]);
    if v >> 16 != 0x4d00 { return None; }
    Some((v & 0xffff) as i64)
}

fn loc_sig(ps: &[SigParam]) -> Vec<(char, String)> { ps.iter().map(|p| (p.ch, p.attrs.clone())).collect() }

/// value of parameter `pidx` of an emitted instruction
fn arg_value(ps: &[SigParam], pidx: usize, instr: &Instr) -> Result<i64, String> {
    let (off, w, in_header) = layout::param_location(&loc_sig(ps), pidx).ok_or("parameter not locatable")?;
    if in_header { return Ok(instr.extra as i64); }
    layout::int_at(&instr.blob, off, w)
}

// ------------------------------------------------------------------------------------------ diagnostics

fn err_class(diags: &str) -> String {
    let first = diags.lines().find(|l| l.starts_with("error")).unwrap_or("");
    let table: &[(&str, &str)] = &[
        ("duplicate metadata field", "dup-field"), ("duplicate script", "dup-script"), ("redefinition of script", "dup-script"),
        ("no enum const", "unknown-name"), ("invalid script", "unknown-name"), ("no object named", "unknown-name"),
        ("cycle in const definition", "cycle"), ("depends on its own value", "cycle"), ("ambiguous value for", "ambiguous-value"), ("ambiguous enum const", "ambiguous-enum"),
        ("orphaned ANM script", "orphan-script"), ("empty ANM script", "empty-anm"),
        ("script number too large", "script-number-too-large"), ("too many objects or quads", "std-too-many"),
        ("negative timeline", "tl-negative"), ("missing timeline", "tl-missing"), ("duplicate timeline", "tl-duplicate"), ("too many timelines", "tl-too-many"),
    ];
    for (pat, cls) in table { if first.contains(pat) { return cls.to_string(); } }
    if first.starts_with("error: unknown ") && (first.contains("variable") || first.contains("register") || first.contains("instruction or function")) { return "unknown-name".into(); }
    crate::util::diag_class(diags)
}

fn rejected<T>(out: &tc::Outcome<T>, what: &str) -> Sexp {
    if !out.has_error_diag() { return fail("compile-fails-without-error-diagnostic", what.to_string()); }
    Sexp::app("err", vec![Sexp::str(err_class(&out.diagnostics))])
}

// ------------------------------------------------------------------------------------------ expressions

fn expr_text(e: &Sexp) -> String {
    let a = e.args();
    match e.head() {
        Some("i") => { let v = a[0].as_i64(); if v < 0 { format!("({v})") } else { format!("{v}") } },
        Some("nm") => a[0].as_atom().to_string(),
        Some("add") => format!("({} + {})", expr_text(&a[0]), expr_text(&a[1])),
        Some("sub") => format!("({} - {})", expr_text(&a[0]), expr_text(&a[1])),
        Some("mul") => format!("({} * {})", expr_text(&a[0]), expr_text(&a[1])),
        Some("neg") => format!("(-{})", expr_text(&a[0])),
        _ => "0".into(),
    }
}

fn expr_names(e: &Sexp, out: &mut Vec<String>) {
    match e.head() {
        Some("nm") => out.push(e.args()[0].as_atom().to_string()),
        Some("i") => {},
        _ => for x in e.args() { expr_names(x, out); },
    }
}

fn opt_int(s: &Sexp) -> Option<i64> { if matches!(s, Sexp::Atom(a) if a == "none") { None } else { Some(s.as_i64()) } }

// ------------------------------------------------------------------------------------------ ANM

struct AnmSprite { name: String, id: Option<Sexp>, entry: usize }
struct AnmRef { kind: String, qual: bool, name: String, op: i32, pidx: usize }
struct AnmScript { name: String, number: Option<i64>, marker: i64, refs: Vec<AnmRef>, entry: Option<usize> }

fn render_anm(case: &Sexp, game: Game) -> (String, Vec<AnmSprite>, Vec<AnmScript>, Vec<String>, usize) {
    let mut text = String::new();
    let (mut sprites, mut scripts, mut consts) = (vec![], vec![], vec![]);
    let mut nentries = 0usize;
    for item in &case.args()[1..] {
        let a = item.args();
        match item.head() {
            Some("entry") => {
                text.push_str(&format!("entry {{\n    path: \"subdir/file{nentries}.png\",\n    has_data: false,\n    img_width: 16,\n    img_height: 16,\n    img_format: 3,\n    sprites: {{\n"));
                for sp in a {
                    let f = sp.args();
                    let id = if matches!(&f[1], Sexp::Atom(x) if x == "none") { None } else { Some(f[1].clone()) };
                    let idt = id.as_ref().map(|e| format!(", id: {}", expr_text(e))).unwrap_or_default();
                    text.push_str(&format!("        {}: {{x: 0.0, y: 0.0, w: 1.0, h: 1.0{idt}}},\n", f[0].as_atom()));
                    sprites.push(AnmSprite { name: f[0].as_atom().to_string(), id, entry: nentries });
                }
                text.push_str("    },\n}\n\n");
                nentries += 1;
            },
            Some("script") => {
                let number = opt_int(&a[1]);
                let marker = a[2].as_i64();
                let mut refs = vec![];
                let num = number.map(|n| format!("{n} ")).unwrap_or_default();
                text.push_str(&format!("script {num}{} {{\n    {}\n", a[0].as_atom(), marker_stmt(marker)));
                for r in &a[3..] {
                    let f = r.args();
                    let rf = AnmRef { kind: f[0].as_atom().to_string(), qual: f[1].as_atom() == "1", name: f[2].as_atom().to_string(), op: f[3].as_i32(), pidx: f[4].as_usize() };
                    let arg = if rf.qual { format!("{}.{}", if rf.kind == "sprite" { "AnmSprite" } else { "AnmScript" }, rf.name) } else { rf.name.clone() };
                    match sig_of(game, LanguageKey::Anm, rf.op) {
                        Some(ps) => text.push_str(&format!("    {}\n", render_call(&ps, rf.op, rf.pidx, &arg))),
                        None => text.push_str(&format!("    ins_{}({arg});\n", rf.op)),
                    }
                    refs.push(rf);
                }
                text.push_str("}\n\n");
                scripts.push(AnmScript { name: a[0].as_atom().to_string(), number, marker, refs, entry: nentries.checked_sub(1) });
            },
            Some("const") => {
                text.push_str(&format!("const int {} = {};\n\n", a[0].as_atom(), expr_text(&a[1])));
                consts.push(a[0].as_atom().to_string());
            },
            _ => {},
        }
    }
    (text, sprites, scripts, consts, nentries)
}

fn eval_anm(case: &Sexp) -> Sexp {
    let game = tc::game(case.args()[0].as_atom());
    let (text, sprites, scripts, consts, nentries) = render_anm(case, game);
    let out = tc::compile(Format::Anm, game, &[], text.as_bytes());
    let bytes = match &out.value { Some(b) => b.clone(), None => return rejected(&out, &text) };
    let entries = match layout::parse_anm(&bytes, game >= Game::Th11, game == Game::Th06) { Ok(e) => e, Err(e) => return fail("anm-output-not-parsable", e) };

    // (a) tables of the written file against the source layout
    if entries.len() != nentries { return fail("anm-entry-count-differs", format!("{} entries written for {nentries}", entries.len())); }
    let mut written: Vec<u32> = vec![];
    for (k, e) in entries.iter().enumerate() {
        let want = sprites.iter().filter(|s| s.entry == k).count();
        if e.sprite_ids.len() != want { return fail("anm-sprite-count-differs", format!("entry {k}: {} sprites written for {want}", e.sprite_ids.len())); }
        written.extend(&e.sprite_ids);
    }
    // documented numbering rule on the written ids
    for (k, s) in sprites.iter().enumerate() {
        match &s.id {
            None => {
                let want = if k == 0 { 0 } else { written[k - 1].wrapping_add(1) };
                if written[k] != want { return fail("implicit-sprite-id-does-not-continue", format!("sprite {} (#{k}) written with id {} after {:?}", s.name, written[k], k.checked_sub(1).map(|p| written[p]))); }
            },
            Some(e) if e.head() == Some("i") => {
                if written[k] != e.args()[0].as_i64() as u32 { return fail("explicit-sprite-id-not-written", format!("sprite {} id {} written as {}", s.name, e.args()[0], written[k])); }
            },
            _ => {},
        }
    }
    let mut ids_by_name: BTreeMap<&str, Vec<u32>> = BTreeMap::new();
    for (k, s) in sprites.iter().enumerate() { ids_by_name.entry(&s.name).or_default().push(written[k]); }
    for (n, ids) in &ids_by_name {
        if ids.iter().any(|i| *i != ids[0]) { return fail("dup-name-accepted-with-two-values", format!("sprite {n} written with ids {ids:?}")); }
    }
    // scripts: position in the file <-> source script
    let mut flat: Vec<(usize, i32, &Vec<Instr>)> = vec![];
    for (k, e) in entries.iter().enumerate() { for (num, ins) in &e.scripts { flat.push((k, *num, ins)); } }
    if flat.len() != scripts.len() { return fail("anm-script-count-differs", format!("{} scripts written for {}", flat.len(), scripts.len())); }
    let mut pos_of: HashMap<i64, usize> = HashMap::new();
    for (p, (_, _, ins)) in flat.iter().enumerate() {
        match marker_of(ins) { Some(m) => { pos_of.insert(m, p); }, None => return fail("anm-script-without-marker", format!("script at position {p}")) }
    }
    let mut script_groups: Vec<Vec<Sexp>> = vec![vec![]; nentries];
    for (p, (k, num, ins)) in flat.iter().enumerate() {
        let m = marker_of(ins).unwrap();
        let src = match scripts.iter().find(|s| s.marker == m) { Some(s) => s, None => return fail("anm-script-without-marker", format!("unknown marker {m} at {p}")) };
        if src.entry != Some(*k) { return fail("anm-script-in-wrong-entry", format!("script {} written in entry {k}, defined after entry {:?}", src.name, src.entry)); }
        script_groups[*k].push(Sexp::list(vec![Sexp::atom(src.name.clone()), Sexp::int(*num)]));
    }
    // references
    let defined = |n: &str| consts.iter().any(|c| c == n) || sprites.iter().any(|s| s.name == n) || scripts.iter().any(|s| s.name == n);
    let mut all_names = vec![];
    for s in &sprites { if let Some(e) = &s.id { expr_names(e, &mut all_names); } }
    for item in &case.args()[1..] { if item.head() == Some("const") { expr_names(&item.args()[1], &mut all_names); } }
    for s in &scripts { for r in &s.refs { all_names.push(r.name.clone()); } }
    if let Some(n) = all_names.iter().find(|n| !defined(n)) { return fail("unknown-name-accepted", format!("{n} is not defined anywhere but the file compiled")); }

    let mut ref_rows = vec![];
    for s in &scripts {
        let ins = flat[pos_of[&s.marker]].2;
        if ins.len() != s.refs.len() + 1 { return fail("anm-instr-count-differs", format!("script {}: {} instructions for {} references", s.name, ins.len(), s.refs.len())); }
        let mut row = vec![];
        for (k, r) in s.refs.iter().enumerate() {
            let i = &ins[k + 1];
            let ps = sig_of(game, LanguageKey::Anm, r.op).unwrap_or_default();
            if i.opcode as i32 != r.op { return fail("anm-instr-opcode-differs", format!("script {} instruction {}: opcode {} for ins_{}", s.name, k + 1, i.opcode, r.op)); }
            let v = match arg_value(&ps, r.pidx, i) { Ok(v) => v, Err(e) => return fail("anm-arg-not-locatable", e) };
            row.push(Sexp::int(v));
            // what does the name denote (harness' own reading of the source)?
            if consts.iter().any(|c| *c == r.name) && !r.qual { continue; }
            let is_sprite = ids_by_name.contains_key(r.name.as_str());
            let is_script = scripts.iter().any(|x| x.name == r.name);
            let as_sprite = if r.kind == "sprite" { is_sprite } else { is_sprite && !is_script };
            if as_sprite {
                let id = ids_by_name[r.name.as_str()][0];
                if v as u32 != id { return fail("sprite-ref-differs-from-written-id", format!("{game} script {}: ins_{}({}) has argument {v}, sprite {} is written with id {id}", s.name, r.op, r.name, r.name)); }
            } else if is_script {
                let target = scripts.iter().find(|x| x.name == r.name).unwrap();
                let p = pos_of[&target.marker];
                if v != p as i64 { return fail("script-ref-differs-from-table-position", format!("{game} script {}: ins_{}({}) has argument {v}, script {} is at position {p} of the file", s.name, r.op, r.name, r.name)); }
            }
        }
        ref_rows.push(Sexp::list(row));
    }
    Sexp::app("ok", vec![
        Sexp::app("sprites", entries.iter().map(|e| Sexp::list(e.sprite_ids.iter().map(|i| Sexp::int(*i as i64)).collect())).collect()),
        Sexp::app("scripts", script_groups.into_iter().map(Sexp::list).collect()),
        Sexp::app("refs", ref_rows),
    ])
}

// ------------------------------------------------------------------------------------------ old ECL

struct EclRef { name: String, op: i32, pidx: usize, call: bool }
struct EclItem { is_tl: bool, name: String, number: Option<i64>, marker: i64, refs: Vec<EclRef> }

fn ecl_kind(game: Game) -> layout::EclKind {
    match game { Game::Th06 => layout::EclKind::Th06, Game::Th07 => layout::EclKind::Th07, Game::Th09 => layout::EclKind::Th09, _ => layout::EclKind::Th08 }
}

fn eval_ecl(case: &Sexp) -> Sexp {
    let game = tc::game(case.args()[0].as_atom());
    let mut items = vec![];
    let mut text = String::new();
    for item in &case.args()[1..] {
        let a = item.args();
        let is_tl = item.head() == Some("tl");
        let (number, marker, rest) = if is_tl { (opt_int(&a[1]), a[2].as_i64(), &a[3..]) } else { (None, a[1].as_i64(), &a[2..]) };
        let lang = if is_tl { LanguageKey::Timeline } else { LanguageKey::Ecl };
        if is_tl { text.push_str(&format!("script {}{} {{\n", number.map(|n| format!("{n} ")).unwrap_or_default(), a[0].as_atom())); }
        else { text.push_str(&format!("void {}() {{\n", a[0].as_atom())); }
        text.push_str(&format!("    {}\n", marker_stmt(marker)));
        let mut refs = vec![];
        for r in rest {
            let f = r.args();
            let rf = EclRef { name: f[0].as_atom().to_string(), op: f[1].as_i32(), pidx: f[2].as_usize(), call: f[3].as_atom() == "call" };
            if rf.call { text.push_str(&format!("    {}();\n", rf.name)); }
            else {
                match sig_of(game, lang, rf.op) {
                    Some(ps) => text.push_str(&format!("    {}\n", render_call(&ps, rf.op, rf.pidx, &rf.name))),
                    None => text.push_str(&format!("    ins_{}({});\n", rf.op, rf.name)),
                }
            }
            refs.push(rf);
        }
        text.push_str("}\n\n");
        items.push(EclItem { is_tl, name: a[0].as_atom().to_string(), number, marker, refs });
    }
    let out = tc::compile(Format::Ecl, game, &[], text.as_bytes());
    let bytes = match &out.value { Some(b) => b.clone(), None => return rejected(&out, &text) };
    let lay = match layout::parse_ecl(&bytes, ecl_kind(game)) { Ok(l) => l, Err(e) => return fail("ecl-output-not-parsable", e) };

    let src_subs: Vec<&EclItem> = items.iter().filter(|i| !i.is_tl).collect();
    let src_tls: Vec<&EclItem> = items.iter().filter(|i| i.is_tl).collect();
    if lay.subs.len() != src_subs.len() { return fail("ecl-sub-count-differs", format!("{} subs written for {}", lay.subs.len(), src_subs.len())); }
    if lay.timelines.len() != src_tls.len() { return fail("ecl-timeline-count-differs", format!("{} timelines written for {}", lay.timelines.len(), src_tls.len())); }
    let mut sub_pos: HashMap<i64, usize> = HashMap::new();
    let mut sub_names = vec![];
    for (p, ins) in lay.subs.iter().enumerate() {
        let m = match marker_of(ins) { Some(m) => m, None => return fail("ecl-sub-without-marker", format!("sub at position {p}")) };
        sub_pos.insert(m, p);
        match src_subs.iter().find(|s| s.marker == m) { Some(s) => sub_names.push(Sexp::atom(s.name.clone())), None => return fail("ecl-sub-without-marker", format!("unknown marker {m}")) }
    }
    let mut tl_pos: HashMap<i64, usize> = HashMap::new();
    for (p, ins) in lay.timelines.iter().enumerate() {
        match marker_of(ins) { Some(m) => { tl_pos.insert(m, p); }, None => return fail("ecl-timeline-without-marker", format!("timeline at slot {p}")) }
    }
    let mut tl_slots = vec![];
    for t in &src_tls {
        let p = match tl_pos.get(&t.marker) { Some(p) => *p, None => return fail("ecl-timeline-missing", format!("timeline {} is not in the file", t.name)) };
        if let Some(n) = t.number { if n != p as i64 { return fail("timeline-index-wrong", format!("{game}: `script {n} {}` written in slot {p}", t.name)); } }
        tl_slots.push(Sexp::int(p as i64));
    }
    if let Some(r) = items.iter().flat_map(|i| i.refs.iter()).find(|r| !src_subs.iter().any(|s| s.name == r.name)) {
        return fail("unknown-name-accepted", format!("{} is not a sub but the file compiled", r.name));
    }
    let mut ref_rows = vec![];
    for it in &items {
        let ins = if it.is_tl { &lay.timelines[tl_pos[&it.marker]] } else { match sub_pos.get(&it.marker) { Some(p) => &lay.subs[*p], None => return fail("ecl-sub-missing", it.name.clone()) } };
        if ins.len() != it.refs.len() + 1 { return fail("ecl-instr-count-differs", format!("{} {}: {} instructions for {} references", if it.is_tl { "timeline" } else { "sub" }, it.name, ins.len(), it.refs.len())); }
        let lang = if it.is_tl { LanguageKey::Timeline } else { LanguageKey::Ecl };
        let mut row = vec![];
        for (k, r) in it.refs.iter().enumerate() {
            let i = &ins[k + 1];
            let (op, pidx) = if r.call { (call_opcode(game), 0) } else { (r.op, r.pidx) };
            if i.opcode as i32 != op { return fail("ecl-instr-opcode-differs", format!("{}: instruction {}: opcode {} for ins_{op}", it.name, k + 1, i.opcode)); }
            let ps = sig_of(game, lang, op).unwrap_or_default();
            let v = match arg_value(&ps, pidx, i) { Ok(v) => v, Err(e) => return fail("ecl-arg-not-locatable", e) };
            row.push(Sexp::int(v));
            let target = src_subs.iter().find(|s| s.name == r.name).unwrap();
            let p = sub_pos[&target.marker];
            if v != p as i64 { return fail("sub-ref-differs-from-table-position", format!("{game} {}: {} has argument {v}, sub {} is at position {p} of the sub table", it.name, if r.call { format!("{}()", r.name) } else { format!("ins_{op}(..{}..)", r.name) }, r.name)); }
        }
        ref_rows.push(Sexp::list(row));
    }
    Sexp::app("ok", vec![Sexp::app("subs", sub_names), Sexp::app("tls", tl_slots), Sexp::app("refs", ref_rows)])
}

// ------------------------------------------------------------------------------------------ MSG

fn blob_stmt(op: u16, len: usize) -> String { format!("ins_{op}(@blob=\"{}\");", "00".repeat(len)) }

fn eval_msg(case: &Sexp) -> Sexp {
    let a = case.args();
    let game = tc::game(a[0].as_atom());
    let has_flags = game >= Game::Th09;
    let table: Vec<(u32, String, u32)> = a[1].args().iter().map(|e| { let f = e.as_list(); (f[0].as_u32(), f[1].as_atom().to_string(), f[2].as_u32()) }).collect();
    let default: Option<(String, u32)> = if a[2].head() == Some("default") { Some((a[2].args()[0].as_atom().to_string(), a[2].args()[1].as_u32())) } else { None };
    let len: Option<u32> = opt_int(&a[3]).map(|x| x as u32);
    let scripts: Vec<(String, i64, Vec<usize>)> = a[4].args().iter().map(|s| { let f = s.as_list(); (f[0].as_atom().to_string(), f[1].as_i64(), f[2..].iter().map(|x| x.as_usize()).collect()) }).collect();
    let meta_pos = a[5].as_usize();

    let entry_text = |name: &str, flags: u32| {
        let s = if name == "0" { "0".to_string() } else { format!("\"{name}\"") };
        if flags != 0 { format!("{{script: {s}, flags: {flags}}}") } else { format!("{{script: {s}}}") }
    };
    let mut meta = String::from("meta {\n    table: {\n");
    for (i, n, f) in &table { meta.push_str(&format!("        {i}: {},\n", entry_text(n, *f))); }
    if let Some((n, f)) = &default { meta.push_str(&format!("        default: {},\n", entry_text(n, *f))); }
    meta.push_str("    },\n");
    if let Some(l) = len { meta.push_str(&format!("    table_len: {l},\n")); }
    meta.push_str("}\n\n");
    let mut text = String::new();
    for (k, (n, m, blobs)) in scripts.iter().enumerate() {
        if k == meta_pos { text.push_str(&meta); }
        text.push_str(&format!("script {n} {{\n    {}\n", marker_stmt(*m)));
        for b in blobs { text.push_str(&format!("    {}\n", blob_stmt(FILLER_OP, *b))); }
        text.push_str("}\n\n");
    }
    if meta_pos >= scripts.len() { text.push_str(&meta); }

    let out = tc::compile(Format::Msg, game, &[], text.as_bytes());
    let bytes = match &out.value { Some(b) => b.clone(), None => return rejected(&out, &text) };
    let lay = match layout::parse_msg(&bytes, has_flags) { Ok(l) => l, Err(e) => return fail("msg-output-not-parsable", e) };

    // (a) harness' own reading of the documented rule
    let want_len = len.unwrap_or_else(|| table.iter().map(|t| t.0 + 1).max().unwrap_or(0));
    if lay.table.len() != want_len as usize { return fail("msg-table-len-wrong", format!("{} slots written, {want_len} asked", lay.table.len())); }
    let mut start_of: HashMap<i64, usize> = HashMap::new();
    let mut script_rows = vec![];
    for (off, ins) in &lay.scripts {
        let m = match marker_of(ins) { Some(m) => m, None => return fail("msg-script-without-marker", format!("script at offset {off}")) };
        if start_of.insert(m, *off).is_some() { return fail("msg-script-written-twice", format!("marker {m}")); }
        let src = match scripts.iter().find(|s| s.1 == m) { Some(s) => s, None => return fail("msg-script-without-marker", format!("unknown marker {m}")) };
        if ins.len() != src.2.len() + 1 { return fail("msg-instr-count-differs", format!("script {}", src.0)); }
        script_rows.push(Sexp::list(vec![Sexp::atom(src.0.clone()), Sexp::int(*off as i64)]));
    }
    if lay.scripts.len() != scripts.len() { return fail("msg-script-count-differs", format!("{} scripts written for {}", lay.scripts.len(), scripts.len())); }
    for (i, (off, flags)) in lay.table.iter().enumerate() {
        let (name, want_flags) = match table.iter().find(|t| t.0 as usize == i) { Some(t) => (t.1.clone(), t.2), None => default.clone().unwrap_or(("0".into(), 0)) };
        if name == "0" {
            if *off != 0 { return fail("msg-table-offset-wrong", format!("{game}: slot {i} is `script: 0` but holds offset {off}")); }
        } else {
            let src = match scripts.iter().find(|s| s.0 == name) { Some(s) => s, None => return fail("unknown-name-accepted", format!("slot {i} names {name}, which is not a script, but the file compiled")) };
            let start = start_of[&src.1];
            if *off as usize != start { return fail("msg-table-offset-wrong", format!("{game}: slot {i} names script {name} written at offset {start} but holds offset {off}")); }
        }
        if has_flags && *flags != want_flags { return fail("msg-table-flags-wrong", format!("slot {i}: flags {flags} written, {want_flags} asked")); }
    }
    Sexp::app("ok", vec![
        Sexp::app("table", lay.table.iter().map(|(o, f)| Sexp::list(vec![Sexp::int(*o as i64), Sexp::int(*f as i64)])).collect()),
        Sexp::app("scripts", script_rows),
    ])
}

// ------------------------------------------------------------------------------------------ STD

fn eval_std(case: &Sexp) -> Sexp {
    let a = case.args();
    let game = tc::game(a[0].as_atom());
    let objects: Vec<String> = a[1].args().iter().map(|x| x.as_atom().to_string()).collect();
    let instances: Vec<String> = a[2].args().iter().map(|x| x.as_atom().to_string()).collect();
    let new_format = game >= Game::Th095;
    let mut text = String::from("meta {\n    unknown: 0,\n");
    if new_format { text.push_str("    anm_path: \"stage01.anm\",\n"); }
    else { text.push_str("    stage_name: \"dm\",\n    bgm: [{path: \" \", name: \" \"}, {path: \" \", name: \" \"}, {path: \" \", name: \" \"}, {path: \" \", name: \" \"}],\n"); }
    text.push_str("    objects: {\n");
    for (k, o) in objects.iter().enumerate() {
        let quads = if k % 2 == 1 { format!("rect {{anm_script: {k}, pos: [0.0, 0.0, 0.0], size: [1.0, 1.0]}}") } else { String::new() };
        text.push_str(&format!("        {o}: {{layer: {}, pos: [0.0, 0.0, 0.0], size: [1.0, 1.0, 1.0], quads: [{quads}]}},\n", 1000 + k));
    }
    text.push_str("    },\n    instances: [\n");
    for (k, i) in instances.iter().enumerate() { text.push_str(&format!("        {i} {{pos: [{k}.0, 0.0, 0.0]}},\n")); }
    text.push_str("    ],\n}\n\nscript main {\n}\n");
    let out = tc::compile(Format::Std, game, &[], text.as_bytes());
    let bytes = match &out.value { Some(b) => b.clone(), None => return rejected(&out, &text) };
    let lay = match layout::parse_std(&bytes, new_format) { Ok(l) => l, Err(e) => return fail("std-output-not-parsable", e) };
    if lay.objects.len() != objects.len() { return fail("std-object-count-differs", format!("{} objects written for {}", lay.objects.len(), objects.len())); }
    if lay.instances.len() != instances.len() { return fail("std-instance-count-differs", format!("{} instances written for {}", lay.instances.len(), instances.len())); }
    for (p, o) in lay.objects.iter().enumerate() { if o.id as usize != p { return fail("std-object-id-not-its-position", format!("object at position {p} has id {}", o.id)); } }
    let mut row = vec![];
    for (k, name) in instances.iter().enumerate() {
        let v = lay.instances[k].0 as usize;
        let src = match objects.iter().position(|o| o == name) { Some(p) => p, None => return fail("unknown-name-accepted", format!("instance {k} names {name}, which is not an object, but the file compiled")) };
        let found = lay.objects.get(v).map(|o| o.layer as usize);
        if found != Some(1000 + src) { return fail("std-instance-index-wrong", format!("{game}: instance {k} names object {name} (source position {src}) but holds index {v}")); }
        row.push(Sexp::int(v as i64));
    }
    Sexp::app("ok", row)
}

/// `(std-many GAME N)`: N objects, instances naming the last object, object 65535 and object 1.
/// The object count and the instance's object index are 16-bit fields.
fn eval_std_many(case: &Sexp) -> Sexp {
    let a = case.args();
    let game = tc::game(a[0].as_atom());
    let n = a[1].as_usize();
    let new_format = game >= Game::Th095;
    let mut text = String::from("meta {\n    unknown: 0,\n");
    if new_format { text.push_str("    anm_path: \"stage01.anm\",\n"); }
    else { text.push_str("    stage_name: \"dm\",\n    bgm: [{path: \" \", name: \" \"}, {path: \" \", name: \" \"}, {path: \" \", name: \" \"}, {path: \" \", name: \" \"}],\n"); }
    text.push_str("    objects: {\n");
    for k in 0..n { text.push_str(&format!("        obj{k}: {{layer: {}, pos: [0.0, 0.0, 0.0], size: [1.0, 1.0, 1.0], quads: []}},\n", k % 60000)); }
    let named: Vec<usize> = [n - 1, 65535usize.min(n - 1), 1usize.min(n - 1)].to_vec();
    text.push_str("    },\n    instances: [\n");
    for k in &named { text.push_str(&format!("        obj{k} {{pos: [0.0, 0.0, 0.0]}},\n")); }
    text.push_str("    ],\n}\n\nscript main {\n}\n");
    let out = tc::compile(Format::Std, game, &[], text.as_bytes());
    let bytes = match &out.value {
        Some(b) => b.clone(),
        None => {
            let r = rejected(&out, &format!("{n} objects"));
            if r.head() == Some("fail") { return r; }
            let cls = r.args()[0].as_atom().to_string();
            // index 0xffff is the end-of-list marker: at most 65535 objects can be described
            if n > 65535 && cls == "std-too-many" { return Sexp::app("pass", vec![Sexp::atom("rejected"), Sexp::int(n as i64)]); }
            return fail("std-file-rejected-unexpectedly", format!("{game}: {n} objects: {cls}"));
        },
    };
    // the file was accepted: its 16-bit fields must describe what was asked
    let inst_off = layout::u32_at(&bytes, 4).unwrap_or(0) as usize;
    for (k, want) in named.iter().enumerate() {
        let v = layout::u16_at(&bytes, inst_off + 16 * k).unwrap_or(0) as usize;
        if v != *want || v == 0xffff { return fail("std-instance-index-does-not-fit-u16", format!("{game}: instance {k} names obj{want}; index written {v}")); }
    }
    let count = layout::u16_at(&bytes, 0).unwrap_or(0) as usize;
    if count != n { return fail("std-object-count-does-not-fit-u16", format!("{game}: {n} objects compile without error; the header says {count}")); }
    Sexp::app("pass", vec![Sexp::int(n as i64)])
}

// ------------------------------------------------------------------------------------------ generators

fn atom(s: impl Into<String>) -> Sexp { Sexp::atom(s) }
fn none() -> Sexp { Sexp::atom("none") }
fn lit(v: i64) -> Sexp { Sexp::app("i", vec![Sexp::int(v)]) }
fn nm(n: &String) -> Sexp { Sexp::app("nm", vec![atom(n.clone())]) }
fn bin(op: &str, a: Sexp, b: Sexp) -> Sexp { Sexp::app(op, vec![a, b]) }

const ANM_GAMES: &[Game] = &[Game::Th06, Game::Th07, Game::Th08, Game::Th095, Game::Th10, Game::Th11, Game::Th12, Game::Th13, Game::Th14, Game::Th16, Game::Th17, Game::Th18];
const ECL_GAMES: &[Game] = &[Game::Th06, Game::Th07, Game::Th08, Game::Th09, Game::Th095];
const MSG_GAMES: &[Game] = &[Game::Th06, Game::Th07, Game::Th08, Game::Th09, Game::Th10, Game::Th12, Game::Th14, Game::Th17];
const STD_GAMES: &[Game] = &[Game::Th06, Game::Th07, Game::Th08, Game::Th09, Game::Th095, Game::Th10, Game::Th12, Game::Th17];

#[derive(Copy, Clone, PartialEq, Eq, Debug)]
enum AnmFlavor { Valid, Unknown, DupScript, DupSpriteInEntry, DupSameValue, DupTwoValues, Cycle, AmbiguousEnum, Orphan, CrossKind, Wrapping, BigScriptNumber }

fn gen_anm(rng: &mut Rng, game: Game, flavor: AnmFlavor) -> Sexp {
    let sprite_sites = sites(game, LanguageKey::Anm, "AnmSprite");
    let script_sites = sites(game, LanguageKey::Anm, "AnmScript");
    let nentries = if matches!(flavor, AnmFlavor::DupSameValue | AnmFlavor::DupTwoValues) { 2 + rng.below(3) } else { 1 + rng.below(4) };
    let mut items: Vec<Sexp> = vec![];
    let mut sprite_names: Vec<String> = vec![];       // every sprite so far, in order
    let mut known: Vec<Option<i64>> = vec![];         // value of each sprite if the generator can tell
    let mut next: Option<i64> = Some(0);
    let mut fresh = 0usize;
    let nscripts_total = rng.below(6) + if flavor == AnmFlavor::DupScript { 2 } else if flavor == AnmFlavor::BigScriptNumber { 1 } else { 0 };
    let script_names: Vec<String> = (0..nscripts_total).map(|i| format!("sc{i}")).collect();
    let nconsts = if matches!(flavor, AnmFlavor::Valid | AnmFlavor::AmbiguousEnum) { rng.below(3) } else { 0 };
    // a user const may have the name of a sprite (it then shadows the sprite in unqualified positions)
    let const_names: Vec<String> = (0..nconsts).map(|i| if rng.chance(1, 8) { format!("sp{}", 1 + rng.below(3)) } else { format!("K{i}") }).collect();
    let const_names: Vec<String> = { let mut v = const_names; v.sort(); v.dedup(); v };
    let mut planned_later: Vec<String> = vec![];      // names defined later, for forward references
    for i in 0..4 { planned_later.push(format!("sp{}", 20 + i)); }
    let mut entries: Vec<Vec<Sexp>> = vec![];
    for e in 0..nentries {
        let n = rng.below(5);
        let mut names_here: Vec<String> = vec![];
        let mut sp = vec![];
        for _ in 0..n {
            // name: fresh, or a name of an earlier entry (duplicate across entries)
            let reuse = !sprite_names.is_empty() && e > 0 && match flavor { AnmFlavor::DupSameValue | AnmFlavor::DupTwoValues => rng.chance(1, 2), AnmFlavor::Valid => rng.chance(1, 12), _ => false };
            let (name, reused) = if reuse {
                let k = rng.below(sprite_names.len());
                if names_here.contains(&sprite_names[k]) { fresh += 1; (format!("sp{fresh}"), None) } else { (sprite_names[k].clone(), Some(k)) }
            } else { fresh += 1; (format!("sp{fresh}"), None) };
            // id
            let mut id = none();
            let mut val: Option<i64> = next;
            let explicit = rng.chance(2, 5) || reused.is_some();
            if let Some(k) = reused {
                // same value as the earlier definition if the generator knows it, else any
                match (flavor, known[k]) {
                    (AnmFlavor::DupTwoValues, Some(v)) => { let w = v + 1 + rng.below(3) as i64; id = lit(w); val = Some(w); },
                    (_, Some(v)) => {
                        if next == Some(v) && rng.chance(1, 2) { val = Some(v); }     // implicit id happens to continue to the same value
                        else if rng.chance(1, 2) { id = lit(v); val = Some(v); }
                        else { let a = rng.range(-5, 5); id = bin("add", lit(v - a), lit(a)); val = Some(v); }
                    },
                    (_, None) => { if rng.chance(1, 4) { id = nm(&sprite_names[k]); } val = None; },   // `id: sameName` refers to the name being redefined (a cycle)
                }
            } else if explicit {
                let choice = rng.below(10);
                let cur = next.unwrap_or(0);
                match choice {
                    0 | 1 => { let v = rng.range(0, 30); id = lit(v); val = Some(v); },
                    2 => { let v = (cur - 1 - rng.below(4) as i64).max(0); id = lit(v); val = Some(v); },                     // decreasing
                    3 => { if let Some(Some(v)) = known.last() { id = lit(*v); val = Some(*v); } else { id = lit(3); val = Some(3); } },  // duplicate id
                    4 => { let (a, b) = (rng.range(0, 9), rng.range(0, 9)); id = bin("add", lit(a), lit(b)); val = Some(a + b); },
                    5 => { let (a, b) = (rng.range(1, 12), rng.range(1, 12)); id = bin("sub", bin("mul", lit(a), lit(b)), lit(1)); val = Some(a * b - 1); },
                    6 if flavor == AnmFlavor::Wrapping || rng.chance(1, 3) => { let v = *rng.pick(&[-1i64, -2, 2147483647, 2147483646, -2147483647]); id = lit(v); val = Some(v); },
                    7 if !sprite_names.is_empty() => { let k = rng.below(sprite_names.len()); let a = rng.range(0, 4); id = bin("add", nm(&sprite_names[k]), lit(a)); val = known[k].map(|v| v + a); },
                    8 if !const_names.is_empty() => { id = nm(rng.pick(&const_names)); val = None; },
                    9 if flavor == AnmFlavor::Valid && rng.chance(1, 3) => { id = bin("mul", nm(rng.pick(&planned_later)), lit(2)); val = None; },  // forward reference
                    _ => { let v = rng.range(0, 30); id = lit(v); val = Some(v); },
                }
            }
            sp.push(Sexp::app("sp", vec![atom(name.clone()), id]));
            names_here.push(name.clone());
            sprite_names.push(name);
            known.push(val.map(|v| (v as i32) as i64));
            next = val.map(|v| ((v as i32).wrapping_add(1)) as i64);
        }
        entries.push(sp);
    }
    // define the planned forward names in the last entry if something refers to them
    {
        let text = format!("{}", Sexp::list(entries.iter().flatten().cloned().collect()));
        let last = entries.last_mut().unwrap();
        for p in &planned_later { if text.contains(&format!("(nm {p})")) { last.push(Sexp::app("sp", vec![atom(p.clone()), if rng.chance(1, 2) { lit(rng.range(0, 50)) } else { none() }])); sprite_names.push(p.clone()); } }
    }
    if flavor == AnmFlavor::DupSpriteInEntry {
        let e = rng.below(entries.len());
        if entries[e].is_empty() { entries[e].push(Sexp::app("sp", vec![atom("spd"), none()])); }
        let d = entries[e][rng.below(entries[e].len())].clone();
        entries[e].push(d);
    }
    if flavor == AnmFlavor::Cycle {
        let e = rng.below(entries.len());
        entries[e].push(Sexp::app("sp", vec![atom("cyA"), bin("add", nm(&"cyB".to_string()), lit(1))]));
        if rng.chance(1, 2) { entries[e].push(Sexp::app("sp", vec![atom("cyB"), none()])); }
        else { let e2 = rng.below(entries.len()); entries[e2].push(Sexp::app("sp", vec![atom("cyB"), bin("mul", nm(&"cyA".to_string()), lit(3))])); }
        sprite_names.push("cyA".into()); sprite_names.push("cyB".into());
    }
    // scripts, distributed over the entries
    let ref_name = |rng: &mut Rng, kind: &str| -> (String, bool) {
        let pool: Vec<String> = match kind {
            "sprite" => sprite_names.clone(),
            _ => script_names.clone(),
        };
        let mut qual = rng.chance(1, 8);
        if flavor == AnmFlavor::CrossKind && rng.chance(1, 2) {
            let other = if kind == "sprite" { &script_names } else { &sprite_names };
            if !other.is_empty() { return (rng.pick(other).clone(), false); }
        }
        if !const_names.is_empty() && rng.chance(1, 8) { return (rng.pick(&const_names).clone(), false); }
        if pool.is_empty() { qual = false; return (if kind == "sprite" { "0".into() } else { "0".into() }, qual); }
        (rng.pick(&pool).clone(), qual)
    };
    let mut script_items: Vec<Sexp> = vec![];
    let big_at = if script_names.is_empty() { 0 } else { rng.below(script_names.len()) };
    for (i, name) in script_names.iter().enumerate() {
        let number = match flavor {
            AnmFlavor::BigScriptNumber if i == big_at => Sexp::int(2147483647i64),
            _ => if rng.chance(1, 4) { Sexp::int(*rng.pick(&[0i64, 1, 2, 5, 5, 10, 3, -1, 100, 7])) } else { none() },
        };
        let mut v = vec![atom(name.clone()), number, Sexp::int(i as i64)];
        for _ in 0..rng.below(5) {
            let use_script = !script_sites.is_empty() && (sprite_sites.is_empty() || rng.chance(2, 5));
            let (kind, site) = if use_script { ("script", *rng.pick(&script_sites)) } else if !sprite_sites.is_empty() { ("sprite", *rng.pick(&sprite_sites)) } else { continue };
            let (n, q) = ref_name(rng, kind);
            if n == "0" { continue; }
            v.push(Sexp::app("ref", vec![atom(kind), Sexp::int(q as i64), atom(n), Sexp::int(site.0), Sexp::int(site.1 as i64)]));
        }
        script_items.push(Sexp::app("script", v));
    }
    if flavor == AnmFlavor::DupScript && script_items.len() >= 2 {
        let k = rng.below(script_items.len() - 1);
        let mut d = script_items[k].as_list().to_vec();
        d[3] = Sexp::int(90);
        d.truncate(4);
        script_items.push(Sexp::List(d));
    }
    if flavor == AnmFlavor::Unknown {
        let bad = atom(*rng.pick(&["nosuch", "sp999", "sc999", "K9"]));
        let mut placed = false;
        if !script_items.is_empty() && rng.chance(2, 3) {
            let k = rng.below(script_items.len());
            let site = if !sprite_sites.is_empty() { Some(("sprite", sprite_sites[0])) } else { script_sites.first().map(|s| ("script", *s)) };
            if let Some((kind, s)) = site {
                let mut v = script_items[k].as_list().to_vec();
                v.push(Sexp::app("ref", vec![atom(kind), Sexp::int(rng.below(2) as i64), bad.clone(), Sexp::int(s.0), Sexp::int(s.1 as i64)]));
                script_items[k] = Sexp::List(v);
                placed = true;
            }
        }
        if !placed { let e = rng.below(entries.len()); entries[e].push(Sexp::app("sp", vec![atom("spu"), bin("add", Sexp::app("nm", vec![bad]), lit(1))])); }
    }
    if flavor == AnmFlavor::AmbiguousEnum && !script_names.is_empty() {
        // a sprite with the name of a script, used where no parameter type disambiguates
        let n = rng.pick(&script_names).clone();
        let e = rng.below(entries.len());
        entries[e].push(Sexp::app("sp", vec![atom(n.clone()), lit(rng.range(40, 60))]));
        if rng.chance(2, 3) { entries[e].push(Sexp::app("sp", vec![atom("spamb"), bin("add", nm(&n), lit(1))])); }
    }
    // interleave: entry, then some scripts
    let mut si = script_items.into_iter();
    if flavor == AnmFlavor::Orphan { if let Some(s) = si.next() { items.push(s); } }
    let mut remaining = nscripts_total + 1;
    for (e, sp) in entries.into_iter().enumerate() {
        items.push(Sexp::app("entry", sp));
        let take = if e + 1 == nentries { remaining } else { rng.below(3) };
        for _ in 0..take { if let Some(s) = si.next() { items.push(s); remaining = remaining.saturating_sub(1); } }
    }
    for s in si { items.push(s); }
    // consts anywhere
    for c in &const_names {
        let e = match rng.below(4) {
            0 => lit(rng.range(0, 40)),
            1 if !sprite_names.is_empty() => bin("add", nm(rng.pick(&sprite_names)), lit(rng.range(0, 3))),
            2 if !script_names.is_empty() && flavor != AnmFlavor::AmbiguousEnum => bin("mul", nm(rng.pick(&script_names)), lit(2)),
            _ => bin("sub", lit(rng.range(0, 99)), lit(rng.range(0, 9))),
        };
        let at = rng.below(items.len() + 1);
        items.insert(at, Sexp::app("const", vec![atom(c.clone()), e]));
    }
    let mut v = vec![atom(format!("{game}"))];
    v.extend(items);
    Sexp::app("anm", v)
}

#[derive(Copy, Clone, PartialEq, Eq, Debug)]
enum EclFlavor { Valid, Unknown, DupSub, TlNegative, TlGap, TlDuplicate, TlTooMany, TlMixed }

fn gen_ecl(rng: &mut Rng, game: Game, flavor: EclFlavor) -> Sexp {
    let ecl_sites = sites(game, LanguageKey::Ecl, "EclSub");
    let tl_sites = sites(game, LanguageKey::Timeline, "EclSub");
    let max_tl = match game { Game::Th06 => 1, Game::Th09 => 6, _ => 15 };
    let ntl = match flavor {
        EclFlavor::TlTooMany => if game == Game::Th09 { 3 } else { max_tl + 1 },
        _ => if game == Game::Th06 { 1 } else { 1 + rng.below(4) },
    };
    let nsubs = 1 + rng.below(5);
    let sub_names: Vec<String> = (0..nsubs).map(|i| format!("sub{}", (i * 7 + 3) % 10 + 10 * (i / 10))).collect();
    // timeline numbers
    let mut numbers: Vec<Option<i64>> = vec![None; ntl];
    match flavor {
        EclFlavor::Valid if rng.chance(1, 2) => { let mut p: Vec<i64> = (0..ntl as i64).collect(); rng.shuffle(&mut p); numbers = p.into_iter().map(Some).collect(); },
        EclFlavor::TlMixed => {
            // autos get 0,1,2.. in order; explicit ones must fill the rest
            let nauto = rng.below(ntl + 1);
            let mut rest: Vec<i64> = (nauto as i64..ntl as i64).collect(); rng.shuffle(&mut rest);
            let mut slots: Vec<bool> = (0..ntl).map(|i| i < nauto).collect(); rng.shuffle(&mut slots);
            let mut r = rest.into_iter();
            numbers = slots.into_iter().map(|auto| if auto { None } else { r.next() }).collect();
        },
        EclFlavor::TlNegative => { numbers = (0..ntl as i64).map(Some).collect(); let k = rng.below(ntl); numbers[k] = Some(-1 - rng.below(3) as i64); },
        EclFlavor::TlGap => { numbers = (0..ntl as i64).map(Some).collect(); let k = rng.below(ntl); numbers[k] = Some(ntl as i64 + rng.below(3) as i64); },
        EclFlavor::TlDuplicate => { numbers = (0..ntl as i64).map(Some).collect(); if ntl >= 2 { let k = 1 + rng.below(ntl - 1); numbers[k] = Some(rng.below(k) as i64); } else { numbers = vec![Some(0)]; } },
        _ => {},
    }
    let mut items = vec![];
    let pick_name = |rng: &mut Rng| -> String { if flavor == EclFlavor::Unknown && rng.chance(1, 3) { "nosub".into() } else { rng.pick(&sub_names).clone() } };
    let mut unknown_placed = false;
    for t in 0..ntl {
        let mut v = vec![atom(format!("tl{t}")), numbers[t].map(Sexp::int).unwrap_or_else(none), Sexp::int(100 + t as i64)];
        if !tl_sites.is_empty() { for _ in 0..rng.below(4) { let s = rng.pick(&tl_sites); let n = pick_name(rng); if n == "nosub" { unknown_placed = true; } v.push(Sexp::app("ref", vec![atom(n), Sexp::int(s.0), Sexp::int(s.1 as i64), atom("raw")])); } }
        items.push(Sexp::app("tl", v));
    }
    let mut names = sub_names.clone();
    if flavor == EclFlavor::DupSub { let d = rng.pick(&sub_names).clone(); names.push(d); }
    for (i, n) in names.iter().enumerate() {
        let mut v = vec![atom(n.clone()), Sexp::int(i as i64)];
        for _ in 0..rng.below(5) {
            let nmx = pick_name(rng);
            if nmx == "nosub" { unknown_placed = true; }
            if rng.chance(1, 4) { v.push(Sexp::app("ref", vec![atom(nmx), Sexp::int(call_opcode(game)), Sexp::int(0), atom("call")])); }
            else if !ecl_sites.is_empty() { let s = rng.pick(&ecl_sites); v.push(Sexp::app("ref", vec![atom(nmx), Sexp::int(s.0), Sexp::int(s.1 as i64), atom("raw")])); }
        }
        if flavor == EclFlavor::Unknown && !unknown_placed && i + 1 == names.len() && !ecl_sites.is_empty() {
            let s = ecl_sites[0]; v.push(Sexp::app("ref", vec![atom("nosub"), Sexp::int(s.0), Sexp::int(s.1 as i64), atom("raw")]));
        }
        items.push(Sexp::app("sub", v));
    }
    // any order of items (timeline numbering and sub numbering are independent)
    rng.shuffle(&mut items);
    let mut v = vec![atom(format!("{game}"))];
    v.extend(items);
    Sexp::app("ecl", v)
}

#[derive(Copy, Clone, PartialEq, Eq, Debug)]
enum MsgFlavor { Valid, Unknown, UnknownUnusedDefault, DupScript, DupKey, ShortLen }

fn gen_msg(rng: &mut Rng, game: Game, flavor: MsgFlavor) -> Sexp {
    let nscripts = 1 + rng.below(5);
    let names: Vec<String> = (0..nscripts).map(|i| format!("script{}", (i * 5 + 2) % 11)).collect();
    let mut table = vec![];
    let mut idx = 0u32;
    let nslots = rng.below(7);
    let mut keys: Vec<u32> = vec![];
    for i in 0..nslots { idx += rng.below(3) as u32 + if i == 0 { 0 } else { 1 }; keys.push(idx); }
    if rng.chance(1, 3) { rng.shuffle(&mut keys); }    // keys need not be ascending in the source
    for k in &keys {
        let name = if rng.chance(1, 10) { "0".to_string() } else if flavor == MsgFlavor::Unknown && rng.chance(1, 3) { "nosuch".to_string() } else { rng.pick(&names).clone() };
        let flags = if rng.chance(1, 3) { *rng.pick(&[1u32, 3, 256]) } else { 0 };
        table.push(Sexp::list(vec![Sexp::int(*k), atom(name), Sexp::int(flags)]));
    }
    if flavor == MsgFlavor::Unknown && !format!("{}", Sexp::list(table.clone())).contains("nosuch") { table.push(Sexp::list(vec![Sexp::int(idx + 1), atom("nosuch"), Sexp::int(0)])); idx += 1; }
    if flavor == MsgFlavor::DupKey && !table.is_empty() { let d = table[rng.below(table.len())].clone(); table.push(d); }
    let default = match flavor {
        MsgFlavor::UnknownUnusedDefault => Sexp::app("default", vec![atom("nosuch"), Sexp::int(0)]),
        _ => if rng.chance(1, 2) { Sexp::app("default", vec![atom(if rng.chance(1, 8) { "0".to_string() } else { rng.pick(&names).clone() }), Sexp::int(if rng.chance(1, 3) { 1 } else { 0 })]) } else { none() },
    };
    let max_key = keys.iter().max().copied();
    let len = match flavor {
        MsgFlavor::ShortLen => Sexp::int(rng.below(max_key.unwrap_or(0) as usize + 1) as i64),
        MsgFlavor::UnknownUnusedDefault => none(),
        _ => if rng.chance(1, 4) { Sexp::int(max_key.map(|m| m + 1).unwrap_or(0) as i64 + rng.below(4) as i64) } else { none() },
    };
    // UnknownUnusedDefault: no holes allowed, or the default would be used: make the keys dense
    let table = if flavor == MsgFlavor::UnknownUnusedDefault { (0..1 + rng.below(4)).map(|i| Sexp::list(vec![Sexp::int(i as i64), atom(rng.pick(&names).clone()), Sexp::int(0)])).collect() } else { table };
    let mut scripts = vec![];
    let mut snames = names.clone();
    if flavor == MsgFlavor::DupScript { let d = rng.pick(&names).clone(); snames.push(d); }
    if rng.chance(1, 2) { rng.shuffle(&mut snames); }
    for (i, n) in snames.iter().enumerate() {
        let mut v = vec![atom(n.clone()), Sexp::int(i as i64)];
        for _ in 0..rng.below(4) { v.push(Sexp::int(4 * rng.below(5) as i64)); }
        scripts.push(Sexp::list(v));
    }
    let meta_pos = if rng.chance(1, 2) { 0 } else { rng.below(snames.len() + 1) };
    let _ = idx;
    Sexp::app("msg", vec![atom(format!("{game}")), Sexp::app("table", table), default, len, Sexp::app("scripts", scripts), Sexp::int(meta_pos as i64)])
}

fn gen_std(rng: &mut Rng, game: Game, unknown: bool, dup: bool) -> Sexp {
    let nobj = rng.below(7);
    let mut objects: Vec<String> = (0..nobj).map(|i| format!("obj{}", (i * 3 + 1) % 7)).collect();
    if dup && !objects.is_empty() { let d = rng.pick(&objects).clone(); objects.push(d); }
    let mut instances = vec![];
    if !objects.is_empty() { for _ in 0..rng.below(9) { instances.push(rng.pick(&objects).clone()); } }
    if unknown { let at = rng.below(instances.len() + 1); instances.insert(at, "nosuchobj".into()); }
    Sexp::app("std", vec![atom(format!("{game}")), Sexp::app("objects", objects.into_iter().map(atom).collect()), Sexp::app("instances", instances.into_iter().map(atom).collect())])
}

fn has_refs(case: &Sexp) -> bool { format!("{case}").contains("(ref ") || case.head() == Some("msg") || case.head() == Some("std") }

impl Prop for C20 {
    fn id(&self) -> &'static str { "C20" }
    fn relation(&self) -> &'static str {
        "canonical (ok tables + reference values | err class) of compile -> write -> independent layout parse of the output == Lean `Ids.compileAnm / compileEcl / compileMsg / compileStd` on the same abstract layout; plus, on the implementation alone: every argument value that names a sprite / script / sub / MSG script / STD object equals the id / position / offset found in the tables of the same output file"
    }
    fn rule(&self) -> &'static str {
        "abstract layouts rendered to source: ANM 1-4 entries x 0-4 sprites (explicit ids anywhere: decreasing, duplicate, wrapping, constant expressions, references to other sprites / user consts / later names; the same name in several entries with equal and with different values), scripts with/without numbers distributed over the entries, references at every n/N parameter of the game's built-in table (plain, qualified, cross-enum, through consts); old ECL subs/timelines in any order with explicit/auto/mixed timeline numbers and references at every EclSub-typed parameter (E, arg0, byte) plus call sugar; MSG sparse tables (holes, default, table_len, shared scripts, meta before/after the scripts); STD objects/instances; error flavours (unknown name, two values for one name, duplicate definitions, cycles, timeline index errors). non-trivial = at least one reference or table entry; distinct by case text"
    }
    fn theorems(&self) -> &'static [&'static str] {
        &["TruthModel.C20.sprite_const_eq_written", "TruthModel.C20.script_ref_is_position", "TruthModel.C20.sub_ref_is_position", "TruthModel.C20.msg_entry_offset", "TruthModel.C20.std_instance_index", "TruthModel.C20.dup_name_two_values_is_error", "TruthModel.C20.unknown_name_is_error"]
    }

    fn gen(&self, tier: Tier, rng: &mut Rng) -> Vec<Case> {
        let scale = if tier == Tier::Quick { 2 } else { 30 };
        let mut out = vec![];
        let anm_flavors = [(AnmFlavor::Valid, 10), (AnmFlavor::Wrapping, 2), (AnmFlavor::DupSameValue, 3), (AnmFlavor::DupTwoValues, 2), (AnmFlavor::CrossKind, 1), (AnmFlavor::Unknown, 2),
            (AnmFlavor::DupScript, 1), (AnmFlavor::DupSpriteInEntry, 1), (AnmFlavor::Cycle, 1), (AnmFlavor::AmbiguousEnum, 1), (AnmFlavor::Orphan, 1)];
        for _ in 0..36 * scale {
            for (fl, w) in anm_flavors {
                for _ in 0..w {
                    let game = *rng.pick(ANM_GAMES);
                    let c = gen_anm(rng, game, fl);
                    let t = !has_refs(&c);
                    out.push(Case::corr(c).tag(format!("anm-{fl:?}")).tag(format!("anm-{game}")).trivial(t));
                }
            }
        }
        for _ in 0..6 * scale {
            let game = *rng.pick(ANM_GAMES);
            out.push(Case::corr(gen_anm(rng, game, AnmFlavor::BigScriptNumber)).tag("anm-script-number-i32-max"));
        }
        let ecl_flavors = [(EclFlavor::Valid, 8), (EclFlavor::TlMixed, 3), (EclFlavor::Unknown, 2), (EclFlavor::DupSub, 1), (EclFlavor::TlNegative, 1), (EclFlavor::TlGap, 1), (EclFlavor::TlDuplicate, 1), (EclFlavor::TlTooMany, 1)];
        for _ in 0..28 * scale {
            for (fl, w) in ecl_flavors {
                for _ in 0..w {
                    let game = *rng.pick(ECL_GAMES);
                    let c = gen_ecl(rng, game, fl);
                    let t = !has_refs(&c);
                    out.push(Case::corr(c).tag(format!("ecl-{fl:?}")).tag(format!("ecl-{game}")).trivial(t));
                }
            }
        }
        let msg_flavors = [(MsgFlavor::Valid, 8), (MsgFlavor::Unknown, 2), (MsgFlavor::UnknownUnusedDefault, 1), (MsgFlavor::DupScript, 1), (MsgFlavor::DupKey, 1), (MsgFlavor::ShortLen, 2)];
        for _ in 0..30 * scale {
            for (fl, w) in msg_flavors {
                for _ in 0..w {
                    let game = *rng.pick(MSG_GAMES);
                    out.push(Case::corr(gen_msg(rng, game, fl)).tag(format!("msg-{fl:?}")).tag(format!("msg-{game}")));
                }
            }
        }
        for k in 0..200 * scale {
            let game = *rng.pick(STD_GAMES);
            out.push(Case::corr(gen_std(rng, game, k % 8 == 6, k % 8 == 7)).tag(if k % 8 == 6 { "std-unknown" } else if k % 8 == 7 { "std-dup-object" } else { "std-valid" }).tag(format!("std-{game}")));
        }
        // 16-bit object count / object index (slow cases: ~64k objects): one more than fits must be
        // rejected, the largest file that fits must carry the right indices
        out.push(Case::search(Sexp::app("std-many", vec![atom("th10"), Sexp::int(65537)])).tag("std-more-than-65535-objects"));
        out.push(Case::search(Sexp::app("std-many", vec![atom("th06"), Sexp::int(65536)])).tag("std-more-than-65535-objects"));
        out.push(Case::search(Sexp::app("std-many", vec![atom("th10"), Sexp::int(65535)])).tag("std-65535-objects"));
        out.push(Case::search(Sexp::app("std-many", vec![atom("th08"), Sexp::int(300)])).tag("std-300-objects"));
        out
    }

    fn timeout_secs(&self) -> u64 { 120 }

    fn eval(&self, case: &Sexp) -> Sexp {
        match case.head() {
            Some("anm") => eval_anm(case),
            Some("ecl") => eval_ecl(case),
            Some("msg") => eval_msg(case),
            Some("std") => eval_std(case),
            Some("std-many") => eval_std_many(case),
            _ => Sexp::atom("bad-case"),
        }
    }
}
