//! C06 — turning blocks into labels and jumps preserves behaviour.
//!
//! Case forms (all programs are S-expressions rendered to truth source for the implementation and
//! consumed directly by the Lean driver):
//!
//! * `(desugar <kind> <block>)`            corr: structure of `passes::desugar_blocks::run`'s output
//! * `(vm <max> <regs> <block>)`           corr: `AstVm` on the *structured* program vs `runS`
//! * `(vmflat <kind> <max> <regs> <block>)` corr: `AstVm` on the desugared program vs `runF (desugar ..)`
//! * `(cmp <kind> <max> <regs> <block>)`   search: `AstVm` before vs after `desugar_blocks::run`
//!
//! `<kind>` = `ne` (no count-jump intrinsic: `if (--C) goto`) or `gt` (`if (--C > 0) goto`).
//! `<regs>` = `(v0 v1 v2 v3)` initial values of `$REG[10000..10003]`.
//! `<block>` = `(stmt ...)` with
//!   `(call op e..)` `(set r e)` `(tabs t)` `(trel d)` `(block s..)` `(cond (if e s..) (unless e s..).. [(else s..)])`
//!   `(loop s..)` `(while e s..)` `(dowhile e s..)` `(times none|r e s..)` `(break)` `(cbreak if|unless e)`
//! expressions `(i n)` `(reg r)` `(bin op a b)`.

use super::{Case, Prop, Tier, fail, Failure};
use crate::rng::Rng;
use crate::sexp::Sexp;
use truth::{ast, LanguageKey, RegId, ScalarValue};
use std::collections::HashMap;

pub struct C06;

pub const REGS: [i32; 4] = [10000, 10001, 10002, 10003];
const OPS: &[(&str, &str)] = &[
    ("add", "+"), ("sub", "-"), ("mul", "*"), ("eq", "=="), ("ne", "!="), ("lt", "<"), ("le", "<="), ("gt", ">"), ("ge", ">="),
];

fn mapfile(kind: &str) -> String {
    let mut s = String::from("!anmmap\n!ins_signatures\n11 S\n12 SS\n13 SSS\n14 SS\n5 Sot\n");
    match kind {
        "gt" => s.push_str("!ins_intrinsics\n5 CountJmp(op=\">\")\n"),
        "ne" => {},
        "nei" => s.push_str("!ins_intrinsics\n5 CountJmp()\n"),
        k => panic!("bad kind {k}"),
    }
    s
}

// ---------------------------------------------------------------------------------------------
// rendering to source text

fn expr_text(e: &Sexp) -> String {
    let a = e.args();
    match e.head().expect("expr head") {
        "i" => format!("{}", a[0].as_i64() as i32 as u32),
        "reg" => format!("$REG[{}]", a[0].as_i64()),
        "bin" => {
            let op = OPS.iter().find(|x| x.0 == a[0].as_atom()).unwrap_or_else(|| panic!("op {}", a[0])).1;
            format!("({} {} {})", expr_text(&a[1]), op, expr_text(&a[2]))
        },
        h => panic!("bad expr head {h}"),
    }
}

fn block_text(stmts: &[Sexp], out: &mut String, ind: usize) {
    out.push_str("{\n");
    for s in stmts { stmt_text(s, out, ind + 1); }
    for _ in 0..ind { out.push_str("  "); }
    out.push('}');
}

fn stmt_text(s: &Sexp, out: &mut String, ind: usize) {
    for _ in 0..ind { out.push_str("  "); }
    let a = s.args();
    match s.head().expect("stmt head") {
        "call" => {
            let args: Vec<String> = a[1..].iter().map(expr_text).collect();
            out.push_str(&format!("ins_{}({});", a[0].as_i64(), args.join(", ")));
        },
        "set" => out.push_str(&format!("$REG[{}] = {};", a[0].as_i64(), expr_text(&a[1]))),
        "tabs" => out.push_str(&format!("{}:", a[0].as_i64())),
        "trel" => out.push_str(&format!("+{}:", a[0].as_i64())),
        "block" => block_text(a, out, ind),
        "cond" => {
            for (i, b) in a.iter().enumerate() {
                if i > 0 { out.push_str(" else "); }
                let ba = b.args();
                match b.head().unwrap() {
                    kw @ ("if" | "unless") => { out.push_str(&format!("{kw} ({}) ", expr_text(&ba[0]))); block_text(&ba[1..], out, ind); },
                    "else" => block_text(ba, out, ind),
                    h => panic!("bad cond block {h}"),
                }
            }
        },
        "loop" => { out.push_str("loop "); block_text(a, out, ind); },
        "while" => { out.push_str(&format!("while ({}) ", expr_text(&a[0]))); block_text(&a[1..], out, ind); },
        "dowhile" => { out.push_str("do "); block_text(&a[1..], out, ind); out.push_str(&format!(" while ({});", expr_text(&a[0]))); },
        "times" => {
            if a[0].as_atom() == "none" { out.push_str(&format!("times({}) ", expr_text(&a[1]))); }
            else { out.push_str(&format!("times($REG[{}] = {}) ", a[0].as_i64(), expr_text(&a[1]))); }
            block_text(&a[2..], out, ind);
        },
        "break" => out.push_str("break;"),
        "cbreak" => out.push_str(&format!("{} ({}) break;", a[0].as_atom(), expr_text(&a[1]))),
        h => panic!("bad stmt head {h}"),
    }
    out.push('\n');
}

pub fn program_text(block: &Sexp) -> String {
    let mut out = String::new();
    block_text(block.as_list(), &mut out, 0);
    out.push('\n');
    out
}

// ---------------------------------------------------------------------------------------------
// flat AST -> S-expression (generated names renumbered by first occurrence)

struct Names { map: HashMap<String, usize> }
impl Names {
    fn get(&mut self, s: &str) -> Sexp { let n = self.map.len(); let k = *self.map.entry(s.to_string()).or_insert(n); Sexp::app("g", vec![Sexp::int(k as i64)]) }
}

fn var_sexp(v: &ast::Var, names: &mut Names) -> Sexp {
    match &v.name {
        ast::VarName::Reg { reg, .. } => Sexp::app("reg", vec![Sexp::int(reg.0)]),
        ast::VarName::Normal { ident, .. } => Sexp::app("tmp", vec![names.get(&format!("{}", ident.as_raw()))]),
    }
}

fn expr_sexp(e: &ast::Expr, names: &mut Names) -> Sexp {
    match e {
        ast::Expr::LitInt { value, .. } => Sexp::app("i", vec![Sexp::int(*value)]),
        ast::Expr::Var(v) => var_sexp(&v.value, names),
        ast::Expr::BinOp(a, op, b) => {
            let name = super::c11::binop_name(op.value);
            Sexp::app("bin", vec![Sexp::atom(name), expr_sexp(a, names), expr_sexp(b, names)])
        },
        ast::Expr::XcrementOp { op, order, var } => {
            let h = match (op.value, order) {
                (ast::XcrementOpKind::Dec, ast::XcrementOpOrder::Pre) => "predec",
                _ => "other-xcrement",
            };
            Sexp::app(h, vec![var_sexp(&var.value, names)])
        },
        _ => Sexp::atom("other-expr"),
    }
}

fn flat_sexp(stmts: &[truth::pos::Sp<ast::Stmt>]) -> Sexp {
    let mut names = Names { map: HashMap::new() };
    let mut out = vec![];
    for st in stmts {
        if st.diff_label.is_some() { out.push(Sexp::atom("difflabel")); }
        out.push(match &st.kind {
            ast::StmtKind::NoInstruction => Sexp::app("nop", vec![]),
            ast::StmtKind::Expr(e) => match &e.value {
                ast::Expr::Call(call) => {
                    let op = match call.name.value { ast::CallableName::Ins { opcode, .. } => opcode as i64, _ => -1 };
                    let mut v = vec![Sexp::int(op)];
                    for x in &call.args { v.push(expr_sexp(&x.value, &mut names)); }
                    Sexp::app("call", v)
                },
                _ => Sexp::atom("other-expr-stmt"),
            },
            ast::StmtKind::Assignment { var, op, value } => {
                if op.value != ast::AssignOpKind::Assign { Sexp::atom("other-assign") }
                else { Sexp::app("set", vec![var_sexp(&var.value, &mut names), expr_sexp(&value.value, &mut names)]) }
            },
            ast::StmtKind::AbsTimeLabel(t) => Sexp::app("tabs", vec![Sexp::int(t.value)]),
            ast::StmtKind::RelTimeLabel { delta, .. } => match delta.value {
                ast::Expr::LitInt { value, .. } => Sexp::app("trel", vec![Sexp::int(value)]),
                _ => Sexp::atom("other-trel"),
            },
            ast::StmtKind::Label(l) => Sexp::app("label", vec![names.get(&format!("{}", l.value))]),
            ast::StmtKind::Jump(ast::StmtJumpKind::Goto(g)) => {
                if g.time.is_some() { Sexp::atom("goto-with-time") } else { Sexp::app("goto", vec![names.get(&format!("{}", g.destination.value))]) }
            },
            ast::StmtKind::CondJump { keyword, cond, jump: ast::StmtJumpKind::Goto(g) } => {
                let kw = if keyword.value == ast::CondKeyword::If { "if" } else { "unless" };
                if g.time.is_some() { Sexp::atom("goto-with-time") }
                else { Sexp::app("cjmp", vec![Sexp::atom(kw), expr_sexp(&cond.value, &mut names), names.get(&format!("{}", g.destination.value))]) }
            },
            ast::StmtKind::Declaration { vars, .. } => {
                let mut v = vec![];
                for p in vars { let (var, init) = &p.value; if init.is_some() { v.push(Sexp::atom("init")); } v.push(var_sexp(&var.value, &mut names)); }
                Sexp::app("decl", v)
            },
            ast::StmtKind::ScopeEnd(_) => Sexp::app("scopeend", vec![]),
            k => Sexp::app("block-stmt", vec![Sexp::str(k.descr())]),
        });
    }
    Sexp::app("flat", out)
}

// ---------------------------------------------------------------------------------------------
// running the implementation

struct Prepared { before: Vec<truth::pos::Sp<ast::Stmt>>, after: Vec<truth::pos::Sp<ast::Stmt>> }

/// parse + the passes of `_run_randomized_test`; `f` gets (structured stmts, desugared stmts, ctx)
fn with_program<T>(kind: &str, block: &Sexp, f: impl FnOnce(&Prepared, &truth::context::CompilerContext<'_>) -> T) -> Result<T, String> {
    let text = program_text(block);
    let mut scope = truth::Builder::new().capture_diagnostics(true).build();
    let mut truth = scope.truth();
    truth.apply_mapfile_str(&mapfile(kind), truth::Game::Th12).map_err(|e| { e.ignore(); format!("mapfile: {}", truth.get_captured_diagnostics().unwrap_or_default()) })?;
    let r: Result<Prepared, truth::ErrorReported> = (|| {
        let mut b = truth.parse::<ast::Block>("<input>", text.as_bytes())?.value;
        let ctx = truth.ctx();
        truth::passes::resolution::assign_languages(&mut b, LanguageKey::Anm, ctx)?;
        truth::passes::resolution::resolve_names(&b, ctx)?;
        truth::passes::type_check::run(&b, ctx)?;
        truth::passes::resolution::aliases_to_raw(&mut b, ctx)?;
        truth::passes::resolution::compute_diff_label_masks(&mut b, ctx)?;
        let before = b.0.clone();
        truth::passes::desugar_blocks::run(&mut b, ctx, LanguageKey::Anm)?;
        Ok(Prepared { before, after: b.0 })
    })();
    match r {
        Ok(p) => Ok(f(&p, truth.ctx())),
        Err(e) => { e.ignore(); Err(crate::util::diag_class(&truth.get_captured_diagnostics().unwrap_or_default())) },
    }
}

fn value_sexp(v: &ScalarValue) -> Sexp {
    match v { ScalarValue::Int(i) => Sexp::int(*i), _ => Sexp::atom("non-int") }
}

/// `(ok time real_time (log (op rt args..)..) (regs..))`, `(limit)` or `(vmpanic "msg")`
fn run_vm(stmts: &[truth::pos::Sp<ast::Stmt>], ctx: &truth::context::CompilerContext<'_>, max: u32, regs: &Sexp) -> Sexp {
    let r = crate::pool::guarded(std::panic::AssertUnwindSafe(|| {
        let mut vm = truth::vm::AstVm::new().with_max_iterations(max);
        for (i, v) in regs.as_list().iter().enumerate() { vm.set_reg(RegId(REGS[i]), ScalarValue::Int(v.as_i32())); }
        vm.run(stmts, ctx);
        let log: Vec<Sexp> = vm.instr_log.iter().map(|c| {
            let mut v = vec![Sexp::int(c.opcode as i64), Sexp::int(c.real_time)];
            v.extend(c.args.iter().map(value_sexp));
            Sexp::list(v)
        }).collect();
        let regs: Vec<Sexp> = REGS.iter().map(|&r| vm.get_reg(RegId(r)).map(|v| value_sexp(&v)).unwrap_or(Sexp::atom("unset"))).collect();
        Sexp::app("ok", vec![Sexp::int(vm.time), Sexp::int(vm.real_time), Sexp::app("log", log), Sexp::app("regs", regs)])
    }));
    if r.head() == Some("panic") {
        let msg = r.args()[1].as_atom().to_string();
        if msg.contains("iteration limit exceeded") { return Sexp::app("limit", vec![]); }
        return Sexp::app("vmpanic", vec![Sexp::str(super::strip_digits(&msg))]);
    }
    r
}

fn desugar_case(kind: &str, block: &Sexp) -> Sexp {
    match with_program(kind, block, |p, _| flat_sexp(&p.after)) {
        Ok(s) => s,
        Err(e) => Sexp::app("err", vec![Sexp::str(e)]),
    }
}

fn vm_case(max: u32, regs: &Sexp, block: &Sexp) -> Sexp {
    match with_program("ne", block, |p, ctx| run_vm(&p.before, ctx, max, regs)) {
        Ok(s) => s,
        Err(e) => Sexp::app("err", vec![Sexp::str(e)]),
    }
}

fn vmflat_case(kind: &str, max: u32, regs: &Sexp, block: &Sexp) -> Sexp {
    match with_program(kind, block, |p, ctx| run_vm(&p.after, ctx, max, regs)) {
        Ok(s) => s,
        Err(e) => Sexp::app("err", vec![Sexp::str(e)]),
    }
}

/// Does some time label make the lexical time go backwards (or wrap)?  Static.
fn has_decreasing_time(block: &Sexp) -> bool {
    fn walk(stmts: &[Sexp], t: &mut i64, dec: &mut bool) {
        for s in stmts {
            let a = s.args();
            match s.head().unwrap_or("") {
                "tabs" => { let n = a[0].as_i64(); if n < *t { *dec = true; } *t = n; },
                "trel" => { let n = (*t + a[0].as_i64()) as i32 as i64; if n < *t { *dec = true; } *t = n; },
                "block" | "loop" => walk(a, t, dec),
                "while" | "dowhile" => walk(&a[1..], t, dec),
                "times" => walk(&a[2..], t, dec),
                "cond" => for b in a { let ba = b.args(); if b.head() == Some("else") { walk(ba, t, dec) } else { walk(&ba[1..], t, dec) } },
                _ => {},
            }
        }
    }
    let (mut t, mut dec) = (0i64, false);
    walk(block.as_list(), &mut t, &mut dec);
    dec
}

const PROBE_OP: i64 = 14;
const PROBE_COUNT: i64 = 7771;
const PROBE_COUNTER: i64 = 7772;

/// The same program with probes: `ins_14(7771, count)` in front of every `times(count)` without
/// counter and `ins_14(7772, C)` at the end of the body of every `times(C = ..)`.
fn instrument(stmts: &[Sexp]) -> Vec<Sexp> {
    let mut out = vec![];
    for s in stmts {
        let a = s.args();
        let h = s.head().unwrap_or("");
        let rebuilt = |keep: usize| { let mut v: Vec<Sexp> = a[..keep].to_vec(); v.extend(instrument(&a[keep..])); v };
        match h {
            "block" | "loop" => out.push(Sexp::app(h, rebuilt(0))),
            "while" | "dowhile" => out.push(Sexp::app(h, rebuilt(1))),
            "times" => {
                let mut v = rebuilt(2);
                if a[0].as_atom() == "none" {
                    out.push(Sexp::app("call", vec![Sexp::int(PROBE_OP), Sexp::app("i", vec![Sexp::int(PROBE_COUNT)]), a[1].clone()]));
                } else {
                    v.push(Sexp::app("call", vec![Sexp::int(PROBE_OP), Sexp::app("i", vec![Sexp::int(PROBE_COUNTER)]), Sexp::app("reg", vec![a[0].clone()])]));
                }
                out.push(Sexp::app("times", v));
            },
            "cond" => {
                let bs = a.iter().map(|b| { let ba = b.args(); let keep = if b.head() == Some("else") { 0 } else { 1 };
                    let mut v: Vec<Sexp> = ba[..keep].to_vec(); v.extend(instrument(&ba[keep..])); Sexp::app(b.head().unwrap(), v) }).collect();
                out.push(Sexp::app("cond", bs));
            },
            _ => out.push(s.clone()),
        }
    }
    out
}

/// Why the reference VM and the flat code are *expected* to differ on this run, if they are:
/// the three known discrepancies between `AstVm`'s structured semantics and the flat form
/// (see Props/C06.lean, `Mode` and `MonoL`).  Decided on the structured run itself (probes).
fn known_cause(kind: &str, max: u32, regs: &Sexp, block: &Sexp) -> Option<&'static str> {
    let probed = Sexp::list(instrument(block.as_list()));
    let run = with_program(kind, &probed, |p, ctx| run_vm(&p.before, ctx, 3 * max + 100, regs));
    if let Ok(r) = run {
        if r.head() == Some("ok") {
            let mut neg_count = false;
            let mut bad_counter = false;
            for c in r.args()[2].args() {
                let c = c.as_list();
                if c[0].as_i64() == PROBE_OP {
                    if c[2].as_i64() == PROBE_COUNT && c[3].as_i64() < 0 { neg_count = true; }
                    if c[2].as_i64() == PROBE_COUNTER && c[3].as_i64() <= 0 { bad_counter = true; }
                }
            }
            if neg_count { return Some("times count negative"); }
            if bad_counter && kind == "gt" { return Some("times counter not positive at decrement with the greater-than count jump"); }
        }
    }
    if has_decreasing_time(block) { return Some("time label goes backwards"); }
    None
}

fn cmp_case(kind: &str, max: u32, regs: &Sexp, block: &Sexp) -> Sexp {
    // the flat program visits a bounded number of extra statements (labels, jumps, bookkeeping) per
    // visited structured statement; 10x + 100 is far above that bound for the generated shapes
    let max_after = 10 * max + 100;
    let r = with_program(kind, block, |p, ctx| (run_vm(&p.before, ctx, max, regs), run_vm(&p.after, ctx, max_after, regs)));
    let (before, after) = match r { Ok(x) => x, Err(e) => return Sexp::app("err", vec![Sexp::str(e)]) };
    // the structured run did not terminate within the limit / is undefined in the reference VM: nothing to compare
    if before.head() != Some("ok") { return Sexp::app("skip", vec![Sexp::atom("before"), before]); }
    if before == after { return Sexp::app("pass", vec![]); }
    let sig = match known_cause(kind, max, regs, block) {
        Some(cause) => format!("AstVm before/after desugar_blocks differ: {cause}"),
        None => "AstVm before/after desugar_blocks differ".to_string(),
    };
    fail(sig, format!("kind {kind} regs {regs} before {before} after {after} source {}", program_text(block).replace('\n', " ")))
}

// ---------------------------------------------------------------------------------------------
// generator

struct Gen<'a> {
    rng: &'a mut Rng,
    /// allow absolute labels that go backwards / negative
    wild_time: bool,
    /// allow counts that may be negative, counters modified in the body
    wild_counts: bool,
    budget: i32,
}

impl Gen<'_> {
    fn small(&mut self) -> i64 { *self.rng.pick(&[0i64, 0, 1, 1, 2, 3, 5]) }
    fn reg(&mut self) -> i64 { REGS[self.rng.below(4)] as i64 }
    fn leaf(&mut self) -> Sexp {
        if self.rng.chance(1, 2) { Sexp::app("reg", vec![Sexp::int(self.reg())]) }
        else { let v = if self.rng.chance(5, 6) { self.rng.range(-3, 6) } else { self.rng.int_boundary() as i64 }; Sexp::app("i", vec![Sexp::int(v)]) }
    }
    fn expr(&mut self, depth: u32) -> Sexp {
        if depth == 0 || self.rng.chance(2, 5) { return self.leaf(); }
        let op = OPS[self.rng.below(OPS.len())].0;
        Sexp::app("bin", vec![Sexp::atom(op), self.expr(depth - 1), self.expr(depth - 1)])
    }
    fn cond(&mut self) -> Sexp {
        match self.rng.below(5) {
            0 => Sexp::app("reg", vec![Sexp::int(self.reg())]),
            1 => Sexp::app("i", vec![Sexp::int(self.rng.range(0, 1))]),
            _ => {
                let op = *self.rng.pick(&["eq", "ne", "lt", "le", "gt", "ge"]);
                Sexp::app("bin", vec![Sexp::atom(op), Sexp::app("reg", vec![Sexp::int(self.reg())]), Sexp::app("i", vec![Sexp::int(self.rng.range(-1, 4))])])
            },
        }
    }
    fn time_label(&mut self, cur: &mut i64) -> Sexp {
        if self.rng.chance(2, 3) {
            let d = *self.rng.pick(&[0i64, 1, 2, 3, 10]);
            *cur += d;
            Sexp::app("trel", vec![Sexp::int(d)])
        } else if self.wild_time && self.rng.chance(1, 2) {
            let t = *cur + self.rng.range(-12, 4);
            *cur = t;
            Sexp::app("tabs", vec![Sexp::int(t)])
        } else {
            let t = *cur + *self.rng.pick(&[0i64, 1, 4, 7]);
            *cur = t;
            Sexp::app("tabs", vec![Sexp::int(t)])
        }
    }
    fn simple(&mut self) -> Sexp {
        match self.rng.below(3) {
            0 => { let n = 1 + self.rng.below(3); let mut v = vec![Sexp::int(10 + n as i64)]; for _ in 0..n { v.push(self.expr(1)); } Sexp::app("call", v) },
            1 => Sexp::app("call", vec![Sexp::int(11), Sexp::app("reg", vec![Sexp::int(self.reg())])]),
            _ => Sexp::app("set", vec![Sexp::int(self.reg()), self.expr(2)]),
        }
    }
    /// statements of one block; `in_loop`: `break` allowed; `cur`: lexical time (for monotone labels)
    fn block(&mut self, depth: u32, in_loop: bool, cur: &mut i64) -> Vec<Sexp> {
        let mut out = vec![];
        if self.rng.chance(1, 3) { out.push(self.time_label(cur)); }
        let n = self.rng.below(4);
        for _ in 0..n {
            if self.budget <= 0 { break; }
            self.budget -= 1;
            out.push(self.stmt(depth, in_loop, cur));
            if self.rng.chance(1, 3) { out.push(self.time_label(cur)); }
        }
        if self.rng.chance(1, 4) { out.push(self.time_label(cur)); }
        out
    }
    fn stmt(&mut self, depth: u32, in_loop: bool, cur: &mut i64) -> Sexp {
        if depth == 0 || self.rng.chance(2, 5) {
            if in_loop && self.rng.chance(1, 6) {
                return if self.rng.chance(1, 2) { Sexp::app("break", vec![]) } else { Sexp::app("cbreak", vec![Sexp::atom(*self.rng.pick(&["if", "unless"])), self.cond()]) };
            }
            return self.simple();
        }
        let d = depth - 1;
        match self.rng.below(9) {
            0 => Sexp::app("block", self.block(d, in_loop, cur)),
            1 | 2 => {
                let nb = 1 + self.rng.below(3);
                let mut bs = vec![];
                for _ in 0..nb {
                    let kw = *self.rng.pick(&["if", "if", "unless"]);
                    let mut v = vec![self.cond()];
                    v.extend(self.block(d, in_loop, cur));
                    bs.push(Sexp::app(kw, v));
                }
                if self.rng.chance(1, 2) { bs.push(Sexp::app("else", self.block(d, in_loop, cur))); }
                Sexp::app("cond", bs)
            },
            3 => {
                // loop: must contain a way out; bounded by a register counter
                let r = self.reg();
                let mut body = self.block(d, true, cur);
                let guard = Sexp::app("cbreak", vec![Sexp::atom("if"), Sexp::app("bin", vec![Sexp::atom("ge"), Sexp::app("reg", vec![Sexp::int(r)]), Sexp::app("i", vec![Sexp::int(self.rng.range(0, 3))])])]);
                let inc = Sexp::app("set", vec![Sexp::int(r), Sexp::app("bin", vec![Sexp::atom("add"), Sexp::app("reg", vec![Sexp::int(r)]), Sexp::app("i", vec![Sexp::int(1)])])]);
                let pos = self.rng.below(body.len() + 1);
                body.insert(pos, guard);
                body.push(inc);
                Sexp::app("loop", body)
            },
            4 | 5 => {
                let r = self.reg();
                let lim = self.rng.range(0, 3);
                let c = Sexp::app("bin", vec![Sexp::atom("lt"), Sexp::app("reg", vec![Sexp::int(r)]), Sexp::app("i", vec![Sexp::int(lim)])]);
                let mut body = self.block(d, true, cur);
                let inc = Sexp::app("set", vec![Sexp::int(r), Sexp::app("bin", vec![Sexp::atom("add"), Sexp::app("reg", vec![Sexp::int(r)]), Sexp::app("i", vec![Sexp::int(1)])])]);
                let pos = self.rng.below(body.len() + 1);
                body.insert(pos, inc);
                let mut v = vec![c];
                v.extend(body);
                Sexp::app(if self.rng.chance(1, 2) { "while" } else { "dowhile" }, v)
            },
            _ => {
                let clob = if self.rng.chance(1, 2) { Sexp::atom("none") } else { Sexp::int(self.reg()) };
                let count = match self.rng.below(if self.wild_counts { 6 } else { 4 }) {
                    0 => Sexp::app("i", vec![Sexp::int(self.small())]),
                    1 => Sexp::app("i", vec![Sexp::int(self.rng.range(1, 3))]),
                    2 => Sexp::app("reg", vec![Sexp::int(self.reg())]),
                    3 => Sexp::app("bin", vec![Sexp::atom("add"), Sexp::app("reg", vec![Sexp::int(self.reg())]), Sexp::app("i", vec![Sexp::int(self.rng.range(0, 2))])]),
                    4 => Sexp::app("i", vec![Sexp::int(self.rng.range(-2, -1))]),
                    _ => self.expr(2),
                };
                let mut body = self.block(d, true, cur);
                if self.wild_counts && clob.as_atom() != "none" && self.rng.chance(1, 3) {
                    // the body writes the counter
                    let e = if self.rng.chance(1, 2) { Sexp::app("i", vec![Sexp::int(self.rng.range(-2, 2))]) } else { self.expr(1) };
                    let pos = self.rng.below(body.len() + 1);
                    body.insert(pos, Sexp::app("set", vec![clob.clone(), e]));
                }
                let mut v = vec![clob, count];
                v.extend(body);
                Sexp::app("times", v)
            },
        }
    }
    fn program(&mut self, depth: u32) -> Sexp {
        let mut cur = 0i64;
        self.budget = 14;
        let mut b = self.block(depth, false, &mut cur);
        if b.is_empty() { b.push(self.simple()); }
        Sexp::list(b)
    }
}

fn regs_valuation(rng: &mut Rng, wild: bool) -> Sexp {
    let mut v = vec![];
    for _ in 0..4 {
        let x: i64 = if wild && rng.chance(1, 8) { rng.int_boundary() as i64 } else if wild { rng.range(-2, 4) } else { rng.range(0, 4) };
        v.push(Sexp::int(x));
    }
    Sexp::list(v)
}

fn has_structure(b: &Sexp) -> bool {
    b.as_list().iter().any(|s| matches!(s.head(), Some("cond" | "loop" | "while" | "dowhile" | "times" | "block")))
}

fn tags(b: &Sexp, out: &mut Vec<String>) {
    fn walk(stmts: &[Sexp], depth: usize, f: &mut std::collections::BTreeSet<String>, maxd: &mut usize) {
        *maxd = (*maxd).max(depth);
        for s in stmts {
            let a = s.args();
            let h = s.head().unwrap_or("");
            match h {
                "block" | "loop" => { f.insert(h.into()); walk(a, depth + 1, f, maxd) },
                "while" | "dowhile" => { f.insert(h.into()); walk(&a[1..], depth + 1, f, maxd) },
                "times" => { f.insert(if a[0].as_atom() == "none" { "times".into() } else { "times-counter".into() }); walk(&a[2..], depth + 1, f, maxd) },
                "cond" => { f.insert(if a.len() > 1 { "cond-chain".into() } else { "cond".into() }); for b in a { let ba = b.args(); if b.head() == Some("else") { walk(ba, depth + 1, f, maxd) } else { walk(&ba[1..], depth + 1, f, maxd) } } },
                "break" | "cbreak" => { f.insert("break".into()); },
                "tabs" | "trel" => { f.insert("time-label".into()); },
                _ => {},
            }
        }
    }
    let mut f = Default::default();
    let mut maxd = 0;
    walk(b.as_list(), 0, &mut f, &mut maxd);
    for t in f { out.push(format!("has-{t}")); }
    out.push(format!("depth-{maxd}"));
}

impl Prop for C06 {
    fn id(&self) -> &'static str { "C06" }
    fn relation(&self) -> &'static str {
        "desugar: statement list produced by passes::desugar_blocks::run (generated label/temporary names renumbered by first occurrence) == Lean `desugar kind prog`; vm: AstVm (time, real_time, instr_log with times, registers, or iteration-limit / panic class) on the structured program == Lean `runS`; vmflat: AstVm on the desugared program == Lean `runF` on `annot (desugar kind prog)`"
    }
    fn rule(&self) -> &'static str {
        "grammar-directed programs, nesting depth <= 5, <= 14 statements per program: cond chains (if/unless, else), free blocks, loop/while/do-while with bounded register counters, times with and without counter register (constant 0/1/many, register and expression counts), break / conditional break at any depth, absolute and relative time labels at block starts, ends and between statements; both count-jump flavours; register valuations from {0..4} plus boundary values; a second stream (\"wild\") adds backwards / negative absolute time labels, negative and arbitrary counts, counters written by the loop body, boundary register values; differences between the VM before and after desugaring are filed under one of three known causes only when probes on the structured run (ins_14 before every times / at the end of every counter loop body) or the program text show that cause, otherwise under the generic signature; non-trivial = contains at least one block statement at top level; distinct by case text"
    }
    fn theorems(&self) -> &'static [&'static str] { &["TruthModel.C06.desugar_sound_partial", "TruthModel.C06.desugar_sound_pipeline_partial", "TruthModel.C06.desugar_times", "TruthModel.C06.desugar_flat", "TruthModel.C06.desugar_labels_unique", "TruthModel.C06.C06_full_false"] }

    fn gen(&self, tier: Tier, rng: &mut Rng) -> Vec<Case> {
        let scale = if tier == Tier::Quick { 1 } else { 25 };
        let mut out = vec![];
        let kinds = ["ne", "gt"];
        // fixed witnesses of the three known discrepancies (Props/C06.lean, `C06_full`)
        for w in [
            "(cmp gt 300 (0 0 0 0) ((times none (i -1) (call 11 (i 1)))))",
            "(cmp ne 300 (0 0 0 0) ((times none (i -1) (call 11 (i 1)) (break))))",
            "(cmp gt 300 (0 0 0 0) ((times 10000 (i 2) (call 11 (reg 10000)) (cond (if (bin eq (reg 10001) (i 0)) (set 10000 (i -1)) (set 10001 (i 1))) (else (set 10000 (i 1)))))))",
            "(cmp ne 300 (0 0 0 0) ((tabs 10) (call 11 (i 1)) (tabs 5) (cond (if (i 1) (trel 3) (call 11 (i 2))))))",
        ] {
            out.push(Case::search(crate::sexp::parse(w).unwrap()).tag("known-discrepancy-witness"));
        }
        let mk = |head: &str, parts: Vec<Sexp>| Sexp::app(head, parts);
        // well-behaved programs (monotone time labels, non-negative counts): all four relations
        for i in 0..2000 * scale {
            let depth = 1 + (i % 5) as u32;
            let prog = Gen { rng, wild_time: false, wild_counts: false, budget: 0 }.program(depth);
            let kind = kinds[i % 2];
            let mut t = vec![]; tags(&prog, &mut t);
            let nt = has_structure(&prog);
            let mut push = |c: Case, what: &str| { let mut c = c.tag(what.to_string()).trivial(!nt); for x in &t { c = c.tag(x.clone()); } out.push(c); };
            push(Case::corr(mk("desugar", vec![Sexp::atom(kind), prog.clone()])), "desugar");
            for _ in 0..2 {
                let regs = regs_valuation(rng, false);
                push(Case::corr(mk("vm", vec![Sexp::int(300), regs.clone(), prog.clone()])), "vm-structured");
                push(Case::corr(mk("vmflat", vec![Sexp::atom(kind), Sexp::int(900), regs.clone(), prog.clone()])), "vm-flat");
                push(Case::search(mk("cmp", vec![Sexp::atom(kind), Sexp::int(300), regs, prog.clone()])), "before-after");
            }
        }
        // wild programs: decreasing / negative absolute labels, negative counts, boundary registers
        for i in 0..1000 * scale {
            let depth = 1 + (i % 5) as u32;
            let wild_time = i % 3 == 0;
            let prog = Gen { rng, wild_time, wild_counts: !wild_time || i % 2 == 0, budget: 0 }.program(depth);
            let kind = kinds[(i / 3) % 2];
            let mut t = vec![]; tags(&prog, &mut t);
            let nt = has_structure(&prog);
            let mut push = |c: Case, what: &str| { let mut c = c.tag(what.to_string()).trivial(!nt); for x in &t { c = c.tag(x.clone()); } out.push(c); };
            push(Case::corr(mk("desugar", vec![Sexp::atom(kind), prog.clone()])), "desugar-wild");
            for _ in 0..2 {
                let regs = regs_valuation(rng, true);
                push(Case::corr(mk("vm", vec![Sexp::int(300), regs.clone(), prog.clone()])), "vm-structured-wild");
                push(Case::corr(mk("vmflat", vec![Sexp::atom(kind), Sexp::int(900), regs.clone(), prog.clone()])), "vm-flat-wild");
                push(Case::search(mk("cmp", vec![Sexp::atom(kind), Sexp::int(300), regs, prog.clone()])), "before-after-wild");
            }
        }
        out
    }

    fn eval(&self, case: &Sexp) -> Sexp {
        let a = case.args();
        match case.head() {
            Some("desugar") => desugar_case(a[0].as_atom(), &a[1]),
            Some("vm") => vm_case(a[0].as_i64() as u32, &a[1], &a[2]),
            Some("vmflat") => vmflat_case(a[0].as_atom(), a[1].as_i64() as u32, &a[2], &a[3]),
            Some("cmp") => cmp_case(a[0].as_atom(), a[1].as_i64() as u32, &a[2], &a[3]),
            Some("text") => Sexp::str(program_text(&a[0])),
            _ => Sexp::atom("bad-case"),
        }
    }

    fn judge(&self, _case: &Sexp, result: &Sexp) -> Option<Failure> { super::default_judge(result) }

    fn neighbours(&self, case: &Sexp, rng: &mut Rng) -> Vec<Case> {
        // a disagreement between model and implementation on a program: does desugaring change its behaviour?
        let a = case.args();
        let prog = match case.head() { Some("desugar") => a[1].clone(), Some("vm") => a[2].clone(), Some("vmflat") => a[3].clone(), _ => return vec![] };
        let mut out = vec![];
        for kind in ["ne", "gt"] {
            for _ in 0..6 {
                out.push(Case::search(Sexp::app("cmp", vec![Sexp::atom(kind), Sexp::int(300), regs_valuation(rng, true), prog.clone()])));
            }
        }
        out
    }
}
