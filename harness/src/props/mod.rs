use crate::rng::Rng;
use crate::sexp::Sexp;

#[derive(Copy, Clone, PartialEq, Eq, Debug)]
pub enum Tier { Quick, Thorough }

pub struct Case {
    pub sexp: Sexp,
    /// compare the implementation's result with the Lean model's result
    pub corr: bool,
    /// non-trivial under the property's stated rule
    pub nontrivial: bool,
    pub tags: Vec<String>,
}

impl Case {
    pub fn corr(sexp: Sexp) -> Case { Case { sexp, corr: true, nontrivial: true, tags: vec![] } }
    pub fn search(sexp: Sexp) -> Case { Case { sexp, corr: false, nontrivial: true, tags: vec![] } }
    pub fn tag(mut self, t: impl Into<String>) -> Case { self.tags.push(t.into()); self }
    pub fn trivial(mut self, t: bool) -> Case { self.nontrivial = !t; self }
}

#[derive(Debug, Clone)]
pub struct Failure {
    /// key under which a finding is listed in known_findings.json
    pub signature: String,
    pub what: String,
}

pub trait Prop: Sync {
    fn id(&self) -> &'static str;
    /// What is compared between model and implementation (goes into evidence and replays).
    fn relation(&self) -> &'static str;
    /// How cases are generated and what counts as non-trivial.
    fn rule(&self) -> &'static str;
    fn theorems(&self) -> &'static [&'static str] { &[] }
    fn gen(&self, tier: Tier, rng: &mut Rng) -> Vec<Case>;
    /// Runs the real implementation on one case (inside a worker process).
    fn eval(&self, case: &Sexp) -> Sexp;
    /// Is this implementation result a violation of the property itself?
    fn judge(&self, _case: &Sexp, result: &Sexp) -> Option<Failure> { default_judge(result) }
    fn timeout_secs(&self) -> u64 { 20 }
    /// Neighbourhood of a case on which model and implementation disagreed, searched for a
    /// concrete failing input of the property.
    fn neighbours(&self, _case: &Sexp, _rng: &mut Rng) -> Vec<Case> { vec![] }
}

pub fn strip_digits(s: &str) -> String {
    let mut out = String::new();
    let mut last_hash = false;
    for c in s.chars() {
        if c.is_ascii_digit() { if !last_hash { out.push('#'); last_hash = true; } }
        else { out.push(c); last_hash = false; }
    }
    out
}

/// panic / abort / timeout are violations for every property here (truth must never crash);
/// `(fail sig what)` is how a search oracle reports a property failure.
pub fn default_judge(result: &Sexp) -> Option<Failure> {
    match result.head() {
        Some("panic") => {
            let a = result.args();
            let file = a[0].as_atom().split(':').next().unwrap_or("?").to_string();
            let msg = strip_digits(a[1].as_atom());
            let msg: String = msg.chars().take(80).collect();
            Some(Failure { signature: format!("panic {file} {msg}"), what: format!("panic at {}: {}", a[0].as_atom(), a[1].as_atom()) })
        },
        Some("abort") => Some(Failure { signature: format!("abort {}", strip_digits(result.args()[0].as_atom())), what: format!("{result}") }),
        Some("timeout") => Some(Failure { signature: "timeout".into(), what: format!("{result}") }),
        Some("fail") => {
            let a = result.args();
            Some(Failure { signature: a[0].as_atom().to_string(), what: a.get(1).map(|x| format!("{x}")).unwrap_or_default() })
        },
        _ => None,
    }
}

pub fn fail(sig: impl Into<String>, what: impl Into<String>) -> Sexp {
    Sexp::app("fail", vec![Sexp::str(sig.into()), Sexp::str(what.into())])
}

pub mod c11;
pub mod c04;
pub mod c08;
pub mod c08_expr;
pub mod c08_stmt;
pub mod c18;
pub mod c20;
pub mod lw;
pub mod c02;
pub mod c05;
pub mod c09;
pub mod c07;
pub mod c15;
pub mod c12;
pub mod c12_parts;
pub mod c10;
pub mod c10_ref;
pub mod c06;
pub mod c14;
pub mod c14_raise;
pub mod c13;
pub mod c13x;
pub mod c17;
pub mod instr_io;
pub mod files;
pub mod files_anm;
pub mod files_ecl10;
pub mod c03;
pub mod c16;
pub mod c01;
pub mod c01_flat;
pub mod c19;

pub fn all() -> Vec<Box<dyn Prop>> {
    vec![
        Box::new(c11::C11),
        Box::new(c04::C04),
        Box::new(c08::C08),
        Box::new(c18::C18),
        Box::new(c20::C20),
        Box::new(c02::C02),
        Box::new(c05::C05),
        Box::new(c09::C09),
        Box::new(c07::C07),
        Box::new(c15::C15),
        Box::new(c12::C12),
        Box::new(c10::C10),
        Box::new(c06::C06),
        Box::new(c14::C14),
        Box::new(c13::C13),
        Box::new(c17::C17),
        Box::new(c03::C03),
        Box::new(c16::C16),
        Box::new(c01::C01),
        Box::new(c19::C19),
    ]
}

pub fn by_id(id: &str) -> Option<Box<dyn Prop>> { all().into_iter().find(|p| p.id() == id) }
