//! The stack ECL container (TH10 and later) through the real reader / writer (`truth::StackEclFile::{read_from_stream,
//! write_to_stream}`, src/formats/ecl/ecl_10.rs), shared by C03 and C16.  Compared with the Lean model
//! `TruthModel.Files.{readEcl10, writeEcl10}` (Model/FilesEcl10.lean) and, for the instruction format,
//! `TruthModel.InstrIO.{readInstrs10, writeInstrs10}` (Model/InstrIO10.lean).
//!
//!   (recl10 game (<read table>) x<bytes>)        -> (ok <structure>) | (err class) | (panic file msg)
//!   (wecl10 game (<write table>) <structure>)    -> (ok x<bytes>)    | (err class) | (panic file msg)
//!   (rinstrs10 x<bytes>)                         -> (ok (i10 ..)..)  | (err class)      the bytes as the only sub of a file
//!   (winstrs10 (i10 ..)..)                       -> (ok x<bytes>)    | (err class)      the sub's bytes of the written file
//!   (wrecl10 game <structure>)     oracle: the written structure read back == the requested one (the Lean theorem
//!                                  `ecl10_read_write`); a name containing U+0000 must be rejected with a diagnostic (dcd07d9)
//!   (ecl10src game source)         oracle: the include lists and sub names a SOURCE asks for are what a reader of the
//!                                  compiled file sees, and every string section of the file is a multiple of 4 bytes long
//!
//! Structure: (ecl10 (anim x<utf8>..) (ecli x<utf8>..) (subs (s x<utf8 name> (i10 time opcode mask difficulty nargs pop x<blob>)..)..))
//! Text is the hex of the UTF-8 bytes of the `String`.  The model's text <-> bytes parameter is handed over per case:
//! read table  = (x<raw> x<utf8>|none) for every NUL-terminated byte segment of the file that is not plain ASCII
//!               (`read_cstring_blockwise(1)` can only ever return such a segment), decoded with the real `Encoded::decode`;
//! write table = (x<utf8> x<raw>|none) for every string of the structure that is not plain ASCII, encoded with `Encoded::encode`.

use super::Case;
use crate::rng::Rng;
use crate::sexp::{Sexp, hex, unhex};
use crate::tc::{self, Format, Compiled};
use crate::gensrc;
use truth::Game;
use truth::io::{Encoded, DEFAULT_ENCODING};
use truth::llir::{RawInstr, RawScript};

pub const GAMES: &[Game] = &[Game::Th10, Game::Th11, Game::Th12, Game::Th125, Game::Th128, Game::Th13, Game::Th14, Game::Th143, Game::Th15, Game::Th16, Game::Th165, Game::Th17, Game::Th18];

fn decodes(b: &[u8]) -> Option<String> { Encoded(b.to_vec()).decode(DEFAULT_ENCODING).ok() }
fn encode(s: &str) -> Option<Vec<u8>> { Encoded::encode(&sp!(s), DEFAULT_ENCODING).ok().map(|e| e.0) }

// ---------------------------------------------------------------------------------------------
// text tables

/// every NUL-terminated segment of the file that is not plain ASCII, with its decoding
pub fn read_table(b: &[u8]) -> Vec<Sexp> {
    let mut seen = std::collections::HashSet::new();
    let mut out = vec![];
    // next NUL at or after each position
    let mut next_nul = vec![usize::MAX; b.len() + 1];
    for p in (0..b.len()).rev() { next_nul[p] = if b[p] == 0 { p } else { next_nul[p + 1] }; }
    // positions from which a high byte is reached before the NUL
    let mut p = 0;
    while p < b.len() {
        let e = next_nul[p];
        if e == usize::MAX { break; }
        // all starts in [p, e) share the terminator e; only those at or before the last high byte matter
        if let Some(last_high) = (p..e).rev().find(|&q| b[q] >= 0x80) {
            for q in p..=last_high {
                let seg = &b[q..e];
                if seen.insert(seg.to_vec()) {
                    out.push(Sexp::list(vec![Sexp::atom(hex(seg)), match decodes(seg) { Some(s) => Sexp::atom(hex(s.as_bytes())), None => Sexp::atom("none") }]));
                }
            }
        }
        p = e + 1;
    }
    out
}

fn texts_of(st: &Sexp) -> Vec<String> {
    let a = st.args();
    let mut out: Vec<String> = vec![];
    for x in a[0].args().iter().chain(a[1].args().iter()) { out.push(String::from_utf8_lossy(&unhex(x.as_atom())).into_owned()); }
    for s in a[2].args() { out.push(String::from_utf8_lossy(&unhex(s.args()[0].as_atom())).into_owned()); }
    out
}

pub fn write_table(st: &Sexp) -> Vec<Sexp> {
    let mut seen = std::collections::HashSet::new();
    let mut out = vec![];
    for s in texts_of(st) {
        if s.is_ascii() || !seen.insert(s.clone()) { continue; }
        out.push(Sexp::list(vec![Sexp::atom(hex(s.as_bytes())), match encode(&s) { Some(b) => Sexp::atom(hex(&b)), None => Sexp::atom("none") }]));
    }
    out
}

// ---------------------------------------------------------------------------------------------
// structure <-> S-expression

pub fn i10_fields(time: i32, opcode: u16, mask: u16, difficulty: u8, nargs: u8, pop: u8, blob: &[u8]) -> Sexp {
    Sexp::app("i10", vec![Sexp::int(time), Sexp::int(opcode), Sexp::int(mask), Sexp::int(difficulty), Sexp::int(nargs), Sexp::int(pop), Sexp::atom(hex(blob))])
}
pub fn i10_sexp(i: &RawInstr) -> Sexp { i10_fields(i.time, i.opcode, i.param_mask, i.difficulty, i.arg_count, i.pop, &i.args_blob) }
pub fn raw_of_i10(s: &Sexp) -> RawInstr {
    let a = s.args();
    RawInstr { time: a[0].as_i64() as i32, opcode: a[1].as_i64() as u16, param_mask: a[2].as_i64() as u16, difficulty: a[3].as_i64() as u8,
        arg_count: a[4].as_i64() as u8, pop: a[5].as_i64() as u8, args_blob: unhex(a[6].as_atom()), extra_arg: None }
}
fn text(s: &str) -> Sexp { Sexp::atom(hex(s.as_bytes())) }

pub fn ecl10_sexp(f: &truth::StackEclFile) -> Sexp {
    Sexp::app("ecl10", vec![
        Sexp::app("anim", f.anim_list.iter().map(|s| text(&s.value)).collect()),
        Sexp::app("ecli", f.ecli_list.iter().map(|s| text(&s.value)).collect()),
        Sexp::app("subs", f.subs.iter().map(|(k, v)| { let mut x = vec![text(&k.value)]; x.extend(v.instrs.iter().map(i10_sexp)); Sexp::app("s", x) }).collect())])
}

fn as_stack(c: Compiled) -> Option<truth::StackEclFile> { match c { Compiled::Ecl(truth::EclFile::Stack(f)) => Some(f), _ => None } }

/// the in-memory file a structure describes, on top of a compiled empty file (`binary_filename` is private)
fn build_stack(truth: &mut truth::Truth, game: Game, st: &Sexp) -> Result<truth::StackEclFile, truth::ErrorReported> {
    let script = truth.parse::<truth::ast::ScriptFile>("<base>", b"void main() { }\n")?.value;
    let span = script.items[0].span;   // a span that exists in the file database (diagnostics of the writer point at spans)
    let mut f = as_stack(tc::compile_ast(truth, Format::Ecl, game, &script)?).expect("stack ECL");
    let a = st.args();
    let t = |x: &Sexp| sp!(span => String::from_utf8_lossy(&unhex(x.as_atom())).into_owned());
    f.anim_list = a[0].args().iter().map(t).collect();
    f.ecli_list = a[1].args().iter().map(t).collect();
    f.subs = a[2].args().iter().map(|s| { let x = s.args(); (t(&x[0]), RawScript { instrs: x[1..].iter().map(raw_of_i10).collect(), file_offset: None }) }).collect();
    Ok(f)
}

// ---------------------------------------------------------------------------------------------
// evaluation

pub fn err_class10(diags: &str) -> String {
    // a sub name read from a damaged file may contain line breaks ("in sub 0 (<name>): <message>"): the diagnostic is
    // everything from the first line that starts with `error`, taken as one line
    let flat: String = { let ls: Vec<&str> = diags.lines().collect(); match ls.iter().position(|l| l.starts_with("error")) { Some(k) => ls[k..].join(" "), None => String::new() } };
    let diags: &str = &flat;
    let line = diags;
    const TABLE: &[(&str, &str)] = &[
        ("sub offsets are not sorted", "sub offsets are not sorted!"),
        ("include section is too large to fit", "include section is too large to fit!"),
        ("string encoding error", "string encoding error"),
        ("cannot contain a NUL character", "string in a list of names cannot contain a NUL character"),
    ];
    for (needle, class) in TABLE { if line.contains(needle) { return class.to_string(); } }
    super::files::file_err_class(diags)
}

fn strip_panic_line(r: Sexp) -> Sexp {
    if r.head() == Some("panic") {
        let a = r.args();
        let file = a[0].as_atom().split(':').next().unwrap_or("?").to_string();
        return Sexp::app("panic", vec![Sexp::str(file), Sexp::str(a[1].as_atom().to_string())]);
    }
    r
}

fn read_stack(truth: &mut truth::Truth, game: Game, bytes: &[u8]) -> Result<truth::StackEclFile, truth::ErrorReported> {
    Ok(as_stack(tc::read_bytes(truth, Format::Ecl, game, bytes)?).expect("stack ECL"))
}

pub fn eval_recl10(case: &Sexp) -> Sexp {
    let a = case.args();
    let game = tc::game(a[0].as_atom());
    let bytes = unhex(a[2].as_atom());
    strip_panic_line(crate::pool::guarded(std::panic::AssertUnwindSafe(|| {
        let out = tc::with_truth(Format::Ecl, game, &[], |truth| read_stack(truth, game, &bytes));
        match out.value {
            Some(f) => Sexp::app("ok", vec![ecl10_sexp(&f)]),
            None => Sexp::app("err", vec![Sexp::str(err_class10(&out.diagnostics))]),
        }
    })))
}

pub fn eval_wecl10(case: &Sexp) -> Sexp {
    let a = case.args();
    let game = tc::game(a[0].as_atom());
    strip_panic_line(crate::pool::guarded(std::panic::AssertUnwindSafe(|| {
        let out = tc::with_truth(Format::Ecl, game, &[], |truth| {
            let f = build_stack(truth, game, &a[2])?;
            tc::write_bytes(truth, Format::Ecl, game, &Compiled::Ecl(truth::EclFile::Stack(f)))
        });
        match out.value {
            Some(b) => Sexp::app("ok", vec![Sexp::atom(hex(&b))]),
            None => Sexp::app("err", vec![Sexp::str(err_class10(&out.diagnostics))]),
        }
    })))
}

/// a file whose only sub (named `m`, no includes) has the given instruction bytes; the sub starts at offset 76
pub fn wrap_sub(instr_bytes: &[u8]) -> Vec<u8> {
    let mut f = vec![];
    f.extend(b"SCPT"); f.extend(1u16.to_le_bytes()); f.extend(16u16.to_le_bytes()); f.extend(36u32.to_le_bytes());
    f.extend(0u32.to_le_bytes()); f.extend(1u32.to_le_bytes()); f.extend([0u8; 16]);
    f.extend(b"ANIM"); f.extend(0u32.to_le_bytes()); f.extend(b"ECLI"); f.extend(0u32.to_le_bytes());
    f.extend(60u32.to_le_bytes()); f.extend(b"m\0\0\0");
    f.extend(b"ECLH"); f.extend(16u32.to_le_bytes()); f.extend([0u8; 8]);
    assert_eq!(f.len(), 76);
    f.extend(instr_bytes);
    f
}

pub fn eval_rinstrs10(case: &Sexp) -> Sexp {
    let bytes = wrap_sub(&unhex(case.args()[0].as_atom()));
    strip_panic_line(crate::pool::guarded(std::panic::AssertUnwindSafe(|| {
        let out = tc::with_truth(Format::Ecl, Game::Th10, &[], |truth| read_stack(truth, Game::Th10, &bytes));
        match out.value {
            Some(f) => match f.subs.values().next() { Some(s) if f.subs.len() == 1 => Sexp::app("ok", s.instrs.iter().map(i10_sexp).collect()), _ => Sexp::atom("wrapper-did-not-read-as-one-sub") },
            None => Sexp::app("err", vec![Sexp::str(err_class10(&out.diagnostics))]),
        }
    })))
}

pub fn eval_winstrs10(case: &Sexp) -> Sexp {
    let st = Sexp::app("ecl10", vec![Sexp::app("anim", vec![]), Sexp::app("ecli", vec![]), Sexp::app("subs", vec![{ let mut x = vec![text("m")]; x.extend(case.args().iter().cloned()); Sexp::app("s", x) }])]);
    strip_panic_line(crate::pool::guarded(std::panic::AssertUnwindSafe(|| {
        let out = tc::with_truth(Format::Ecl, Game::Th10, &[], |truth| {
            let f = build_stack(truth, Game::Th10, &st)?;
            tc::write_bytes(truth, Format::Ecl, Game::Th10, &Compiled::Ecl(truth::EclFile::Stack(f)))
        });
        match out.value {
            Some(b) => if b.len() >= 76 && b[..76] == wrap_sub(&[])[..] { Sexp::app("ok", vec![Sexp::atom(hex(&b[76..]))]) } else { Sexp::atom("unexpected-wrapper-bytes") },
            None => Sexp::app("err", vec![Sexp::str(err_class10(&out.diagnostics))]),
        }
    })))
}

pub const NUL_SIG: &str = "written-file-not-read-back ecl10 nul-in-include-name";
fn has_nul_name(st: &Sexp) -> bool { texts_of(st).iter().any(|s| s.contains('\0')) }
fn clip(s: String) -> String { if s.len() > 600 { let mut e = 600; while !s.is_char_boundary(e) { e -= 1; } format!("{}...", &s[..e]) } else { s } }

/// C03 on the writer itself: what was written must read back as what was asked
pub fn eval_wrecl10(case: &Sexp) -> Sexp {
    let a = case.args();
    let game = tc::game(a[0].as_atom());
    let st = &a[1];
    // duplicate sub names cannot be held by the IndexMap of the real file
    let names: Vec<&str> = st.args()[2].args().iter().map(|s| s.args()[0].as_atom()).collect();
    if (1..names.len()).any(|i| names[..i].contains(&names[i])) { return Sexp::app("skip", vec![Sexp::atom("duplicate-sub-names")]); }
    // the three scalars whose Shift-JIS encoding decodes to another character are pinned by C15 (`AMBIGUOUS`): outside the codec hypothesis
    if texts_of(st).iter().any(|t| t.chars().any(|c| super::c15::AMBIGUOUS.iter().any(|(a, _)| *a == c as u32))) { return Sexp::app("skip", vec![Sexp::atom("ambiguous-shift-jis-scalar")]); }
    let out = tc::with_truth(Format::Ecl, game, &[], |truth| {
        let f = build_stack(truth, game, st)?;
        tc::write_bytes(truth, Format::Ecl, game, &Compiled::Ecl(truth::EclFile::Stack(f)))
    });
    let bytes = match out.value { Some(b) => b, None => return Sexp::app("rejected", vec![Sexp::str(err_class10(&out.diagnostics))]) };
    // a NUL inside a name must be rejected by the writer (dcd07d9; Lean: `ecl10_nul_in_name_rejected`, `ecl10_write_ok_nul_free`);
    // a silent write that comes back is reported under the signature of the repaired finding, whatever the reader makes of the file
    let nul = has_nul_name(st);
    if nul { return super::fail(NUL_SIG, format!("{game}: a name containing U+0000 was written without a diagnostic ({} bytes); structure {}", bytes.len(), clip(format!("{st}")))); }
    let back = tc::with_truth(Format::Ecl, game, &[], |truth| read_stack(truth, game, &bytes));
    match back.value {
        None => super::fail(if nul { NUL_SIG.to_string() } else { "written-structure-unreadable ecl10".to_string() }, format!("{game}: {} ; structure {}", err_class10(&back.diagnostics), clip(format!("{st}")))),
        Some(f) => {
            let got = format!("{}", ecl10_sexp(&f));
            let want = format!("{st}");
            if got == want { Sexp::app("pass", vec![Sexp::int(bytes.len() as i64)]) }
            else { super::fail(if nul { NUL_SIG.to_string() } else { "written-structure-differs ecl10".to_string() }, format!("{game}: wrote {} read {}", clip(want), clip(got))) }
        },
    }
}

/// independent walk of a written file: (offset, length) of the three string sections (after the counts), or None
fn string_sections(b: &[u8]) -> Option<Vec<(usize, usize)>> {
    let u32_at = |p: usize| -> Option<usize> { if p + 4 <= b.len() { Some(u32::from_le_bytes([b[p], b[p + 1], b[p + 2], b[p + 3]]) as usize) } else { None } };
    let u16_at = |p: usize| -> Option<usize> { if p + 2 <= b.len() { Some(u16::from_le_bytes([b[p], b[p + 1]]) as usize) } else { None } };
    let include_length = u16_at(6)?;
    let nsubs = u32_at(16)?;
    // the ANIM section ends where "ECLI" starts; the writer gives no length, so find the magic at a 4-aligned offset
    if b.get(36..40)? != b"ANIM" { return None; }
    let sub_list = 36 + include_length;
    let mut ecli = None;
    let mut p = 44;
    while p + 4 <= sub_list { if &b[p..p + 4] == b"ECLI" { ecli = Some(p); } p += 4; }
    let ecli = ecli?;
    let first_sub = if nsubs == 0 { b.len() } else { u32_at(sub_list)? };
    Some(vec![(44, ecli - 44), (ecli + 8, sub_list.checked_sub(ecli + 8)?), (sub_list + 4 * nsubs, first_sub.checked_sub(sub_list + 4 * nsubs)?)])
}

/// string literals of `key: [..]` in the generated meta line
fn source_list(text: &str, key: &str) -> Vec<String> {
    let line = text.lines().find(|l| l.starts_with("meta")).unwrap_or("");
    let start = match line.find(&format!("{key}: [")) { Some(p) => p + key.len() + 3, None => return vec![] };
    let end = start + line[start..].find(']').unwrap_or(0);
    line[start..end].split(", ").filter(|s| s.len() >= 2).map(|s| s[1..s.len() - 1].to_string()).collect()
}

/// C03 at source level, independent of the in-memory file: the names the source asks for are the names a reader sees
pub fn eval_ecl10src(case: &Sexp) -> Sexp {
    let a = case.args();
    let game = tc::game(a[0].as_atom());
    let src = a[1].as_atom();
    let c = tc::compile(Format::Ecl, game, &[], src.as_bytes());
    let bytes = match c.value {
        Some(b) => b,
        None => return if c.has_error_diag() { Sexp::app("rejected", vec![Sexp::str(crate::util::diag_class(&c.diagnostics))]) } else { super::fail("compile-fails-without-error-diagnostic", format!("ecl {game}")) },
    };
    // `\\0` in a string literal of the source is U+0000 in the name: must have been rejected (dcd07d9)
    if src.contains("\\0") { return super::fail(NUL_SIG, format!("{game}: a source with U+0000 in an include name compiled without a diagnostic ({} bytes): {}", bytes.len(), clip(src.to_string()))); }
    if let Some(secs) = string_sections(&bytes) {
        for (k, (_, len)) in secs.iter().enumerate() {
            if len % 4 != 0 { return super::fail("string-section-not-a-multiple-of-4 ecl10", format!("{game}: section {} of the compiled file is {len} bytes long; source {}", ["ANIM", "ECLI", "sub names"][k], clip(src.to_string()))); }
        }
    }
    // `\0` in a string literal of the source is U+0000 in the name
    let nul = src.contains("\\0");
    let want_anim: Vec<String> = source_list(src, "anim").into_iter().map(|s| s.replace("\\0", "\0")).collect();
    let want_ecli: Vec<String> = source_list(src, "ecli").into_iter().map(|s| s.replace("\\0", "\0")).collect();
    let want_subs: Vec<String> = src.lines().filter_map(|l| l.strip_prefix("void ")).map(|l| l.split('(').next().unwrap_or("").to_string()).collect();
    let back = tc::with_truth(Format::Ecl, game, &[], |truth| read_stack(truth, game, &bytes));
    match back.value {
        None => super::fail(if nul { NUL_SIG } else { "written-file-unreadable ecl10" }, format!("{game}: {} ; source {}", err_class10(&back.diagnostics), clip(src.to_string()))),
        Some(f) => {
            let got_anim: Vec<String> = f.anim_list.iter().map(|s| s.value.clone()).collect();
            let got_ecli: Vec<String> = f.ecli_list.iter().map(|s| s.value.clone()).collect();
            let got_subs: Vec<String> = f.subs.keys().map(|s| s.value.clone()).collect();
            if nul && (got_anim != want_anim || got_ecli != want_ecli) { return super::fail(NUL_SIG, format!("{game}: source asks for anim {want_anim:?} ecli {want_ecli:?}, the file reads back {got_anim:?} {got_ecli:?}")); }
            if got_anim != want_anim { return super::fail("written-file-differs ecl10 anim", format!("{game}: source asks for {want_anim:?}, the file reads back {got_anim:?}")); }
            if got_ecli != want_ecli { return super::fail("written-file-differs ecl10 ecli", format!("{game}: source asks for {want_ecli:?}, the file reads back {got_ecli:?}")); }
            if got_subs != want_subs { return super::fail("written-file-differs ecl10 sub-names", format!("{game}: source asks for {want_subs:?}, the file reads back {got_subs:?}")); }
            Sexp::app("pass", vec![Sexp::int(bytes.len() as i64)])
        },
    }
}

// ---------------------------------------------------------------------------------------------
// generators

pub struct Seed { pub game: Game, pub bytes: Vec<u8>, pub structure: Sexp, pub source: String }

pub fn compile_seed(g: &gensrc::GenSource) -> Option<Seed> {
    let r = std::panic::catch_unwind(|| {
        tc::with_truth(g.format, g.game, &g.maps, |truth| {
            let script = truth.parse::<truth::ast::ScriptFile>("<input>", g.text.as_bytes())?.value;
            let f = as_stack(tc::compile_ast(truth, g.format, g.game, &script)?).expect("stack ECL");
            let st = ecl10_sexp(&f);
            let bytes = tc::write_bytes(truth, g.format, g.game, &Compiled::Ecl(truth::EclFile::Stack(f)))?;
            Ok((st, bytes))
        }).value
    });
    let (structure, bytes) = r.ok().flatten()?;
    Some(Seed { game: g.game, bytes, structure, source: g.text.clone() })
}

pub fn seeds(rng: &mut Rng, n: usize) -> Vec<Seed> {
    let mut out = vec![];
    let mut tries = 0;
    while out.len() < n && tries < 4 * n {
        tries += 1;
        let game = *rng.pick(GAMES);
        let g = if rng.chance(1, 4) { gensrc::gen_ecl10(rng, game) } else { gensrc::gen_ecl10_wide(rng, game) };
        if let Some(s) = compile_seed(&g) { if s.bytes.len() <= 4000 { out.push(s); } }
    }
    out
}

pub fn recl10_case(game: Game, bytes: &[u8]) -> Sexp {
    Sexp::app("recl10", vec![Sexp::atom(format!("{game}")), Sexp::list(read_table(bytes)), Sexp::atom(hex(bytes))])
}
pub fn wecl10_case(game: Game, st: &Sexp) -> Sexp {
    Sexp::app("wecl10", vec![Sexp::atom(format!("{game}")), Sexp::list(write_table(st)), st.clone()])
}
pub fn wrecl10_case(game: Game, st: &Sexp) -> Sexp { Sexp::app("wrecl10", vec![Sexp::atom(format!("{game}")), st.clone()]) }

const FIELD_VALUES: &[u32] = &[0, 1, 2, 3, 4, 5, 8, 12, 15, 16, 17, 20, 0x24, 0x7f, 0x80, 0xff, 0x100, 0x7fff, 0x8000, 0xfffe, 0xffff, 0x10000, 0x7fffffff, 0x80000000, 0xfffffffc, 0xffffffff];

fn put(m: &mut [u8], p: usize, v: u32, w: usize) { for k in 0..w { if p + k < m.len() { m[p + k] = (v >> (8 * k)) as u8; } } }
fn get32(b: &[u8], p: usize) -> u32 { (0..4).map(|k| (*b.get(p + k).unwrap_or(&0) as u32) << (8 * k)).sum() }

/// truncations at every offset, dword sweeps over the header / include sections / offset table / sub headers and
/// instruction headers, boundary values and nudges in counts / offsets / sizes, string damage, random damage
pub fn mutants(rng: &mut Rng, s: &Seed, budget: usize) -> Vec<(Vec<u8>, &'static str)> {
    let b = &s.bytes;
    let mut out: Vec<(Vec<u8>, &'static str)> = vec![];
    // every truncation point of files up to 4 x budget bytes, the first 96 and a sample of larger ones
    let cuts: Vec<usize> = if b.len() <= 4 * budget { (0..b.len()).collect() } else { let mut v: Vec<usize> = (0..96.min(b.len())).collect(); v.extend((0..budget).map(|_| rng.below(b.len()))); v };
    for c in cuts { out.push((b[..c].to_vec(), "truncate")); }
    // systematic: every aligned dword set to 0, all ones, the file length, and its own value +-1 / +-4 / +-16
    let dwords: Vec<usize> = (0..b.len()).step_by(4).collect();
    let sweep_n = (budget / 3).max(1);
    for (k, &p) in dwords.iter().enumerate() {
        if dwords.len() * 9 > sweep_n && k >= 24 && !rng.chance((sweep_n / 9).max(1) as u32, dwords.len() as u32) { continue; }
        let cur = get32(b, p);
        for v in [0u32, 0xffffffff, b.len() as u32, cur.wrapping_add(1), cur.wrapping_sub(1), cur.wrapping_add(4), cur.wrapping_sub(4), cur.wrapping_add(16), cur.wrapping_sub(16)] {
            let mut m = b.clone(); put(&mut m, p, v, 4);
            if m != *b { out.push((m, "field32-sweep")); }
        }
    }
    // header fields by name: include_length (u16 at 6), include_offset (u32 at 8), sub_count (u32 at 16), ANIM count (u32 at 40)
    for (p, w) in [(4usize, 2usize), (6, 2), (8, 4), (16, 4), (40, 4)] {
        for &v in FIELD_VALUES { let mut m = b.clone(); put(&mut m, p, v, w); if m != *b { out.push((m, "header-field")); } }
        let v = (b.len() as u32).wrapping_add(rng.range(-9, 9) as u32);
        let mut m = b.clone(); put(&mut m, p, v, w); out.push((m, "header-field"));
    }
    // 16-bit fields anywhere (instruction sizes live at offset 6 of each instruction header)
    for _ in 0..budget / 6 {
        let p = rng.below(b.len().max(1)) & !1;
        let v = if rng.chance(1, 2) { *rng.pick(FIELD_VALUES) } else { (get32(b, p) & 0xffff).wrapping_add(*rng.pick(&[1i32, -1, 2, -2, 4, -4, 8, 16, -16]) as u32) };
        let mut m = b.clone(); put(&mut m, p, v, 2); out.push((m, "field16"));
    }
    // strings: a NUL replaced, a byte made high, a NUL inserted
    for _ in 0..budget / 8 {
        if b.is_empty() { break; }
        let mut m = b.clone();
        let p = rng.below(b.len());
        match rng.below(3) { 0 => { if let Some(q) = (p..b.len()).find(|&q| b[q] == 0) { m[q] = *rng.pick(&[0x41u8, 0x82, 0xff, 0x80]); } }, 1 => m[p] = *rng.pick(&[0x81u8, 0x82, 0xa0, 0xe0, 0xfc, 0xff, 0x80]), _ => m[p] = 0 }
        out.push((m, "string-damage"));
    }
    for _ in 0..budget / 4 { let (m, k) = super::c16::mutate(rng, b); out.push((m, k)); }
    out
}

fn gen_i10(rng: &mut Rng, allow_misfit: bool) -> Sexp {
    let time = if rng.chance(2, 3) { *rng.pick(&[0i32, 1, -1, 60, 32767, 32768, 65536, i32::MAX, i32::MIN]) } else { rng.next_u32() as i32 };
    let opcode = if rng.chance(2, 3) { *rng.pick(&[0u16, 1, 10, 255, 256, 1000, 32768, 65534, 65535]) } else { rng.next_u32() as u16 };
    let len = if allow_misfit && rng.chance(1, 14) { *rng.pick(&[65519usize, 65520, 65521, 65524, 70000]) } else if rng.chance(1, 12) { *rng.pick(&[65516usize, 65519, 32752, 1000]) } else { *rng.pick(&[0usize, 0, 1, 2, 3, 4, 4, 8, 12, 16, 20, 255, 256]) };
    let blob: Vec<u8> = (0..len).map(|k| if len > 300 { k as u8 } else { rng.next_u32() as u8 }).collect();
    i10_fields(time, opcode, if rng.chance(1, 2) { 0 } else { rng.next_u32() as u16 }, if rng.chance(1, 2) { 255 } else { rng.next_u32() as u8 },
        if rng.chance(1, 2) { 0 } else { rng.next_u32() as u8 }, if rng.chance(1, 2) { 0 } else { rng.next_u32() as u8 }, &blob)
}

const WILD_NAMES: &[&str] = &["\u{a5}", "caf\u{e9}", "\u{1f600}.anm", "a\u{203e}b", "\u{2252}"];

fn gen_name(rng: &mut Rng, wild: bool) -> String {
    if wild && rng.chance(1, 10) { return rng.pick(WILD_NAMES).to_string(); }
    if wild && rng.chance(1, 25) { return format!("a{}b", '\0'); }
    if rng.chance(1, 6) { let n = rng.below(9); return "abcdefgh"[..n].to_string(); }
    rng.pick(gensrc::ECL10_NAMES).to_string()
}

/// structures no source needs to produce: names of every length class, unencodable names, instructions at the size
/// boundary, many subs, include sections at the 16-bit boundary
pub fn gen_structure(rng: &mut Rng, wild: bool) -> (Game, Sexp) {
    let game = *rng.pick(GAMES);
    let list = |rng: &mut Rng| -> Vec<Sexp> { let n = *rng.pick(&[0usize, 0, 1, 1, 2, 3, 5, 9]); (0..n).map(|_| text(&gen_name(rng, wild))).collect() };
    let anim = list(rng);
    let ecli = list(rng);
    let nsubs = *rng.pick(&[0usize, 1, 1, 2, 3, 5, 8]);
    let mut names: Vec<String> = vec![];
    while names.len() < nsubs {
        let n = if rng.chance(1, 2) { format!("sub{}", names.len()) } else { format!("{}{}", gen_name(rng, false), names.len()) };
        if !names.contains(&n) { names.push(n); }
    }
    let subs: Vec<Sexp> = names.iter().map(|n| { let mut x = vec![text(n)]; for _ in 0..*rng.pick(&[0usize, 0, 1, 2, 3, 6]) { x.push(gen_i10(rng, wild)); } Sexp::app("s", x) }).collect();
    (game, Sexp::app("ecl10", vec![Sexp::app("anim", anim), Sexp::app("ecli", ecli), Sexp::app("subs", subs)]))
}

/// include sections at the 16-bit boundary of `include_length`: 8 + padded(anim) + 8 + padded(ecli) = 65532 fits, 65536 does not
fn include_boundary_structures() -> Vec<(Sexp, &'static str)> {
    let mut out = vec![];
    for (len, tag) in [(65515usize, "fits-65532"), (65516, "misfit-65536"), (65512, "fits-65532-len-mod4-0"), (70000, "misfit")] {
        let name = "n".repeat(len);
        out.push((Sexp::app("ecl10", vec![Sexp::app("anim", vec![text(&name)]), Sexp::app("ecli", vec![]), Sexp::app("subs", vec![Sexp::app("s", vec![text("main")])])]), tag));
    }
    // many short names: 5957 x ("0123456789" + NUL = 11 bytes) = 65527 -> padded 65528, + 16 = 65544: misfit; 5955 names: 65505 -> 65508 + 16 = 65524: fits
    for (n, tag) in [(5955usize, "fits-many"), (5957, "misfit-many")] {
        let names: Vec<Sexp> = (0..n).map(|_| text("0123456789")).collect();
        let (a, e) = names.split_at(n / 2);
        out.push((Sexp::app("ecl10", vec![Sexp::app("anim", a.to_vec()), Sexp::app("ecli", e.to_vec()), Sexp::app("subs", vec![])]), tag));
    }
    out
}

pub fn gen_cases(rng: &mut Rng, scale: usize, for_c16: bool) -> Vec<Case> {
    let mut out = vec![];
    let seeds = seeds(rng, if for_c16 { 30 * scale.min(6) } else { 80 * scale.min(8) });
    for s in &seeds {
        out.push(Case::corr(recl10_case(s.game, &s.bytes)).tag("recl10-pristine").trivial(for_c16));
        if !for_c16 {
            out.push(Case::corr(wecl10_case(s.game, &s.structure)).tag("wecl10-compiled"));
            out.push(Case::search(wrecl10_case(s.game, &s.structure)).tag("wrecl10-compiled"));
            out.push(Case::search(Sexp::app("ecl10src", vec![Sexp::atom(format!("{}", s.game)), Sexp::str(s.source.clone())])).tag("ecl10src"));
        } else {
            for (m, kind) in mutants(rng, s, 150 * scale.min(10)) { out.push(Case::corr(recl10_case(s.game, &m)).tag(format!("recl10-{kind}"))); }
        }
    }
    // instruction level through a one-sub file
    for _ in 0..(if for_c16 { 40 } else { 60 }) * scale {
        let is: Vec<Sexp> = (0..1 + rng.below(3)).map(|_| gen_i10(rng, !for_c16)).collect();
        let w = Case::corr(Sexp::app("winstrs10", is.clone())).tag("winstrs10");
        if !for_c16 { out.push(w); continue; }
        let r = eval_winstrs10(&w.sexp);
        if r.head() != Some("ok") { continue; }
        let bytes = unhex(r.args()[0].as_atom());
        if bytes.len() > 400 { continue; }
        let mk = |by: &[u8]| Sexp::app("rinstrs10", vec![Sexp::atom(hex(by))]);
        out.push(Case::corr(mk(&bytes)).tag("rinstrs10-valid").trivial(true));
        for cut in 0..bytes.len().min(40) { out.push(Case::corr(mk(&bytes[..cut])).tag("rinstrs10-truncated")); }
        for &v in &[0u32, 1, 15, 16, 17, 20, 0x7fff, 0x8000, 0xffff, bytes.len() as u32, bytes.len() as u32 + 1] { let mut m = bytes.clone(); put(&mut m, 6, v, 2); out.push(Case::corr(mk(&m)).tag("rinstrs10-size-field")); }
        for _ in 0..6 { let (m, _) = super::c16::mutate(rng, &bytes); out.push(Case::corr(mk(&m)).tag("rinstrs10-mutated")); }
    }
    if for_c16 {
        // random byte strings, bare and behind a valid magic / header
        for k in 0..80 * scale {
            let game = *rng.pick(GAMES);
            let n = rng.below(260);
            let style = rng.below(6);
            let mut by: Vec<u8> = (0..n).map(|_| match style { 0 => 0, 1 => if rng.chance(1, 12) { rng.below(4) as u8 } else { 0 }, 2 => 0xff, _ => match rng.below(4) { 0 => 0, 1 => 0xff, 2 => rng.below(8) as u8, _ => rng.next_u32() as u8 } }).collect();
            if k % 2 == 1 && by.len() >= 4 { by[..4].copy_from_slice(b"SCPT"); }
            if k % 4 == 3 && by.len() >= 48 { put(&mut by, 8, 36, 4); by[36..40].copy_from_slice(b"ANIM"); put(&mut by, 40, rng.below(3) as u32, 4); }
            out.push(Case::corr(recl10_case(game, &by)).tag("recl10-random"));
        }
        // sub tables: equal / decreasing / far offsets, duplicate names
        for _ in 0..40 * scale {
            let game = *rng.pick(GAMES);
            let n = 1 + rng.below(4);
            let names: Vec<&str> = (0..n).map(|_| *rng.pick(&["a", "b", "main", "a"])).collect();
            let name_bytes: Vec<u8> = names.iter().flat_map(|s| s.bytes().chain(std::iter::once(0u8))).collect();
            let pad = (4 - name_bytes.len() % 4) % 4;
            let first = 36 + 16 + 4 * n + name_bytes.len() + pad;
            let mut f = wrap_sub(&[])[..52].to_vec();
            put(&mut f, 16, n as u32, 4);
            let mut offs: Vec<u32> = (0..n).map(|i| (first + 16 * i) as u32).collect();
            match rng.below(5) { 0 => {}, 1 => { let i = rng.below(n); offs[i] = offs[rng.below(n)]; }, 2 => offs.reverse(), 3 => { let i = rng.below(n); offs[i] = offs[i].wrapping_add(*rng.pick(&[1i32, -1, 4, -4, 16, -16, 1000]) as u32); }, _ => { let i = rng.below(n); offs[i] = *rng.pick(FIELD_VALUES); } }
            for o in &offs { f.extend(o.to_le_bytes()); }
            f.extend(&name_bytes); f.extend(std::iter::repeat(0u8).take(pad));
            for _ in 0..n { f.extend(b"ECLH"); f.extend(16u32.to_le_bytes()); f.extend([0u8; 8]); }
            out.push(Case::corr(recl10_case(game, &f)).tag("recl10-sub-table"));
        }
    } else {
        // files the real reader produced, written again
        for s in &seeds {
            let r = std::panic::catch_unwind(|| tc::with_truth(Format::Ecl, s.game, &[], |truth| Ok(ecl10_sexp(&read_stack(truth, s.game, &s.bytes)?))).value);
            if let Ok(Some(st)) = r { out.push(Case::corr(wecl10_case(s.game, &st)).tag("wecl10-reread")); }
        }
        for (st, tag) in include_boundary_structures() {
            out.push(Case::corr(wecl10_case(Game::Th12, &st)).tag(format!("wecl10-include-boundary-{tag}")));
            out.push(Case::search(wrecl10_case(Game::Th12, &st)).tag(format!("wrecl10-include-boundary-{tag}")));
        }
        for k in 0..250 * scale {
            let (game, st) = gen_structure(rng, k % 3 == 0);
            out.push(Case::corr(wecl10_case(game, &st)).tag(if k % 3 == 0 { "wecl10-structure-wild" } else { "wecl10-structure" }));
            out.push(Case::search(wrecl10_case(game, &st)).tag(if k % 3 == 0 { "wrecl10-structure-wild" } else { "wrecl10-structure" }));
        }
        // the known finding at source level: U+0000 inside an include name
        for (game, src) in [(Game::Th10, "meta { anim: [\"a.anm\", \"\\0b\"], ecli: [\"x\"] }\nvoid main() { }\n"), (Game::Th12, "meta { anim: [], ecli: [\"ab\\0\"] }\nvoid main() { }\n"), (Game::Th17, "meta { anim: [\"a\\0b\", \"c\"] }\nvoid main() { }\n")] {
            out.push(Case::search(Sexp::app("ecl10src", vec![Sexp::atom(format!("{game}")), Sexp::str(src.to_string())])).tag("ecl10src-known-nul-in-name"));
        }
        // more sources, only through the source-level oracle
        for _ in 0..120 * scale {
            let game = *rng.pick(GAMES);
            let g = gensrc::gen_ecl10_wide(rng, game);
            out.push(Case::search(Sexp::app("ecl10src", vec![Sexp::atom(format!("{game}")), Sexp::str(g.text)])).tag("ecl10src"));
        }
    }
    out
}
