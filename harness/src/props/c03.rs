//! C03 — a successful compile never writes a file that differs from what was asked.

use super::{Case, Prop, Tier, fail};
use super::instr_io::*;
use crate::rng::Rng;
use crate::sexp::Sexp;
use crate::tc::{self, Format};
use crate::gensrc;

pub struct C03;

/// `{:#?}` of an in-memory file with everything that legitimately differs between "just compiled"
/// and "read back" removed: source spans, the display file name, script file offsets.
pub fn canon_debug(c: &tc::Compiled, format: Format, game: truth::Game) -> String {
    let s = match c {
        tc::Compiled::Anm(f) => format!("{f:#?}"),
        tc::Compiled::Std(f) => format!("{f:#?}"),
        tc::Compiled::Msg(f) => format!("{f:#?}"),
        tc::Compiled::Mission(f) => format!("{f:#?}"),
        tc::Compiled::Ecl(f) => format!("{f:#?}"),
    };
    let re_sp = regex::Regex::new(r"sp!\(\d+\.\.\d+ => ").unwrap();
    let s = re_sp.replace_all(&s, "sp!(").into_owned();
    // sprite ids: `None` (auto) in a compiled file, `Some(actual)` when read back; checked by C20
    let s = regex::Regex::new(r"id: Some\(\s*-?\d+,\s*\),").unwrap().replace_all(&s, "id: <auto>,").into_owned();
    let s = s.replace("id: None,", "id: <auto>,");
    // timeline arg0: absent in memory means 0 on disk
    let s = regex::Regex::new(r"extra_arg: Some\(\s*(-?\d+),\s*\),").unwrap().replace_all(&s, "extra_arg: $1,").into_owned();
    let s = s.replace("extra_arg: None,", "extra_arg: 0,");
    // names are not stored in any of the formats: the reader regenerates them; number them by first appearance
    let re_id = regex::Regex::new(r"\b(script|object|obj|sprite|sub|timeline|s)(\d+)\b").unwrap();
    let mut names: Vec<String> = vec![];
    let s = re_id.replace_all(&s, |c: &regex::Captures| {
        let tok = c[0].to_string();
        let k = match names.iter().position(|n| *n == tok) { Some(k) => k, None => { names.push(tok); names.len() - 1 } };
        format!("NAME{k}")
    }).into_owned();
    let mut out = String::new();
    let mut skip_depth: Option<usize> = None;
    for line in s.lines() {
        let t = line.trim_start();
        let indent = line.len() - t.len();
        if let Some(d) = skip_depth { if indent > d || (indent == d && (t.starts_with(')') || t.starts_with("),"))) { continue; } else { skip_depth = None; } }
        if t.starts_with("binary_filename:") || t.starts_with("file_offset:") {
            if t.ends_with('(') { skip_depth = Some(indent); }
            continue;
        }
        // EoSD ECL has no parameter mask on disk (always written as 0xFF)
        if format == Format::Ecl && game == truth::Game::Th06 && t.starts_with("param_mask:") { continue; }
        out.push_str(line);
        out.push('\n');
    }
    out
}

fn first_diff(a: &str, b: &str) -> String {
    for (la, lb) in a.lines().zip(b.lines()) {
        if la != lb { return format!("requested `{}` read back `{}`", la.trim(), lb.trim()); }
    }
    format!("lengths differ: {} vs {} lines", a.lines().count(), b.lines().count())
}

/// field name of the first differing line (stable part of the signature)
fn diff_field(a: &str, b: &str) -> String {
    for (la, lb) in a.lines().zip(b.lines()) {
        if la != lb { return la.trim().split(':').next().unwrap_or("?").chars().filter(|c| c.is_alphanumeric() || *c == '_').collect(); }
    }
    "length".into()
}

/// compile text; write; read back; compare with the in-memory file
pub fn file_roundtrip(format: Format, game: truth::Game, maps: &[String], text: &str) -> Sexp {
    let out = tc::with_truth(format, game, maps, |truth| {
        let script = truth.parse::<truth::ast::ScriptFile>("<input>", text.as_bytes())?.value;
        let compiled = tc::compile_ast(truth, format, game, &script)?;
        let requested = canon_debug(&compiled, format, game);
        let bytes = tc::write_bytes(truth, format, game, &compiled)?;
        Ok((requested, bytes))
    });
    let (requested, bytes) = match out.value {
        Some(v) => v,
        None => {
            if !out.has_error_diag() { return fail("compile-fails-without-error-diagnostic", format!("{} {}", format.name(), game)); }
            return Sexp::app("rejected", vec![Sexp::str(crate::util::diag_class(&out.diagnostics))]);
        },
    };
    let back = tc::with_truth(format, game, maps, |truth| {
        let f = tc::read_bytes(truth, format, game, &bytes)?;
        Ok(canon_debug(&f, format, game))
    });
    match back.value {
        None => fail(format!("written-file-unreadable {}", format.name()), format!("{}: {}", game, crate::util::diag_class(&back.diagnostics))),
        Some(read_back) => {
            if read_back == requested { Sexp::app("pass", vec![Sexp::int(bytes.len() as i64)]) }
            else { fail(format!("written-file-differs {} field={}", format.name(), diff_field(&requested, &read_back)), format!("{}: {}", game, first_diff(&requested, &read_back))) }
        },
    }
}

/// Source whose header fields sit at / beyond the on-disk widths, via raw `@blob` calls.
fn boundary_source(rng: &mut Rng) -> (Format, truth::Game, String) {
    let time_pool = [0i64, 100, 32767, 32768, 40000, 65535, 65536, 70000, -1, -32768, -32769, 2147483647];
    let op_pool = [0i64, 1, 100, 127, 128, 200, 255, 256, 300, 1000, 32767, 32768, 65534, 65535];
    let len_pool = [0usize, 4, 12, 16, 240, 248, 252, 256, 260, 1000, 32752, 32756, 32760, 65524, 65528, 65532, 65536, 70000];
    let mut body = String::new();
    let n = 1 + rng.below(3);
    let fmt_choice = rng.below(5);
    for _ in 0..n {
        let t = if rng.chance(1, 2) { *rng.pick(&time_pool) } else { rng.below(100) as i64 };
        let op = if rng.chance(1, 2) { *rng.pick(&op_pool) } else { rng.below(60) as i64 };
        let mut len = if rng.chance(1, 2) { *rng.pick(&len_pool) } else { 4 * rng.below(8) };
        if fmt_choice == 1 && rng.chance(3, 4) { len = 12; }
        let blob: String = (0..len).map(|i| format!("{:02x}", (i * 7 + 1) % 256)).collect();
        body.push_str(&format!("{t}:\n    ins_{op}(@blob=\"{blob}\");\n"));
    }
    match fmt_choice {
        0 => { let g = *rng.pick(gensrc::GAMES_MSG); (Format::Msg, g, format!("meta {{ table: {{0: {{script: \"s0\"}}}} }}\nscript s0 {{\n{body}}}\n")) },
        1 => { let g = *rng.pick(&[truth::Game::Th06, truth::Game::Th08]); (Format::Std, g, format!("meta {{ unknown: 0, stage_name: \"dm\", bgm: [{{path: \" \", name: \" \"}}, {{path: \" \", name: \" \"}}, {{path: \" \", name: \" \"}}, {{path: \" \", name: \" \"}}], objects: {{}}, instances: [] }}\nscript main {{\n{body}}}\n")) },
        2 => { let g = *rng.pick(&[truth::Game::Th10, truth::Game::Th14]); (Format::Std, g, format!("meta {{ unknown: 0, anm_path: \"a.anm\", objects: {{}}, instances: [] }}\nscript main {{\n{body}}}\n")) },
        3 => { let g = *rng.pick(gensrc::GAMES_ANM); (Format::Anm, g, format!("entry {{ path: \"a.png\", has_data: false, img_width: 16, img_height: 16, img_format: 3, sprites: {{}} }}\nscript s0 {{\n{body}}}\n")) },
        _ => { let g = *rng.pick(gensrc::GAMES_ECL); if rng.chance(1, 2) { (Format::Ecl, g, format!("script timeline0 {{\n{body}}}\nvoid sub0() {{ }}\n")) } else { (Format::Ecl, g, format!("script timeline0 {{ }}\nvoid sub0() {{\n{body}}}\n")) } },
    }
}

// ---------------------------------------------------------------------------------------------
// source-level oracle: the argument values a source asks for must be the values a reader sees

/// splits `a, "b,c", 3` at top-level commas
fn split_args(s: &str) -> Vec<String> {
    let (mut out, mut cur, mut depth, mut in_str, mut esc) = (vec![], String::new(), 0i32, false, false);
    for c in s.chars() {
        if in_str { cur.push(c); if esc { esc = false; } else if c == '\\' { esc = true; } else if c == '"' { in_str = false; } continue; }
        match c {
            '"' => { in_str = true; cur.push(c); },
            '(' | '[' | '{' => { depth += 1; cur.push(c); },
            ')' | ']' | '}' => { depth -= 1; cur.push(c); },
            ',' if depth == 0 => { out.push(cur.trim().to_string()); cur.clear(); },
            _ => cur.push(c),
        }
    }
    if !cur.trim().is_empty() { out.push(cur.trim().to_string()); }
    out
}

/// numeric value of a literal as printed by the source generator or the decompiler (ints mod 2^32)
fn literal_key(a: &str) -> String {
    let t = a.trim();
    if t.starts_with('"') { return t.to_string(); }
    let (neg, body) = match t.strip_prefix('-') { Some(b) => (true, b.trim()), None => (false, t) };
    if body == "true" { return "i1".into(); }
    if body == "false" { return "i0".into(); }
    let as_int = if let Some(h) = body.strip_prefix("0x").or_else(|| body.strip_prefix("0X")) { u64::from_str_radix(h, 16).ok() }
                 else if let Some(b) = body.strip_prefix("0b") { u64::from_str_radix(b, 2).ok() } else { body.parse::<u64>().ok() };
    if let Some(v) = as_int { let v = if neg { (v as i64).wrapping_neg() as u32 } else { v as u32 }; return format!("i{v}"); }
    if let Ok(f) = body.parse::<f32>() { let f = if neg { -f } else { f }; return format!("f{}", crate::util::canon_bits(f)); }
    format!("?{t}")
}

/// one call with boundary arguments: compile, decompile raw, compare the printed arguments with the source's
fn source_readback(format: Format, game: truth::Game, maps: &[String], head: &str, tail: &str, opcode: i64, args: &[String]) -> Sexp {
    let call = format!("ins_{opcode}({});", args.join(", "));
    let text = format!("{head}    {call}\n{tail}");
    let c = tc::compile(format, game, maps, text.as_bytes());
    let bytes = match c.value {
        Some(b) => b,
        None => return if c.has_error_diag() { Sexp::app("rejected", vec![Sexp::str(crate::util::diag_class(&c.diagnostics))]) } else { fail("compile-fails-without-error-diagnostic", format!("{} {}", format.name(), game)) },
    };
    // raw decompile: arguments decoded by signature, no intrinsics / blocks / switches
    let d = tc::decompile(format, game, maps, &bytes, &tc::options_from_bits(2 | 4 | 8 | 16), 10000);
    let dtext = match d.value.clone() { Some(t) => t, None => return fail(format!("written-file-unreadable {}", format.name()), format!("{}: {}", game, crate::util::diag_class(&d.diagnostics))) };
    if d.has_warning_diag() { return Sexp::app("skip", vec![Sexp::atom("decompile-warned")]); }
    let needle = format!("ins_{opcode}(");
    let line = match dtext.lines().find(|l| l.contains(&needle)) { Some(l) => l, None => return fail(format!("call-missing-after-readback {}", format.name()), format!("{game}: {call} -> {}", dtext.chars().take(300).collect::<String>())) };
    let inner = &line[line.find(&needle).unwrap() + needle.len()..line.rfind(')').unwrap_or(line.len())];
    let got = split_args(inner);
    let want_keys: Vec<String> = args.iter().map(|a| literal_key(a)).collect();
    let got_keys: Vec<String> = got.iter().map(|a| literal_key(a)).collect();
    if got_keys.iter().any(|k| k.starts_with('?')) { return Sexp::app("skip", vec![Sexp::atom("non-literal-in-decompiled-call"), Sexp::str(line.trim())]); }
    if want_keys == got_keys { Sexp::app("pass", vec![]) }
    else { fail(format!("argument-reads-back-different {}", format.name()), format!("{game}: source `{call}` reads back as `{}`", line.trim())) }
}

impl Prop for C03 {
    fn id(&self) -> &'static str { "C03" }
    fn relation(&self) -> &'static str {
        "instruction level: bytes (or error class) of InstrFormat::write_instr / llir::write_instrs for every instruction header layout == Lean `InstrIO.writeInstr` / `writeInstrs`; container level: bytes (or error class) of MsgFile / StdFile / MissionMsgFile / OldeEclFile::write_to_stream on a structure == Lean `Files.writeMsg` / `writeStd` / `writeMission` / `writeEcl`, and the structure read_from_stream returns for a written file == Lean `Files.readMsg` / `readStd` / `readMission` / `readEcl` of the same bytes"
    }
    fn rule(&self) -> &'static str {
        "per (game, language) header layout: instructions with time/opcode/blob length/mask at and beyond each on-disk field width (fitting and non-fitting streams), whole scripts; container level (MSG, STD both layouts, mission MSG, old ECL TH06-TH095): in-memory files compiled from generated sources and the bundled binaries -> structure S-expression -> written bytes and re-read structure compared with the model; structures generated directly at the boundaries (sparse / repeated / zero / dangling table entries, flags in games without flags, unused scripts, text of 126..256 bytes in 128- and 64-byte fields, object references to missing objects, 0..17 timelines, sub / timeline / quad counts 65535..65537, misfitting instructions) written by the real writer vs the model, plus the oracle `written structure read back == requested structure up to the normalisations of the Lean round-trip theorems`; numeric meta fields of STD / mission sources at and beyond their width must be stored as requested or rejected; file level: generated sources of every format plus raw @blob sources with boundary header values: compile -> in-memory file -> bytes -> re-read -> field-for-field comparison (Debug rendering without spans/file offsets); non-trivial = at least one field at a width boundary or a full generated file; distinct by case text"
    }
    fn theorems(&self) -> &'static [&'static str] { &["TruthModel.C03.read_write", "TruthModel.C03.write_err_iff_not_fits", "TruthModel.C03.msg_read_write", "TruthModel.C03.msg_write_err_iff", "TruthModel.C03.std_read_write", "TruthModel.C03.std_write_err_iff", "TruthModel.C03.mission_read_write", "TruthModel.C03.mission_write_err_iff", "TruthModel.C03.ecl_read_write", "TruthModel.C03.ecl_write_err_iff", "TruthModel.C03.ecl_write_count_truncation"] }

    fn gen(&self, tier: Tier, rng: &mut Rng) -> Vec<Case> {
        let scale = if tier == Tier::Quick { 1 } else { 20 };
        let mut out = vec![];
        for f in FORMATS {
            for k in 0..40 * scale {
                let fitting = k % 2 == 0;
                let (t, o, m, d, e, b) = gen_instr(rng, f.2, fitting);
                let mut v = case_head("winstr", f);
                v.extend(instr_fields(t, o, m, d, e, &b));
                out.push(Case::corr(Sexp::list(v)).tag(format!("winstr-{}-{}", f.2, if fitting { "fitting" } else { "boundary" })));
                let mut v = case_head("wr-roundtrip", f);
                v.extend(instr_fields(t, o, m, d, e, &b));
                out.push(Case::search(Sexp::list(v)).tag(format!("wr-roundtrip-{}", f.2)));
            }
            for _ in 0..6 * scale {
                let mut v = case_head("winstrs", f);
                for _ in 0..rng.below(5) {
                    let (t, o, m, d, e, mut b) = gen_instr(rng, f.2, true);
                    b.truncate(40); if f.2 == "std06" { b.resize(12, 0); }
                    v.push(Sexp::list(instr_fields(t, o, m, d, e, &b)));
                }
                out.push(Case::corr(Sexp::list(v)).tag(format!("winstrs-{}", f.2)));
            }
        }
        // stack ECL (TH10+) files: include lists and raw instructions
        for _ in 0..120 * scale {
            let game = *rng.pick(&[truth::Game::Th10, truth::Game::Th11, truth::Game::Th12, truth::Game::Th13, truth::Game::Th14, truth::Game::Th15, truth::Game::Th16, truth::Game::Th17, truth::Game::Th18]);
            let g = gensrc::gen_ecl10(rng, game);
            out.push(Case::search(Sexp::app("file", vec![Sexp::atom(g.format.name()), Sexp::atom(format!("{}", g.game)), Sexp::list(vec![]), Sexp::str(g.text)])).tag("file-stack-ecl"));
        }
        for _ in 0..500 * scale {
            let g = gensrc::gen_any(rng);
            out.push(Case::search(Sexp::app("file", vec![Sexp::atom(g.format.name()), Sexp::atom(format!("{}", g.game)), Sexp::list(g.maps.iter().map(|m| Sexp::str(m.clone())).collect()), Sexp::str(g.text)])).tag(format!("file-{}", g.format.name())));
        }
        // source arguments vs what a reader sees, incl. values at / beyond parameter widths
        let sweep = if tier == Tier::Quick { gensrc::all_single_calls(rng, (1, 8), 1) } else { gensrc::all_single_calls(rng, (1, 1), 4) };
        for (g, head, tail, op, args) in sweep {
            out.push(Case::search(Sexp::app("readback", vec![Sexp::atom(g.format.name()), Sexp::atom(format!("{}", g.game)), Sexp::list(g.maps.iter().map(|m| Sexp::str(m.clone())).collect()),
                Sexp::str(head), Sexp::str(tail), Sexp::int(op as i64), Sexp::list(args.into_iter().map(Sexp::str).collect())])).tag(format!("readback-sweep-{}", g.format.name())));
        }
        for _ in 0..200 * scale {
            if let Some((g, head, tail, op, args)) = gensrc::gen_single_call(rng) {
                out.push(Case::search(Sexp::app("readback", vec![Sexp::atom(g.format.name()), Sexp::atom(format!("{}", g.game)), Sexp::list(g.maps.iter().map(|m| Sexp::str(m.clone())).collect()),
                    Sexp::str(head), Sexp::str(tail), Sexp::int(op as i64), Sexp::list(args.into_iter().map(Sexp::str).collect())])).tag(format!("readback-{}", g.format.name())));
            }
        }
        for _ in 0..10 * scale {
            let g = gensrc::gen_anm_v0_multi_entry(rng);
            out.push(Case::search(Sexp::app("file-known", vec![Sexp::atom("anm-v0-multi-entry"), Sexp::atom(g.format.name()), Sexp::atom(format!("{}", g.game)), Sexp::list(vec![]), Sexp::str(g.text)])).tag("known-finding-stream-anm-v0-multi-entry"));
        }
        // container level: whole files against the Lean models of the MSG / STD / mission / old ECL readers and writers
        out.extend(super::files::gen_cases(rng, scale, false));
        // the ANM container against `Files.readAnm` / `writeAnm` (Model/FilesAnm.lean)
        out.extend(super::files_anm::gen_cases(rng, scale, false));
        // the stack ECL container (TH10+) against `Files.readEcl10` / `writeEcl10` (Model/FilesEcl10.lean, Model/InstrIO10.lean)
        out.extend(super::files_ecl10::gen_cases(rng, scale, false));
        for _ in 0..500 * scale {
            let (f, g, text) = boundary_source(rng);
            out.push(Case::search(Sexp::app("file", vec![Sexp::atom(f.name()), Sexp::atom(format!("{}", g)), Sexp::list(vec![]), Sexp::str(text)])).tag(format!("boundary-file-{}", f.name())));
        }
        out
    }

    fn eval(&self, case: &Sexp) -> Sexp {
        match case.head() {
            Some("winstr") => eval_winstr(case, false),
            Some("winstrs") => eval_winstr(case, true),
            Some("rfile") => super::files::eval_rfile(case),
            Some("wfile") => super::files::eval_wfile(case),
            Some("wrfile") => super::files::eval_wrfile(case),
            Some("metafield") => super::files::eval_metafield(case),
            Some("ranm") => super::files_anm::eval_ranm(case),
            Some("wanm") => super::files_anm::eval_wanm(case),
            Some("wranm") => super::files_anm::eval_wranm(case),
            Some("anmsrc") => super::files_anm::eval_anmsrc(case),
            Some("anmwide") => super::files_anm::eval_anmwide(case),
            Some("recl10") => super::files_ecl10::eval_recl10(case),
            Some("wecl10") => super::files_ecl10::eval_wecl10(case),
            Some("wrecl10") => super::files_ecl10::eval_wrecl10(case),
            Some("ecl10src") => super::files_ecl10::eval_ecl10src(case),
            Some("rinstrs10") => super::files_ecl10::eval_rinstrs10(case),
            Some("winstrs10") => super::files_ecl10::eval_winstrs10(case),
            Some("wr-roundtrip") => {
                let w = eval_winstr(case, false);
                if w.head() != Some("ok") { return Sexp::app("rejected", vec![]); }
                let a = case.args();
                let mut v = vec![Sexp::atom("rinstr"), a[0].clone(), a[1].clone(), a[2].clone(), w.args()[0].clone()];
                let r = eval_rinstr(&Sexp::List(std::mem::take(&mut v)));
                let want = raw_of_fields(&a[3..]);
                let fmt = a[0].as_atom();
                let got = match r.head() {
                    Some("ok") => { let x = &r.args()[0]; match x.head() { Some("instr") => raw_of_fields(x.args()), Some("maybe-terminal") => raw_of_fields(x.args()[0].args()),
                        _ => return fail(format!("written-instr-reads-back-as-{} {fmt}", x.as_list().first().map(|h| h.as_atom().to_string()).unwrap_or_else(|| format!("{x}"))), format!("{case}")) } },
                    _ => return fail(format!("written-instr-unreadable {fmt}"), format!("{r}")),
                };
                let mut bad = vec![];
                if got.time != want.time { bad.push("time"); }
                if got.opcode != want.opcode { bad.push("opcode"); }
                if got.args_blob != want.args_blob { bad.push("blob"); }
                if matches!(fmt, "anm07" | "ecl07") && got.param_mask != want.param_mask { bad.push("mask"); }
                if matches!(fmt, "ecl06" | "ecl07" | "tl08") && got.difficulty != want.difficulty { bad.push("difficulty"); }
                if fmt == "tl06" && got.extra_arg != want.extra_arg { bad.push("extra"); }
                if bad.is_empty() { Sexp::app("pass", vec![]) } else { fail(format!("written-instr-reads-back-different {fmt} field={}", bad.join("+")), format!("wrote {:?} read {:?}", want, got)) }
            },
            Some("readback") => {
                let a = case.args();
                let maps: Vec<String> = a[2].as_list().iter().map(|m| m.as_atom().to_string()).collect();
                let args: Vec<String> = a[6].as_list().iter().map(|m| m.as_atom().to_string()).collect();
                source_readback(Format::from_name(a[0].as_atom()), tc::game(a[1].as_atom()), &maps, a[3].as_atom(), a[4].as_atom(), a[5].as_i64(), &args)
            },
            Some("file-known") => {
                // streams that exercise a listed finding: failures are keyed by the stream's tag
                let a = case.args();
                let r = file_roundtrip(Format::from_name(a[1].as_atom()), tc::game(a[2].as_atom()), &[], a[4].as_atom());
                if r.head() == Some("fail") { fail(format!("{}: {}", a[0].as_atom(), r.args()[0].as_atom().split(" field=").next().unwrap()), r.args()[1].as_atom()) } else { r }
            },
            Some("file") => {
                let a = case.args();
                let maps: Vec<String> = a[2].as_list().iter().map(|m| m.as_atom().to_string()).collect();
                file_roundtrip(Format::from_name(a[0].as_atom()), tc::game(a[1].as_atom()), &maps, a[3].as_atom())
            },
            _ => Sexp::atom("bad-case"),
        }
    }

    fn neighbours(&self, case: &Sexp, _rng: &mut Rng) -> Vec<Case> {
        // a model/implementation disagreement on written bytes: does the written instruction read back as requested?
        if case.head() == Some("winstr") {
            let mut v = case.as_list().to_vec();
            v[0] = Sexp::atom("wr-roundtrip");
            return vec![Case::search(Sexp::List(v))];
        }
        // stack ECL: a disagreement on the written bytes of a structure: does the written file read back as requested?
        if case.head() == Some("wecl10") {
            let a = case.args();
            return vec![Case::search(Sexp::app("wrecl10", vec![a[0].clone(), a[2].clone()]))];
        }
        vec![]
    }
}
