//! C10 — names resolve by lexical scope, independent of how they are spelled.
//!
//! Case grammar (shared with lean/TruthModel/Driver/C10.lean):
//!
//!   (resolve ENV ROOT)                      correspondence: per-occurrence resolution
//!   (rename-resolve ENV ROOT SEED)          search: resolution is invariant under renaming
//!   (rename-compile FORMAT ENV ROOT SEED)   search: compiled bytes are invariant under renaming
//!   (excess-args ENV ROOT)                  search: resolve + type check never crash
//!   (ribs ENV)                              correspondence: `Defs::initial_ribs` (order, kinds, contents)
//!   (ref-resolve ENV ROOT)                  search: resolution vs the independent reference resolver (c10_ref.rs)
//!   (ref-compile FORMAT ENV ROOT)           search: the same inside a real compile (sprite / script / sub names exist)
//!
//!   ENV  := (env (langs L..) (funcs L) (scripts L) (reg (L NAME N)..) (ins (L NAME N)..)
//!                (enums E..) (enum (E NAME)..) (builtin NAME..) [(sigs (L OPCODE COLOR..)..)])
//!         `sigs`: the instructions that have a signature, with the enum (or `-`) each parameter expects
//!         (absent: 900 (E1), 901 (E2), 902 (-) and every aliased opcode (-), one parameter each, in every language)
//!   ROOT := (file STMT..) | (blk STMT..)
//!   STMT := (expr E) | (assign E E) | (ret E) | (decl (ID NAME E?)..) | (block STMT..) | (loop STMT..)
//!         | (while E STMT..) | (dowhile E STMT..) | (times E STMT..) | (timesc (v ID NAME) E STMT..)
//!         | (funcdecl QUAL ID NAME ((ID NAME)..))             a declaration without body
//!         | (nscript ID NAME STMT..) | (sprites (ID NAME)..)  compile cases only (ANM): named script, entry with sprites
//!         | (if (E STMT..).. [(else STMT..)])
//!         | (func QUAL ID NAME ((ID NAME)..) STMT..) | (const (ID NAME E)..) | (script STMT..)
//!   E    := (v ID NAME) | (q ID ENUM NAME) | (f ID NAME E..) | (add E E) | (ins N COLOR E..) | (lit)
//!
//! Occurrence ids are the positions of the identifiers in the program text (0, 1, 2, ...).

use super::{Case, Prop, Tier, fail};
use crate::rng::Rng;
use crate::sexp::Sexp;
use std::collections::{BTreeMap, HashMap};
use truth::{ast, LanguageKey};
use truth::ident::{Ident, ResIdent};

pub struct C10;

const POOL: &[&str] = &["a", "b", "c", "d"];
const LANGS: &[&str] = &["ecl", "anm", "std"];
/// the declared enums: the two of the generated mapfile and the builtin ones (`auto_enum_names`)
const ENUMS: &[&str] = &["E1", "E2", "AnmSprite", "EclSub", "EclSubName", "MsgScript", "AnmScript", "BitmapColorFormat", "bool"];
/// raw instructions with an enum-coloured / plain parameter, defined for every language
const SIGS: &[(i64, &str)] = &[(900, "E1"), (901, "E2"), (902, "-")];

fn lang_key(s: &str) -> LanguageKey {
    match s { "ecl" => LanguageKey::Ecl, "anm" => LanguageKey::Anm, "std" => LanguageKey::Std, "msg" => LanguageKey::Msg, _ => panic!("bad language {s}") }
}
fn lang_name(l: LanguageKey) -> &'static str {
    match l { LanguageKey::Ecl => "ecl", LanguageKey::Anm => "anm", LanguageKey::Std => "std", LanguageKey::Msg => "msg", LanguageKey::Timeline => "timeline", LanguageKey::End => "end", _ => "other" }
}

// ---------------------------------------------------------------------------------------------
// environment

struct Env {
    funcs: String,
    scripts: String,
    reg: Vec<(String, String, i64)>,
    ins: Vec<(String, String, i64)>,
    enums: Vec<(String, String)>,
    /// (language, opcode, enum expected by each parameter or "-") of every instruction with a
    /// signature; `None`: the older case format (900-902 and every aliased opcode have one parameter)
    sigs: Option<Vec<(String, i64, Vec<String>)>>,
}

/// MSG opcodes are bytes: the raw instructions 900-902 of the other languages are 200-202 there
fn opcode_in(lang: &str, op: i64) -> i64 { if lang == "msg" && op >= 900 { op - 700 } else { op } }

fn env_langs(env: &Env) -> Vec<&'static str> {
    let mut v = LANGS.to_vec();
    if env.funcs == "msg" || env.scripts == "msg" { v.push("msg"); }
    v
}

fn section<'a>(env: &'a Sexp, name: &str) -> &'a [Sexp] {
    env.args().iter().find(|s| s.head() == Some(name)).map(|s| s.args()).unwrap_or(&[])
}

fn parse_env(env: &Sexp) -> Env {
    let triple = |s: &Sexp| { let v = s.as_list(); (v[0].as_atom().to_string(), v[1].as_atom().to_string(), v[2].as_i64()) };
    Env {
        funcs: section(env, "funcs")[0].as_atom().to_string(),
        scripts: section(env, "scripts")[0].as_atom().to_string(),
        reg: section(env, "reg").iter().map(triple).collect(),
        ins: section(env, "ins").iter().map(triple).collect(),
        enums: section(env, "enum").iter().map(|s| { let v = s.as_list(); (v[0].as_atom().to_string(), v[1].as_atom().to_string()) }).collect(),
        sigs: if env.args().iter().any(|s| s.head() == Some("sigs")) { Some(section(env, "sigs").iter().map(|s| { let v = s.as_list(); (v[0].as_atom().to_string(), v[1].as_i64(), v[2..].iter().map(|c| c.as_atom().to_string()).collect()) }).collect()) } else { None },
    }
}

/// one user mapfile per language; the enums go into the first one
fn mapfiles(env: &Env) -> Vec<String> {
    let mut out = vec![];
    for (i, &l) in env_langs(env).iter().enumerate() {
        let mut m = format!("!{l}map\n!gvar_names\n");
        for (_, n, r) in env.reg.iter().filter(|x| x.0 == l) { m.push_str(&format!("{r} {n}\n")); }
        m.push_str("!gvar_types\n");
        let mut typed = vec![];
        for (_, _, r) in env.reg.iter().filter(|x| x.0 == l) { if !typed.contains(r) { typed.push(*r); m.push_str(&format!("{r} $\n")); } }
        m.push_str("!ins_names\n");
        for (_, n, r) in env.ins.iter().filter(|x| x.0 == l) { m.push_str(&format!("{r} {n}\n")); }
        m.push_str("!ins_signatures\n");
        match &env.sigs {
            None => {
                for &(op, color) in SIGS {
                    let op = opcode_in(l, op);
                    if color == "-" { m.push_str(&format!("{op} S\n")); } else { m.push_str(&format!("{op} S(enum=\"{color}\")\n")); }
                }
                // aliased instructions take one plain argument
                let mut seen = vec![];
                for (_, _, r) in env.ins.iter().filter(|x| x.0 == l) { if !seen.contains(r) { seen.push(*r); m.push_str(&format!("{r} S\n")); } }
            },
            Some(sigs) => {
                // exactly the listed instructions have a signature
                for (_, op, colors) in sigs.iter().filter(|x| x.0 == l) {
                    let params: String = colors.iter().map(|c| if c == "-" { "S".to_string() } else { format!("S(enum=\"{c}\")") }).collect();
                    m.push_str(&format!("{op} {params}\n"));
                }
            },
        }
        if i == 0 {
            for e in ["E1", "E2"] {
                m.push_str(&format!("!enum(name=\"{e}\")\n"));
                for (k, (_, n)) in env.enums.iter().filter(|x| x.0 == e).enumerate() { m.push_str(&format!("{} {n}\n", 10 + k)); }
            }
        }
        out.push(m);
    }
    out
}

// ---------------------------------------------------------------------------------------------
// rendering: one identifier occurrence per line, so that a diagnostic's line names the occurrence

struct Render<'a> {
    out: String,
    line: usize,
    /// line (1-based) -> occurrence id
    id_of_line: HashMap<usize, usize>,
    /// occurrence id -> (namespace is funcs, is declaration, name)
    occ: BTreeMap<usize, (bool, bool, String)>,
    rename: &'a dyn Fn(usize, &str) -> String,
    scripts: usize,
    /// functions are rendered `void name(..)` (old ECL subs) instead of `int name(..)`
    void_funcs: bool,
    /// declarations that are not resolvable identifiers of the AST (sprite names, script names):
    /// occurrence id -> (kind, name)
    ext: BTreeMap<usize, (&'static str, String)>,
    /// names of all scripts in order (MSG needs them in its `meta` table)
    script_names: Vec<String>,
    msg: bool,
}

impl Render<'_> {
    fn put(&mut self, s: &str) { self.line += s.matches('\n').count(); self.out.push_str(s); }
    fn ident(&mut self, id: &Sexp, name: &Sexp, funcs: bool, decl: bool) {
        let id = id.as_usize();
        self.put("\n");
        self.id_of_line.insert(self.line + 1, id);
        self.occ.insert(id, (funcs, decl, name.as_atom().to_string()));
        let text = (self.rename)(id, name.as_atom());
        self.put(&text);
        self.put("\n");
    }
    /// a declaring name that the AST holds as a plain identifier
    fn ext_ident(&mut self, id: &Sexp, name: &Sexp, kind: &'static str) -> String {
        let id = id.as_usize();
        self.put("\n");
        self.id_of_line.insert(self.line + 1, id);
        self.ext.insert(id, (kind, name.as_atom().to_string()));
        let text = (self.rename)(id, name.as_atom());
        self.put(&text);
        self.put("\n");
        text
    }
    fn expr(&mut self, e: &Sexp) {
        let a = e.args();
        match e.head() {
            Some("v") => self.ident(&a[0], &a[1], false, false),
            Some("q") => {
                // `Enum.name` on one line: "no such enum" points at the enum name, "no enum const" at the whole
                let id = a[0].as_usize();
                self.put("\n");
                self.id_of_line.insert(self.line + 1, id);
                self.occ.insert(id, (false, false, a[2].as_atom().to_string()));
                self.put(&format!("{}.{}", a[1].as_atom(), a[2].as_atom()));
                self.put("\n");
            },
            Some("f") => {
                self.ident(&a[0], &a[1], true, false);
                self.put("(");
                for (i, x) in a[2..].iter().enumerate() { if i > 0 { self.put(", "); } self.expr(x); }
                self.put(")");
            },
            Some("add") => { self.put("("); self.expr(&a[0]); self.put(" + "); self.expr(&a[1]); self.put(")"); },
            Some("ins") => {
                self.put(&format!("ins_{}(", opcode_in(if self.msg { "msg" } else { "" }, a[0].as_i64())));
                for (i, x) in a[2..].iter().enumerate() { if i > 0 { self.put(", "); } self.expr(x); }
                self.put(")");
            },
            _ => self.put("1"),
        }
    }
    fn decl_vars(&mut self, vars: &[Sexp], is_const: bool) {
        for (i, v) in vars.iter().enumerate() {
            let v = v.as_list();
            if i > 0 { self.put(", "); }
            self.ident(&v[0], &v[1], false, true);
            if v.len() > 2 { self.put(" = "); self.expr(&v[2]); } else if is_const { self.put(" = 1"); }
        }
    }
    fn stmts(&mut self, ss: &[Sexp]) { for s in ss { self.stmt(s); } }
    fn body(&mut self, ss: &[Sexp]) { self.put("{\n"); self.stmts(ss); self.put("}\n"); }
    fn stmt(&mut self, s: &Sexp) {
        let a = s.args();
        match s.head() {
            Some("expr") => { self.expr(&a[0]); self.put(";\n"); },
            Some("assign") => { self.expr(&a[0]); self.put(" = "); self.expr(&a[1]); self.put(";\n"); },
            Some("ret") => { self.put("return "); self.expr(&a[0]); self.put(";\n"); },
            Some("decl") => { self.put("int "); self.decl_vars(a, false); self.put(";\n"); },
            Some("block") => self.body(a),
            Some("loop") => { self.put("loop "); self.body(a); },
            Some("while") => { self.put("while ("); self.expr(&a[0]); self.put(") "); self.body(&a[1..]); },
            Some("dowhile") => { self.put("do "); self.body(&a[1..]); self.put("while ("); self.expr(&a[0]); self.put(");\n"); },
            Some("times") => { self.put("times("); self.expr(&a[0]); self.put(") "); self.body(&a[1..]); },
            Some("timesc") => { self.put("times("); self.expr(&a[0]); self.put(" = "); self.expr(&a[1]); self.put(") "); self.body(&a[2..]); },
            Some("if") => {
                let mut first = true;
                for b in a {
                    if b.head() == Some("else") { self.put("else "); self.body(b.args()); }
                    else {
                        let v = b.as_list();
                        self.put(if first { "if (" } else { "else if (" });
                        first = false;
                        self.expr(&v[0]); self.put(") "); self.body(&v[1..]);
                    }
                }
            },
            Some("func") => {
                match a[0].as_atom() { "const" => self.put("const "), "inline" => self.put("inline "), _ => {} }
                self.put(if self.void_funcs { "void " } else { "int " });
                self.ident(&a[1], &a[2], true, true);
                self.put("(");
                for (i, p) in a[3].as_list().iter().enumerate() {
                    let p = p.as_list();
                    if i > 0 { self.put(", "); }
                    self.put("int ");
                    self.ident(&p[0], &p[1], false, true);
                }
                self.put(") ");
                self.body(&a[4..]);
            },
            Some("funcdecl") => {
                match a[0].as_atom() { "const" => self.put("const "), "inline" => self.put("inline "), _ => {} }
                self.put(if self.void_funcs { "void " } else { "int " });
                self.ident(&a[1], &a[2], true, true);
                self.put("(");
                for (i, p) in a[3].as_list().iter().enumerate() {
                    let p = p.as_list();
                    if i > 0 { self.put(", "); }
                    self.put("int ");
                    self.ident(&p[0], &p[1], false, true);
                }
                self.put(");\n");
            },
            Some("const") => { self.put("const int "); self.decl_vars(a, true); self.put(";\n"); },
            Some("script") => { let n = self.scripts; self.scripts += 1; self.script_names.push(format!("s{n}")); self.put(&format!("script s{n} ")); self.body(a); },
            Some("nscript") => {
                self.put("script ");
                let text = self.ext_ident(&a[0], &a[1], "script-name");
                self.script_names.push(text);
                self.body(&a[2..]);
            },
            Some("sprites") => {
                self.put("entry { path: \"b.png\", has_data: 0, img_width: 16, img_height: 16, img_format: 3, offset_x: 0, offset_y: 0, colorkey: 0, memory_priority: 0, low_res_scale: 0, sprites: {\n");
                for v in a { let v = v.as_list(); self.ext_ident(&v[0], &v[1], "sprite"); self.put(": {x: 0.0, y: 0.0, w: 1.0, h: 1.0},\n"); }
                self.put("} }\n");
            },
            h => panic!("bad stmt {h:?}"),
        }
    }
}

struct Rendered { text: String, id_of_line: HashMap<usize, usize>, occ: BTreeMap<usize, (bool, bool, String)>, ext: BTreeMap<usize, (&'static str, String)>, is_file: bool }

fn render(root: &Sexp, prelude: &str, rename: &dyn Fn(usize, &str) -> String) -> Rendered {
    let void_funcs = prelude == ECL_PRELUDE;
    let msg = prelude == MSG_PRELUDE;
    let mut r = Render { out: String::new(), line: 0, id_of_line: HashMap::new(), occ: BTreeMap::new(), rename, scripts: 0, void_funcs, ext: BTreeMap::new(), script_names: vec![], msg };
    r.put(prelude);
    let is_file = root.head() == Some("file");
    if is_file { r.stmts(root.args()); } else { r.body(root.args()); }
    if msg {
        // every script is an entry of the table
        let entries: Vec<String> = r.script_names.iter().enumerate().map(|(i, n)| format!("{i}: {{script: \"{n}\"}}")).collect();
        let table = format!("meta {{ table: {{{}}} }}\n", entries.join(", "));
        r.put(&table);
    }
    Rendered { text: r.out, id_of_line: r.id_of_line, occ: r.occ, ext: r.ext, is_file }
}

// ---------------------------------------------------------------------------------------------
// observing the real resolver

/// marks every identifier occurrence of the AST so that the formatted text shows them in order
struct Marker { seen: Vec<ResIdent> }
impl ast::VisitMut for Marker {
    fn visit_res_ident(&mut self, ident: &mut ResIdent) {
        let k = self.seen.len();
        self.seen.push(ident.clone());
        *ident.as_raw_mut() = Ident::new_system(&format!("zqj{k}zqj")).expect("ascii");
    }
}

/// the `zqjNzqj` markers of a text, in order
fn markers(text: &str) -> Vec<usize> {
    let mut out = vec![];
    let mut rest = text;
    while let Some(p) = rest.find("zqj") {
        let after = &rest[p + 3..];
        let end = after.find("zqj").expect("unterminated marker");
        out.push(after[..end].parse::<usize>().expect("marker number"));
        rest = &after[end + 3..];
    }
    out
}

/// one error diagnostic of the rendered (codespan) output
struct ErrDiag { msg: String, line: usize, defined_here: Option<usize> }

/// Every error diagnostic with the line of its primary label (header `<input>:L:C`) and, for
/// "cannot use ... from outside ...", the source line labelled "defined here".
fn error_diags(diagnostics: &str) -> Vec<ErrDiag> {
    let mut out: Vec<ErrDiag> = vec![];
    let mut open = false;
    let mut last_src_line = None;
    for line in diagnostics.lines() {
        if let Some(rest) = line.strip_prefix("error: ") {
            out.push(ErrDiag { msg: rest.to_string(), line: 0, defined_here: None });
            open = true; last_src_line = None;
            continue;
        }
        if line.starts_with("warning") || line.starts_with("bug") || line.starts_with("error") { open = false; continue; }
        if !open { continue; }
        let cur = out.last_mut().unwrap();
        if let Some(p) = line.find("<input>:") {
            if cur.line == 0 && line.contains("\u{250c}") {
                cur.line = line[p + 8..].split(':').next().unwrap_or("0").trim().parse::<usize>().unwrap_or(0);
            }
            continue;
        }
        let t = line.trim_start();
        let digits: String = t.chars().take_while(|c| c.is_ascii_digit()).collect();
        if !digits.is_empty() && t[digits.len()..].trim_start().starts_with('\u{2502}') { last_src_line = digits.parse::<usize>().ok(); }
        else if t.contains("defined here") && !t.contains("originally") { cur.defined_here = last_src_line; }
    }
    out
}

fn err_class(msg: &str) -> String {
    if msg.starts_with("unknown ") { return "unknown".into(); }
    if msg.starts_with("no enum const ") { return "no enum const".into(); }
    let cut = msg.find(|c: char| c == '\'' || c == '"' || c == '`').unwrap_or(msg.len());
    msg[..cut].trim().to_string()
}

struct Resolved {
    /// canonical result, comparable with the Lean driver's
    result: Sexp,
    /// occurrence id -> Some(declaration id) if it resolved to (or was blocked by) a declaration of the program
    bound_to: BTreeMap<usize, Option<usize>>,
}

fn resolve_impl(env: &Env, r: &Rendered) -> Resolved {
    let mut scope = truth::Builder::new().capture_diagnostics(true).build();
    let mut truth = scope.truth();
    for m in mapfiles(env) { truth.apply_mapfile_str(&m, truth::Game::Th12).expect("generated mapfile rejected"); }

    let parsed = if r.is_file { truth.parse::<ast::ScriptFile>("<input>", r.text.as_bytes()).map(Root::File) }
        else { truth.parse::<ast::Block>("<input>", r.text.as_bytes()).map(Root::Block) };
    let mut root = match parsed {
        Ok(x) => x,
        Err(e) => { e.ignore(); return Resolved { result: Sexp::app("err", vec![Sexp::str(format!("parse: {}", crate::util::diag_class(&truth.get_captured_diagnostics().unwrap_or_default())))]), bound_to: BTreeMap::new() }; },
    };
    let opts = || truth::passes::resolution::AssignLanguagesOptions { funcs: lang_key(&env.funcs), scripts: lang_key(&env.scripts) };
    let ctx = truth.ctx();
    let painted = match &mut root { Root::File(f) => opts().run(f, ctx), Root::Block(b) => opts().run(b, ctx) };
    if let Err(e) = painted {
        e.ignore();
        return Resolved { result: Sexp::app("err", vec![Sexp::str(format!("assign_languages: {}", crate::util::diag_class(&truth.get_captured_diagnostics().unwrap_or_default())))]), bound_to: BTreeMap::new() };
    }
    let status = match &root { Root::File(f) => truth::passes::resolution::resolve_names(f, ctx), Root::Block(b) => truth::passes::resolution::resolve_names(b, ctx) };
    let failed = match status { Ok(()) => false, Err(e) => { e.ignore(); true } };

    observe(&mut truth, &mut root, r, failed)
}

enum Root { File(truth::Sp<ast::ScriptFile>), Block(truth::Sp<ast::Block>) }

/// the enums whose consts a use can resolve to: the two of the generated mapfile and the builtin ones
const CLASSIFIED_ENUMS: &[&str] = &["E1", "E2", "bool", "AnmSprite", "AnmScript", "EclSub", "MsgScript", "BitmapColorFormat"];

/// What the `Resolutions` table and the diagnostics say about every identifier occurrence of the
/// program, after name resolution has run on `root` (directly, or inside a compile).
fn observe(truth: &mut truth::Truth<'_>, root: &mut Root, r: &Rendered, failed: bool) -> Resolved {
    // identifier occurrences in textual order
    let mut marker = Marker { seen: vec![] };
    let text = match root {
        Root::File(f) => { ast::VisitMut::visit_file(&mut marker, &mut f.value); truth::fmt::stringify(&*f) },
        Root::Block(b) => { ast::VisitMut::visit_root_block(&mut marker, &mut b.value); truth::fmt::stringify(&*b) },
    };
    let order = markers(&text);
    let ids: Vec<usize> = r.occ.keys().copied().collect();
    if order.len() != ids.len() || marker.seen.len() != ids.len() {
        return Resolved { result: Sexp::app("err", vec![Sexp::str(format!("harness: {} identifiers generated, {} in the AST, {} printed", ids.len(), marker.seen.len(), order.len()))]), bound_to: BTreeMap::new() };
    }
    let ctx = truth.ctx();
    // occurrence id -> ResIdent
    let mut ident_of: BTreeMap<usize, &ResIdent> = BTreeMap::new();
    for (pos, &k) in order.iter().enumerate() { ident_of.insert(ids[pos], &marker.seen[k]); }
    // DefId of every declaration of the program
    let mut decl_of_def: HashMap<truth::DefId, usize> = HashMap::new();
    for (&id, &(_, is_decl, _)) in &r.occ {
        if is_decl { if let Some(d) = ctx.resolutions.try_get_def(ident_of[&id]) { decl_of_def.insert(d, id); } }
    }
    let diagnostics = truth.get_captured_diagnostics().unwrap_or_default();
    let mut errs_at: HashMap<usize, Vec<String>> = HashMap::new();
    let mut stray = vec![];
    let diags = error_diags(&diagnostics);
    for d in &diags {
        match r.id_of_line.get(&d.line) { Some(&id) => errs_at.entry(id).or_default().push(d.msg.clone()), None => stray.push(d.msg.clone()) }
    }
    let ctx = truth.ctx();
    let mut entries = vec![];
    let mut bound_to = BTreeMap::new();
    let mut any_error = false;
    for (&id, (is_func, is_decl, name)) in &r.occ {
        let def = ctx.resolutions.try_get_def(ident_of[&id]);
        let errs = errs_at.remove(&id).unwrap_or_default();
        let idx = Sexp::int(id as i64);
        if *is_decl {
            let ok_self = def.map(|d| decl_of_def.get(&d) == Some(&id)).unwrap_or(false);
            entries.push(Sexp::list(vec![idx.clone(), Sexp::atom(if ok_self { "self" } else if def.is_none() && errs.is_empty() { "unresolved-without-diagnostic" } else { "decl-not-self-resolved" })]));
            bound_to.insert(id, Some(id));
            for e in errs {
                any_error = true;
                match e.strip_prefix("redefinition of ") {
                    Some(rest) => entries.push(Sexp::list(vec![idx.clone(), Sexp::atom("redef"), Sexp::atom(err_class(rest))])),
                    None => entries.push(Sexp::list(vec![idx.clone(), Sexp::app("err", vec![Sexp::str(err_class(&e))])])),
                }
            }
            continue;
        }
        let target = match def {
            None => {
                // (no definition and no diagnostic: an argument beyond the callee's parameter count is
                //  never looked at; that alone is not an error)
                if !errs.is_empty() { any_error = true; }
                bound_to.insert(id, None);
                match errs.len() {
                    0 => Sexp::atom("unresolved-without-diagnostic"),
                    1 => Sexp::app("err", vec![Sexp::str(err_class(&errs[0]))]),
                    _ => Sexp::app("errs", errs.iter().map(|e| Sexp::str(err_class(e))).collect()),
                }
            },
            Some(d) => {
                if !errs.is_empty() { entries.push(Sexp::list(vec![idx.clone(), Sexp::app("resolved-with-error", errs.iter().map(|e| Sexp::str(err_class(e))).collect())])); }
                if let Some(&j) = decl_of_def.get(&d) { bound_to.insert(id, Some(j)); Sexp::app("d", vec![Sexp::int(j as i64)]) }
                else {
                    bound_to.insert(id, None);
                    if *is_func {
                        match ctx.defs.func_opcode(d) { Some((l, op)) => Sexp::app("ins", vec![Sexp::atom(lang_name(l)), Sexp::int(op as i64)]), None => Sexp::atom("unknown-func-def") }
                    } else if let Some((l, reg)) = ctx.defs.var_reg(d) { Sexp::app("reg", vec![Sexp::atom(lang_name(l)), Sexp::int(reg.0 as i64)]) }
                    else {
                        let ident = Ident::new_system(name).expect("ascii");
                        let mut found = None;
                        for &e in CLASSIFIED_ENUMS {
                            let en = Ident::new_system(e).expect("ascii");
                            if ctx.defs.enum_const_def_id(&en, &ident) == Some(d) { found = Some(e); }
                        }
                        match found {
                            Some(e) => Sexp::app("enum", vec![Sexp::atom(e), Sexp::atom(name.clone())]),
                            None => if matches!(ctx.defs.var_const_expr(d), Some((truth::context::defs::ConstExprLoc::Builtin, _))) { Sexp::app("builtin", vec![Sexp::atom(name.clone())]) } else { Sexp::atom("unknown-var-def") },
                        }
                    }
                }
            },
        };
        entries.push(Sexp::list(vec![idx, target]));
    }
    // a cross-barrier error names the local it found: such a use counts as bound to it for renaming
    for d in &diags {
        if d.msg.starts_with("cannot use ") {
            if let (Some(&id), Some(j)) = (r.id_of_line.get(&d.line), d.defined_here.and_then(|l| r.id_of_line.get(&l))) { bound_to.insert(id, Some(*j)); }
        }
    }
    for m in stray { entries.push(Sexp::app("stray-error", vec![Sexp::str(err_class(&m))])); any_error = true; }
    if failed != any_error { entries.push(Sexp::app("status-mismatch", vec![Sexp::atom(if failed { "failed-without-error" } else { "ok-with-error" })])); }
    Resolved { result: Sexp::app(if any_error { "errors" } else { "ok" }, entries), bound_to }
}

/// The same observation inside a real compile (`truanm` / `truecl` / `trumsg compile`): the front
/// end of the format declares sprite / script / sub names as enum consts, paints languages and
/// runs `resolve_names` itself; the table is read afterwards.  Also returns the written bytes.
fn observe_compile(fmt: crate::tc::Format, env: &Env, r: &Rendered) -> (Resolved, Option<Vec<u8>>, String) {
    let game = game_of(fmt);
    let mut scope = truth::Builder::new().capture_diagnostics(true).build();
    let mut truth = scope.truth();
    let bad = |what: String| Resolved { result: Sexp::app("err", vec![Sexp::str(what)]), bound_to: BTreeMap::new() };
    for &language in fmt.languages() {
        let core = truth::verif_hooks::core_mapfile(truth.ctx().emitter, game, language);
        truth.apply_mapfile(&core, game).expect("failed to apply core mapfile!?");
    }
    for m in mapfiles(env) {
        if let Err(e) = truth.apply_mapfile_str(&m, game) { e.ignore(); let d = truth.get_captured_diagnostics().unwrap_or_default(); return (bad(format!("mapfile: {}", crate::util::diag_class(&d))), None, d); }
    }
    let script = match truth.parse::<ast::ScriptFile>("<input>", r.text.as_bytes()) {
        Ok(x) => x,
        Err(e) => { e.ignore(); let d = truth.get_captured_diagnostics().unwrap_or_default(); return (bad(format!("parse: {}", crate::util::diag_class(&d))), None, d); },
    };
    let bytes = match crate::tc::compile_ast(&mut truth, fmt, game, &script.value).and_then(|c| crate::tc::write_bytes(&mut truth, fmt, game, &c)) {
        Ok(b) => Some(b),
        Err(e) => { e.ignore(); None },
    };
    let diagnostics = truth.get_captured_diagnostics().unwrap_or_default();
    let mut root = Root::File(script);
    (observe(&mut truth, &mut root, r, bytes.is_none()), bytes, diagnostics)
}

fn game_of(fmt: crate::tc::Format) -> truth::Game { if fmt == crate::tc::Format::Ecl { truth::Game::Th07 } else { truth::Game::Th12 } }

fn resolve_case(env: &Sexp, root: &Sexp) -> Sexp {
    let env = parse_env(env);
    let r = render(root, "", &|_, n| n.to_string());
    resolve_impl(&env, &r).result
}

// ---------------------------------------------------------------------------------------------
// the global ribs

/// `Defs::initial_ribs()` as the two stacks `RibStacks::from_iter` builds from it (bottom first,
/// without the dummy root), each rib with its kind and what it holds for the names of the case.
/// Mapfile ribs that hold none of these names are left out and neighbouring mapfile ribs are put
/// in the order of their language names: only the rib of the language of a use can answer, so
/// their mutual order means nothing; where they stand relative to the const ribs does.
/// (`truth::resolve` is a private module: kinds are read off their `Debug` text.)
fn ribs_case(env: &Sexp) -> Sexp {
    let envs = env;
    let env = parse_env(env);
    let mut scope = truth::Builder::new().capture_diagnostics(true).build();
    let mut truth = scope.truth();
    for m in mapfiles(&env) { truth.apply_mapfile_str(&m, truth::Game::Th12).expect("generated mapfile rejected"); }
    let mut names: Vec<String> = env.reg.iter().map(|x| x.1.clone()).chain(env.ins.iter().map(|x| x.1.clone())).chain(env.enums.iter().map(|x| x.1.clone()))
        .chain(section(envs, "builtin").iter().map(|s| s.as_atom().to_string())).collect();
    names.sort(); names.dedup();
    let ctx = truth.ctx();
    let dummy = ctx.defs.enum_const_dummy_def_id();
    let mut ribs = ctx.defs.initial_ribs();
    // (namespace, kind word, language, entries)
    let mut stacks: BTreeMap<&'static str, Vec<(String, String, Vec<Sexp>)>> = BTreeMap::new();
    for rib in ribs.iter_mut() {
        let ns = match format!("{:?}", rib.ns).as_str() { "Vars" => "vars", "Funcs" => "funcs", _ => "other-namespace" };
        let kind_text = format!("{:?}", rib.kind);
        let (kind, lang) = if kind_text.starts_with("Mapfile") {
            let l = kind_text.split("language:").nth(1).unwrap_or("?").trim().trim_end_matches('}').trim().to_lowercase();
            ("mapfile".to_string(), l)
        } else if kind_text == "EnumConsts" { ("enum-consts".to_string(), String::new()) }
        else if kind_text == "BuiltinConsts" { ("builtin-consts".to_string(), String::new()) }
        else { (format!("other:{kind_text}"), String::new()) };
        let mut entries = vec![];
        for n in &names {
            let ident = Ident::new_system(n).expect("ascii");
            if let Some(e) = rib.get(&ident) {
                let d = e.def_id;
                let def = if d == dummy { Sexp::atom("enum-dummy") }
                    else if ns == "funcs" { match ctx.defs.func_opcode(d) { Some((l, op)) => Sexp::app("ins", vec![Sexp::atom(lang_name(l)), Sexp::int(op as i64)]), None => Sexp::atom("unknown-func-def") } }
                    else if let Some((l, reg)) = ctx.defs.var_reg(d) { Sexp::app("reg", vec![Sexp::atom(lang_name(l)), Sexp::int(reg.0 as i64)]) }
                    else if matches!(ctx.defs.var_const_expr(d), Some((truth::context::defs::ConstExprLoc::Builtin, _))) { Sexp::app("builtin", vec![Sexp::atom(n.clone())]) }
                    else { Sexp::atom("unknown-def") };
                entries.push(Sexp::list(vec![Sexp::atom(n.clone()), def]));
            }
        }
        if kind == "mapfile" && entries.is_empty() { continue; }
        stacks.entry(ns).or_default().push((kind, lang, entries));
    }
    let mut out = vec![];
    for ns in ["vars", "funcs"] {
        let mut ribs = stacks.remove(ns).unwrap_or_default();
        // neighbouring mapfile ribs in the order of their languages
        let mut i = 0;
        while i < ribs.len() {
            let mut j = i;
            while j < ribs.len() && ribs[j].0 == "mapfile" { j += 1; }
            ribs[i..j].sort_by(|a, b| a.1.cmp(&b.1));
            i = j.max(i + 1);
        }
        let items: Vec<Sexp> = ribs.into_iter().map(|(k, l, e)| { let mut v = vec![]; if k == "mapfile" { v.push(Sexp::atom(l)); } v.extend(e); Sexp::app(&k, v) }).collect();
        out.push(Sexp::app(ns, items));
    }
    for (ns, _) in stacks { out.push(Sexp::app("unexpected-namespace", vec![Sexp::atom(ns)])); }
    Sexp::app("ribs", out)
}

// ---------------------------------------------------------------------------------------------
// the reference resolver as an oracle

use super::c10_ref::{self as reference, DKind, Target};

/// The languages of functions and scripts: what the case says when `resolve_names` is run on its
/// own, what the compiler of the format paints (`assign_languages`) inside a real compile.
fn ref_options(env: &Env, fmt: Option<crate::tc::Format>) -> reference::Options {
    use crate::tc::Format;
    let (funcs, scripts) = match fmt {
        None => (env.funcs.clone(), env.scripts.clone()),
        Some(Format::Ecl) => ("ecl".to_string(), "timeline".to_string()),
        Some(f) => (f.name().to_string(), f.name().to_string()),
    };
    reference::Options { funcs_lang: funcs, scripts_lang: scripts, subs_are_consts: fmt == Some(Format::Ecl) }
}

fn try_atom(x: &Sexp) -> Option<&str> { match x { Sexp::Atom(s) => Some(s), _ => None } }

/// what the implementation chose for a use, as a word for the failure signature
fn chosen_kind(x: &Sexp, refr: &reference::Reference) -> String {
    match x.head() {
        Some("d") => refr.decls.get(&x.args()[0].as_usize()).map(|d| d.kind.name().to_string()).unwrap_or_else(|| "declaration".into()),
        Some("reg") => "register-alias".into(),
        Some("ins") => "instruction-alias".into(),
        Some("enum") => match x.args()[0].as_atom() { "AnmSprite" => "sprite".into(), "AnmScript" => "script-name".into(), "EclSub" => "sub-name".into(), "MsgScript" => "script-name".into(), _ => "enum-const".into() },
        Some("builtin") => "builtin-const".into(),
        Some("err") | Some("errs") => "error".into(),
        _ => "nothing".into(),
    }
}

/// Compares what the implementation did with the answers of the reference resolver, and reports
/// only what the property text forbids.  Nothing is judged when name resolution did not run at all
/// (a compile may stop before it); `check_redecl`: it ran on its own, so every redeclaration must
/// have been diagnosed.
fn ref_judge(root: &Sexp, refr: &reference::Reference, res: &Resolved, text: &str, check_redecl: bool) -> Option<Sexp> {
    if !matches!(res.result.head(), Some("ok") | Some("errors")) { return None; }
    // id -> primary entry, ids with a redefinition diagnostic
    let mut primary: BTreeMap<usize, Sexp> = BTreeMap::new();
    let mut redef: Vec<usize> = vec![];
    for e in res.result.args() {
        let Sexp::List(v) = e else { continue };
        if v.len() < 2 { continue; }
        let Some(id) = try_atom(&v[0]).and_then(|a| a.parse::<usize>().ok()) else { continue };
        if v.len() == 3 && try_atom(&v[1]) == Some("redef") { redef.push(id); continue; }
        if v[1].head() == Some("resolved-with-error") { continue; }
        primary.entry(id).or_insert_with(|| v[1].clone());
    }
    // did name resolution run at all?  (every declaration it reaches resolves to itself)
    let anything = primary.values().any(|x| try_atom(x) == Some("self") || matches!(x.head(), Some("d") | Some("reg") | Some("ins") | Some("enum") | Some("builtin")))
        || primary.values().any(|x| matches!(x.head(), Some("err") | Some("errs")));
    if !anything { return None; }
    let detail = |what: String| format!("{what}; program {:?}; tree {root}", text.replace('\n', " "));
    for (&id, u) in &refr.uses {
        let Some(x) = primary.get(&id) else { continue };
        let use_kind = if u.space == reference::Space::Call { "call" } else { "var-use" };
        let unresolved = try_atom(x) == Some("unresolved-without-diagnostic");
        if unresolved {
            // never looked at: allowed only for an argument beyond the callee's parameter count
            match refr.beyond_arity(id) {
                Some(false) if u.target != Target::Qualified => return Some(fail(format!("use-not-resolved-and-not-diagnosed {use_kind}"), detail(format!("occurrence {id} '{}' got neither a definition nor a diagnostic", u.name)))),
                _ => continue,
            }
        }
        if refr.beyond_arity(id) == Some(true) { continue; }
        match &u.target {
            Target::Decl(j) => {
                let d = &refr.decls[j];
                let ok = match d.kind {
                    DKind::Sprite => x.head() == Some("enum") && x.args()[0].as_atom() == "AnmSprite" && x.args()[1].as_atom() == u.name,
                    DKind::ScriptName => x.head() == Some("enum") && x.args()[0].as_atom() == "AnmScript" && x.args()[1].as_atom() == u.name,
                    _ => x.head() == Some("d") && x.args()[0].as_usize() == *j,
                };
                // sprite / script / sub names are consts of builtin enums: where a mapfile enum has a const
                // of the same name, the documented outcome is the enum rule (the enum the parameter expects,
                // else "ambiguous enum const"), which the property text does not speak about
                let enum_face = matches!(d.kind, DKind::Sprite | DKind::ScriptName) || (d.kind == DKind::Func && u.space == reference::Space::Var);
                let enum_rule = enum_face && ((x.head() == Some("enum") && x.args()[1].as_atom() == u.name)
                    || (x.head() == Some("err") && x.args()[0].as_atom() == "ambiguous enum const"));
                if !ok && !enum_rule {
                    let mut chose = chosen_kind(x, refr);
                    if x.head() == Some("d") && chose == d.kind.name() { chose = format!("other-{chose}"); }
                    return Some(fail(format!("use-resolves-to-wrong-declaration {use_kind} chose={chose} innermost-visible={}", d.kind.name()),
                        detail(format!("occurrence {id} '{}': the innermost visible declaration is occurrence {j} ({}), the implementation says {x}", u.name, d.kind.name()))));
                }
            },
            Target::Hidden(j) => {
                if x.head() == Some("d") && x.args()[0].as_usize() == *j {
                    return Some(fail(format!("use-resolves-to-wrong-declaration {use_kind} chose={}-of-enclosing-function innermost-visible=none", refr.decls[j].kind.name()),
                        detail(format!("occurrence {id} '{}' is inside a nested function / const and resolves to the {} at occurrence {j} outside it", u.name, refr.decls[j].kind.name()))));
                }
            },
            Target::Outside => {
                if x.head() == Some("d") {
                    let k = x.args()[0].as_usize();
                    return Some(fail(format!("use-resolves-to-wrong-declaration {use_kind} chose={}-not-in-scope innermost-visible=none", chosen_kind(x, refr)),
                        detail(format!("occurrence {id} '{}': no declaration of the program is visible there, the implementation says occurrence {k}", u.name))));
                }
                if matches!(x.head(), Some("reg") | Some("ins")) && u.lang.as_deref() != Some(x.args()[0].as_atom()) {
                    return Some(fail(format!("use-resolves-to-wrong-declaration {use_kind} chose={}-of-another-language innermost-visible=none", chosen_kind(x, refr)),
                        detail(format!("occurrence {id} '{}' in {:?} code resolves to {x}", u.name, u.lang))));
                }
            },
            Target::Undetermined(cands) => {
                // whatever it is, it must be one of the competing declarations or an error
                if x.head() == Some("d") && !cands.contains(&x.args()[0].as_usize()) {
                    return Some(fail(format!("use-resolves-to-wrong-declaration {use_kind} chose={}-not-in-scope innermost-visible=several", chosen_kind(x, refr)),
                        detail(format!("occurrence {id} '{}': candidates {cands:?}, the implementation says {x}", u.name))));
                }
            },
            Target::Qualified => {
                if x.head() == Some("d") {
                    return Some(fail(format!("use-resolves-to-wrong-declaration qualified-enum-const chose={} innermost-visible=none", chosen_kind(x, refr)), detail(format!("occurrence {id} 'E.{}' resolves to {x}", u.name))));
                }
            },
        }
    }
    if check_redecl {
        for id in &refr.redeclared {
            if primary.contains_key(id) && !redef.contains(id) {
                let d = &refr.decls[id];
                return Some(fail(format!("redeclaration-in-one-block-not-reported {}", d.kind.name()), detail(format!("occurrence {id} '{}' repeats a {} of its own block", d.name, d.kind.name()))));
            }
        }
    }
    None
}

fn ref_resolve(env: &Sexp, root: &Sexp) -> Sexp {
    let env = parse_env(env);
    let r = render(root, "", &|_, n| n.to_string());
    let res = resolve_impl(&env, &r);
    let refr = reference::resolve(root, &ref_options(&env, None));
    if let Some(f) = ref_judge(root, &refr, &res, &r.text, true) { return f; }
    let judged = refr.uses.values().filter(|u| matches!(u.target, Target::Decl(_) | Target::Hidden(_))).count();
    Sexp::app(if res.result.head() == Some("ok") { "pass-valid-program" } else { "pass-program-with-errors" }, vec![Sexp::int(judged as i64)])
}

fn prelude_of(fmt: crate::tc::Format) -> &'static str {
    match fmt { crate::tc::Format::Anm => ANM_PRELUDE, crate::tc::Format::Msg => MSG_PRELUDE, _ => ECL_PRELUDE }
}

fn ref_compile(format: &str, env: &Sexp, root: &Sexp) -> Sexp {
    let env = parse_env(env);
    let fmt = crate::tc::Format::from_name(format);
    let r = render(root, prelude_of(fmt), &|_, n| n.to_string());
    let (res, bytes, _) = observe_compile(fmt, &env, &r);
    let refr = reference::resolve(root, &ref_options(&env, Some(fmt)));
    if let Some(f) = ref_judge(root, &refr, &res, &r.text, false) { return f; }
    Sexp::app(if bytes.is_some() { "pass-compiled" } else { "pass-rejected" }, vec![res.result.head().map(Sexp::atom).unwrap_or(Sexp::atom("?"))])
}

// ---------------------------------------------------------------------------------------------
// renaming

/// injective map from the names that occur in the program to fresh names
fn fresh_names(r: &Rendered, rng: &mut Rng) -> HashMap<String, String> {
    let mut names: Vec<String> = r.occ.values().map(|x| x.2.clone()).chain(r.ext.values().map(|x| x.1.clone())).collect();
    names.sort(); names.dedup();
    let mut ks: Vec<usize> = (0..names.len() + 3).collect();
    rng.shuffle(&mut ks);
    let style = rng.below(4);
    // style 3: fresh names that differ only in case or by a common prefix
    const NEAR: &[&str] = &["zq", "ZQ", "Zq", "zQ", "zqz", "ZQZ", "zq_", "zq0"];
    names.iter().enumerate().map(|(i, n)| {
        let fresh = match style { 0 => format!("zz{}", ks[i]), 1 => format!("R{}_{}", ks[i], n), 2 => format!("_{}{}", "x".repeat(ks[i] + 1), i), _ => if ks[i] < NEAR.len() { NEAR[ks[i]].to_string() } else { format!("zq{}", ks[i]) } };
        (n.clone(), fresh)
    }).collect()
}

/// Renames every declaration and every use bound to a declaration (as resolved by the
/// implementation itself) by `rho`; per_decl: every declaration gets its own fresh name instead.
fn renamed_text(root: &Sexp, prelude: &str, res: &Resolved, rho: &HashMap<String, String>, per_decl: bool, r0: &Rendered, keep_funcs: bool) -> Rendered {
    let f = |id: usize, name: &str| -> String {
        // old ECL also declares every sub name as a const of the enum `EclSub` (and ANM every
        // script name as a const of `AnmScript`), which variable uses may bind to; that binding is
        // made inside the compiler and not visible here, so sub names are left alone there
        if keep_funcs && r0.occ.get(&id).map(|o| o.0).unwrap_or(false) { return name.to_string(); }
        match res.bound_to.get(&id) {
            Some(Some(j)) => if per_decl { format!("{}_{}", rho[name], j) } else { rho[name].clone() },
            _ => name.to_string(),
        }
    };
    render(root, prelude, &f)
}

fn rename_resolve(env: &Sexp, root: &Sexp, seed: u64) -> Sexp {
    let env = parse_env(env);
    let mut rng = Rng::new(seed);
    let r0 = render(root, "", &|_, n| n.to_string());
    let res0 = resolve_impl(&env, &r0);
    if !matches!(res0.result.head(), Some("ok") | Some("errors")) { return Sexp::app("skip", vec![res0.result]); }
    let rho = fresh_names(&r0, &mut rng);
    let r1 = renamed_text(root, "", &res0, &rho, false, &r0, false);
    let res1 = resolve_impl(&env, &r1);
    if res0.result != res1.result {
        return fail("resolution-changes-under-renaming", format!("before {} after {} renamed program {:?}", res0.result, res1.result, r1.text.replace('\n', " ")));
    }
    let has_error = res0.result.head() == Some("errors");
    if !has_error {
        // valid program: every declaration may even get its own name
        let r2 = renamed_text(root, "", &res0, &rho, true, &r0, false);
        let res2 = resolve_impl(&env, &r2);
        if res0.result != res2.result {
            return fail("resolution-changes-under-per-declaration-renaming", format!("before {} after {} renamed program {:?}", res0.result, res2.result, r2.text.replace('\n', " ")));
        }
    }
    Sexp::app(if has_error { "pass-program-with-errors" } else { "pass-valid-program" }, vec![])
}

/// (`has_data: 0` rather than `false`: the values of an entry are expressions, and a script may declare a sprite named `false`)
const ANM_PRELUDE: &str = "entry { path: \"a.png\", has_data: 0, img_width: 16, img_height: 16, img_format: 3, offset_x: 0, offset_y: 0, colorkey: 0, memory_priority: 0, low_res_scale: 0, sprites: {} }\n";
const ECL_PRELUDE: &str = "script timeline0 {}\n";
/// (the `meta` table of a MSG file is written after the scripts, see `render`)
const MSG_PRELUDE: &str = "\n";

fn compile_text(format: crate::tc::Format, env: &Env, text: &str) -> (Option<Vec<u8>>, String) {
    let o = crate::tc::compile(format, game_of(format), &mapfiles(env), text.as_bytes());
    (o.value, o.diagnostics)
}

fn first_error_class(diagnostics: &str) -> String {
    for line in diagnostics.lines() {
        if let Some(rest) = line.strip_prefix("error: ") { return err_class(rest).chars().filter(|c| !c.is_ascii_digit()).collect(); }
    }
    "no-error-diagnostic".into()
}

/// Which occurrences a consistent renaming touches, decided by the reference resolver (not by the
/// implementation under test): every declaration, and every use whose innermost visible
/// declaration is a declaration of the program (or would be one but for a function / const
/// boundary).  Second component: may every declaration get a name of its own?
fn reference_binding(refr: &reference::Reference) -> (BTreeMap<usize, Option<usize>>, bool) {
    let mut bound = BTreeMap::new();
    let mut per_decl_ok = refr.redeclared.is_empty();
    for &id in refr.decls.keys() { bound.insert(id, Some(id)); }
    for &id in &refr.undeclared_params { bound.insert(id, Some(id)); }
    for (&id, u) in &refr.uses {
        bound.insert(id, match &u.target {
            Target::Decl(j) => Some(*j),
            Target::Hidden(j) => { per_decl_ok = false; Some(*j) },
            Target::Undetermined(c) => { per_decl_ok = false; c.first().copied() },
            Target::Outside | Target::Qualified => None,
        });
    }
    (bound, per_decl_ok)
}

/// Is some use bound to a sprite / script / sub name that is also a const of another enum?  Then
/// the documented enum rule decides (expected enum, else "ambiguous enum const"), and renaming the
/// file's declaration resolves the ambiguity: not something the property speaks about.
fn enum_rule_applies(refr: &reference::Reference, env: &Env) -> bool {
    let face = |d: &reference::Decl, space: reference::Space| matches!(d.kind, DKind::Sprite | DKind::ScriptName) || (d.kind == DKind::Func && space == reference::Space::Var);
    refr.uses.values().any(|u| match &u.target {
        Target::Decl(j) => {
            let d = &refr.decls[j];
            face(d, u.space) && (env.enums.iter().any(|x| x.1 == u.name) || u.name == "true" || u.name == "false"
                || refr.decls.values().any(|o| o.id != d.id && o.name == d.name && o.kind != d.kind && matches!(o.kind, DKind::Sprite | DKind::ScriptName)))
        },
        _ => false,
    })
}

fn rename_compile(format: &str, env: &Sexp, root: &Sexp, seed: u64) -> Sexp {
    let env = parse_env(env);
    let fmt = crate::tc::Format::from_name(format);
    let prelude = prelude_of(fmt);
    let mut rng = Rng::new(seed);
    let refr = reference::resolve(root, &ref_options(&env, Some(fmt)));
    let (bound_to, per_decl_ok) = reference_binding(&refr);
    if enum_rule_applies(&refr, &env) { return Sexp::app("skip", vec![Sexp::atom("enum-const-of-two-enums")]); }
    let binding = Resolved { result: Sexp::atom("reference"), bound_to };
    let t0 = render(root, prelude, &|_, n| n.to_string());
    let rho = fresh_names(&t0, &mut rng);
    let (b0, d0) = compile_text(fmt, &env, &t0.text);
    let mut both_ok = false;
    for per_decl in [false, true] {
        if per_decl && (b0.is_none() || !per_decl_ok) { continue; }
        let t1 = renamed_text(root, prelude, &binding, &rho, per_decl, &t0, false);
        let (b1, d1) = compile_text(fmt, &env, &t1.text);
        match (&b0, &b1) {
            (Some(x), Some(y)) => {
                if x != y { return fail("compiled-output-changes-under-renaming", format!("per_decl={per_decl} original {:?} -> {} renamed {:?} -> {}", t0.text.replace('\n', " "), crate::sexp::hex(x), t1.text.replace('\n', " "), crate::sexp::hex(y))); }
                both_ok = true;
            },
            (None, None) => {
                let (c0, c1) = (first_error_class(&d0), first_error_class(&d1));
                if c0 == "no-error-diagnostic" || c1 == "no-error-diagnostic" { return fail("failure-without-error-diagnostic", t0.text.replace('\n', " ")); }
                if c0 != c1 { return fail("diagnostic-changes-under-renaming", format!("[{c0}] vs [{c1}] original {:?} renamed {:?}", t0.text.replace('\n', " "), t1.text.replace('\n', " "))); }
                return Sexp::app("pass-both-rejected", vec![Sexp::str(c0)]);
            },
            _ => return fail("acceptance-changes-under-renaming", format!("per_decl={per_decl} original ok={} [{}] renamed ok={} [{}] original {:?} renamed {:?}", b0.is_some(), first_error_class(&d0), b1.is_some(), first_error_class(&d1), t0.text.replace('\n', " "), t1.text.replace('\n', " "))),
        }
    }
    Sexp::app(if both_ok { "pass-same-bytes" } else { "pass" }, vec![Sexp::int(b0.map(|b| b.len()).unwrap_or(0) as i64)])
}

/// calls with more arguments than parameters: the resolver skips the excess arguments
/// (`match_params_to_args` zips); the pipeline must still end in a diagnostic, not a crash
fn excess_args(env: &Sexp, root: &Sexp) -> Sexp {
    let env = parse_env(env);
    let t0 = render(root, ECL_PRELUDE, &|_, n| n.to_string());
    let (b, d) = compile_text(crate::tc::Format::Ecl, &env, &t0.text);
    match b {
        Some(_) => Sexp::app("pass-compiled", vec![]),
        None => {
            let c = first_error_class(&d);
            if c == "no-error-diagnostic" { return fail("failure-without-error-diagnostic", t0.text.replace('\n', " ")); }
            Sexp::app("pass-rejected", vec![Sexp::str(c)])
        },
    }
}

// ---------------------------------------------------------------------------------------------
// generators

/// Scope-oblivious generator: names are drawn blindly from the pool, so that shadowing, forward
/// references, uses before declaration, redeclarations and clashes with globals all occur.
struct Gen<'a> {
    rng: &'a mut Rng,
    next_id: i64,
    pool: Vec<&'static str>,
    /// budget of statements
    fuel: i32,
    decls: usize,
    uses: usize,
    feats: std::collections::BTreeSet<&'static str>,
    /// also: calls with 0-3 arguments against functions with 0-3 parameters (arguments beyond the
    /// parameter count are never looked at), calls inside enum-typed arguments, `times(x = n)`,
    /// function declarations without body
    rich: bool,
}

#[derive(Copy, Clone, PartialEq)]
enum Ctx { Lang, Const }

impl Gen<'_> {
    fn id(&mut self) -> Sexp { let i = self.next_id; self.next_id += 1; Sexp::int(i) }
    fn name(&mut self) -> Sexp { Sexp::atom(*self.rng.pick(&self.pool)) }
    fn var(&mut self) -> Sexp {
        self.uses += 1;
        let id = self.id(); let n = self.name();
        if self.rng.chance(1, 12) {
            // `Enum.name`: E3 is not declared
            self.feats.insert("qualified-enum-const");
            let e = *self.rng.pick(&["E1", "E1", "E2", "E2", "E3", "bool"]);
            return Sexp::app("q", vec![id, Sexp::atom(e), n]);
        }
        Sexp::app("v", vec![id, n])
    }
    fn expr(&mut self, ctx: Ctx, depth: u32, allow_call: bool) -> Sexp {
        let k = self.rng.below(10);
        if depth == 0 || k < 4 { return if self.rng.chance(1, 8) { Sexp::app("lit", vec![]) } else { self.var() }; }
        match k {
            4 | 5 | 6 => { let l = self.expr(ctx, depth - 1, allow_call); let r = self.expr(ctx, depth - 1, allow_call); Sexp::app("add", vec![l, r]) },
            7 | 8 if allow_call => {
                // at most one argument, and every function has at least one parameter: the resolver
                // skips arguments beyond the callee's parameter count (see `excess-args`)
                self.uses += 1;
                self.feats.insert("call");
                let id = self.id(); let n = self.name();
                let mut v = vec![id, n];
                if self.rich {
                    let nargs = self.rng.below(4);
                    if nargs > 1 { self.feats.insert("call-with-several-args"); }
                    for _ in 0..nargs { v.push(self.expr(ctx, depth - 1, true)); }
                } else if self.rng.chance(2, 3) { v.push(self.expr(ctx, depth - 1, true)); }
                Sexp::app("f", v)
            },
            9 if allow_call && ctx == Ctx::Lang => {
                // raw instructions are rejected by assign_languages in const contexts; the coloured
                // argument contains no call (a call would push its own colour)
                let &(op, color) = self.rng.pick(SIGS);
                self.feats.insert("enum-colour");
                if self.rich {
                    // calls inside the coloured argument (their arguments get the colours of the callee's
                    // parameters, or keep this one when the callee does not resolve), a second argument
                    let mut v = vec![Sexp::int(op), Sexp::atom(color), self.expr(ctx, depth - 1, true)];
                    if self.rng.chance(1, 4) { self.feats.insert("raw-ins-excess-arg"); v.push(self.expr(ctx, depth - 1, true)); }
                    return Sexp::app("ins", v);
                }
                let arg = self.expr(ctx, depth - 1, false);
                Sexp::app("ins", vec![Sexp::int(op), Sexp::atom(color), arg])
            },
            _ => self.var(),
        }
    }
    fn decl_vars(&mut self, ctx: Ctx, always_init: bool) -> Vec<Sexp> {
        let n = 1 + if self.rng.chance(1, 4) { 1 + self.rng.below(2) } else { 0 };
        (0..n).map(|_| {
            self.decls += 1;
            let id = self.id(); let name = self.name();
            let mut v = vec![id, name];
            if always_init || self.rng.chance(2, 3) { v.push(self.expr(ctx, 2, true)); }
            Sexp::list(v)
        }).collect()
    }
    fn block(&mut self, ctx: Ctx, depth: u32) -> Vec<Sexp> {
        let n = self.rng.below(5);
        let mut out = vec![];
        for _ in 0..n { if self.fuel <= 0 { break; } out.push(self.stmt(ctx, depth)); }
        out
    }
    fn func(&mut self, depth: u32) -> Sexp {
        self.decls += 1;
        self.feats.insert("func");
        let qual = *self.rng.pick(&["plain", "plain", "const", "const", "inline"]);
        let id = self.id(); let name = self.name();
        let np = if self.rich { self.rng.below(4) } else { 1 + self.rng.below(3) };
        let params: Vec<Sexp> = (0..np).map(|_| { self.decls += 1; let i = self.id(); let n = self.name(); Sexp::list(vec![i, n]) }).collect();
        if self.rich && self.rng.chance(1, 6) {
            self.feats.insert("func-declaration-without-body");
            return Sexp::app("funcdecl", vec![Sexp::atom(qual), id, name, Sexp::list(params)]);
        }
        let ctx = if qual == "const" { Ctx::Const } else { Ctx::Lang };
        let mut v = vec![Sexp::atom(qual), id, name, Sexp::list(params)];
        v.extend(self.block(ctx, depth.saturating_sub(1)));
        if self.rng.chance(1, 2) { v.push(Sexp::app("ret", vec![self.expr(ctx, 2, true)])); }
        Sexp::app("func", v)
    }
    fn const_item(&mut self) -> Sexp { self.feats.insert("const-item"); Sexp::app("const", self.decl_vars(Ctx::Const, true)) }
    fn stmt(&mut self, ctx: Ctx, depth: u32) -> Sexp {
        self.fuel -= 1;
        let k = self.rng.below(20);
        match k {
            0..=4 => Sexp::app("expr", vec![self.expr(ctx, 3, true)]),
            5 | 6 => { self.uses += 1; let id = self.id(); let n = self.name(); let e = self.expr(ctx, 2, true); Sexp::app("assign", vec![Sexp::app("v", vec![id, n]), e]) },
            7..=10 => { self.feats.insert("local"); Sexp::app("decl", self.decl_vars(ctx, false)) },
            11 | 12 if depth > 0 => Sexp::app("block", self.block(ctx, depth - 1)),
            13 if depth > 0 => {
                self.feats.insert("loop");
                let kind = if self.rich { *self.rng.pick(&["while", "dowhile", "times", "timesc"]) } else { *self.rng.pick(&["while", "dowhile", "times"]) };
                if kind == "timesc" {
                    self.feats.insert("times-clobber");
                    self.uses += 1;
                    let id = self.id(); let n = self.name();
                    let c = self.expr(ctx, 2, true);
                    let mut v = vec![Sexp::app("v", vec![id, n]), c];
                    v.extend(self.block(ctx, depth - 1));
                    return Sexp::app(kind, v);
                }
                if kind == "dowhile" {
                    // ids follow the text: the body precedes the condition
                    let b = self.block(ctx, depth - 1);
                    let mut v = vec![self.expr(ctx, 2, true)];
                    v.extend(b);
                    Sexp::app(kind, v)
                } else {
                    let c = self.expr(ctx, 2, true);
                    let mut v = vec![c];
                    v.extend(self.block(ctx, depth - 1));
                    Sexp::app(kind, v)
                }
            },
            14 if depth > 0 => { self.feats.insert("loop"); Sexp::app("loop", self.block(ctx, depth - 1)) },
            15 if depth > 0 => {
                self.feats.insert("if");
                let nb = 1 + self.rng.below(2);
                let mut v = vec![];
                for _ in 0..nb { let c = self.expr(ctx, 2, true); let mut b = vec![c]; b.extend(self.block(ctx, depth - 1)); v.push(Sexp::list(b)); }
                if self.rng.chance(1, 2) { v.push(Sexp::app("else", self.block(ctx, depth - 1))); }
                Sexp::app("if", v)
            },
            16 | 17 => self.const_item(),
            18 | 19 if depth > 0 => self.func(depth),
            _ => Sexp::app("expr", vec![self.expr(ctx, 2, true)]),
        }
    }
    fn file(&mut self) -> Sexp {
        let n = 1 + self.rng.below(4);
        let mut items = vec![];
        for _ in 0..n {
            let k = self.rng.below(6);
            if k < 2 { items.push(self.const_item()); }
            else if k < 4 { items.push(self.func(2)); }
            else { self.feats.insert("script"); items.push(Sexp::app("script", self.block(Ctx::Lang, 3))); }
        }
        Sexp::app("file", items)
    }
}

fn gen_env(rng: &mut Rng, pool: &[&'static str], compile_lang: Option<&'static str>) -> Sexp {
    let mut reg = vec![];
    let mut ins = vec![];
    let mut enums = vec![];
    for &n in pool {
        if n == "PI" { continue; }
        for (li, &l) in LANGS.iter().enumerate() {
            if rng.chance(1, 4) {
                // general-purpose integer registers when the program is meant to compile
                let base = if compile_lang.is_some() { 10000 } else { 100 * (li as i64 + 1) };
                reg.push(Sexp::list(vec![Sexp::atom(l), Sexp::atom(n), Sexp::int(base + rng.below(4) as i64)]));
                if rng.chance(1, 8) { reg.push(Sexp::list(vec![Sexp::atom(l), Sexp::atom(n), Sexp::int(base + rng.below(4) as i64)])); }
            }
            if compile_lang.is_none() && rng.chance(1, 5) {
                ins.push(Sexp::list(vec![Sexp::atom(l), Sexp::atom(n), Sexp::int(20 + 10 * li as i64 + rng.below(3) as i64)]));
            }
        }
        if rng.chance(1, 4) { enums.push(Sexp::list(vec![Sexp::atom("E1"), Sexp::atom(n)])); }
        if rng.chance(1, 6) { enums.push(Sexp::list(vec![Sexp::atom("E2"), Sexp::atom(n)])); }
    }
    rng.shuffle(&mut reg);
    let (funcs, scripts) = match compile_lang { Some(l) => (l, l), None => *rng.pick(&[("ecl", "anm"), ("ecl", "anm"), ("anm", "anm"), ("ecl", "ecl"), ("std", "ecl")]) };
    Sexp::app("env", vec![
        Sexp::app("langs", LANGS.iter().map(|l| Sexp::atom(*l)).collect()),
        Sexp::app("funcs", vec![Sexp::atom(funcs)]),
        Sexp::app("scripts", vec![Sexp::atom(scripts)]),
        Sexp::app("reg", reg), Sexp::app("ins", ins),
        Sexp::app("enums", ENUMS.iter().map(|e| Sexp::atom(*e)).collect()),
        Sexp::app("enum", enums),
        Sexp::app("builtin", vec![Sexp::atom("NAN"), Sexp::atom("INF"), Sexp::atom("PI")]),
    ])
}

/// adds an explicit `sigs` section: 900-902 as always; an aliased instruction has one or two
/// parameters (now and then expecting an enum), or no signature at all
fn with_sigs(rng: &mut Rng, env: Sexp) -> Sexp {
    let e = parse_env(&env);
    let mut sigs = vec![];
    for &l in LANGS {
        for &(op, color) in SIGS { sigs.push(Sexp::list(vec![Sexp::atom(l), Sexp::int(op), Sexp::atom(color)])); }
        let mut seen = vec![];
        for (_, _, r) in e.ins.iter().filter(|x| x.0 == l) {
            if seen.contains(r) { continue; }
            seen.push(*r);
            if rng.chance(1, 5) { continue; }
            let mut v = vec![Sexp::atom(l), Sexp::int(*r)];
            for _ in 0..1 + rng.below(2) { v.push(Sexp::atom(*rng.pick(&["-", "-", "-", "E1", "E2"]))); }
            sigs.push(Sexp::list(v));
        }
    }
    let mut items = env.as_list().to_vec();
    items.push(Sexp::app("sigs", sigs));
    Sexp::list(items)
}

struct Generated { env: Sexp, root: Sexp, nontrivial: bool, tags: Vec<String> }

fn gen_program(rng: &mut Rng) -> Generated {
    let mut pool: Vec<&'static str> = POOL.to_vec();
    match rng.below(6) { 0 => { pool.truncate(2); }, 1 => { pool.truncate(3); }, 2 => { pool.push("PI"); }, _ => {} }
    let env = gen_env(rng, &pool, None);
    let fuel = 4 + rng.below(24) as i32;
    let rich = rng.chance(2, 3);
    let env = if rich { with_sigs(rng, env) } else { env };
    let mut g = Gen { rng, next_id: 0, pool, fuel, decls: 0, uses: 0, feats: Default::default(), rich };
    let as_block = g.rng.chance(1, 5);
    let root = if as_block { Sexp::app("blk", g.block(Ctx::Lang, 3)) } else { g.file() };
    let mut tags = vec![if as_block { "root-block".to_string() } else { "root-file".to_string() }];
    for f in &g.feats { tags.push(format!("has-{f}")); }
    Generated { env, root, nontrivial: g.decls >= 2 && g.uses >= 2, tags }
}

/// Scope-aware generator for programs that mostly pass the whole compiler (ANM TH12 scripts, TH07
/// ECL subs with parameters): a use picks a name that is visible and of a fitting kind with
/// probability 9/10, declarations prefer names not yet declared in the same block (shadowing of
/// outer blocks and of globals is intended), calls have the callee's arity.
#[derive(Copy, Clone, PartialEq)]
enum Kind { Local, Const, Reg, Enum }

struct VScope { names: Vec<(String, Kind)>, barrier: bool }

struct VGen<'a> {
    rng: &'a mut Rng,
    next_id: i64,
    pool: Vec<&'static str>,
    fuel: i32,
    scopes: Vec<VScope>,
    globals: Vec<(String, Kind)>,
    funcs: Vec<(String, usize)>,
    /// consts that the initialiser being generated must not mention (keeps const definitions acyclic)
    excluded: Vec<String>,
    decls: usize,
    uses: usize,
    /// collision mode: a const of a function's own top-level block is often named like a parameter
    collide: bool,
    /// MSG: no registers, hence no locals, loops or assignments
    no_locals: bool,
    /// a const of a function's own top-level block got the name of a parameter
    const_like_param: bool,
}

impl VGen<'_> {
    fn id(&mut self) -> Sexp { let i = self.next_id; self.next_id += 1; Sexp::int(i) }
    fn lookup(&self, name: &str) -> Option<Kind> {
        let mut crossed = false;
        for sc in self.scopes.iter().rev() {
            if let Some((_, k)) = sc.names.iter().rev().find(|x| x.0 == name) {
                if *k == Kind::Local && crossed { return None; }
                return Some(*k);
            }
            if sc.barrier { crossed = true; }
        }
        self.globals.iter().find(|x| x.0 == name).map(|x| x.1)
    }
    fn pick_name(&mut self, blind_ok: bool, ok: &dyn Fn(Kind) -> bool) -> Option<String> {
        let mut names: Vec<String> = self.pool.iter().map(|s| s.to_string()).collect();
        self.rng.shuffle(&mut names);
        if blind_ok && self.rng.chance(1, 60) { return Some(names[0].clone()); }
        names.into_iter().find(|n| !self.excluded.contains(n) && self.lookup(n).map(ok).unwrap_or(false))
    }
    fn var(&mut self, const_ctx: bool, writable: bool) -> Sexp {
        // (assigning to a const or enum const crashes the compiler: stackless.rs "no entry found
        //  for key"; not a matter of name resolution, so assignment targets are never blind picks)
        let name = self.pick_name(!writable, &|k| if writable { k == Kind::Local || k == Kind::Reg } else if const_ctx { k == Kind::Const || k == Kind::Enum } else { true });
        match name {
            Some(n) => { self.uses += 1; let id = self.id(); Sexp::app("v", vec![id, Sexp::atom(n)]) },
            None => Sexp::app("lit", vec![]),
        }
    }
    fn expr(&mut self, const_ctx: bool, depth: u32) -> Sexp {
        if depth == 0 || self.rng.chance(1, 2) { return if self.rng.chance(1, 6) { Sexp::app("lit", vec![]) } else { self.var(const_ctx, false) }; }
        let l = self.expr(const_ctx, depth - 1); let r = self.expr(const_ctx, depth - 1);
        Sexp::app("add", vec![l, r])
    }
    fn fresh_decl_name(&mut self) -> String {
        let mut names: Vec<String> = self.pool.iter().map(|s| s.to_string()).collect();
        self.rng.shuffle(&mut names);
        if self.rng.chance(1, 25) { return names[0].clone(); }
        let here = &self.scopes.last().unwrap().names;
        names.iter().find(|n| !here.iter().any(|x| &x.0 == *n)).cloned().unwrap_or_else(|| names[0].clone())
    }
    /// the statements of a block; the block's const items are decided first (they are visible throughout)
    fn block(&mut self, depth: u32, barrier: bool, params: Vec<String>) -> Vec<Sexp> {
        self.scopes.push(VScope { names: params.into_iter().map(|p| (p, Kind::Local)).collect(), barrier });
        self.scopes.push(VScope { names: vec![], barrier: false });
        let n = 1 + self.rng.below(5);
        let n_consts = if self.rng.chance(1, 3) { 1 + self.rng.below(2) } else { 0 };
        let mut const_names = vec![];
        let param_names: Vec<String> = self.scopes[self.scopes.len() - 2].names.iter().map(|x| x.0.clone()).collect();
        for _ in 0..n_consts {
            let mut nm = self.fresh_decl_name();
            if self.collide && !param_names.is_empty() && self.rng.chance(1, 2) {
                let p = self.rng.pick(&param_names).clone();
                if !const_names.contains(&p) { nm = p; self.const_like_param = true; }
            }
            self.scopes.last_mut().unwrap().names.push((nm.clone(), Kind::Const)); const_names.push(nm);
        }
        let mut const_at: Vec<usize> = (0..n_consts).map(|_| self.rng.below(n + 1)).collect();
        const_at.sort();
        let mut out = vec![];
        let mut ci = 0;
        // a const may mention the consts of this block that come earlier in a random order
        // (textually before or after it: forward references without cycles)
        let mut rank: Vec<usize> = (0..n_consts).collect();
        self.rng.shuffle(&mut rank);
        for i in 0..=n {
            while ci < n_consts && const_at[ci] == i {
                self.decls += 1;
                let id = self.id();
                // the initialiser sees only consts and enum consts (hidden locals still shadow)
                self.scopes.push(VScope { names: vec![], barrier: true });
                let saved = self.excluded.clone();
                for j in 0..n_consts { if rank[j] >= rank[ci] { self.excluded.push(const_names[j].clone()); } }
                let e = if self.rng.chance(1, 2) { Sexp::app("lit", vec![]) } else { self.expr(true, 1) };
                self.excluded = saved;
                self.scopes.pop();
                out.push(Sexp::app("const", vec![Sexp::list(vec![id, Sexp::atom(const_names[ci].clone()), e])]));
                ci += 1;
            }
            if i < n && self.fuel > 0 { out.push(self.stmt(depth)); }
        }
        self.scopes.pop();
        self.scopes.pop();
        out
    }
    fn stmt(&mut self, depth: u32) -> Sexp {
        self.fuel -= 1;
        let k = self.rng.below(16);
        // without registers: instruction calls, calls and nested blocks only
        let k = if self.no_locals && matches!(k, 4..=9 | 11 | 12) { k % 4 } else { k };
        match k {
            0..=3 => { let e = self.expr(false, 2); Sexp::app("expr", vec![Sexp::app("ins", vec![Sexp::int(902), Sexp::atom("-"), e])]) },
            4 | 5 => { let v = self.var(false, true); let e = self.expr(false, 2); if v.head() == Some("lit") { Sexp::app("expr", vec![Sexp::app("ins", vec![Sexp::int(902), Sexp::atom("-"), e])]) } else { Sexp::app("assign", vec![v, e]) } },
            6..=9 => {
                let n = 1 + if self.rng.chance(1, 4) { 1 } else { 0 };
                let mut vars = vec![];
                for _ in 0..n {
                    self.decls += 1;
                    let name = self.fresh_decl_name();
                    let id = self.id();
                    let e = self.expr(false, 2);
                    self.scopes.last_mut().unwrap().names.push((name.clone(), Kind::Local));
                    vars.push(Sexp::list(vec![id, Sexp::atom(name), e]));
                }
                Sexp::app("decl", vars)
            },
            10 if depth > 0 => Sexp::app("block", self.block(depth - 1, false, vec![])),
            11 if depth > 0 => {
                let kind = *self.rng.pick(&["while", "dowhile", "times", "loop"]);
                match kind {
                    "loop" => Sexp::app("loop", self.block(depth - 1, false, vec![])),
                    "dowhile" => { let b = self.block(depth - 1, false, vec![]); let mut v = vec![self.expr(false, 1)]; v.extend(b); Sexp::app(kind, v) },
                    _ => { let mut v = vec![self.expr(false, 1)]; v.extend(self.block(depth - 1, false, vec![])); Sexp::app(kind, v) },
                }
            },
            12 if depth > 0 => {
                let nb = 1 + self.rng.below(2);
                let mut v = vec![];
                for _ in 0..nb { let c = self.expr(false, 1); let mut b = vec![c]; b.extend(self.block(depth - 1, false, vec![])); v.push(Sexp::list(b)); }
                if self.rng.chance(1, 2) { v.push(Sexp::app("else", self.block(depth - 1, false, vec![]))); }
                Sexp::app("if", v)
            },
            13 | 14 if !self.funcs.is_empty() => {
                let (name, arity) = self.rng.pick(&self.funcs).clone();
                self.uses += 1;
                let id = self.id();
                let mut v = vec![id, Sexp::atom(name)];
                for _ in 0..arity { v.push(self.expr(false, 1)); }
                Sexp::app("expr", vec![Sexp::app("f", v)])
            },
            _ => { let e = self.expr(false, 1); Sexp::app("expr", vec![Sexp::app("ins", vec![Sexp::int(902), Sexp::atom("-"), e])]) },
        }
    }
}

fn gen_compilable(rng: &mut Rng, lang: &'static str) -> Generated {
    let mut pool: Vec<&'static str> = POOL.to_vec();
    if rng.chance(1, 4) { pool.truncate(3); }
    let env = gen_env(rng, &pool, Some(lang));
    let e = parse_env(&env);
    let mut globals: Vec<(String, Kind)> = vec![];
    for n in &pool {
        let owners: Vec<&String> = e.enums.iter().filter(|x| &x.1 == n).map(|x| &x.0).collect();
        if owners.len() == 1 { globals.push((n.to_string(), Kind::Enum)); }
        else if owners.is_empty() && e.reg.iter().any(|x| x.0 == lang && &x.1 == n) { globals.push((n.to_string(), Kind::Reg)); }
    }
    let fuel = 6 + rng.below(20) as i32;
    let env_enum_names: Vec<String> = e.enums.iter().map(|x| x.1.clone()).collect();
    let mut g = VGen { rng, next_id: 0, pool, fuel, scopes: vec![], globals, funcs: vec![], excluded: vec![], decls: 0, uses: 0, collide: false, no_locals: false, const_like_param: false };
    // file level: const items (visible everywhere), then scripts (ANM) or subs (ECL)
    g.scopes.push(VScope { names: vec![], barrier: false });
    let n_consts = g.rng.below(3);
    let n_bodies = 1 + g.rng.below(3);
    let mut const_names = vec![];
    for _ in 0..n_consts { let nm = g.fresh_decl_name(); g.scopes.last_mut().unwrap().names.push((nm.clone(), Kind::Const)); const_names.push(nm); }
    // sub names: distinct names of the pool (a duplicate is "duplicate script"), sometimes beyond it
    let mut fpool: Vec<String> = g.pool.iter().map(|s| s.to_string()).collect();
    g.rng.shuffle(&mut fpool);
    let func_names: Vec<String> = if lang == "ecl" { (0..n_bodies).map(|i| if g.rng.chance(1, 3) { format!("sub{i}") } else { fpool[i % fpool.len()].clone() }).collect() } else { vec![] };
    let arities: Vec<usize> = (0..n_bodies).map(|_| g.rng.below(3)).collect();
    for (i, f) in func_names.iter().enumerate() { if !g.funcs.iter().any(|x| &x.0 == f) { g.funcs.push((f.clone(), arities[i])); } }
    // old ECL declares every sub name as a const of the enum `EclSub`: it shadows register aliases
    // and is ambiguous with an equally named const of another enum
    for f in &func_names {
        g.globals.retain(|x| &x.0 != f);
        if !env_enum_names.contains(f) { g.globals.push((f.clone(), Kind::Enum)); }
    }
    // items in a random order; ids follow the text
    let mut order: Vec<usize> = (0..n_consts + n_bodies).collect();
    g.rng.shuffle(&mut order);
    let mut items = vec![];
    for k in order {
        if k < n_consts {
            g.decls += 1;
            let id = g.id();
            g.scopes.push(VScope { names: vec![], barrier: true });
            g.excluded = const_names[k..].to_vec();
            let e = if g.rng.chance(1, 2) { Sexp::app("lit", vec![]) } else { g.expr(true, 1) };
            g.excluded.clear();
            g.scopes.pop();
            items.push(Sexp::app("const", vec![Sexp::list(vec![id, Sexp::atom(const_names[k].clone()), e])]));
        } else if lang == "ecl" {
            let i = k - n_consts;
            g.decls += 1;
            let id = g.id();
            let mut params = vec![];
            let mut pnames = vec![];
            for _ in 0..arities[i] {
                g.decls += 1;
                let pid = g.id();
                let mut names: Vec<String> = g.pool.iter().map(|s| s.to_string()).collect();
                g.rng.shuffle(&mut names);
                let pn = names.into_iter().find(|n| !pnames.contains(n) || g.rng.chance(1, 12)).unwrap();
                pnames.push(pn.clone());
                params.push(Sexp::list(vec![pid, Sexp::atom(pn)]));
            }
            let mut v = vec![Sexp::atom("plain"), id, Sexp::atom(func_names[i].clone()), Sexp::list(params)];
            v.extend(g.block(2, true, pnames));
            items.push(Sexp::app("func", v));
        } else {
            items.push(Sexp::app("script", g.block(3, false, vec![])));
        }
    }
    Generated { env, root: Sexp::app("file", items), nontrivial: g.decls >= 2 && g.uses >= 2, tags: vec![] }
}

/// spellings that mean something without any declaration: builtin consts and the consts of `bool`
const BUILTIN_NAMES: &[&str] = &["INF", "NAN", "PI", "true", "false"];

/// Programs for the collision search (compile cases only): like `gen_compilable`, but the names
/// that get declared are also the spellings that already mean something globally -- register
/// aliases and instruction aliases of the language, consts of mapfile enums, builtin consts -- and
/// the file declares names of its own kind of global: sprites and named scripts (ANM), subs (ECL).
/// A const of a function's own top-level block is often named like one of its parameters.
fn gen_collide(rng: &mut Rng, lang: &'static str) -> Generated {
    let mut pool: Vec<&'static str> = POOL.to_vec();
    if rng.chance(1, 4) { pool.truncate(3); }
    let mut extra: Vec<&'static str> = BUILTIN_NAMES.to_vec();
    rng.shuffle(&mut extra);
    let n_extra = rng.below(3);
    pool.extend(&extra[..n_extra]);
    // environment: every plain pool name may be a register alias, an instruction alias, an enum const
    let alias_langs: Vec<&'static str> = if lang == "msg" { vec!["ecl", "anm", "std", "msg"] } else { LANGS.to_vec() };
    let (mut reg, mut ins, mut enums) = (vec![], vec![], vec![]);
    for &n in &pool {
        if BUILTIN_NAMES.contains(&n) { continue; }
        for (li, &l) in alias_langs.iter().enumerate() {
            if l != "msg" && rng.chance(1, 3) { reg.push(Sexp::list(vec![Sexp::atom(l), Sexp::atom(n), Sexp::int(10000 + rng.below(4) as i64)])); }
            if rng.chance(1, 4) { ins.push(Sexp::list(vec![Sexp::atom(l), Sexp::atom(n), Sexp::int(if l == "msg" { 100 } else { 950 + 10 * li as i64 } + rng.below(3) as i64)])); }
        }
        if rng.chance(1, 6) { enums.push(Sexp::list(vec![Sexp::atom("E1"), Sexp::atom(n)])); }
        if rng.chance(1, 8) { enums.push(Sexp::list(vec![Sexp::atom("E2"), Sexp::atom(n)])); }
    }
    rng.shuffle(&mut reg);
    let env = Sexp::app("env", vec![
        Sexp::app("langs", alias_langs.iter().map(|l| Sexp::atom(*l)).collect()),
        Sexp::app("funcs", vec![Sexp::atom(lang)]), Sexp::app("scripts", vec![Sexp::atom(lang)]),
        Sexp::app("reg", reg), Sexp::app("ins", ins),
        Sexp::app("enums", ENUMS.iter().map(|e| Sexp::atom(*e)).collect()), Sexp::app("enum", enums),
        Sexp::app("builtin", vec![Sexp::atom("NAN"), Sexp::atom("INF"), Sexp::atom("PI")]),
    ]);
    let e = parse_env(&env);
    // names that are a const of some enum without the file's help (an equally named sprite / script / sub is ambiguous)
    let mut enum_names: Vec<String> = e.enums.iter().map(|x| x.1.clone()).collect();
    enum_names.push("true".into()); enum_names.push("false".into());
    let mut globals: Vec<(String, Kind)> = vec![];
    for n in &pool {
        let owners = enum_names.iter().filter(|x| x == n).count();
        if owners == 1 { globals.push((n.to_string(), Kind::Enum)); }
        else if owners == 0 && e.reg.iter().any(|x| x.0 == lang && &x.1 == n) { globals.push((n.to_string(), Kind::Reg)); }
    }
    let fuel = 6 + rng.below(20) as i32;
    let mut g = VGen { rng, next_id: 0, pool, fuel, scopes: vec![], globals, funcs: vec![], excluded: vec![], decls: 0, uses: 0, collide: true, no_locals: lang == "msg", const_like_param: false };
    g.scopes.push(VScope { names: vec![], barrier: false });
    let n_consts = g.rng.below(3);
    let n_bodies = 1 + g.rng.below(3);
    let mut const_names = vec![];
    for _ in 0..n_consts { let nm = g.fresh_decl_name(); g.scopes.last_mut().unwrap().names.push((nm.clone(), Kind::Const)); const_names.push(nm); }
    // names the file gives to its own globals: distinct (a duplicate is "duplicate script"), drawn from the pool
    let mut fpool: Vec<String> = g.pool.iter().map(|s| s.to_string()).collect();
    g.rng.shuffle(&mut fpool);
    let take = |g: &mut VGen, i: usize| -> String { if g.rng.chance(1, 4) { format!("n{i}") } else { fpool[i % fpool.len()].clone() } };
    // (body index -> name); ANM: half of the scripts are named; ECL: every sub; MSG: none (script names are no consts there)
    let body_names: Vec<Option<String>> = (0..n_bodies).map(|i| match lang { "ecl" => Some(take(&mut g, i)), "anm" => if g.rng.chance(1, 2) { Some(take(&mut g, i)) } else { None }, _ => None }).collect();
    let n_sprites = if lang == "anm" { g.rng.below(3) } else { 0 };
    let sprite_names: Vec<String> = (0..n_sprites).map(|i| take(&mut g, n_bodies + i)).collect();
    let arities: Vec<usize> = (0..n_bodies).map(|_| g.rng.below(3)).collect();
    let mut file_names: Vec<String> = body_names.iter().flatten().cloned().chain(sprite_names.iter().cloned()).collect();
    file_names.sort(); file_names.dedup();
    // a sprite / script / sub name is an enum const: it shadows a register alias, and is ambiguous
    // with an equally named const of another enum
    let all_file_names: Vec<String> = body_names.iter().flatten().cloned().chain(sprite_names.iter().cloned()).collect();
    for f in &file_names {
        g.globals.retain(|x| &x.0 != f);
        let twice = all_file_names.iter().filter(|x| *x == f).count() > 1;
        if !enum_names.contains(f) && !twice { g.globals.push((f.clone(), Kind::Enum)); }
    }
    if lang == "ecl" { for (i, f) in body_names.iter().enumerate() { let f = f.clone().unwrap(); if !g.funcs.iter().any(|x| x.0 == f) { g.funcs.push((f, arities[i])); } } }
    // instruction aliases of the language can be called unless a sub has that name
    for (l, n, _) in &e.ins { if l == lang && !g.funcs.iter().any(|x| &x.0 == n) { g.funcs.push((n.clone(), 1)); } }
    let mut order: Vec<usize> = (0..n_consts + n_bodies + if n_sprites > 0 { 1 } else { 0 }).collect();
    g.rng.shuffle(&mut order);
    let mut items = vec![];
    for k in order {
        if k < n_consts {
            g.decls += 1;
            let id = g.id();
            g.scopes.push(VScope { names: vec![], barrier: true });
            g.excluded = const_names[k..].to_vec();
            let e = if g.rng.chance(1, 2) { Sexp::app("lit", vec![]) } else { g.expr(true, 1) };
            g.excluded.clear();
            g.scopes.pop();
            items.push(Sexp::app("const", vec![Sexp::list(vec![id, Sexp::atom(const_names[k].clone()), e])]));
        } else if k == n_consts + n_bodies {
            let sp: Vec<Sexp> = sprite_names.iter().map(|n| { g.decls += 1; let id = g.id(); Sexp::list(vec![id, Sexp::atom(n.clone())]) }).collect();
            items.push(Sexp::app("sprites", sp));
        } else if lang == "ecl" {
            let i = k - n_consts;
            g.decls += 1;
            let id = g.id();
            let mut params = vec![];
            let mut pnames = vec![];
            for _ in 0..arities[i] {
                g.decls += 1;
                let pid = g.id();
                let mut names: Vec<String> = g.pool.iter().map(|s| s.to_string()).collect();
                g.rng.shuffle(&mut names);
                let pn = names.into_iter().find(|n| !pnames.contains(n) || g.rng.chance(1, 12)).unwrap();
                pnames.push(pn.clone());
                params.push(Sexp::list(vec![pid, Sexp::atom(pn)]));
            }
            let mut v = vec![Sexp::atom("plain"), id, Sexp::atom(body_names[i].clone().unwrap()), Sexp::list(params)];
            v.extend(g.block(2, true, pnames));
            items.push(Sexp::app("func", v));
        } else {
            let i = k - n_consts;
            match &body_names[i] {
                Some(n) => { g.decls += 1; let id = g.id(); let mut v = vec![id, Sexp::atom(n.clone())]; v.extend(g.block(3, false, vec![])); items.push(Sexp::app("nscript", v)); },
                None => items.push(Sexp::app("script", g.block(3, false, vec![]))),
            }
        }
    }
    // which collisions the program really has (for the evidence)
    let root = Sexp::app("file", items);
    let mut tags = std::collections::BTreeSet::new();
    if g.const_like_param { tags.insert("collision:body-const-spelled-like-parameter".to_string()); }
    let refr = reference::resolve(&root, &reference::Options { funcs_lang: lang.to_string(), scripts_lang: lang.to_string(), subs_are_consts: lang == "ecl" });
    for d in refr.decls.values() {
        let k = d.kind.name();
        if e.reg.iter().any(|x| x.0 == lang && x.1 == d.name) { tags.insert(format!("collision:{k}-spelled-like-register-alias")); }
        if e.ins.iter().any(|x| x.0 == lang && x.1 == d.name) { tags.insert(format!("collision:{k}-spelled-like-instruction-alias")); }
        if e.enums.iter().any(|x| x.1 == d.name) { tags.insert(format!("collision:{k}-spelled-like-mapfile-enum-const")); }
        if BUILTIN_NAMES.contains(&d.name.as_str()) { tags.insert(format!("collision:{k}-spelled-like-builtin-const")); }
        if refr.decls.values().any(|o| o.id != d.id && o.name == d.name && matches!(o.kind, DKind::Sprite | DKind::ScriptName) && !matches!(d.kind, DKind::Sprite | DKind::ScriptName)) { tags.insert(format!("collision:{k}-spelled-like-sprite-or-script")); }
        if lang == "ecl" && d.kind != DKind::Func && refr.decls.values().any(|o| o.kind == DKind::Func && o.name == d.name) { tags.insert(format!("collision:{k}-spelled-like-sub")); }
    }
    Generated { env, root, nontrivial: g.decls >= 2 && g.uses >= 2, tags: tags.into_iter().collect() }
}

/// one call with more arguments than the callee has parameters, the excess ones undeclared names
fn gen_excess_args(rng: &mut Rng) -> (Sexp, Sexp) {
    let env = gen_env(rng, &[], Some("ecl"));
    let np = rng.below(3);
    let extra = 1 + rng.below(2);
    let mut id = 0i64;
    let mut next = || { id += 1; Sexp::int(id - 1) };
    let callee_first = rng.chance(1, 2);
    let mk_callee = |next: &mut dyn FnMut() -> Sexp| {
        let fid = next();
        let params: Vec<Sexp> = (0..np).map(|i| Sexp::list(vec![next(), Sexp::atom(format!("p{i}"))])).collect();
        Sexp::app("func", vec![Sexp::atom("plain"), fid, Sexp::atom("callee"), Sexp::list(params)])
    };
    let mk_caller = |next: &mut dyn FnMut() -> Sexp, rng: &mut Rng| {
        let fid = next();
        let lid = next();
        let cid = next();
        let mut call = vec![cid, Sexp::atom("callee")];
        for _ in 0..np { call.push(Sexp::app("lit", vec![])); }
        for _ in 0..extra { call.push(if rng.chance(1, 2) { Sexp::app("v", vec![next(), Sexp::atom("nowhere")]) } else { Sexp::app("v", vec![next(), Sexp::atom("x")]) }); }
        Sexp::app("func", vec![Sexp::atom("plain"), fid, Sexp::atom("caller"), Sexp::list(vec![]),
            Sexp::app("decl", vec![Sexp::list(vec![lid, Sexp::atom("x"), Sexp::app("lit", vec![])])]),
            Sexp::app("expr", vec![Sexp::app("f", call)])])
    };
    let items = if callee_first { let a = mk_callee(&mut next); let b = mk_caller(&mut next, rng); vec![a, b] } else { let b = mk_caller(&mut next, rng); let a = mk_callee(&mut next); vec![b, a] };
    (env, Sexp::app("file", items))
}

/// hand-written shapes: the unit tests of src/resolve/tests.rs and the rules of the property text
fn fixed_cases() -> Vec<(&'static str, &'static str)> {
    let env = "(env (langs ecl anm std) (funcs ecl) (scripts anm) (reg (ecl a 100) (anm a 10000) (anm b 10001) (std c 7)) (ins (ecl b 21) (anm a 22)) (enums E1 E2 AnmSprite EclSub EclSubName MsgScript AnmScript BitmapColorFormat bool) (enum (E1 c) (E2 c) (E1 d)) (builtin NAN INF PI))";
    let progs: Vec<(&'static str, &'static str)> = vec![
        ("local-shadow", "(blk (decl (0 a (lit))) (block (decl (1 a (lit))) (decl (2 b (add (v 3 a) (v 4 a))))) (decl (5 c (add (v 6 a) (v 7 a)))))"),
        ("const-shadows-outer-local", "(blk (decl (0 a (lit))) (block (decl (1 b (add (v 2 a) (v 3 a)))) (const (4 a (lit)))))"),
        ("local-shadows-outer-const", "(blk (const (0 a (lit))) (block (decl (1 b (v 2 a))) (decl (3 a (lit))) (decl (4 c (v 5 a)))))"),
        ("use-before-decl-and-self", "(blk (expr (v 0 q)) (decl (1 q (v 2 q))) (expr (v 3 q)))"),
        ("func-using-outer-shadowed-const", "(blk (const (0 x (lit))) (block (decl (1 x (lit))) (func plain 2 foo ((3 p)) (ret (v 4 x)))))"),
        ("param-from-nested-func", "(blk (func plain 0 foo ((1 p)) (func plain 2 bar ((3 q)) (ret (add (v 4 p) (v 5 q))))))"),
        ("const-item-using-local", "(blk (decl (0 x (lit))) (const (1 k (v 2 x))))"),
        ("separate-namespaces", "(file (const (0 a (f 1 a))) (func const 2 a ((3 p)) (ret (v 4 a))))"),
        ("alias-language", "(file (const (0 k (v 1 a))) (func plain 2 f ((3 p)) (expr (add (v 4 a) (v 5 b))) (expr (f 6 b (lit)))) (script (expr (add (v 7 a) (v 8 b))) (expr (f 9 a (lit))) (expr (f 10 b (lit)))))"),
        ("enum-colour-and-ambiguity", "(file (script (expr (ins 900 E1 (v 0 c))) (expr (ins 901 E2 (v 1 c))) (expr (ins 902 - (v 2 c))) (expr (v 3 d)) (decl (4 d (lit))) (expr (ins 900 E1 (v 5 d)))))"),
        ("redefinitions", "(file (const (0 a (lit)) (1 a (lit))) (func plain 2 f ((3 p) (4 p)) (decl (5 p (lit)) (6 p (lit)))) (func plain 7 f ((8 q))) (script (expr (add (v 9 a) (f 10 f (lit))))))"),
        ("forward-reference", "(file (script (expr (f 0 g (v 1 K))) (block (expr (f 2 g (v 3 K))) (const (4 K (lit))) (func const 5 g ((6 x)) (ret (v 7 x))))) (const (8 K (lit))) (func const 9 g ((10 y)) (ret (v 11 K))))"),
        ("qualified-enum-const", "(file (const (0 c (q 1 E2 c))) (script (decl (2 d (q 3 E1 d))) (expr (add (q 4 E1 d) (q 5 E2 d))) (expr (add (q 6 E3 c) (q 7 E1 a))) (expr (v 8 d))))"),
        ("builtin-shadow", "(file (const (0 k (v 1 PI))) (script (decl (2 PI (v 3 PI))) (expr (v 4 PI))))"),
        // a const of the function's own top-level block shadows the parameter, in the whole body
        ("param-vs-body-const", "(file (func plain 0 f ((1 p) (2 q)) (expr (v 3 p)) (const (4 p (lit))) (block (expr (add (v 5 p) (v 6 q))))))"),
        ("times-clobber", "(file (script (decl (0 q (lit))) (timesc (v 1 q) (v 2 q) (decl (3 q (v 4 q))) (expr (v 5 q))) (timesc (v 6 nowhere) (lit))))"),
        ("func-declaration-without-body", "(file (funcdecl plain 0 g ((1 p) (2 p))) (const (3 p (lit))) (script (expr (f 4 g (v 5 p) (v 6 p) (v 7 p)))) (funcdecl plain 8 g ()))"),
        ("args-beyond-parameter-count", "(file (func plain 0 f ((1 p)) (expr (f 2 f (v 3 p) (v 4 nowhere) (f 5 nowhere (v 6 p))))) (script (expr (f 7 f)) (expr (f 8 b (v 9 a) (v 10 a))) (expr (f 11 nowhere (v 12 a) (v 13 zz))) (expr (ins 902 - (v 14 a) (v 15 a)))))"),
        ("colour-through-calls", "(file (func plain 0 f ((1 p))) (script (expr (ins 900 E1 (f 2 f (v 3 c)))) (expr (ins 900 E1 (f 4 nowhere (v 5 c)))) (expr (ins 901 E2 (add (v 6 c) (f 7 a (v 8 c)))))))"),
    ];
    progs.into_iter().map(|(t, p)| (t, Box::leak(format!("(resolve {env} {p})").into_boxed_str()) as &'static str)).collect()
}

impl Prop for C10 {
    fn id(&self) -> &'static str { "C10" }
    fn relation(&self) -> &'static str {
        "two relations, named by the head of the case.  [resolve] for every identifier occurrence of the program (in text order): the definition it resolves to after parse + assign_languages + resolve_names (ctx.resolutions: declaration occurrence / register alias (language, id) / instruction alias (language, opcode) / enum const (enum, name) / builtin const), or the class of the diagnostic reported at it (unknown, cannot use local|parameter from outside function|const, ambiguous enum const), or `unresolved-without-diagnostic` (an identifier inside a call argument beyond the callee's parameter count, a parameter name of a declaration without body), plus every redefinition diagnostic with its noun  ==  Lean `Scope.resolveRibs` rendered the same way.  [ribs] the initial rib stacks: `Defs::initial_ribs()` split by namespace as `RibStacks::from_iter` does, bottom first: kind of every rib (mapfile rib of a language / builtin consts / enum consts), its position relative to the others, and what it holds for every name of the environment (empty mapfile ribs left out, neighbouring mapfile ribs in language order)  ==  Lean `ribStacksFromIter (Globals.initialRibsVec g)` (theorems initial_ribs_stacks, global_var_precedence, global_func_precedence depend on exactly this order)"
    }
    fn rule(&self) -> &'static str {
        "scope trees (files of const items / const, inline and plain functions with 0-3 parameters / function declarations without body / scripts, or a bare block; blocks, loop, while, do-while, times, times(x = n), if/else-if/else chains, local declarations with several declarators, const items and nested functions inside blocks, expressions with variable uses, calls with 0-3 arguments incl. more arguments than the callee has parameters, raw instructions with enum-typed parameters and calls inside those arguments) with all identifiers drawn from a pool of 2-5 names (a b c d PI), qualified enum consts `E.x` (E1, E2, bool, undeclared E3), over a random environment (register aliases, instruction aliases per language ecl/anm/std incl. same name in several languages and twice in one, aliased instructions with one or two parameters (some enum-typed) or without signature, enum consts in two enums incl. ambiguous ones, builtin consts); languages of functions/scripts varied; plus the shapes of src/resolve/tests.rs and of the property text by hand; search: the same trees against an independent reference resolver (c10_ref.rs: innermost visible declaration by regions), and compilable ANM TH12 / old ECL TH07 / MSG TH12 programs whose declarations (locals, consts, parameters, subs, sprites, named scripts) are spelled like register aliases / instruction aliases / mapfile enum consts / builtin consts / each other, with a const of a function's own block named like a parameter: resolution inside the real compile against the reference, compiled bytes before and after renaming the declarations (and their uses under the reference resolver) to fresh names; non-trivial = at least two declarations and two uses; distinct by case text"
    }
    fn theorems(&self) -> &'static [&'static str] { &["TruthModel.C10.ribs_eq_spec", "TruthModel.C10.ribs_eq_spec_block", "TruthModel.C10.rename_invariant", "TruthModel.C10.rename_invariant_block", "TruthModel.C10.each_ident_visited_once", "TruthModel.C10.each_ident_resolved_once", "TruthModel.C10.initial_ribs_stacks", "TruthModel.C10.global_var_precedence", "TruthModel.C10.global_func_precedence", "TruthModel.C10.func_body_stacks"] }

    fn gen(&self, tier: Tier, rng: &mut Rng) -> Vec<Case> {
        let scale = if tier == Tier::Quick { 2 } else { 30 };
        let mut out = vec![];
        for (tag, text) in fixed_cases() {
            out.push(Case::corr(crate::sexp::parse(text).expect("fixed case")).tag(format!("fixed-{tag}")));
        }
        for _ in 0..3000 * scale {
            let g = gen_program(rng);
            let mut c = Case::corr(Sexp::app("resolve", vec![g.env, g.root])).trivial(!g.nontrivial);
            for t in g.tags { c = c.tag(t); }
            out.push(c);
        }
        // mostly valid programs (scope-aware generator) through the same comparison
        for k in 0..500 * scale {
            let g = gen_compilable(rng, if k % 2 == 0 { "anm" } else { "ecl" });
            out.push(Case::corr(Sexp::app("resolve", vec![g.env, g.root])).trivial(!g.nontrivial).tag("scope-aware-generator"));
        }
        for k in 0..600 * scale {
            let g = if k % 3 == 0 { gen_compilable(rng, if k % 2 == 0 { "anm" } else { "ecl" }) } else { gen_program(rng) };
            let seed = rng.next_u64() >> 12;
            out.push(Case::search(Sexp::app("rename-resolve", vec![g.env, g.root, Sexp::int(seed as i64)])).tag("rename-resolve").trivial(!g.nontrivial));
        }
        for (lang, n) in [("anm", 400), ("ecl", 400), ("msg", 100)] {
            for k in 0..n * scale {
                // every second program declares the spellings that already mean something globally
                let collide = lang == "msg" || k % 2 == 1;
                let g = if collide { gen_collide(rng, lang) } else { gen_compilable(rng, lang) };
                let seed = rng.next_u64() >> 12;
                let mut c = Case::search(Sexp::app("rename-compile", vec![Sexp::atom(lang), g.env, g.root, Sexp::int(seed as i64)])).tag(format!("rename-compile-{lang}{}", if collide { "-colliding-names" } else { "" })).trivial(!g.nontrivial);
                for t in g.tags { c = c.tag(t); }
                out.push(c);
            }
        }
        // the real partition against the independent reference resolver
        for k in 0..500 * scale {
            let g = if k % 3 == 0 { gen_compilable(rng, if k % 2 == 0 { "anm" } else { "ecl" }) } else { gen_program(rng) };
            out.push(Case::search(Sexp::app("ref-resolve", vec![g.env, g.root])).tag("ref-resolve").trivial(!g.nontrivial));
        }
        for (lang, n) in [("anm", 150), ("ecl", 150), ("msg", 50)] {
            for _ in 0..n * scale {
                let g = gen_collide(rng, lang);
                let mut c = Case::search(Sexp::app("ref-compile", vec![Sexp::atom(lang), g.env, g.root])).tag(format!("ref-compile-{lang}")).trivial(!g.nontrivial);
                for t in g.tags { c = c.tag(t); }
                out.push(c);
            }
        }
        // scope-oblivious trees through the front ends of the compilers as well (they rarely compile; name
        // resolution runs all the same)
        for k in 0..150 * scale {
            let g = gen_program(rng);
            if g.root.head() != Some("file") { continue; }
            let lang = ["anm", "ecl", "msg"][k % 3];
            out.push(Case::search(Sexp::app("ref-compile", vec![Sexp::atom(lang), g.env, g.root])).tag(format!("ref-compile-{lang}-scope-oblivious")).trivial(!g.nontrivial));
        }
        for _ in 0..20 * scale {
            let pool: Vec<&'static str> = POOL.to_vec();
            out.push(Case::corr(Sexp::app("ribs", vec![gen_env(rng, &pool, None)])).tag("initial-ribs"));
        }
        for _ in 0..40 * scale {
            let (env, root) = gen_excess_args(rng);
            out.push(Case::search(Sexp::app("excess-args", vec![env, root])).tag("excess-args"));
        }
        out
    }

    fn eval(&self, case: &Sexp) -> Sexp {
        let a = case.args();
        match case.head() {
            Some("resolve") => resolve_case(&a[0], &a[1]),
            Some("rename-resolve") => rename_resolve(&a[0], &a[1], a[2].as_i64() as u64),
            Some("rename-compile") => rename_compile(a[0].as_atom(), &a[1], &a[2], a[3].as_i64() as u64),
            Some("excess-args") => excess_args(&a[0], &a[1]),
            Some("ribs") => ribs_case(&a[0]),
            Some("ref-resolve") => ref_resolve(&a[0], &a[1]),
            Some("ref-compile") => ref_compile(a[0].as_atom(), &a[1], &a[2]),
            _ => Sexp::atom("bad-case"),
        }
    }

    fn neighbours(&self, case: &Sexp, rng: &mut Rng) -> Vec<Case> {
        // a disagreement on the resolution of a program: is the program's resolution or compiled
        // output sensitive to renaming?
        let mut out = vec![];
        if case.head() == Some("resolve") {
            let a = case.args();
            out.push(Case::search(Sexp::app("ref-resolve", vec![a[0].clone(), a[1].clone()])));
            for _ in 0..4 {
                let seed = rng.next_u64() >> 12;
                out.push(Case::search(Sexp::app("rename-resolve", vec![a[0].clone(), a[1].clone(), Sexp::int(seed as i64)])));
                if a[1].head() == Some("file") {
                    for lang in ["anm", "ecl"] {
                        out.push(Case::search(Sexp::app("ref-compile", vec![Sexp::atom(lang), a[0].clone(), a[1].clone()])));
                        out.push(Case::search(Sexp::app("rename-compile", vec![Sexp::atom(lang), a[0].clone(), a[1].clone(), Sexp::int(seed as i64)])));
                    }
                }
            }
        }
        out
    }
}
