//! C14, decompile direction: `recognize_diff_switch` (src/llir/raise/recognize.rs) against the Lean model
//! `TruthModel.DiffRaise.recognize`.
//!
//!   (raise GAME (LINE...) ((OP "sig")...) INSTR...)     [corr]
//!       raw instructions of one TH06 / TH07 / TH08 ECL sub -> the REAL `llir::Raiser` with the format's hooks and the
//!       default decompile options (intrinsics, calls and difficulty switches on; block recovery is a later pass of the
//!       format decompiler and is not run) -> canonical statement list
//!   (raisert GAME (LINE...) ((OP "sig")...) INSTR...)   [oracle]
//!       the same instructions as sub 0 of an ECL file -> real decompile (all defaults) -> text -> real compile ->
//!       (time, opcode, difficulty, argument dwords) of every instruction must be what went in
//!
//!   INSTR ::= (ins T OP MASK ARG...) | (set T OP MASK REG ARG FLT) | (cmp T OP MASK A B FLT) | (jmp T OP MASK TARGET)
//!   STMT  ::= (st TIME LAB LABEL ins OP (ARG...)) | (st TIME LAB LABEL set REG (ARG)) | (st TIME LAB LABEL jmp)
//!            ARG ::= N | (sw N|_ ...)     floats are their bit patterns as i32

use super::{Case, Tier, fail};
use crate::rng::Rng;
use crate::sexp::Sexp;
use crate::tc::{self, Format, Compiled};
use crate::util::diag_class;
use truth::{ast, Game, LanguageKey};
use truth::llir::{self, RawInstr, LanguageHooks};

// ---------------------------------------------------------------------------------------------
// case -> inputs of the implementation

fn game_of(s: &Sexp) -> Game { match s.as_i64() { 6 => Game::Th06, 7 => Game::Th07, _ => Game::Th08 } }

fn lines_of(s: &Sexp) -> Vec<(i64, String)> {
    s.as_list().iter().map(|l| { let l = l.as_list(); (l[0].as_i64(), l[1].as_atom().to_string()) }).collect()
}

fn sigs_of(s: &Sexp) -> Vec<(u16, String)> {
    s.as_list().iter().map(|l| { let l = l.as_list(); (l[0].as_i64() as u16, l[1].as_atom().to_string()) }).collect()
}

fn mapfile_text(lines: &[(i64, String)], sigs: &[(u16, String)]) -> String {
    let mut t = String::from("!eclmap\n!ins_signatures\n");
    for (op, sig) in sigs { t.push_str(&format!("{op} {sig}\n")); }
    if !lines.is_empty() {
        t.push_str("!difficulty_flags\n");
        for (i, s) in lines { t.push_str(&format!("{i} {s}\n")); }
    }
    t
}

fn dwords(vals: &[i32]) -> Vec<u8> { vals.iter().flat_map(|v| v.to_le_bytes()).collect() }

/// the raw instructions a case describes; jump offsets are relative to the jump (old ECL), sizes from the format
fn raw_instrs(game: Game, hooks: &dyn LanguageHooks, descs: &[Sexp]) -> Vec<RawInstr> {
    let mut out: Vec<RawInstr> = descs.iter().map(|d| {
        let a = d.args();
        // EoSD files store 0xFF in the parameter-mask field of every instruction (registers are recognised by value)
        let base = RawInstr { time: a[0].as_i32(), opcode: a[1].as_i64() as u16, difficulty: a[2].as_i64() as u8,
            param_mask: if game == Game::Th06 { 0xFF } else { 0 }, ..RawInstr::DEFAULTS };
        match d.head() {
            Some("ins") => RawInstr { args_blob: dwords(&a[3..].iter().map(|x| x.as_i32()).collect::<Vec<_>>()), ..base },
            Some("set") => {
                let (reg, val, flt) = (a[3].as_i32(), a[4].as_i32(), a[5].as_i64() != 0);
                // EoSD: the destination is an integer-encoded register id; later games: `ff` stores the float register
                // as a float, and the parameter mask marks the register
                if game == Game::Th06 { RawInstr { args_blob: dwords(&[reg, val]), ..base } }
                else if flt { RawInstr { args_blob: dwords(&[(reg as f32).to_bits() as i32, val]), param_mask: 1, ..base } }
                else { RawInstr { args_blob: dwords(&[reg, val]), param_mask: 1, ..base } }
            },
            Some("cmp") => RawInstr { args_blob: dwords(&[a[3].as_i32(), a[4].as_i32()]), ..base },
            _ => RawInstr { args_blob: dwords(&[0, 0]), ..base },     // jmp: filled in below
        }
    }).collect();
    let fmt = hooks.instr_format();
    let mut offsets = vec![0u64];
    for i in &out { offsets.push(offsets.last().unwrap() + fmt.instr_size(i) as u64); }
    for (k, d) in descs.iter().enumerate() {
        if d.head() == Some("jmp") {
            let target = d.args()[3].as_usize().min(descs.len() - 1);
            let time = descs[target].args()[0].as_i32();
            let rel = offsets[target] as i64 - offsets[k] as i64;
            out[k].args_blob = dwords(&[time, rel as i32]);
        }
    }
    out
}

fn default_options() -> truth::DecompileOptions { truth::DecompileOptions::new() }

// ---------------------------------------------------------------------------------------------
// canonical statements

fn num_sexp(e: &ast::Expr) -> Option<Sexp> {
    Some(match e {
        ast::Expr::LitInt { value, .. } => Sexp::int(*value as i64),
        ast::Expr::LitFloat { value } => Sexp::int(value.to_bits() as i32 as i64),
        ast::Expr::UnOp(op, x) if op.value == ast::UnOpKind::Neg => match &x.value {
            ast::Expr::LitInt { value, .. } => Sexp::int(value.wrapping_neg() as i64),
            ast::Expr::LitFloat { value } => Sexp::int((value.to_bits() ^ 0x8000_0000) as i32 as i64),
            _ => return None,
        },
        _ => return None,
    })
}

fn arg_sexp(e: &ast::Expr) -> Sexp {
    match e {
        ast::Expr::DiffSwitch(cases) => Sexp::app("sw", cases.iter().map(|c| match c {
            None => Sexp::atom("_"),
            Some(x) => num_sexp(&x.value).unwrap_or_else(|| Sexp::atom("other")),
        }).collect()),
        e => num_sexp(e).unwrap_or_else(|| Sexp::str(truth::fmt::stringify(e))),
    }
}

fn stmts_sexp(stmts: &[truth::pos::Sp<ast::Stmt>]) -> Vec<Sexp> {
    let mut out = vec![];
    let mut time: i32 = 0;
    let mut lab = 0;
    for s in stmts {
        let label = match &s.diff_label { Some(d) => Sexp::str(d.value.string.string.clone()), None => Sexp::atom("none") };
        let head = |time: i32, lab: &mut i64| { let h = vec![Sexp::int(time as i64), Sexp::int(*lab), label.clone()]; *lab = 0; h };
        match &s.kind {
            ast::StmtKind::NoInstruction | ast::StmtKind::ScopeEnd(_) => {},
            ast::StmtKind::Label(_) => lab = 1,
            ast::StmtKind::AbsTimeLabel(v) => time = v.value,
            ast::StmtKind::RelTimeLabel { delta, .. } => match delta.as_const_int() {
                Some(d) => time = time.wrapping_add(d),
                None => out.push(Sexp::app("other", vec![Sexp::str("non-const time label")])),
            },
            ast::StmtKind::Expr(e) => match &e.value {
                ast::Expr::Call(call) => match &call.name.value {
                    ast::CallableName::Ins { opcode, .. } if call.pseudos.is_empty() => {
                        let mut v = head(time, &mut lab);
                        v.extend([Sexp::atom("ins"), Sexp::int(*opcode as i64), Sexp::list(call.args.iter().map(|a| arg_sexp(&a.value)).collect())]);
                        out.push(Sexp::app("st", v));
                    },
                    _ => out.push(Sexp::app("other", vec![Sexp::str(truth::fmt::stringify(&e.value))])),
                },
                e => out.push(Sexp::app("other", vec![Sexp::str(truth::fmt::stringify(e))])),
            },
            ast::StmtKind::Assignment { var, op, value } if op.value == ast::AssignOpKind::Assign => {
                let reg = match &var.value.name { ast::VarName::Reg { reg, .. } => reg.0 as i64, ast::VarName::Normal { .. } => 0 };
                let mut v = head(time, &mut lab);
                v.extend([Sexp::atom("set"), Sexp::int(reg), Sexp::list(vec![arg_sexp(&value.value)])]);
                out.push(Sexp::app("st", v));
            },
            ast::StmtKind::Jump(_) => { let mut v = head(time, &mut lab); v.push(Sexp::atom("jmp")); out.push(Sexp::app("st", v)); },
            _ => out.push(Sexp::app("other", vec![Sexp::str("statement")])),
        }
    }
    out
}

// ---------------------------------------------------------------------------------------------
// evaluation

fn eval_raise(game: Game, lines: &[(i64, String)], sigs: &[(u16, String)], descs: &[Sexp]) -> Sexp {
    let hooks = truth::verif_hooks::language_hooks(game, LanguageKey::Ecl).expect("old ECL hooks");
    let instrs = raw_instrs(game, &*hooks, descs);
    let o = tc::with_truth(Format::Ecl, game, &[mapfile_text(lines, sigs)], |truth| {
        let emitter = truth.emitter();
        let ctx = truth.ctx();
        let options = default_options();
        let const_proof = truth::passes::evaluate_const_vars::run(ctx)?;
        let script = llir::RawScript { instrs: instrs.clone(), file_offset: None };
        let mut raiser = llir::Raiser::new(&*hooks, ctx.emitter, ctx, &options, const_proof)?;
        raiser.raise_instrs_to_sub_ast(&emitter, &script, &ctx)
    });
    match o.value {
        Some(stmts) => Sexp::app("ok", stmts_sexp(&stmts)),
        None => Sexp::app("err", vec![Sexp::str(diag_class(&o.diagnostics))]),
    }
}

fn sub0(c: &Compiled) -> Vec<RawInstr> {
    match c { Compiled::Ecl(truth::EclFile::Olde(f)) => f.subs[0].instrs.clone(), _ => panic!("not olde ecl") }
}

fn blob_ints(i: &RawInstr) -> Vec<i32> {
    i.args_blob.chunks(4).filter(|c| c.len() == 4).map(|c| i32::from_le_bytes([c[0], c[1], c[2], c[3]])).collect()
}

fn is_nan_bits(v: i32) -> bool { (v as u32 & 0x7fff_ffff) > 0x7f80_0000 }

/// raw instructions -> decompile (defaults) -> text -> compile: the instructions must come back
fn eval_raisert(game: Game, lines: &[(i64, String)], sigs: &[(u16, String)], descs: &[Sexp]) -> Sexp {
    let hooks = truth::verif_hooks::language_hooks(game, LanguageKey::Ecl).expect("old ECL hooks");
    let instrs = raw_instrs(game, &*hooks, descs);
    let maps = [mapfile_text(lines, sigs)];
    let d = tc::with_truth(Format::Ecl, game, &maps, |truth| {
        let script = truth.parse::<ast::ScriptFile>("<input>", "void Sub0() {\n}\n".as_bytes())?.value;
        let mut compiled = tc::compile_ast(truth, Format::Ecl, game, &script)?;
        match &mut compiled { Compiled::Ecl(truth::EclFile::Olde(f)) => f.subs[0].instrs = instrs.clone(), _ => unreachable!() }
        let out = tc::decompile_ast(truth, Format::Ecl, game, &compiled, &default_options())?;
        Ok(truth::fmt::stringify_with(&out, truth::fmt::Config::new().max_columns(100)))
    });
    let Some(text) = d.value else { return Sexp::app("skip", vec![Sexp::str(format!("decompile: {}", diag_class(&d.diagnostics)))]); };
    // a loss warning is the property's permitted exception (the timeline-table warning of the template file is not one)
    if d.diagnostics.lines().any(|l| l.starts_with("warning") && !l.contains("timeline table")) {
        return Sexp::app("skip", vec![Sexp::str("warning")]);
    }
    let re = tc::with_truth(Format::Ecl, game, &maps, |truth| {
        let script = truth.parse::<ast::ScriptFile>("<input>", text.as_bytes())?.value;
        let compiled = tc::compile_ast(truth, Format::Ecl, game, &script)?;
        Ok(sub0(&compiled))
    });
    let flat = |t: &str| t.lines().map(|l| l.trim()).filter(|l| !l.is_empty()).collect::<Vec<_>>().join(" ");
    let Some(new) = re.value else {
        return fail("raw-ladder-decompiled-text-does-not-recompile", format!("{} | {}", diag_class(&re.diagnostics), flat(&text)));
    };
    let key = |i: &RawInstr| (i.time, i.opcode, i.difficulty, blob_ints(i));
    let a: Vec<_> = instrs.iter().map(key).collect();
    let b: Vec<_> = new.iter().map(key).collect();
    if a == b { return Sexp::app("pass", vec![Sexp::int(a.len() as i64)]); }
    // classify the difference: every differing field is attributed to one cause (the two specific signatures are
    // those of findings fixed by b717bca: if they come back they are reported under their old names)
    let (mut nan, mut zero, mut cmp_mask, mut other) = (false, false, false, false);
    if a.len() != b.len() { other = true; }
    else {
        for (x, y) in a.iter().zip(&b) {
            if x == y { continue; }
            if x.0 != y.0 || x.1 != y.1 || x.3.len() != y.3.len() { other = true; continue; }
            if x.2 != y.2 {
                let is_cmp = descs.iter().any(|d| d.head() == Some("cmp") && d.args()[1].as_i64() as u16 == x.1);
                if is_cmp { cmp_mask = true; } else { other = true; }
            }
            for (p, q) in x.3.iter().zip(&y.3) {
                if p == q { continue; }
                if is_nan_bits(*p) && is_nan_bits(*q) { nan = true; }          // text layer: every NaN prints as `NAN` (C08 / C01 finding)
                else if (*p as u32) << 1 == 0 && (*q as u32) << 1 == 0 { zero = true; }
                else { other = true; }
            }
        }
    }
    let what = format!("in {a:?} | out {b:?} | {}", flat(&text));
    if other { return fail("raw-ladder-roundtrip-differs", what); }
    if zero { return fail("diff-switch-fold-merges-signed-float-zeros", what); }
    if cmp_mask { return fail("diff-switch-fold-of-unraisable-intrinsic-loses-difficulty", what); }
    let _ = nan;
    Sexp::app("pass", vec![Sexp::atom("nan-payload-only")])
}

pub fn eval(case: &Sexp) -> Sexp {
    let a = case.args();
    let (game, lines, sigs) = (game_of(&a[0]), lines_of(&a[1]), sigs_of(&a[2]));
    match case.head() {
        Some("raise") => eval_raise(game, &lines, &sigs, &a[3..]),
        Some("raisert") => eval_raisert(game, &lines, &sigs, &a[3..]),
        _ => Sexp::atom("bad-case"),
    }
}

// ---------------------------------------------------------------------------------------------
// generation

const SIGS: &[(u16, &str)] = &[
    (1001, "S"), (1002, "SS"), (1003, "SSS"), (1004, "f"), (1005, "ff"), (1006, "Sf"), (1007, "fS"), (1008, "SfS"),
    // second opcodes with the same signatures (ladders whose rungs differ in the opcode)
    (1011, "S"), (1012, "SS"), (1016, "Sf"),
];

const INT_POOL: &[i32] = &[0, 1, 2, 3, 5, -1, 10, 100, 1000, 65536, i32::MAX, i32::MIN, -10000, -10026];
/// 0.0, -0.0, 1.0, -1.0, 1.5, inf, -inf, smallest subnormals, a quiet NaN
const FLOAT_POOL: &[u32] = &[0, 0x8000_0000, 0x3f80_0000, 0xbf80_0000, 0x3fc0_0000, 0x7f80_0000, 0xff80_0000, 1, 0x8000_0001, 0x4040_0000, 0x7fc0_0000];

struct Table { lines: Vec<(i64, String)>, aux: u8 }

fn tables(rng: &mut Rng, extra: &mut dyn FnMut(&mut Rng) -> Vec<(i64, String)>) -> Table {
    let fixed: &[&[(i64, &str)]] = &[
        &[],
        &[(0, "E-"), (1, "N-"), (2, "H-"), (3, "L-")],                                                   // map/th06.eclm
        &[(0, "E-"), (1, "N-"), (2, "H-"), (3, "L-"), (4, "4+"), (5, "F+"), (6, "U+"), (7, "7+")],       // map/th08.eclm
        &[(0, "E-"), (1, "N-"), (2, "H-"), (3, "L-"), (4, "X-"), (5, "F+"), (6, "U+")],                  // five difficulties
        &[(1, "E-"), (0, "N+"), (3, "H-"), (2, "L+")],                                                   // aux bits below difficulty bits
        &[(4, "A+"), (2, "B+")],                                                                         // an aux bit inside the first four
    ];
    let lines: Vec<(i64, String)> = if rng.chance(5, 6) { rng.pick(fixed).iter().map(|(i, s)| (*i, s.to_string())).collect() } else { extra(rng) };
    let mut aux = 0u8;
    for (i, s) in &lines { if (0..8).contains(i) { if s.ends_with('+') { aux |= 1 << i; } else { aux &= !(1 << i); } } }
    Table { lines, aux }
}

/// difficulty parts of the rungs of one ladder, and a tag
fn gen_masks(rng: &mut Rng, aux: u8) -> (Vec<u8>, &'static str) {
    // number of leading difficulty bits
    let lead = (0..8).take_while(|b| aux & (1 << b) == 0).count();
    let n = if lead >= 4 { 4 + rng.below(lead - 3) } else { lead.max(1) };
    // a partition of 0..n into contiguous groups
    let mut cuts: Vec<usize> = (1..n).filter(|_| rng.chance(3, 5)).collect();
    if cuts.is_empty() && n > 1 { cuts.push(1 + rng.below(n - 1)); }
    let mut stops = vec![0]; stops.extend(cuts); stops.push(n);
    let mut groups: Vec<u8> = stops.windows(2).map(|w| (((1u32 << w[1]) - 1) ^ ((1u32 << w[0]) - 1)) as u8).collect();
    let tag = match rng.below(16) {
        0..=6 => "contiguous",
        7 => { // a hole inside one group: move one bit of a group of >= 2 away, or use {0,2}
            if let Some(k) = groups.iter().position(|g| g.count_ones() >= 3) { let g = groups[k]; let lo = g.trailing_zeros(); groups[k] = g & !(1 << (lo + 1)); }
            else { groups = vec![0b0101, 0b0010, 0b1000]; }
            "non-contiguous"
        },
        8 => { let k = rng.below(groups.len()); let g = groups[k]; groups[k] = g | (g << 1) | (g >> 1); "overlapping" },
        9 => { groups.reverse(); "descending" },
        10 => { let k = rng.below(groups.len()); groups[k] = 0; "empty-rung" },
        11 => { groups = groups.iter().map(|g| g << 1).collect(); "not-from-zero" },
        12 => { groups.truncate(2.min(groups.len())); if groups.iter().map(|g| g.count_ones()).sum::<u32>() >= 4 { groups = vec![1, 2]; } "fewer-than-four" },
        13 => { let k = rng.below(groups.len()); groups.swap(0, k); "shuffled" },
        14 => { let k = rng.below(groups.len()); let g = groups[k]; groups.insert(k, g); "repeated-rung" },
        _ => { groups = vec![0b0011, 0b0110, 0b1100]; "overlap-chain" },
    };
    (groups, tag)
}

enum RungKind { Ins(u16, String), Set(u16, bool), Cmp(u16, bool) }

fn int_regs(game: Game) -> &'static [i32] { match game { Game::Th06 => &[-10001, -10002, -10003, -10004], _ => &[10000, 10001, 10002, 10003] } }
fn float_regs(game: Game) -> &'static [i32] { match game { Game::Th06 => &[-10005, -10006], Game::Th07 => &[10004, 10005], _ => &[10016, 10017] } }
fn set_op(game: Game, flt: bool) -> u16 { match (game, flt) { (Game::Th08, false) => 6, (Game::Th08, true) => 7, (_, false) => 4, (_, true) => 5 } }
fn jmp_op(game: Game) -> u16 { if game == Game::Th08 { 4 } else { 2 } }

fn pick_val(rng: &mut Rng, flt: bool) -> i32 { if flt { *rng.pick(FLOAT_POOL) as i32 } else { *rng.pick(INT_POOL) } }

/// a column of `n` values: constant, all different, or with equal neighbours; floats often mix 0.0 / -0.0
fn gen_column(rng: &mut Rng, flt: bool, n: usize) -> Vec<i32> {
    match rng.below(6) {
        0 | 1 => { let v = pick_val(rng, flt); vec![v; n] },
        2 if flt => (0..n).map(|_| if rng.chance(1, 2) { 0 } else { i32::MIN }).collect(),          // equal as floats, not as bits
        2 => { let v = pick_val(rng, flt); let w = pick_val(rng, flt); (0..n).map(|k| if k < n / 2 { v } else { w }).collect() },
        3 if flt => { let mut c = vec![0x7fc0_0000u32 as i32; n]; if rng.chance(1, 2) { c[rng.below(n)] = 0x3f80_0000; } c },   // NaN never equals itself
        _ => { let base = rng.below(50) as i32 * 7; (0..n).map(|k| if flt { *rng.pick(FLOAT_POOL) as i32 } else { base + k as i32 }).collect() },
    }
}

struct Gen<'a> { rng: &'a mut Rng, game: Game, aux: u8, out: Vec<Sexp>, tags: Vec<&'static str>, ladders: Vec<(usize, usize)> }

impl Gen<'_> {
    fn rung_kind(&mut self) -> RungKind {
        match self.rng.below(10) {
            0 => { let f = self.rng.chance(1, 2); RungKind::Set(set_op(self.game, f), f) },
            1 if self.game == Game::Th06 => { let f = self.rng.chance(1, 3); RungKind::Cmp(if f { 28 } else { 27 }, f) },
            _ => { let (op, sig) = *self.rng.pick(&SIGS[..8]); RungKind::Ins(op, sig.to_string()) },
        }
    }

    fn push(&mut self, kind: &RungKind, time: i32, mask: u8, vals: &[i32], reg: i32) {
        let head = vec![Sexp::int(time as i64), Sexp::int(match kind { RungKind::Ins(op, _) | RungKind::Set(op, _) | RungKind::Cmp(op, _) => *op as i64 }), Sexp::int(mask as i64)];
        let mut v = head;
        match kind {
            RungKind::Ins(..) => { v.extend(vals.iter().map(|x| Sexp::int(*x as i64))); self.out.push(Sexp::app("ins", v)); },
            RungKind::Set(_, f) => { v.extend([Sexp::int(reg as i64), Sexp::int(vals[0] as i64), Sexp::int(*f as i64)]); self.out.push(Sexp::app("set", v)); },
            RungKind::Cmp(_, f) => { v.extend([Sexp::int(vals[0] as i64), Sexp::int(vals[1] as i64), Sexp::int(*f as i64)]); self.out.push(Sexp::app("cmp", v)); },
        }
    }

    /// one ladder: the same instruction once per difficulty group
    fn ladder(&mut self, time: i32) -> i32 {
        let kind = self.rung_kind();
        let (groups, tag) = gen_masks(self.rng, self.aux);
        self.tags.push(tag);
        let n = groups.len();
        let flts: Vec<bool> = match &kind {
            RungKind::Ins(_, sig) => sig.chars().map(|c| c == 'f').collect(),
            RungKind::Set(_, f) => vec![*f],
            RungKind::Cmp(_, f) => vec![*f, *f],
        };
        let mut cols: Vec<Vec<i32>> = flts.iter().map(|f| gen_column(self.rng, *f, n)).collect();
        if self.rng.chance(4, 5) && cols.iter().all(|c| c.iter().all(|v| *v == c[0])) {
            // make at least one column vary (otherwise nothing can fold)
            let k = self.rng.below(cols.len()); let f = flts[k];
            for (j, v) in cols[k].iter_mut().enumerate() { *v = if f { FLOAT_POOL[2 + j % 5] as i32 } else { 11 * (j as i32 + 1) }; }
        }
        let reg = if matches!(kind, RungKind::Set(_, true)) { *self.rng.pick(float_regs(self.game)) } else { *self.rng.pick(int_regs(self.game)) };
        let mut aux_part = if self.rng.chance(1, 2) { self.aux } else { self.aux & self.rng.below(256) as u8 };
        // disturbances
        let aux_differs = if self.aux != 0 && self.rng.chance(1, 10) { Some(self.rng.below(n)) } else { None };
        let time_change = if self.rng.chance(1, 6) { Some(1 + self.rng.below(n.max(2) - 1)) } else { None };
        let other_op = if self.rng.chance(1, 10) { Some(self.rng.below(n)) } else { None };
        let other_reg = if self.rng.chance(1, 12) { Some(self.rng.below(n)) } else { None };
        let first_full = self.rng.chance(1, 25);
        if aux_differs.is_some() { self.tags.push("aux-differs"); }
        if time_change.is_some() { self.tags.push("time-changes-inside"); }
        let varies = cols.iter().any(|c| c.iter().any(|v| *v != c[0]));
        let covered: u32 = groups.iter().map(|g| g.count_ones()).sum();
        if tag == "contiguous" && aux_differs.is_none() && time_change.is_none() && other_op.is_none() && other_reg.is_none() && !first_full && varies && covered >= 4 && n >= 2 {
            self.tags.push("clean-ladder");      // built so that it can be folded (float columns may still compare equal / unequal)
        }
        self.ladders.push((self.out.len(), n));
        let mut t = time;
        for k in 0..n {
            if time_change == Some(k) { t = if self.rng.chance(3, 4) { t + 1 + self.rng.below(20) as i32 } else { t - 1 - self.rng.below(5) as i32 }; }
            let mut mask = groups[k] & !self.aux | aux_part;
            if aux_differs == Some(k) { mask ^= self.aux & (self.aux.wrapping_neg()); }      // flip the lowest aux bit
            if first_full && k == 0 { mask = 0xFF; self.tags.push("first-mask-full"); }
            let vals: Vec<i32> = cols.iter().map(|c| c[k]).collect();
            let k2 = match (&kind, other_op == Some(k)) {
                (RungKind::Ins(op, sig), true) => { self.tags.push("opcode-differs"); RungKind::Ins(match sig.as_str() { "S" => 1011, "SS" => 1012, "Sf" => 1016, _ => *op }, sig.clone()) },
                (RungKind::Set(_, f), true) => { self.tags.push("kind-differs"); RungKind::Set(set_op(self.game, !*f), !*f) },
                (RungKind::Ins(op, sig), false) => RungKind::Ins(*op, sig.clone()),
                (RungKind::Set(op, f), false) => RungKind::Set(*op, *f),
                (RungKind::Cmp(op, f), _) => RungKind::Cmp(*op, *f),
            };
            let r = match (&k2, other_reg == Some(k)) {
                (RungKind::Set(_, true), true) => float_regs(self.game)[1], (RungKind::Set(_, false), true) => int_regs(self.game)[3],
                (RungKind::Set(_, true), false) if other_op == Some(k) => float_regs(self.game)[0],
                (RungKind::Set(_, false), false) if other_op == Some(k) => int_regs(self.game)[0],
                _ => reg,
            };
            self.push(&k2, t, mask, &vals, r);
            if self.rng.chance(1, 40) { aux_part = self.aux; }
        }
        match &kind { RungKind::Ins(..) => self.tags.push("ladder-ins"), RungKind::Set(..) => self.tags.push("ladder-set"), RungKind::Cmp(..) => self.tags.push("ladder-cmp") }
        t
    }

    fn single(&mut self, time: i32) {
        let (op, sig) = *self.rng.pick(&SIGS[..8]);
        let vals: Vec<i32> = sig.chars().map(|c| pick_val(self.rng, c == 'f')).collect();
        let mask = match self.rng.below(4) { 0 => 0xFF, 1 => self.rng.below(256) as u8, _ => self.aux | (1 << self.rng.below(4)) };
        self.push(&RungKind::Ins(op, sig.to_string()), time, mask, &vals, 0);
    }
}

fn gen_script(rng: &mut Rng, game: Game, table: &Table) -> (Vec<Sexp>, Vec<&'static str>) {
    let mut g = Gen { rng, game, aux: table.aux, out: vec![], tags: vec![], ladders: vec![] };
    let mut time = if g.rng.chance(1, 4) { g.rng.below(100) as i32 } else { 0 };
    if g.rng.chance(1, 4) { g.single(time); }
    let many = g.rng.chance(1, 4);
    let ladders = 1 + g.rng.below(if many { 3 } else { 1 });
    for k in 0..ladders {
        if k > 0 { if g.rng.chance(1, 2) { time += g.rng.below(30) as i32; } if g.rng.chance(1, 3) { g.single(time); } }
        time = g.ladder(time);
    }
    if g.rng.chance(1, 3) { g.single(time); }
    // jumps: labels in front of some instruction (a rung, mostly); the jump itself sits at the end or between two instructions
    let n = g.out.len();
    let jumps = match g.rng.below(6) { 0 | 1 => 1, 2 => 2, _ => 0 };
    for _ in 0..jumps {
        let target = g.rng.below(n);
        if g.out.len() == n && g.ladders.iter().any(|(s, l)| *s < target && target < s + l) { g.tags.push("label-inside-ladder"); }
        let mask = if g.rng.chance(2, 3) { 0xFF } else { g.aux | 1 };
        let at = if g.rng.chance(3, 4) { g.out.len() } else { g.rng.below(g.out.len() + 1) };
        // a jump inserted before its target shifts the target by one
        let target = if at <= target { target + 1 } else { target };
        let t = if at == 0 { 0 } else { g.out[at - 1].args()[0].as_i32() };
        // earlier jumps' targets at or after `at` shift as well
        for d in g.out.iter_mut() {
            if d.head() == Some("jmp") { let a = d.args(); let old = a[3].as_usize(); if old >= at { *d = Sexp::app("jmp", vec![a[0].clone(), a[1].clone(), a[2].clone(), Sexp::int(old as i64 + 1)]); } }
        }
        g.out.insert(at, Sexp::app("jmp", vec![Sexp::int(t as i64), Sexp::int(jmp_op(game) as i64), Sexp::int(mask as i64), Sexp::int(target as i64)]));
        g.tags.push(if at == g.out.len() - 1 { "jump-at-end" } else { "jump-inside" });
    }
    (g.out, g.tags)
}

fn lines_sexp(l: &[(i64, String)]) -> Sexp {
    Sexp::list(l.iter().map(|(i, s)| Sexp::list(vec![Sexp::int(*i), Sexp::str(s.clone())])).collect())
}

fn sigs_sexp() -> Sexp { Sexp::list(SIGS.iter().map(|(op, s)| Sexp::list(vec![Sexp::int(*op as i64), Sexp::str(*s)])).collect()) }

fn case_of(head: &str, game: Game, lines: &[(i64, String)], descs: Vec<Sexp>) -> Sexp {
    let g = match game { Game::Th06 => 6, Game::Th07 => 7, _ => 8 };
    let mut v = vec![Sexp::int(g), lines_sexp(lines), sigs_sexp()]; v.extend(descs);
    Sexp::app(head, v)
}

fn fixed_cases() -> Vec<Case> {
    let mut out = vec![];
    let mut add = |game: Game, lines: &[(i64, &str)], text: &str, tag: &str, rt: bool| {
        let lines: Vec<(i64, String)> = lines.iter().map(|(i, s)| (*i, s.to_string())).collect();
        let descs = crate::sexp::parse(&format!("({text})")).unwrap().as_list().to_vec();
        out.push(Case::corr(case_of("raise", game, &lines, descs.clone())).tag(tag.to_string()));
        if rt { out.push(Case::search(case_of("raisert", game, &lines, descs)).tag(tag.to_string())); }
    };
    let th08: &[(i64, &str)] = &[(0, "E-"), (1, "N-"), (2, "H-"), (3, "L-"), (4, "4+"), (5, "F+"), (6, "U+"), (7, "7+")];
    // the Lean examples and witnesses
    add(Game::Th06, &[], "(ins 10 1002 1 1 7) (ins 10 1002 2 2 7) (ins 10 1002 12 3 7) (ins 20 1002 16 4 7) (jmp 20 2 255 0)", "lean-example-ladder", true);
    add(Game::Th06, &[], "(ins 0 1001 1 1) (ins 0 1001 2 2) (ins 0 1001 4 3) (ins 0 1001 8 4) (jmp 0 2 255 2)", "lean-example-label-between", true);
    add(Game::Th06, &[], "(ins 0 1001 5 1) (ins 0 1001 2 2) (ins 0 1001 8 3)", "lean-example-non-contiguous", true);
    add(Game::Th06, &[], "(ins 0 1001 2 1) (ins 0 1001 4 2) (ins 0 1001 8 3) (ins 0 1001 16 4)", "lean-example-not-from-zero", true);
    // inputs of the two former findings (fixed by b717bca): regression cases, they must round-trip
    // (Lean: signed_zero_ladder_roundtrips, unraisable_ladder_roundtrips)
    add(Game::Th06, &[], "(ins 0 1006 1 1 0) (ins 0 1006 2 2 -2147483648) (ins 0 1006 4 3 0) (ins 0 1006 8 4 -2147483648)", "regression-signed-zero", true);
    add(Game::Th06, &[], "(ins 0 1004 1 0) (ins 0 1004 2 -2147483648) (ins 0 1004 4 0) (ins 0 1004 8 -2147483648)", "regression-signed-zero-only-column", true);
    add(Game::Th07, &[], "(set 0 5 1 10004 0 1) (set 0 5 2 10004 -2147483648 1) (set 0 5 4 10004 0 1) (set 0 5 8 10004 -2147483648 1)", "regression-signed-zero-assignment", true);
    add(Game::Th08, th08, "(ins 3 1005 241 0 1065353216) (ins 3 1005 242 -2147483648 1065353216) (ins 3 1005 252 0 1065353216)", "regression-signed-zero-th08", true);
    add(Game::Th06, &[], "(ins 0 1006 1 1 2143289344) (ins 0 1006 2 2 2143289344) (ins 0 1006 4 3 2143289344) (ins 0 1006 8 4 2143289344)", "nan-column-is-constant", false);
    add(Game::Th06, &[], "(cmp 0 27 1 1 10 0) (cmp 0 27 2 2 10 0) (cmp 0 27 4 3 10 0) (cmp 0 27 8 4 10 0)", "regression-unraisable", true);
    add(Game::Th06, &[], "(cmp 5 28 1 1065353216 0 1) (cmp 5 28 2 1069547520 0 1) (cmp 5 28 12 1077936128 0 1) (jmp 5 2 255 0)", "regression-unraisable-float-labelled", true);
    add(Game::Th06, th08, "(cmp 0 27 241 1 10 0) (cmp 0 27 242 2 10 0) (cmp 0 27 244 3 10 0) (cmp 0 27 248 4 10 0)", "regression-unraisable-aux", true);
    // shapes of the two seeded regressions
    add(Game::Th06, &[], "(ins 0 1001 3 1) (ins 0 1001 4 2) (ins 0 1001 8 3)", "contiguous-EN-H-L", true);
    add(Game::Th06, &[], "(ins 0 1001 9 1) (ins 0 1001 2 2) (ins 0 1001 4 3)", "first-mask-with-hole", true);
    add(Game::Th06, &[], "(ins 0 1001 1 1) (ins 0 1001 10 2) (ins 0 1001 4 3)", "second-mask-with-hole", true);
    add(Game::Th06, &[], "(ins 0 1001 1 1) (ins 0 1001 2 2) (ins 5 1001 4 3) (ins 5 1001 8 4)", "time-change-after-two", true);
    add(Game::Th06, &[], "(ins 0 1001 1 1) (ins 0 1001 2 2) (ins 0 1001 4 3) (ins 5 1001 8 4)", "time-change-before-last", true);
    add(Game::Th08, th08, "(ins 0 1001 241 1) (ins 0 1001 242 2) (ins 0 1001 244 3) (ins 7 1001 248 4)", "time-change-before-last-th08", true);
    add(Game::Th08, th08, "(ins 0 1002 241 1 5) (ins 0 1002 242 2 5) (ins 0 1002 252 3 5)", "th08-aux-kept", true);
    add(Game::Th08, th08, "(ins 0 1002 17 1 5) (ins 0 1002 18 2 5) (ins 0 1002 28 3 5)", "th08-aux-partly-off", true);
    add(Game::Th08, th08, "(ins 0 1002 241 1 5) (ins 0 1002 226 2 5) (ins 0 1002 252 3 5)", "th08-aux-differs", true);
    add(Game::Th07, &[], "(set 0 4 1 10000 1 0) (set 0 4 2 10000 2 0) (set 0 4 4 10000 3 0) (set 0 4 8 10000 4 0)", "set-ladder", true);
    add(Game::Th07, &[], "(set 0 4 1 10000 1 0) (set 0 4 2 10001 2 0) (set 0 4 4 10000 3 0) (set 0 4 8 10000 4 0)", "set-ladder-other-register", true);
    add(Game::Th06, &[], "(ins 0 1001 1 1) (ins 0 1001 2 2) (ins 0 1001 4 3) (ins 0 1001 8 4) (ins 0 1001 16 5) (ins 0 1001 32 6) (ins 0 1001 64 7) (ins 0 1001 128 8)", "eight-groups", true);
    add(Game::Th06, &[], "(ins 0 1001 1 1) (ins 0 1001 2 1) (ins 0 1001 4 1) (ins 0 1001 8 1)", "all-identical", true);
    add(Game::Th06, &[], "(ins 0 1004 1 2143289344) (ins 0 1004 2 2143289344) (ins 0 1004 4 2143289344) (ins 0 1004 8 2143289344)", "all-nan", false);
    out
}

pub fn gen(tier: Tier, rng: &mut Rng, extra_table: &mut dyn FnMut(&mut Rng) -> Vec<(i64, String)>) -> Vec<Case> {
    let scale = if tier == Tier::Quick { 1 } else { 30 };
    let mut out = fixed_cases();
    for i in 0..4000 * scale {
        let game = *rng.pick(&[Game::Th06, Game::Th07, Game::Th08]);
        let table = tables(rng, extra_table);
        let (descs, tags) = gen_script(rng, game, &table);
        let mut c = Case::corr(case_of("raise", game, &table.lines, descs.clone())).tag("raise");
        for t in &tags { c = c.tag(format!("raise-{t}")); }
        out.push(c);
        if i % 4 == 0 { out.push(Case::search(case_of("raisert", game, &table.lines, descs)).tag("raisert")); }
    }
    out
}

pub fn neighbours(case: &Sexp) -> Vec<Case> {
    match case.head() { Some("raise") => vec![Case::search(Sexp::app("raisert", case.args().to_vec()))], _ => vec![] }
}
