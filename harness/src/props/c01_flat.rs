//! C01, model-compared part: the flat decompile path and the flat compile path of one script,
//! compared with the Lean model `TruthModel.RoundTrip` (`raiseFlat` / `lowerFlat`).
//!
//!   LANG  ::= (lang HDR MODE HASREGS DIFFALLOWED ((OP ABI)...) ((INDEX "cs")...) TARGET)
//!             TARGET ::= (test LANGKEY) | (real GAME LANGKEY)
//!   INSTR ::= (TIME OPCODE DIFFICULTY MASK EXTRA xBLOB)
//!   STMT  ::= (lab "name") | (abs T) | (rel D) | (ins DIFF OP MASK ARG0 BLOB ARG...)
//!   (raise LANG ARGUMENTS INSTR...)  raw instructions -> the REAL `llir::Raiser` (blocks, intrinsics,
//!                                    calls, diff switches off; `arguments` as given) -> statements + warning classes
//!   (lower LANG STMT...)             statements -> text -> the REAL parser, passes and `llir::Lowerer` -> raw instructions
//!   (rtm LANG ARGUMENTS INSTR...)    raw -> real decompile -> real formatter -> real compile -> raw; also judged:
//!                                    no warning and a different result is a violation of the property
//!
//! The hooks are the crate's `TestLanguage` or the real hooks of a game format (`verif_hooks::language_hooks`);
//! header size and register support are read from the hooks, the signature table is a generated user
//! mapfile (plus, for real targets, signatures of the game's own table on top of the core mapfile).

use super::{Case, Failure, Tier, default_judge};
use super::c12::{self, Enc, StrSize, Arg};
use crate::rng::Rng;
use crate::sexp::{Sexp, hex, unhex};
use crate::gensrc;
use truth::{ast, Game, LanguageKey};
use truth::llir::{self, RawInstr, LanguageHooks};

// =============================================================================================
// languages

#[derive(Clone, Debug, PartialEq)]
pub enum Target { Test(LanguageKey), Real(Game, LanguageKey) }

#[derive(Clone, Debug)]
pub struct LangSpec {
    pub target: Target,
    pub hdr: usize,
    pub mode: &'static str,
    pub has_regs: bool,
    pub diff: bool,
    pub ops: Vec<(u16, Vec<Enc>)>,
    pub diff_lines: Vec<(i64, String)>,
}

fn lang_name(l: LanguageKey) -> &'static str {
    match l { LanguageKey::Anm => "anm", LanguageKey::Msg => "msg", LanguageKey::End => "end", LanguageKey::Std => "std", LanguageKey::Ecl => "ecl", LanguageKey::Timeline => "timeline", _ => "dummy" }
}
fn lang_from(s: &str) -> LanguageKey {
    match s { "anm" => LanguageKey::Anm, "msg" => LanguageKey::Msg, "end" => LanguageKey::End, "std" => LanguageKey::Std, "ecl" => LanguageKey::Ecl, "timeline" => LanguageKey::Timeline, _ => panic!("bad language {s}") }
}

impl Target {
    fn language(&self) -> LanguageKey { match self { Target::Test(l) | Target::Real(_, l) => *l } }
    /// game the mapfile is applied for
    fn game(&self) -> Game {
        match self { Target::Real(g, _) => *g, Target::Test(LanguageKey::Timeline) => Game::Th06, Target::Test(LanguageKey::Ecl) => Game::Th07, Target::Test(_) => Game::Th12 }
    }
    fn hooks(&self) -> Box<dyn LanguageHooks> {
        match self {
            Target::Test(l) => { let mut h = llir::TestLanguage::default(); h.language = *l; Box::new(h) },
            Target::Real(g, l) => truth::verif_hooks::language_hooks(*g, *l).expect("no hooks for this game/language"),
        }
    }
    /// `encode_label` / `decode_label` of the format (table kept here, independent of the hooks under test)
    fn mode(&self) -> &'static str {
        match self {
            Target::Real(_, LanguageKey::Ecl) => "relative",
            Target::Real(g, LanguageKey::Std) if *g < Game::Th095 => "index20",
            _ => "absolute",
        }
    }
    /// does the compile pipeline of the format compute difficulty labels (ECL files) or forbid them?
    fn real_diff(&self) -> bool { matches!(self, Target::Real(_, LanguageKey::Ecl | LanguageKey::Timeline)) }
    fn to_sexp(&self) -> Sexp {
        match self {
            Target::Test(l) => Sexp::app("test", vec![Sexp::atom(lang_name(*l))]),
            Target::Real(g, l) => Sexp::app("real", vec![Sexp::atom(format!("{g}")), Sexp::atom(lang_name(*l))]),
        }
    }
    fn from_sexp(s: &Sexp) -> Target {
        let a = s.args();
        match s.head() { Some("real") => Target::Real(crate::tc::game(a[0].as_atom()), lang_from(a[1].as_atom())), _ => Target::Test(lang_from(a[0].as_atom())) }
    }
}

impl LangSpec {
    pub fn to_sexp(&self) -> Sexp {
        Sexp::app("lang", vec![Sexp::int(self.hdr as i64), Sexp::atom(self.mode), Sexp::int(self.has_regs as i64), Sexp::int(self.diff as i64),
            Sexp::list(self.ops.iter().map(|(op, abi)| Sexp::list(vec![Sexp::int(*op), c12::abi_sexp(abi)])).collect()),
            Sexp::list(self.diff_lines.iter().map(|(i, s)| Sexp::list(vec![Sexp::int(*i), Sexp::str(s.clone())])).collect()),
            self.target.to_sexp()])
    }
    pub fn from_sexp(s: &Sexp) -> LangSpec {
        let a = s.args();
        let mode = match a[1].as_atom() { "relative" => "relative", "index20" => "index20", _ => "absolute" };
        LangSpec { hdr: a[0].as_usize(), mode, has_regs: a[2].as_i64() != 0, diff: a[3].as_i64() != 0,
            ops: a[4].as_list().iter().map(|o| (o.as_list()[0].as_i64() as u16, c12::abi_from_sexp(&o.as_list()[1]))).collect(),
            diff_lines: a[5].as_list().iter().map(|l| (l.as_list()[0].as_i64(), l.as_list()[1].as_atom().to_string())).collect(),
            target: Target::from_sexp(&a[6]) }
    }
    fn mapfile(&self) -> String {
        let lang = self.target.language();
        let mut s = String::new();
        s.push_str(match lang { LanguageKey::Anm => "!anmmap\n", LanguageKey::Std => "!stdmap\n", LanguageKey::Msg | LanguageKey::End => "!msgmap\n", _ => "!eclmap\n" });
        s.push_str(if lang == LanguageKey::Timeline { "!timeline_ins_signatures\n" } else { "!ins_signatures\n" });
        for (op, abi) in &self.ops { s.push_str(&format!("{op} {}\n", c12::abi_text(abi))); }
        if !self.diff_lines.is_empty() {
            s.push_str("!difficulty_flags\n");
            for (i, l) in &self.diff_lines { s.push_str(&format!("{i} {l}\n")); }
        }
        s
    }
}

// =============================================================================================
// running the implementation

struct Ctx { diagnostics: String }

/// fresh `Truth` with (for real targets) the core mapfile of the language and the case's mapfile
fn with_lang<T>(spec: &LangSpec, f: impl FnOnce(&mut truth::Truth, &dyn LanguageHooks) -> Result<T, truth::ErrorReported>) -> (Option<T>, Ctx) {
    let mut scope = truth::Builder::new().capture_diagnostics(true).build();
    let mut truth = scope.truth();
    let hooks = spec.target.hooks();
    let game = spec.target.game();
    let r = (|| {
        if let Target::Real(g, l) = &spec.target {
            let core = truth::verif_hooks::core_mapfile(truth.ctx().emitter, *g, *l);
            truth.apply_mapfile(&core, *g).expect("failed to apply core mapfile!?");
        }
        truth.apply_mapfile_str(&spec.mapfile(), game)?;
        f(&mut truth, &*hooks)
    })();
    let diagnostics = truth.get_captured_diagnostics().unwrap_or_default();
    match r { Ok(v) => (Some(v), Ctx { diagnostics }), Err(e) => { e.ignore(); (None, Ctx { diagnostics }) } }
}

fn flat_options(arguments: bool) -> truth::DecompileOptions {
    truth::DecompileOptions { arguments, intrinsics: false, calls: false, blocks: false, diff_switches: false, show_instr_offsets: false }
}

fn raise(truth: &mut truth::Truth, hooks: &dyn LanguageHooks, arguments: bool, instrs: &[RawInstr]) -> Result<Vec<truth::pos::Sp<ast::Stmt>>, truth::ErrorReported> {
    let emitter = truth.emitter();
    let ctx = truth.ctx();
    let options = flat_options(arguments);
    let const_proof = truth::passes::evaluate_const_vars::run(ctx)?;
    let script = llir::RawScript { instrs: instrs.to_vec(), file_offset: None };
    let mut raiser = llir::Raiser::new(hooks, ctx.emitter, ctx, &options, const_proof)?;
    raiser.raise_instrs_to_sub_ast(&emitter, &script, &ctx)
    // the raiser is dropped here: `generate_warnings`
}

/// the pass sequence of the format compilers around `Lowerer::lower_sub` (`formats/ecl/ecl_06.rs` where the
/// format has difficulty, `formats/anm` otherwise), on a file with one script
fn lower(truth: &mut truth::Truth, hooks: &dyn LanguageHooks, diff: bool, body: &str) -> Result<Vec<RawInstr>, truth::ErrorReported> {
    let text = format!("script script0 {body}\n");
    let mut file = truth.parse::<ast::ScriptFile>("<input>", text.as_bytes())?.value;
    let ctx = truth.ctx();
    truth::passes::resolution::assign_languages(&mut file, hooks.language(), ctx)?;
    if diff { truth::passes::resolution::compute_diff_label_masks(&mut file, ctx)?; }
    truth::passes::resolution::resolve_names(&file, ctx)?;
    truth::passes::type_check::run(&file, ctx)?;
    truth::passes::evaluate_const_vars::run(ctx)?;
    truth::passes::const_simplify::run(&mut file, ctx)?;
    if diff { truth::passes::validate_difficulty::run(&file, ctx, hooks)?; } else { truth::passes::validate_difficulty::forbid_difficulty(&file, ctx)?; }
    truth::passes::desugar_blocks::run(&mut file, ctx, hooks.language())?;
    let code = file.items.iter().find_map(|item| match &item.value { ast::Item::Script { code, .. } => Some(code), _ => None }).expect("no script in the file");
    let mut errors = truth::error::ErrorFlag::new();
    let mut lowerer = llir::Lowerer::new(hooks);
    let (instrs, _) = lowerer.lower_sub(&code.0, None, ctx, false).unwrap_or_else(|e| { errors.set(e); (vec![], None) });
    lowerer.finish(ctx).unwrap_or_else(|e| errors.set(e));
    errors.into_result(())?;
    Ok(instrs)
}

// =============================================================================================
// canonical forms

fn instr_sexp(i: &RawInstr) -> Sexp {
    Sexp::list(vec![Sexp::int(i.time), Sexp::int(i.opcode), Sexp::int(i.difficulty), Sexp::int(i.param_mask),
        match i.extra_arg { Some(v) => Sexp::int(v), None => Sexp::atom("none") }, Sexp::atom(hex(&i.args_blob))])
}

fn instr_from(s: &Sexp) -> RawInstr {
    let a = s.as_list();
    RawInstr { time: a[0].as_i32(), opcode: a[1].as_i64() as u16, difficulty: a[2].as_i64() as u8, param_mask: a[3].as_i64() as u16,
        extra_arg: if a[4].as_atom() == "none" { None } else { Some(a[4].as_i64() as i16) }, args_blob: unhex(a[5].as_atom()), ..RawInstr::DEFAULTS }
}

/// message classes with the cut of `c12::classes`, plus the normalisations the model's constants use
fn norm_class(c: String) -> String {
    for p in ["signature not known for", "non-integer float variable %REG["] { if c.starts_with(p) { return p.to_string(); } }
    if let Some(k) = c.find("instructions with unknown signatures") { return c[k..].trim_end_matches('.').to_string(); }
    c
}
fn first_error(diag: &str) -> String { c12::classes(diag, "error: ").into_iter().next().map(norm_class).unwrap_or_else(|| "no-error-diagnostic".into()) }
fn warnings(diag: &str) -> Vec<String> { c12::classes(diag, "warning: ").into_iter().map(norm_class).collect() }

fn const_int(e: &ast::Expr) -> Option<i64> {
    match e {
        ast::Expr::LitInt { value, .. } => Some(*value as i64),
        ast::Expr::UnOp(op, x) if op.value == ast::UnOpKind::Neg => const_int(&x.value).map(|v| (v as i32).wrapping_neg() as i64),
        _ => None,
    }
}

fn arg_sexp(e: &ast::Expr) -> Sexp {
    match e {
        ast::Expr::LitInt { value, .. } => Sexp::app("i", vec![Sexp::int(*value)]),
        ast::Expr::LitFloat { value } => Sexp::app("f", vec![Sexp::int(c12::canon_f(value.to_bits()))]),
        ast::Expr::LitString(s) => match c12::sjis_encode(&s.string) { Some(b) => Sexp::app("s", vec![Sexp::atom(hex(&b))]), None => Sexp::app("unencodable", vec![Sexp::str(s.string.clone())]) },
        ast::Expr::Var(v) => match &v.value.name {
            ast::VarName::Reg { reg, .. } => Sexp::app("r", vec![Sexp::int(reg.0), Sexp::int(matches!(v.value.ty_sigil, Some(ast::VarSigil::Float)) as i64)]),
            ast::VarName::Normal { ident, .. } => Sexp::app("name", vec![Sexp::str(ident.as_raw().to_string())]),
        },
        ast::Expr::LabelProperty { label, keyword } => match keyword.value {
            ast::LabelPropertyKeyword::OffsetOf => Sexp::app("off", vec![Sexp::str(label.value.to_string())]),
            ast::LabelPropertyKeyword::TimeOf => Sexp::app("tof", vec![Sexp::str(label.value.to_string())]),
        },
        ast::Expr::UnOp(op, x) if op.value == ast::UnOpKind::Neg => match &x.value {
            ast::Expr::LitInt { value, .. } => Sexp::app("i", vec![Sexp::int(value.wrapping_neg())]),
            ast::Expr::LitFloat { value } => Sexp::app("f", vec![Sexp::int(c12::canon_f((-*value).to_bits()))]),
            _ => Sexp::atom("other"),
        },
        _ => Sexp::atom("other"),
    }
}

fn stmt_sexp(stmt: &ast::Stmt) -> Option<Sexp> {
    Some(match &stmt.kind {
        ast::StmtKind::NoInstruction | ast::StmtKind::ScopeEnd(_) => return None,
        ast::StmtKind::Label(ident) => Sexp::app("lab", vec![Sexp::str(ident.value.to_string())]),
        ast::StmtKind::AbsTimeLabel(v) => Sexp::app("abs", vec![Sexp::int(v.value)]),
        ast::StmtKind::RelTimeLabel { delta, .. } => match delta.as_const_int() {
            Some(d) => Sexp::app("rel", vec![Sexp::int(d)]),
            None => Sexp::app("rel", vec![Sexp::atom("non-const")]),
        },
        ast::StmtKind::Expr(e) => match &e.value {
            ast::Expr::Call(call) => {
                let opcode = match &call.name.value { ast::CallableName::Ins { opcode, .. } => *opcode as i64, _ => -1 };
                let diff = match &stmt.diff_label { Some(d) => Sexp::str(d.value.string.string.clone()), None => Sexp::atom("none") };
                let (mut mask, mut arg0, mut blob, mut other) = (Sexp::atom("none"), Sexp::atom("none"), Sexp::atom("none"), vec![]);
                for p in &call.pseudos {
                    let v = &p.value.value.value;
                    match p.value.kind.value {
                        ast::PseudoArgKind::Mask => mask = const_int(v).map(Sexp::int).unwrap_or(Sexp::atom("other")),
                        ast::PseudoArgKind::ExtraArg => arg0 = const_int(v).map(Sexp::int).unwrap_or(Sexp::atom("other")),
                        ast::PseudoArgKind::Blob => blob = match v { ast::Expr::LitString(s) => Sexp::atom(format!("x{}", s.string.chars().filter(|c| !c.is_whitespace()).collect::<String>())), _ => Sexp::atom("other") },
                        _ => other.push(Sexp::app("pseudo", vec![Sexp::str(truth::fmt::stringify(v))])),
                    }
                }
                let mut items = vec![diff, Sexp::int(opcode), mask, arg0, blob];
                items.extend(call.args.iter().map(|a| arg_sexp(&a.value)));
                items.extend(other);
                Sexp::app("ins", items)
            },
            _ => Sexp::app("other-expr", vec![]),
        },
        _ => Sexp::app("other-stmt", vec![]),
    })
}

fn stmts_sexp(stmts: &[truth::pos::Sp<ast::Stmt>]) -> Vec<Sexp> { stmts.iter().filter_map(|s| stmt_sexp(&s.value)).collect() }

// ---------------------------------------------------------------------------------------------
// statements -> source text (what a user would write)

fn int_text(v: i64) -> String { if v >= 0 { format!("{v}") } else { format!("{}", v as i32 as u32) } }

fn farg_text(a: &Sexp) -> String {
    let x = a.args();
    match a.head() {
        Some("i") => int_text(x[0].as_i64()),
        Some("f") => c12::float_text(x[0].as_i64() as u32),
        Some("s") => c12::string_literal(&c12::sjis_decode(&unhex(x[0].as_atom())).expect("generated strings are valid Shift-JIS")),
        Some("r") => if x[1].as_i64() != 0 { format!("%REG[{}]", x[0].as_i64()) } else { format!("$REG[{}]", x[0].as_i64()) },
        Some("off") => format!("offsetof({})", x[0].as_atom()),
        Some("tof") => format!("timeof({})", x[0].as_atom()),
        h => panic!("bad flat arg {h:?}"),
    }
}

pub fn stmts_text(stmts: &[Sexp]) -> String {
    let mut t = String::from("{\n");
    for s in stmts {
        let a = s.args();
        match s.head() {
            Some("lab") => t.push_str(&format!("{}:\n", a[0].as_atom())),
            Some("abs") => t.push_str(&format!("{}:\n", a[0].as_i64())),
            Some("rel") => t.push_str(&format!("+{}:\n", int_text(a[0].as_i64()))),
            Some("ins") => {
                let mut parts = vec![];
                if a[2].as_atom() != "none" { parts.push(format!("@mask={}", int_text(a[2].as_i64()))); }
                if a[3].as_atom() != "none" { parts.push(format!("@arg0={}", int_text(a[3].as_i64()))); }
                if a[4].as_atom() != "none" { parts.push(format!("@blob=\"{}\"", &a[4].as_atom()[1..])); }
                parts.extend(a[5..].iter().map(farg_text));
                let diff = if a[0].as_atom() == "none" && matches!(a[0], Sexp::Atom(_)) { String::new() } else { format!("{{\"{}\"}}: ", a[0].as_atom()) };
                t.push_str(&format!("    {diff}ins_{}({});\n", a[1].as_i64(), parts.join(", ")));
            },
            h => panic!("bad flat stmt {h:?}"),
        }
    }
    t.push_str("}\n");
    t
}

// =============================================================================================
// evaluation

fn eval_raise(spec: &LangSpec, arguments: bool, instrs: &[RawInstr]) -> Sexp {
    let (v, cx) = with_lang(spec, |truth, hooks| raise(truth, hooks, arguments, instrs));
    match v {
        Some(stmts) => Sexp::app("ok", vec![Sexp::app("stmts", stmts_sexp(&stmts)), Sexp::app("w", warnings(&cx.diagnostics).into_iter().map(Sexp::str).collect())]),
        None => Sexp::app("err", vec![Sexp::str(first_error(&cx.diagnostics))]),
    }
}

fn eval_lower(spec: &LangSpec, stmts: &[Sexp]) -> Sexp {
    let text = stmts_text(stmts);
    let (v, cx) = with_lang(spec, |truth, hooks| lower(truth, hooks, spec.diff, &text));
    match v {
        Some(instrs) => Sexp::app("ok", instrs.iter().map(instr_sexp).collect()),
        None => Sexp::app("err", vec![Sexp::str(first_error(&cx.diagnostics))]),
    }
}

/// decompile, print with the real formatter, compile the printed text
fn eval_rtm(spec: &LangSpec, arguments: bool, instrs: &[RawInstr]) -> Sexp {
    let mut mid = 0usize;
    let mut ws = vec![];
    let (v, cx) = with_lang(spec, |truth, hooks| {
        let stmts = raise(truth, hooks, arguments, instrs)?;
        let d = truth.get_captured_diagnostics().unwrap_or_default();
        ws = warnings(&d);
        mid = d.len();
        let text = truth::fmt::stringify(&ast::Block(stmts));
        Ok(lower(truth, hooks, spec.diff, &text))
    });
    match v {
        None => Sexp::app("err", vec![Sexp::str(first_error(&cx.diagnostics))]),
        Some(re) => {
            let w = Sexp::app("w", ws.into_iter().map(Sexp::str).collect());
            match re {
                Ok(again) => if again == instrs { Sexp::app("ok", vec![w, Sexp::app("same", vec![])]) } else { Sexp::app("ok", vec![w, Sexp::app("re", again.iter().map(instr_sexp).collect())]) },
                Err(e) => { e.ignore(); Sexp::app("ok", vec![w, Sexp::app("reerr", vec![Sexp::str(first_error(&cx.diagnostics[mid.min(cx.diagnostics.len())..]))])]) },
            }
        },
    }
}

pub fn eval(case: &Sexp) -> Sexp {
    let a = case.args();
    let spec = LangSpec::from_sexp(&a[0]);
    match case.head() {
        Some("raise") => eval_raise(&spec, a[1].as_i64() != 0, &a[2..].iter().map(instr_from).collect::<Vec<_>>()),
        Some("lower") => eval_lower(&spec, &a[1..]),
        Some("rtm") => eval_rtm(&spec, a[1].as_i64() != 0, &a[2..].iter().map(instr_from).collect::<Vec<_>>()),
        _ => Sexp::atom("bad-case"),
    }
}

/// Is the script inside the domain of the property for this language?  The property speaks about script
/// binaries: a format without a parameter mask / difficulty byte / arg0 field never hands the decompiler
/// anything but the default there (the `TestLanguage` has no binary format; it is taken to store the
/// mask iff it has registers, the difficulty iff the case compiles difficulty labels, arg0 iff it is
/// the timeline language).
fn in_domain(spec: &LangSpec, instrs: &[RawInstr]) -> bool {
    let lang = spec.target.language();
    let has_arg0_field = matches!(spec.target, Target::Test(LanguageKey::Timeline) | Target::Real(Game::Th06 | Game::Th07, LanguageKey::Timeline));
    instrs.iter().all(|i| {
        let abi = spec.ops.iter().find(|o| o.0 == i.opcode).map(|o| &o.1);
        let sig_arg0 = matches!(abi.and_then(|a| a.first()), Some(Enc::Int { arg0: true, .. }));
        (spec.has_regs || i.param_mask == 0)
            && (spec.diff || i.difficulty == 0xff)
            && (if has_arg0_field { i.extra_arg.is_some() } else { i.extra_arg.is_none() })
            // a format with an arg0 field has no parameter mask (old ECL timelines)
            && !(sig_arg0 && i.param_mask != 0)
            && !(lang == LanguageKey::Timeline && matches!(spec.target, Target::Real(..)) && i.param_mask != 0)
    })
}

/// The property itself on the flat path: a decompile that printed no warning must recompile to the
/// very same instructions.  (`extra_arg` is compared as written: `None` and `Some(0)` are the same bytes.)
pub fn judge(case: &Sexp, result: &Sexp) -> Option<Failure> {
    if let Some(f) = default_judge(result) { return Some(f); }
    if case.head() != Some("rtm") || result.head() != Some("ok") { return None; }
    let r = result.args();
    if !r[0].args().is_empty() { return None; }      // decompile warned: the permitted exception
    let spec = LangSpec::from_sexp(&case.args()[0]);
    let orig: Vec<RawInstr> = case.args()[2..].iter().map(instr_from).collect();
    if !in_domain(&spec, &orig) { return None; }
    let has_string = |i: &RawInstr| spec.ops.iter().find(|o| o.0 == i.opcode).map(|o| o.1.iter().any(|e| matches!(e, Enc::Str { .. }))).unwrap_or(false);
    let has_float = |i: &RawInstr| spec.ops.iter().find(|o| o.0 == i.opcode).map(|o| o.1.iter().any(|e| matches!(e, Enc::Float { .. }))).unwrap_or(false);
    let what = format!("{case} -> {result}");
    match r[1].head() {
        Some("same") => None,
        Some("reerr") => {
            let class = r[1].args()[0].as_atom();
            let sig = if class.starts_with("string argument too large") && orig.iter().any(|i| has_string(i)) { "flat-roundtrip-differs string-argument-not-as-the-encoder-writes-it".to_string() }
                else { format!("flat-recompile-of-decompiled-script-fails {class}") };
            Some(Failure { signature: sig, what })
        },
        Some("re") => {
            let again: Vec<RawInstr> = r[1].args().iter().map(instr_from).collect();
            let norm = |i: &RawInstr| { let mut i = i.clone(); i.extra_arg = Some(i.extra_arg.unwrap_or(0)); i };
            if again.len() != orig.len() { return Some(Failure { signature: "flat-roundtrip-differs instruction-count".into(), what }); }
            let pairs: Vec<(RawInstr, RawInstr)> = orig.iter().zip(&again).map(|(x, y)| (norm(x), norm(y))).filter(|(x, y)| x != y).collect();
            if pairs.is_empty() { return None; }
            // the root cause first: an instruction whose size changed moves every later offset
            let (x, y) = pairs.iter().find(|(x, y)| x.args_blob.len() != y.args_blob.len()).unwrap_or(&pairs[0]);
            let field = if x.args_blob.len() != y.args_blob.len() { if has_string(x) { "string-argument-not-as-the-encoder-writes-it" } else { "blob-length" } }
                else if x.time != y.time { "time" } else if x.opcode != y.opcode { "opcode" } else if x.difficulty != y.difficulty { "difficulty" }
                else if x.param_mask != y.param_mask { if x.param_mask & !y.param_mask != 0 && x.param_mask & y.param_mask == y.param_mask { "register-bit-on-immediate-parameter" } else { "param-mask" } }
                else if x.extra_arg != y.extra_arg { "arg0" }
                else if has_string(x) { "string-argument-not-as-the-encoder-writes-it" }
                else if has_float(x) && has_noncanonical_nan(&spec, std::slice::from_ref(x)) { "nan-float-immediate" }
                else if has_float(x) && x.param_mask != 0 { "float-register-number" } else { "blob-bytes" };
            Some(Failure { signature: format!("flat-roundtrip-differs {field}"), what })
        },
        _ => None,
    }
}

// =============================================================================================
// generators: languages

fn int_enc(letter: char) -> Enc { Enc::Int { letter, arg0: false, imm: false, hex: false, en: false } }

fn no_enums(mut abi: Vec<Enc>) -> Vec<Enc> { for e in abi.iter_mut() { if let Enc::Int { en, .. } = e { *en = false; } } abi }

const TARGETS: &[Target] = &[
    Target::Test(LanguageKey::Anm), Target::Test(LanguageKey::Anm), Target::Test(LanguageKey::Timeline),
    Target::Real(Game::Th12, LanguageKey::Anm), Target::Real(Game::Th07, LanguageKey::Anm),
    Target::Real(Game::Th07, LanguageKey::Ecl), Target::Real(Game::Th08, LanguageKey::Ecl), Target::Real(Game::Th095, LanguageKey::Ecl),
    Target::Real(Game::Th06, LanguageKey::Std), Target::Real(Game::Th08, LanguageKey::Std), Target::Real(Game::Th12, LanguageKey::Std),
    Target::Real(Game::Th08, LanguageKey::Msg), Target::Real(Game::Th12, LanguageKey::Msg),
    Target::Real(Game::Th07, LanguageKey::Timeline), Target::Real(Game::Th08, LanguageKey::Timeline),
];

fn gen_diff_lines(rng: &mut Rng) -> Vec<(i64, String)> {
    match rng.below(4) {
        0 => vec![],
        1 | 2 => vec![(0, "E-".into()), (1, "N-".into()), (2, "H-".into()), (3, "L-".into()), (4, "4-".into()), (5, "5-".into()), (6, "6-".into()), (7, "7-".into())],
        _ => {
            // fresh names on some bits, some of them on by default (aux bits)
            let names = ['a', 'b', 'c', 'd', 'X', 'Y', 'Z', 'q'];
            let mut out = vec![];
            for i in 0..8 { if rng.chance(1, 2) { out.push((i as i64, format!("{}{}", names[i], if rng.chance(1, 3) { '+' } else { '-' }))); } }
            out
        },
    }
}

pub fn gen_lang(rng: &mut Rng) -> LangSpec {
    let target = rng.pick(TARGETS).clone();
    let hooks = target.hooks();
    let hdr = hooks.instr_format().instr_header_size();
    let has_regs = hooks.has_registers();
    let lang = target.language();
    let mode = target.mode();
    let diff = match &target { Target::Test(_) => rng.chance(1, 2), t => t.real_diff() };
    let arg0_ok = matches!(target, Target::Test(LanguageKey::Timeline) | Target::Real(Game::Th07, LanguageKey::Timeline));
    let mut ops: Vec<(u16, Vec<Enc>)> = vec![];
    let mut next_op = 3000u16 + rng.below(50) as u16;
    let mut push = |ops: &mut Vec<(u16, Vec<Enc>)>, abi: Vec<Enc>| { ops.push((next_op, no_enums(abi))); next_op += 2; };
    // jumps first
    let jump_sigs: Vec<Vec<Enc>> = if mode == "index20" {
        vec![vec![int_enc('S'), Enc::O, Enc::T], vec![Enc::O, Enc::T, Enc::Float { imm: false }], vec![Enc::O, int_enc('S'), int_enc('S')]]
    } else {
        vec![vec![Enc::O, Enc::T], vec![Enc::O], vec![int_enc('S'), Enc::T, Enc::O], vec![Enc::Float { imm: false }, Enc::O, int_enc('s')], vec![Enc::T, Enc::Pad(true), Enc::O]]
    };
    let mut js = jump_sigs.clone();
    rng.shuffle(&mut js);
    for abi in js.into_iter().take(1 + rng.below(2)) {
        let abi = if arg0_ok && rng.chance(1, 2) { let mut a = vec![Enc::Int { letter: 's', arg0: true, imm: rng.chance(1, 2), hex: false, en: false }]; a.extend(abi); a } else { abi };
        push(&mut ops, abi);
    }
    // plain instructions
    for _ in 0..1 + rng.below(3) {
        let mut abi;
        if mode == "index20" {
            // EoSD-PoFV STD: every instruction has 12 argument bytes
            abi = vec![];
            for _ in 0..3 { abi.push(match rng.below(4) { 0 => Enc::Float { imm: false }, 1 => int_enc('U'), 2 => Enc::Pad(true), _ => int_enc('S') }); }
        } else {
            let l = if arg0_ok { c12::Lang::Timeline } else { c12::Lang::Anm };
            let strings = rng.chance(1, 2);
            abi = c12::gen_valid_abi(rng, l, strings);
            // a second jump parameter pair would be fine, but keep the jump signatures above the only ones with `o`
            if abi.iter().any(|e| matches!(e, Enc::O | Enc::T)) { abi.retain(|e| !matches!(e, Enc::O | Enc::T)); }
        }
        push(&mut ops, abi);
    }
    // signatures of the game's own table
    if let Target::Real(g, l) = &target {
        let table: Vec<(i32, Vec<Enc>)> = gensrc::signatures(*g, *l).into_iter().filter(|(op, s)| *op >= 0 && *op < 0xffff && !s.contains("enum="))
            .filter_map(|(op, s)| super::c18::abi_of_sig(&s).map(|a| (op, a))).collect();
        if !table.is_empty() {
            for _ in 0..rng.below(3) {
                let (op, abi) = rng.pick(&table).clone();
                if abi.iter().any(|e| matches!(e, Enc::Int { en: true, .. })) { continue; }
                if !ops.iter().any(|o| o.0 == op as u16) { ops.push((op as u16, abi)); }
            }
        }
    }
    let diff_lines = if diff || rng.chance(1, 4) { gen_diff_lines(rng) } else { vec![] };
    let _ = lang;
    LangSpec { target, hdr, mode, has_regs, diff, ops, diff_lines }
}

// =============================================================================================
// generators: raw instructions

fn le(v: i64, n: usize) -> Vec<u8> { (0..n).map(|k| ((v as u64) >> (8 * k)) as u8).collect() }

fn apply_mask(bytes: &mut [u8], mask: [u8; 3]) {
    let (mut m, mut v, a) = (mask[0], mask[1], mask[2]);
    for b in bytes.iter_mut() { *b ^= m; m = m.wrapping_add(v); v = v.wrapping_add(a); }
}

/// how a string parameter deviates from what `encode_args` writes
#[derive(Copy, Clone, PartialEq, Eq, Debug)]
enum StrQuirk { None, DataAfterNul, ExtraBlock, NoNul }

/// an independent encoder used only to *generate* instruction contents (blob, mask, arg0)
fn encode(abi: &[Enc], args: &[Arg], furi: &mut Option<Vec<u8>>, quirk: StrQuirk, rng: &mut Rng) -> (Vec<u8>, u16, Option<i16>) {
    let mut blob = vec![];
    let (mut mask, mut bit) = (0u16, 0u32);
    let mut arg0 = None;
    let mut it = args.iter();
    for e in abi {
        if let Enc::Pad(w) = e { blob.extend(std::iter::repeat(0u8).take(if *w { 4 } else { 1 })); continue; }
        let Some(a) = it.next() else { break };
        if let Enc::Int { arg0: true, .. } = e { if let Arg::Int(v, _) = a { arg0 = Some(*v as i16); } continue; }
        if a.is_reg() && !e.always_immediate() && bit < 16 { mask |= 1 << bit; }
        bit += 1;
        match (e, a) {
            (Enc::Int { letter, .. }, Arg::Int(v, _)) => blob.extend(le(*v as i64, c12::int_letter_info(*letter).0)),
            (Enc::O, Arg::Int(v, _)) | (Enc::T, Arg::Int(v, _)) => blob.extend(le(*v as i64, 4)),
            (Enc::Float { .. }, Arg::Float(b, _)) => blob.extend(le(*b as i64, 4)),
            (Enc::Str { size, mask: m, furibug, .. }, Arg::Str(s)) => {
                let nulless = matches!(size, StrSize::Fixed(_, true));
                let mut b = s.clone();
                if let StrSize::Fixed(len, _) = size {
                    // a text that cannot fit is cut at a character boundary (the bytes must stay valid Shift-JIS)
                    let avail = len.saturating_sub(!nulless as usize);
                    if b.len() > avail {
                        let text = c12::sjis_decode(&b).unwrap_or_default();
                        b.clear();
                        for ch in text.chars() { let e = c12::sjis_encode(&ch.to_string()).unwrap_or_default(); if b.len() + e.len() > avail { break; } b.extend(e); }
                    }
                }
                if !nulless && quirk != StrQuirk::NoNul { b.push(0); }
                // (without a NUL the pending bytes would become part of the text: not valid Shift-JIS)
                if *furibug { if let Some(f) = furi.take() { if quirk != StrQuirk::NoNul { b.extend(f); } } }
                if quirk == StrQuirk::DataAfterNul { b.extend((0..1 + rng.below(3)).map(|_| 0x41 + rng.below(20) as u8)); }
                match size {
                    StrSize::BlobEnd(bs) | StrSize::Pascal(bs) => {
                        let bs = (*bs).max(1);
                        while b.len() % bs != 0 { b.push(if quirk == StrQuirk::NoNul { 0x42 } else { 0 }); }
                        if quirk == StrQuirk::ExtraBlock { b.extend(std::iter::repeat(0u8).take(bs)); }
                    },
                    StrSize::Fixed(len, _) => { b.resize(*len, if quirk == StrQuirk::NoNul { 0x42 } else { 0 }); },
                }
                apply_mask(&mut b, *m);
                if *furibug && s.first() == Some(&0x7c) { *furi = Some(b.clone()); }
                if let StrSize::Pascal(_) = size { blob.extend(le(b.len() as i64, 4)); }
                blob.extend(b);
            },
            // a type mismatch between generator and signature: write four bytes of something
            _ => blob.extend([0, 0, 0, 0]),
        }
    }
    (blob, mask, arg0)
}

#[derive(Clone, Debug)]
struct PreInstr { time: i32, op: Option<usize>, unknown_op: u16, difficulty: u8, args: Vec<Arg>, quirk: StrQuirk, raw_blob: Vec<u8> }

pub struct RawOpts { pub jumps: bool, pub bad_jumps: bool, pub noncanonical: bool, pub unknown: bool, pub regs: bool }

fn label_bits(mode: &str, cur: u64, dest: i64) -> i32 {
    match mode { "relative" => (dest - cur as i64) as i32, "index20" => (dest / 20) as i32, _ => dest as i32 }
}

/// a script of raw instructions for the language: times, opcodes, difficulty masks, encoded arguments, jumps
pub fn gen_raw(rng: &mut Rng, spec: &LangSpec, o: &RawOpts) -> (Vec<RawInstr>, Vec<&'static str>) {
    let mut tags: Vec<&'static str> = vec![];
    let n = match rng.below(10) { 0 => 0, 1 => 1, _ => 1 + rng.below(8) };
    let times = super::c13::gen_times(rng, n);
    let allow_regs = spec.has_regs && o.regs;
    let mut furi_len = 0usize;
    let mut pre: Vec<PreInstr> = vec![];
    for k in 0..n {
        let difficulty = if spec.diff && rng.chance(1, 2) { if rng.chance(1, 3) { *rng.pick(&[0u8, 1, 0x0f, 0xf0, 0xfe, 0x7f, 0x80, 0x55]) } else { rng.next_u32() as u8 } }
            else if !spec.diff && o.noncanonical && rng.chance(1, 40) { tags.push("difficulty-in-format-without"); rng.next_u32() as u8 } else { 0xff };
        if o.unknown && rng.chance(1, 5) || spec.ops.is_empty() {
            let len = if rng.chance(1, 6) { tags.push("blob-not-dwords"); 1 + rng.below(7) } else { 4 * rng.below(4) };
            pre.push(PreInstr { time: times[k], op: None, unknown_op: 7000 + rng.below(3) as u16, difficulty, args: vec![], quirk: StrQuirk::None, raw_blob: (0..len).map(|_| rng.next_u32() as u8).collect() });
            tags.push("unknown-opcode");
            continue;
        }
        let jump_ops: Vec<usize> = (0..spec.ops.len()).filter(|&i| spec.ops[i].1.contains(&Enc::O)).collect();
        let op = if o.jumps && !jump_ops.is_empty() && rng.chance(2, 5) { *rng.pick(&jump_ops) } else { rng.below(spec.ops.len()) };
        let abi = &spec.ops[op].1;
        let args = c12::gen_args(rng, abi, c12::ArgMode::Valid, allow_regs, &mut furi_len);
        let has_str = abi.iter().any(|e| matches!(e, Enc::Str { .. }));
        let quirk = if o.noncanonical && has_str && rng.chance(1, 2) { *rng.pick(&[StrQuirk::DataAfterNul, StrQuirk::ExtraBlock, StrQuirk::NoNul]) } else { StrQuirk::None };
        match quirk { StrQuirk::DataAfterNul => tags.push("string-data-after-nul"), StrQuirk::ExtraBlock => tags.push("string-overpadded"), StrQuirk::NoNul => tags.push("string-without-nul"), _ => {} }
        pre.push(PreInstr { time: times[k], op: Some(op), unknown_op: 0, difficulty, args, quirk, raw_blob: vec![] });
    }
    // first pass: sizes
    let enc_all = |pre: &[PreInstr], rng: &mut Rng| -> Vec<(Vec<u8>, u16, Option<i16>)> {
        let mut furi = None;
        // the string quirks draw random bytes: use a private stream so that both passes agree
        let mut r = rng.clone();
        pre.iter().map(|p| match p.op { Some(op) => encode(&spec.ops[op].1, &p.args, &mut furi, p.quirk, &mut r), None => (p.raw_blob.clone(), 0, None) }).collect()
    };
    let first = enc_all(&pre, rng);
    let mut offsets = vec![0u64];
    for (b, _, _) in &first { let last = *offsets.last().unwrap(); offsets.push(last + (spec.hdr + b.len()) as u64); }
    // jump arguments
    for k in 0..n {
        let Some(op) = pre[k].op else { continue };
        let abi = spec.ops[op].1.clone();
        let params: Vec<&Enc> = abi.iter().filter(|e| !e.is_padding()).collect();
        let Some(po) = params.iter().position(|e| **e == Enc::O) else { continue };
        tags.push("jump");
        let bad = o.bad_jumps && rng.chance(1, 10);
        let dest_idx = rng.below(n + 1);
        let dest: i64 = if bad { tags.push("bad-jump-offset"); *rng.pick(&[offsets[dest_idx] as i64 + 1, offsets[n] as i64 + 4, -4, offsets[dest_idx] as i64 + spec.hdr as i64]) } else { offsets[dest_idx] as i64 };
        if !bad { tags.push(if dest_idx == n { "jump-to-end" } else if dest_idx == 0 { "jump-to-start" } else if dest_idx <= k { "jump-backward" } else { "jump-forward" }); }
        pre[k].args[po] = Arg::Int(label_bits(spec.mode, offsets[k], dest), false);
        if let Some(pt) = params.iter().position(|e| **e == Enc::T) {
            let dest_time = if dest_idx < n { times[dest_idx] } else { times[n - 1] };
            let prev_time = if dest_idx == 0 { 0 } else { times[dest_idx - 1] };
            let tm = match rng.below(8) { 0..=2 => prev_time, 3..=5 => dest_time, 6 => { let w = false; super::c13::time_value(rng, w) }, _ => prev_time.wrapping_add(dest_time) / 2 };
            pre[k].args[pt] = Arg::Int(tm, false);
        }
    }
    let second = enc_all(&pre, rng);
    let mut out: Vec<RawInstr> = vec![];
    for (p, (blob, mask, arg0)) in pre.iter().zip(second) {
        let opcode = match p.op { Some(op) => spec.ops[op].0, None => p.unknown_op };
        out.push(RawInstr { time: p.time, opcode, param_mask: mask, args_blob: blob, extra_arg: arg0, difficulty: p.difficulty, ..RawInstr::DEFAULTS });
    }
    // targeted deviations from what the compiler writes
    if o.noncanonical && n > 0 {
        for _ in 0..rng.below(3) {
            let k = rng.below(n);
            let abi: Vec<Enc> = match pre[k].op { Some(op) => spec.ops[op].1.clone(), None => vec![] };
            let i = &mut out[k];
            match rng.below(9) {
                0 => {
                    // non-zero padding
                    let mut pos = 0usize;
                    for e in &abi {
                        match e {
                            Enc::Pad(w) => { let wd = if *w { 4 } else { 1 }; let len = i.args_blob.len(); if pos < len { let at = pos + rng.below(wd).min(len - pos - 1); i.args_blob[at] ^= 1 + rng.below(255) as u8; tags.push("nonzero-padding"); } break; },
                            Enc::Int { arg0: true, .. } => {},
                            Enc::Int { letter, .. } => pos += c12::int_letter_info(*letter).0,
                            Enc::O | Enc::T | Enc::Float { .. } => pos += 4,
                            Enc::Str { .. } => break,
                        }
                    }
                },
                1 => { i.args_blob.extend((0..1 + rng.below(4)).map(|_| rng.next_u32() as u8)); tags.push("trailing-bytes"); },
                2 => { let l = i.args_blob.len(); i.args_blob.truncate(l.saturating_sub(1 + rng.below(4))); tags.push("truncated"); },
                3 => {
                    // register bit on a parameter (always-immediate ones included) or beyond the parameters
                    let nparams = abi.iter().filter(|e| !e.is_padding() && !matches!(e, Enc::Int { arg0: true, .. })).count();
                    let bit = if rng.chance(1, 3) { nparams + rng.below(3) } else { rng.below(nparams.max(1)) };
                    if bit < 16 { i.param_mask ^= 1 << bit; tags.push("mask-bit-flipped"); }
                },
                4 => { i.extra_arg = Some(*rng.pick(&[0i16, 1, -1, 4, 300])); tags.push("extra-arg-set"); },
                5 => { if !matches!(abi.first(), Some(Enc::Int { arg0: true, .. })) { i.extra_arg = None; tags.push("extra-arg-cleared"); } },
                6 => {
                    // special values in float-stored register numbers / float immediates
                    let mut pos = 0usize; let mut bit = 0u32;
                    for e in &abi {
                        match e {
                            Enc::Pad(w) => pos += if *w { 4 } else { 1 },
                            Enc::Int { arg0: true, .. } => {},
                            Enc::Int { letter, .. } => { pos += c12::int_letter_info(*letter).0; bit += 1; },
                            Enc::O | Enc::T => { pos += 4; bit += 1; },
                            Enc::Float { imm } => {
                                if pos + 4 <= i.args_blob.len() && rng.chance(1, 2) {
                                    let v = *rng.pick(&[0x8000_0000u32, 0x4f00_0000, 0xcf00_0001, 0x3f00_0000, 0x7f80_0000, 0x7fc0_0000, 0x4f32_d05e, 0x4b80_0001, 0xc2c8_0000]);
                                    i.args_blob[pos..pos + 4].copy_from_slice(&v.to_le_bytes());
                                    if !*imm && bit < 16 && spec.has_regs { i.param_mask |= 1 << bit; }
                                    tags.push("float-register-special-value");
                                    break;
                                }
                                pos += 4; bit += 1;
                            },
                            Enc::Str { .. } => break,
                        }
                    }
                },
                7 => { if abi.iter().all(|e| !matches!(e, Enc::Str { .. })) && !i.args_blob.is_empty() { let p = rng.below(i.args_blob.len()); i.args_blob[p] ^= 1 << rng.below(8); tags.push("byte-flipped"); } },
                _ => { i.time = rng.int_boundary(); tags.push("time-changed"); },
            }
        }
    }
    tags.sort(); tags.dedup();
    (out, tags)
}

fn is_noncanonical_nan(b: &[u8]) -> bool {
    let v = u32::from_le_bytes([b[0], b[1], b[2], b[3]]);
    f32::from_bits(v).is_nan() && v != 0x7fc0_0000
}

/// Does a float immediate hold a NaN other than the canonical one?  Its sign and payload are a matter of
/// the text layer (the literal `NAN`), which the flat model does not cover: such scripts are judged
/// by the property but not compared with the model.
pub fn has_noncanonical_nan(spec: &LangSpec, instrs: &[RawInstr]) -> bool {
    instrs.iter().any(|i| {
        let Some((_, abi)) = spec.ops.iter().find(|o| o.0 == i.opcode) else { return false };
        let mut pos = 0usize;
        for e in abi {
            match e {
                Enc::Pad(w) => pos += if *w { 4 } else { 1 },
                Enc::Int { arg0: true, .. } => {},
                Enc::Int { letter, .. } => pos += c12::int_letter_info(*letter).0,
                Enc::O | Enc::T => pos += 4,
                Enc::Float { .. } => { if pos + 4 <= i.args_blob.len() && is_noncanonical_nan(&i.args_blob[pos..pos + 4]) { return true; } pos += 4; },
                // positions after a string are not fixed: any NaN-looking window counts
                Enc::Str { .. } => return i.args_blob.len() >= 4 && (pos.min(i.args_blob.len() - 4)..=i.args_blob.len() - 4).any(|k| is_noncanonical_nan(&i.args_blob[k..k + 4])),
            }
        }
        false
    })
}

// =============================================================================================
// generators: flat statement lists

fn gen_diff_label(rng: &mut Rng, spec: &LangSpec) -> Sexp {
    let mut names: Vec<char> = vec!['0', '1', '2', '3', '4', '5', '6', '7'];
    for (i, l) in &spec.diff_lines { if (0..8).contains(i) { names[*i as usize] = l.chars().next().unwrap_or('0'); } }
    let mut s = String::new();
    match rng.below(8) {
        0 => s.push('*'),
        1 => {},
        2 => { s.push_str("*-"); s.push(*rng.pick(&names)); },
        3 => { s.push(*rng.pick(&['?', 'w', '_', ' '])); },     // unknown flag / invalid character
        _ => {
            for _ in 0..1 + rng.below(4) { s.push(*rng.pick(&names)); }
            if rng.chance(1, 4) { s.push('-'); s.push(*rng.pick(&names)); }
            if rng.chance(1, 8) { s.push('+'); s.push(*rng.pick(&names)); }
        },
    }
    Sexp::str(s)
}

fn arg_to_flat(a: &Arg) -> Sexp {
    match a {
        Arg::Int(v, false) => Sexp::app("i", vec![Sexp::int(*v)]),
        Arg::Int(v, true) => Sexp::app("r", vec![Sexp::int(*v), Sexp::int(0)]),
        Arg::Float(b, false) => Sexp::app("f", vec![Sexp::int(c12::canon_f(*b))]),
        Arg::Float(b, true) => Sexp::app("r", vec![Sexp::int(f32::from_bits(*b) as i32), Sexp::int(1)]),
        Arg::Str(s) => Sexp::app("s", vec![Sexp::atom(hex(s))]),
    }
}

pub fn gen_stmts(rng: &mut Rng, spec: &LangSpec) -> (Vec<Sexp>, Vec<&'static str>) {
    let mut tags: Vec<&'static str> = vec![];
    let all_names = ["label_0", "label_12", "label_12r", "label_startr", "La", "loop_1"];
    let nlabels = rng.below(all_names.len() + 1);
    let mut names: Vec<&str> = all_names.to_vec();
    rng.shuffle(&mut names);
    let names = &names[..nlabels];
    let mut pending: Vec<&str> = names.to_vec();
    rng.shuffle(&mut pending);
    let pick_label = |rng: &mut Rng, tags: &mut Vec<&'static str>| -> String {
        if nlabels == 0 || rng.chance(1, 25) { tags.push("undefined-label"); "Lundefined".to_string() } else { names[rng.below(nlabels)].to_string() }
    };
    let mut stmts = vec![];
    let mut furi = 0usize;
    let n = 1 + rng.below(10);
    let malformed = rng.chance(1, 5);
    for _ in 0..n {
        match rng.below(14) {
            0 | 1 => { let w = rng.chance(1, 4); stmts.push(Sexp::app("abs", vec![Sexp::int(super::c13::time_value(rng, w))])) },
            2 => { let w = rng.chance(1, 4); stmts.push(Sexp::app("rel", vec![Sexp::int(super::c13::time_value(rng, w))])) },
            3 | 4 => if let Some(l) = pending.pop() {
                stmts.push(Sexp::app("lab", vec![Sexp::str(l)]));
                if malformed && rng.chance(1, 6) { stmts.push(Sexp::app("lab", vec![Sexp::str(l)])); tags.push("duplicate-label"); }
            },
            5 => {
                // @blob call, known or unknown opcode
                let op = if spec.ops.is_empty() || rng.chance(1, 2) { 7000 + rng.below(3) as i64 } else { rng.pick(&spec.ops).0 as i64 };
                let len = if malformed && rng.chance(1, 3) { tags.push("blob-not-dwords"); 1 + rng.below(7) } else { 4 * rng.below(4) };
                let blob: Vec<u8> = (0..len).map(|_| rng.next_u32() as u8).collect();
                let mask = if rng.chance(1, 3) { Sexp::int(rng.below(0x10000) as i64) } else { Sexp::atom("none") };
                let arg0 = if rng.chance(1, 3) { Sexp::int(*rng.pick(&[0i64, 1, -1, 300, 32767, -32768])) } else { Sexp::atom("none") };
                let diff = if (spec.diff || (malformed && rng.chance(1, 4))) && rng.chance(1, 3) { gen_diff_label(rng, spec) } else { Sexp::atom("none") };
                let mut items = vec![diff, Sexp::int(op), mask, arg0, Sexp::atom(hex(&blob))];
                if malformed && rng.chance(1, 6) { items.push(Sexp::app("i", vec![Sexp::int(1)])); tags.push("blob-and-args"); }
                stmts.push(Sexp::app("ins", items));
                tags.push("blob-call");
            },
            _ if !spec.ops.is_empty() => {
                let (op, abi) = rng.pick(&spec.ops).clone();
                let mode = if malformed && rng.chance(1, 3) { tags.push("misfit-argument"); *rng.pick(&[c12::ArgMode::IntMisfit, c12::ArgMode::StringTooLarge, c12::ArgMode::BadReg]) } else { c12::ArgMode::Valid };
                let allow_regs = if malformed && rng.chance(1, 6) { true } else { spec.has_regs && rng.chance(2, 3) };
                let plain = c12::gen_args(rng, &abi, mode, allow_regs, &mut furi);
                let params: Vec<&Enc> = abi.iter().filter(|e| !e.is_padding()).collect();
                let mut args: Vec<Sexp> = vec![];
                for (e, a) in params.iter().zip(&plain) {
                    let replace = match e { Enc::O | Enc::T => rng.chance(4, 5), Enc::Int { arg0: false, letter, .. } => rng.chance(1, if c12::int_letter_info(*letter).0 < 4 { 10 } else { 5 }), _ => false };
                    if replace {
                        let l = pick_label(rng, &mut tags);
                        let as_time = match e { Enc::T => true, Enc::O => false, _ => rng.chance(1, 2) };
                        args.push(Sexp::app(if as_time { "tof" } else { "off" }, vec![Sexp::str(l)]));
                        tags.push("label-argument");
                    } else { args.push(arg_to_flat(a)); }
                }
                if malformed && rng.chance(1, 8) { if rng.chance(1, 2) { args.pop(); } else { args.push(Sexp::app("i", vec![Sexp::int(7)])); } tags.push("wrong-arity"); }
                if malformed && rng.chance(1, 8) && !args.is_empty() { let k = rng.below(args.len()); args[k] = if args[k].head() == Some("f") { Sexp::app("i", vec![Sexp::int(3)]) } else { Sexp::app("f", vec![Sexp::int(0x3f80_0000u32)]) }; tags.push("wrong-type"); }
                let has_arg0 = matches!(abi.first(), Some(Enc::Int { arg0: true, .. }));
                let arg0 = if rng.chance(1, if has_arg0 { 12 } else { 6 }) { tags.push("explicit-arg0"); Sexp::int(*rng.pick(&[0i64, 1, -1, 300, 32767])) } else { Sexp::atom("none") };
                let mask = if rng.chance(1, 10) { tags.push("explicit-mask"); Sexp::int(rng.below(0x10000) as i64) } else { Sexp::atom("none") };
                let diff = if (spec.diff || (malformed && rng.chance(1, 4))) && rng.chance(1, 3) { tags.push("difficulty-label"); gen_diff_label(rng, spec) } else { Sexp::atom("none") };
                let mut items = vec![diff, Sexp::int(op), mask, arg0, Sexp::atom("none")];
                items.extend(args);
                stmts.push(Sexp::app("ins", items));
            },
            _ => {},
        }
    }
    if rng.chance(5, 6) { for l in pending.drain(..) { stmts.push(Sexp::app("lab", vec![Sexp::str(l)])); } }
    if malformed && rng.chance(1, 10) { stmts.push(Sexp::app("ins", vec![Sexp::atom("none"), Sexp::int(7005), Sexp::atom("none"), Sexp::atom("none"), Sexp::atom("none")])); tags.push("unknown-signature-call"); }
    tags.sort(); tags.dedup();
    (stmts, tags)
}

// =============================================================================================
// case lists

fn case_of(head: &str, spec: &LangSpec, arguments: Option<bool>, body: Vec<Sexp>) -> Sexp {
    let mut v = vec![spec.to_sexp()];
    if let Some(a) = arguments { v.push(Sexp::int(a as i64)); }
    v.extend(body);
    Sexp::app(head, v)
}

fn target_tag(t: &Target) -> String {
    match t { Target::Test(l) => format!("flat-test-{}", lang_name(*l)), Target::Real(g, l) => format!("flat-real-{}-{g}", lang_name(*l)) }
}

fn fixed_cases() -> Vec<Case> {
    let anm = "(lang 4 absolute 1 0 ((900 ((i S 0 0 0 0))) (901 ((o) (t))) (902 ((i S 0 1 0 0))) (903 ((f 0))) (904 ((z z bs 4 0 0 0 0 0)))) () (test anm))";
    let ecl = "(lang 12 relative 1 1 ((900 ((i S 0 0 0 0))) (901 ((i S 0 0 0 0) (o) (t)))) ((0 \"E-\") (1 \"N-\") (2 \"H-\") (3 \"L-\")) (real th07 ecl))";
    let texts = [
        // labels: `r` label, shared label, label at the end, start label
        format!("(raise {anm} 1 (0 900 255 0 none x01000000) (10 901 255 0 none x000000000a000000) (20 901 255 0 none x080000000a000000))"),
        format!("(rtm {anm} 1 (10 901 255 0 none x0000000000000000) (20 901 255 0 none x0c0000000a000000) (20 901 255 0 none x2400000014000000))"),
        format!("(rtm {anm} 1 (-1 900 255 0 none x01000000) (0 900 255 1 none x10270000) (5 901 255 0 none x0800000000000000))"),
        // the former `label_0r` collision
        format!("(rtm {anm} 1 (10 901 255 0 none x0000000000000000) (20 901 255 0 none x0c0000000a000000))"),
        // silent losses (known findings): register bit on an immediate parameter, float register -0.0, over-padded string
        format!("(rtm {anm} 1 (0 902 255 1 none x01000000))"),
        format!("(rtm {anm} 1 (0 903 255 1 none x00000080))"),
        format!("(rtm {anm} 1 (0 904 255 0 none x6100000000000000))"),
        // blob fallback
        format!("(rtm {anm} 0 (0 900 255 0 none x01000000) (7 901 255 3 none x0000000000000000))"),
        format!("(rtm {anm} 1 (0 999 255 0 none x0102))"),
        format!("(raise {anm} 0 (0 900 255 2 5 x01000000))"),
        // relative jumps, difficulty masks
        format!("(rtm {ecl} 1 (0 900 1 0 none x01000000) (10 901 254 0 none x02000000f0ffffff00000000) (10 901 15 0 none x03000000180000000a000000))"),
        format!("(lower {anm} (lab \"label_0\") (ins none 900 none none none (i 1)) (rel 10) (ins none 901 none none none (off \"label_0\") (tof \"label_0\")))"),
        format!("(lower {anm} (lab \"a\") (lab \"a\") (ins none 900 none none none (i 1)))"),
        format!("(lower {anm} (ins none 900 7 2 none (i 1)) (ins \"E\" 900 none none none (i 1)))"),
        format!("(lower {ecl} (ins \"EN\" 900 none none none (r -10001 0)) (ins \"*-E\" 901 none none none (i 1) (off \"end\") (i 0)) (lab \"end\"))"),
    ];
    texts.iter().map(|t| Case::corr(crate::sexp::parse(t).unwrap_or_else(|e| panic!("bad fixed case {t}: {e:?}"))).tag("flat-fixed")).collect()
}

pub fn gen(tier: Tier, rng: &mut Rng) -> Vec<Case> {
    let scale = if tier == Tier::Quick { 1 } else { 25 };
    let mut out = fixed_cases();
    // raise: canonical scripts with jumps
    let mut r = rng.fork(11);
    for k in 0..900 * scale {
        let spec = gen_lang(&mut r);
        let canonical = k % 3 != 2;
        let opts = RawOpts { jumps: true, bad_jumps: !canonical, noncanonical: !canonical, unknown: k % 4 == 0, regs: true };
        let (instrs, tags) = gen_raw(&mut r, &spec, &opts);
        let arguments = !r.chance(1, 8);
        // The model keeps strings as bytes (Shift-JIS is a parameter, C15).  A damaged blob whose string bytes are
        // not valid Shift-JIS makes the real decoder stop with "could not read string using encoding" - a text-codec
        // matter outside this model: such scripts are not used as model-compared cases.
        let undecodable = std::panic::catch_unwind(std::panic::AssertUnwindSafe(|| eval_raise(&spec, true, &instrs)))
            .map(|res| res.head() == Some("err") && res.args().first().map_or(false, |a| a.as_atom().contains("could not read string using encoding"))).unwrap_or(false);
        if undecodable { continue; }
        let body: Vec<Sexp> = instrs.iter().map(instr_sexp).collect();
        let mut c = Case::corr(case_of("raise", &spec, Some(arguments), body.clone())).tag(target_tag(&spec.target)).tag(if canonical { "raise-canonical" } else { "raise-noncanonical" }).trivial(instrs.is_empty());
        if !arguments { c = c.tag("no-arguments"); }
        for t in &tags { c = c.tag(format!("raw-{t}")); }
        out.push(c);
        // the same script through decompile + real formatter + compile, model-compared and judged
        let nan = arguments && has_noncanonical_nan(&spec, &instrs);
        let mut c = if nan { Case::search(case_of("rtm", &spec, Some(arguments), body)).tag("rtm-nan-float-immediate-judged-only") } else { Case::corr(case_of("rtm", &spec, Some(arguments), body)) };
        c = c.tag(target_tag(&spec.target)).tag(if canonical { "rtm-canonical" } else { "rtm-noncanonical" }).trivial(instrs.is_empty());
        for t in &tags { c = c.tag(format!("raw-{t}")); }
        out.push(c);
    }
    // all 256 difficulty masks through a language with difficulty
    let mut r = rng.fork(12);
    for m in 0..256u32 {
        if tier == Tier::Quick && m % 4 != (r.below(4) as u32) && !(m < 2 || m > 253) { continue; }
        let mut spec = gen_lang(&mut r);
        while !spec.diff { spec = gen_lang(&mut r); }
        let (mut instrs, _) = gen_raw(&mut r, &spec, &RawOpts { jumps: false, bad_jumps: false, noncanonical: false, unknown: false, regs: true });
        if instrs.is_empty() { continue; }
        instrs[0].difficulty = m as u8;
        out.push(Case::corr(case_of("rtm", &spec, Some(true), instrs.iter().map(instr_sexp).collect())).tag("difficulty-mask-sweep"));
    }
    // lower: statement lists written directly
    let mut r = rng.fork(13);
    for _ in 0..900 * scale {
        let spec = gen_lang(&mut r);
        let (stmts, tags) = gen_stmts(&mut r, &spec);
        let nt = stmts.iter().any(|s| s.head() == Some("ins"));
        let mut c = Case::corr(case_of("lower", &spec, None, stmts)).tag(target_tag(&spec.target)).tag("lower").trivial(!nt);
        for t in &tags { c = c.tag(format!("stmt-{t}")); }
        out.push(c);
    }
    out
}

pub fn is_flat_case(case: &Sexp) -> bool { matches!(case.head(), Some("raise" | "lower" | "rtm")) }

pub fn neighbours(case: &Sexp) -> Vec<Case> {
    // a disagreement on the decompiled statements: does the round trip still hold on the same input?
    match case.head() {
        Some("raise") => { let mut v = vec![Sexp::atom("rtm")]; v.extend(case.args().iter().cloned()); vec![Case::search(Sexp::list(v))] },
        _ => vec![],
    }
}

