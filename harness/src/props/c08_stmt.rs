//! C08, statement layer: the model-compared cases of Lean `Model/FmtStmt.lean`.
//!
//! * `(sprint W STMT)`   text of `stringify_with(stmt, max_columns(W))` or `(fmtpanic msg)`  == `FmtStmt.renderStmt W`
//! * `(bprint W BLOCK)`  the same for an `ast::Block`                                              == `FmtStmt.renderBlock W`
//! * `(stoks W STMT)`    real lexer on that text, commas in front of `)` dropped == the tokens `FmtStmt.printStmt`
//!                       where `FmtStmt.OKS` holds (the hypothesis that the text lexes to the written tokens),
//!                       `Fmt.lex` of the model's text elsewhere
//! * `(sparse "text")`   `parse::<ast::Stmt>` as a canonical tree / reject                         == `FmtStmt.parseStmtText`
//! * `(bparse "text")`   `parse::<ast::Block>`                                                     == `FmtStmt.parseBlockText`
//!
//! The S-expression grammar of statements is documented in `lean/TruthModel/Driver/C08.lean`.
//! Items as statements (`const` declarations, function definitions) are not modelled: the
//! generators do not produce them and text that could be read as one is filtered out.

use super::{Case, Tier};
use super::c08::{eval_lex, lex_text_ok};
use super::c08_expr::{build_expr, expr_sexp, ExprGen, UNLIMITED};
use crate::rng::Rng;
use crate::sexp::Sexp;
use truth::ast;
use truth::pos::Sp;
use truth::ident::Ident;
use truth::fmt::{stringify_with, Config};
use std::collections::VecDeque;

// =================================================================================================
// S-expression -> ast

fn ident(s: &str) -> Ident { Ident::new_system(s).expect("ascii identifier") }

fn build_var(s: &Sexp) -> ast::Var {
    match build_expr(&Sexp::app("var", vec![s.clone()])) { ast::Expr::Var(v) => v.value, _ => unreachable!() }
}

fn cond_kw(s: &Sexp) -> ast::CondKeyword { if s.as_atom() == "unless" { ast::CondKeyword::Unless } else { ast::CondKeyword::If } }

fn assign_op(name: &str) -> ast::AssignOpKind {
    ast::AssignOpKind::iter().find(|k| format!("{k:?}") == name).unwrap_or_else(|| panic!("bad assign op {name}"))
}

fn type_kw(name: &str) -> ast::TypeKeyword {
    match name { "int" => ast::TypeKeyword::Int, "float" => ast::TypeKeyword::Float, "string" => ast::TypeKeyword::String, "var" => ast::TypeKeyword::Var, "void" => ast::TypeKeyword::Void, _ => panic!("bad type {name}") }
}
fn type_name(k: ast::TypeKeyword) -> &'static str {
    match k { ast::TypeKeyword::Int => "int", ast::TypeKeyword::Float => "float", ast::TypeKeyword::String => "string", ast::TypeKeyword::Var => "var", ast::TypeKeyword::Void => "void" }
}

fn build_jump(s: &Sexp) -> ast::StmtJumpKind {
    let a = s.args();
    match s.head() {
        Some("goto") => ast::StmtJumpKind::Goto(ast::StmtGoto { destination: sp!(ident(a[0].as_atom())), time: a.get(1).map(|t| sp!(t.as_i32())) }),
        _ => ast::StmtJumpKind::BreakContinue { keyword: sp!(ast::BreakContinueKeyword::Break), loop_id: None },
    }
}

fn bookend() -> Sp<ast::Stmt> { sp!(ast::Stmt { node_id: None, diff_label: None, offset_comment: None, kind: ast::StmtKind::NoInstruction }) }

pub fn build_block(s: &Sexp) -> ast::Block {
    let mut v = vec![bookend()];
    for st in s.args() { v.push(sp!(build_stmt(st))); }
    v.push(bookend());
    ast::Block(v)
}

fn build_kind(s: &Sexp) -> ast::StmtKind {
    let a = s.args();
    match s.head() {
        Some("jump") => ast::StmtKind::Jump(build_jump(&a[0])),
        Some("ret") => ast::StmtKind::Return { keyword: sp!(()), value: a.first().map(|e| sp!(build_expr(e))) },
        Some("condjump") => ast::StmtKind::CondJump { keyword: sp!(cond_kw(&a[0])), cond: sp!(build_expr(&a[1])), jump: build_jump(&a[2]) },
        Some("chain") => {
            let mut cond_blocks = vec![ast::CondBlock { keyword: sp!(cond_kw(&a[0])), cond: sp!(build_expr(&a[1])), block: build_block(&a[2]) }];
            let mut else_block = None;
            for c in &a[3..] {
                let ca = c.args();
                match c.head() {
                    Some("else") => else_block = Some(build_block(&ca[0])),
                    _ => cond_blocks.push(ast::CondBlock { keyword: sp!(cond_kw(&ca[0])), cond: sp!(build_expr(&ca[1])), block: build_block(&ca[2]) }),
                }
            }
            ast::StmtKind::CondChain(ast::StmtCondChain { cond_blocks, else_block })
        },
        Some("loop") => ast::StmtKind::Loop { loop_id: None, keyword: sp!(()), block: build_block(&a[0]) },
        Some("while") => ast::StmtKind::While { loop_id: None, while_keyword: sp!(()), do_keyword: None, cond: sp!(build_expr(&a[0])), block: build_block(&a[1]) },
        Some("dowhile") => ast::StmtKind::While { loop_id: None, while_keyword: sp!(()), do_keyword: Some(sp!(())), cond: sp!(build_expr(&a[1])), block: build_block(&a[0]) },
        Some("times") => ast::StmtKind::Times {
            loop_id: None, keyword: sp!(()),
            clobber: if a[0].head().is_some() { Some(sp!(build_var(&a[0]))) } else { None },
            count: sp!(build_expr(&a[1])), block: build_block(&a[2]),
        },
        Some("expr") => ast::StmtKind::Expr(sp!(build_expr(&a[0]))),
        Some("block") => ast::StmtKind::Block(build_block(&a[0])),
        Some("assign") => ast::StmtKind::Assignment { var: sp!(build_var(&a[0])), op: sp!(assign_op(a[1].as_atom())), value: sp!(build_expr(&a[2])) },
        Some("decl") => ast::StmtKind::Declaration {
            ty_keyword: sp!(type_kw(a[0].as_atom())),
            vars: a[1..].iter().map(|v| { let p = v.as_list(); sp!((sp!(build_var(&p[0])), p.get(1).map(|e| sp!(build_expr(e))))) }).collect(),
        },
        Some("callsub") => ast::StmtKind::CallSub {
            at_symbol: a[0].as_atom() == "at",
            async_: match &a[1] { x if x.head() == Some("asyncid") => Some(ast::CallAsyncKind::CallAsyncId(Box::new(sp!(build_expr(&x.args()[0]))))), Sexp::Atom(x) if x == "async" => Some(ast::CallAsyncKind::CallAsync), _ => None },
            func: sp!(ident(a[2].as_atom())),
            args: a[3..].iter().map(|e| sp!(build_expr(e))).collect(),
        },
        Some("label") => ast::StmtKind::Label(sp!(ident(a[0].as_atom()))),
        Some("interrupt") => ast::StmtKind::InterruptLabel(sp!(build_expr(&a[0]))),
        Some("abstime") => ast::StmtKind::AbsTimeLabel(sp!(a[0].as_i32())),
        Some("reltime") => ast::StmtKind::RelTimeLabel { delta: sp!(build_expr(&a[0])), _absolute_time_comment: None },
        _ => panic!("bad statement case {s}"),
    }
}

pub fn build_stmt(s: &Sexp) -> ast::Stmt {
    let a = s.args();
    let diff_label = if a[0].head() == Some("d") {
        Some(sp!(ast::DiffLabel { mask: None, string: sp!(ast::LitString { string: a[0].args()[0].as_atom().to_string() }) }))
    } else { None };
    ast::Stmt { node_id: None, diff_label, offset_comment: None, kind: build_kind(&a[1]) }
}

// =================================================================================================
// ast -> canonical S-expression (expressions in source order: the float texts are consumed in that order)

type Ft = VecDeque<String>;

fn var_sexp(v: &ast::Var, ft: &mut Ft) -> Sexp {
    let e = expr_sexp(&ast::Expr::Var(sp!(v.clone())), ft);
    e.args()[0].clone()
}

fn jump_sexp(j: &ast::StmtJumpKind) -> Sexp {
    match j {
        ast::StmtJumpKind::Goto(ast::StmtGoto { destination, time }) => {
            let mut v = vec![Sexp::str(destination.value.as_str())];
            if let Some(t) = time { v.push(Sexp::int(t.value)); }
            Sexp::app("goto", v)
        },
        ast::StmtJumpKind::BreakContinue { .. } => Sexp::app("break", vec![]),
    }
}

fn kw_sexp(k: ast::CondKeyword) -> Sexp { Sexp::atom(if k == ast::CondKeyword::Unless { "unless" } else { "if" }) }

pub fn block_sexp(b: &ast::Block, ft: &mut Ft) -> Sexp {
    Sexp::app("b", b.0.iter().filter(|s| !matches!(s.kind, ast::StmtKind::NoInstruction)).map(|s| stmt_sexp(s, ft)).collect())
}

fn kind_sexp(k: &ast::StmtKind, ft: &mut Ft) -> Sexp {
    match k {
        ast::StmtKind::Item(_) => Sexp::app("item", vec![]),
        ast::StmtKind::Jump(j) => Sexp::app("jump", vec![jump_sexp(j)]),
        ast::StmtKind::Return { value, .. } => Sexp::app("ret", value.iter().map(|e| expr_sexp(e, ft)).collect()),
        ast::StmtKind::CondJump { keyword, cond, jump } => { let c = expr_sexp(cond, ft); Sexp::app("condjump", vec![kw_sexp(keyword.value), c, jump_sexp(jump)]) },
        ast::StmtKind::CondChain(ast::StmtCondChain { cond_blocks, else_block }) => {
            let mut v = vec![];
            for (i, cb) in cond_blocks.iter().enumerate() {
                let c = expr_sexp(&cb.cond, ft);
                let b = block_sexp(&cb.block, ft);
                if i == 0 { v.push(kw_sexp(cb.keyword.value)); v.push(c); v.push(b); } else { v.push(Sexp::app("elif", vec![kw_sexp(cb.keyword.value), c, b])); }
            }
            if let Some(b) = else_block { v.push(Sexp::app("else", vec![block_sexp(b, ft)])); }
            Sexp::app("chain", v)
        },
        ast::StmtKind::Loop { block, .. } => Sexp::app("loop", vec![block_sexp(block, ft)]),
        ast::StmtKind::While { do_keyword: None, cond, block, .. } => { let c = expr_sexp(cond, ft); Sexp::app("while", vec![c, block_sexp(block, ft)]) },
        ast::StmtKind::While { do_keyword: Some(_), cond, block, .. } => { let b = block_sexp(block, ft); Sexp::app("dowhile", vec![b, expr_sexp(cond, ft)]) },
        ast::StmtKind::Times { clobber, count, block, .. } => {
            let c = match clobber { Some(v) => var_sexp(v, ft), None => Sexp::atom("_") };
            let n = expr_sexp(count, ft);
            Sexp::app("times", vec![c, n, block_sexp(block, ft)])
        },
        ast::StmtKind::Expr(e) => Sexp::app("expr", vec![expr_sexp(e, ft)]),
        ast::StmtKind::Block(b) => Sexp::app("block", vec![block_sexp(b, ft)]),
        ast::StmtKind::Assignment { var, op, value } => { let v = var_sexp(var, ft); Sexp::app("assign", vec![v, Sexp::atom(format!("{:?}", op.value)), expr_sexp(value, ft)]) },
        ast::StmtKind::Declaration { ty_keyword, vars } => {
            let mut v = vec![Sexp::atom(type_name(ty_keyword.value))];
            for p in vars {
                let mut item = vec![var_sexp(&p.value.0, ft)];
                if let Some(e) = &p.value.1 { item.push(expr_sexp(e, ft)); }
                v.push(Sexp::list(item));
            }
            Sexp::app("decl", v)
        },
        ast::StmtKind::CallSub { at_symbol, async_, func, args } => {
            let args: Vec<Sexp> = args.iter().map(|e| expr_sexp(e, ft)).collect();
            let a = match async_ { None => Sexp::atom("_"), Some(ast::CallAsyncKind::CallAsync) => Sexp::atom("async"), Some(ast::CallAsyncKind::CallAsyncId(e)) => Sexp::app("asyncid", vec![expr_sexp(e, ft)]) };
            let mut v = vec![Sexp::atom(if *at_symbol { "at" } else { "noat" }), a, Sexp::str(func.value.as_str())];
            v.extend(args);
            Sexp::app("callsub", v)
        },
        ast::StmtKind::Label(l) => Sexp::app("label", vec![Sexp::str(l.value.as_str())]),
        ast::StmtKind::InterruptLabel(e) => Sexp::app("interrupt", vec![expr_sexp(e, ft)]),
        ast::StmtKind::AbsTimeLabel(t) => Sexp::app("abstime", vec![Sexp::int(t.value)]),
        ast::StmtKind::RelTimeLabel { delta, .. } => Sexp::app("reltime", vec![expr_sexp(delta, ft)]),
        ast::StmtKind::ScopeEnd(_) => Sexp::app("scopeend", vec![]),
        ast::StmtKind::NoInstruction => Sexp::app("noinstr", vec![]),
    }
}

pub fn stmt_sexp(s: &ast::Stmt, ft: &mut Ft) -> Sexp {
    let d = match &s.diff_label { Some(d) => Sexp::app("d", vec![Sexp::str(d.string.string.clone())]), None => Sexp::atom("_") };
    Sexp::app("stmt", vec![d, kind_sexp(&s.kind, ft)])
}

fn float_token_texts(text: &str) -> Ft {
    use truth::parse::lexer::{Lexer, Token};
    let src = truth::pos::SourceStr::from_full_source(None, text);
    let mut out = VecDeque::new();
    for r in Lexer::new(src) {
        if let Ok((l, Token::LitFloat(_), r)) = r { out.push_back(text[u32::from(l.1) as usize..u32::from(r.1) as usize].to_string()); }
    }
    out
}

// =================================================================================================
// evaluation

/// the text, or the message of the formatter's panic
fn print_at<T: truth::fmt::Format>(x: &T, w: usize) -> Result<String, String> {
    std::panic::catch_unwind(std::panic::AssertUnwindSafe(|| stringify_with(x, Config::new().max_columns(w)))).map_err(|p| {
        if let Some(s) = p.downcast_ref::<&str>() { s.to_string() } else if let Some(s) = p.downcast_ref::<String>() { s.clone() } else { "?".to_string() }
    })
}

fn text_result(r: Result<String, String>) -> Sexp {
    match r { Ok(t) => Sexp::app("ok", vec![Sexp::str(t)]), Err(m) => Sexp::app("fmtpanic", vec![Sexp::str(m)]) }
}

fn drop_trailing_commas(toks: &Sexp) -> Sexp {
    let items = toks.as_list();
    let is = |s: &Sexp, t: &str| s.head() == Some("punct") && s.args().first().map(|x| x.as_atom() == t).unwrap_or(false);
    let mut out = vec![];
    for (i, t) in items.iter().enumerate() {
        if is(t, ",") && items.get(i + 1).map(|n| is(n, ")")).unwrap_or(false) { continue; }
        out.push(t.clone());
    }
    Sexp::List(out)
}

/// the grammar alone (`truth::parse::Parse::parse`: lexer + LALRPOP parser, no id-assignment
/// passes - `Truth::parse` would also reject a `break` outside a loop, which is not syntax).
/// `Err(true)` = the parser panicked
fn parse_grammar<A: truth::parse::Parse>(text: &str) -> Result<A, bool> {
    match std::panic::catch_unwind(std::panic::AssertUnwindSafe(|| <A as truth::parse::Parse>::parse(text).map_err(|_| ()))) {
        Ok(Ok(x)) => Ok(x),
        Ok(Err(())) => Err(false),
        Err(_) => Err(true),
    }
}

fn parse_stmt_tree(text: &str) -> Result<Sexp, bool> {
    parse_grammar::<ast::Stmt>(text).map(|s| { let mut ft = float_token_texts(text); stmt_sexp(&s, &mut ft) })
}
fn parse_block_tree(text: &str) -> Result<Sexp, bool> {
    parse_grammar::<ast::Block>(text).map(|b| { let mut ft = float_token_texts(text); block_sexp(&b, &mut ft) })
}
fn tree_result(r: Result<Sexp, bool>) -> Sexp {
    match r { Ok(t) => Sexp::app("ok", vec![t]), Err(false) => Sexp::atom("reject"), Err(true) => Sexp::atom("parser-panic") }
}

pub fn eval(case: &Sexp) -> Option<Sexp> {
    let a = case.args();
    Some(match case.head() {
        Some("sprint") => text_result(print_at(&build_stmt(&a[1]), a[0].as_usize())),
        Some("bprint") => text_result(print_at(&build_block(&a[1]), a[0].as_usize())),
        Some("stoks") => match print_at(&build_stmt(&a[1]), a[0].as_usize()) {
            Ok(text) => drop_trailing_commas(&eval_lex(&text)),
            Err(m) => Sexp::app("fmtpanic", vec![Sexp::str(m)]),
        },
        Some("sparse") => tree_result(parse_stmt_tree(a[0].as_atom())),
        Some("bparse") => tree_result(parse_block_tree(a[0].as_atom())),
        _ => return None,
    })
}

// =================================================================================================
// generators

const LABELS: &[&str] = &["lbl", "end", "loop_start", "L0", "Exit", "label_12", "case", "x", "Enemy", "E", "true", "INF", "mapfile", "script"];
const BAD_LABELS: &[&str] = &["if", "sin", "int", "REG", "ins_5", "else", "goto", "var", "async", "times", "offsetof", "_S"];
const FUNCS: &[&str] = &["f", "sub0", "Boss1", "foo", "Enemy", "default", "anim"];
const DIFFS: &[&str] = &["EN", "HL", "*", "E", "NHL", "ENHL", "-", "4567", "O", "", "a\"b", "q\\", "\u{65e5}", "line\nfeed"];
const ASSIGN_OPS: &[&str] = &["Assign", "Add", "Sub", "Mul", "Div", "Rem", "BitOr", "BitXor", "BitAnd", "ShiftLeft", "ShiftRightSigned", "ShiftRightUnsigned"];
const TIMES: &[i64] = &[0, 1, 10, 60, -1, -5, -30, 2147483647, -2147483648, -2147483647, 1000000, 65536, 7];

pub struct StmtGen<'a> { pub rng: &'a mut Rng, pub wild: bool }

impl<'a> StmtGen<'a> {
    fn eg(&mut self) -> ExprGen<'_> { ExprGen { rng: &mut *self.rng, glue: false } }
    fn expr(&mut self, d: u32) -> Sexp {
        if self.wild && self.rng.chance(1, 6) { ExprGen { rng: &mut *self.rng, glue: true }.expr(d) } else { self.eg().expr(d) }
    }
    fn label(&mut self) -> String { if self.wild && self.rng.chance(1, 8) { self.rng.pick(BAD_LABELS).to_string() } else { self.rng.pick(LABELS).to_string() } }
    fn var(&mut self) -> Sexp {
        let e = loop { let x = self.eg().atom(0); if x.head() == Some("var") { break x; } };
        e.args()[0].clone()
    }
    fn plain_var(&mut self) -> Sexp { Sexp::app("v", vec![Sexp::atom("none"), Sexp::atom("n"), Sexp::str(self.label())]) }
    fn time(&mut self) -> i64 { if self.rng.chance(1, 4) { self.rng.next_u32() as i32 as i64 } else { *self.rng.pick(TIMES) } }
    fn jump(&mut self) -> Sexp {
        match self.rng.below(3) {
            0 => Sexp::app("goto", vec![Sexp::str(self.label())]),
            1 => { let t = self.time(); Sexp::app("goto", vec![Sexp::str(self.label()), Sexp::int(t)]) },
            _ => Sexp::app("break", vec![]),
        }
    }
    pub fn block(&mut self, d: u32) -> Sexp {
        let n = self.rng.below(if d == 0 { 3 } else { 5 });
        Sexp::app("b", (0..n).map(|_| self.stmt(d)).collect())
    }
    fn diff(&mut self) -> Sexp { Sexp::app("d", vec![Sexp::str(*self.rng.pick(DIFFS))]) }
    pub fn kind(&mut self, d: u32) -> Sexp {
        let n = if d == 0 { 13 } else { 20 };
        match self.rng.below(n) {
            0 | 1 => Sexp::app("expr", vec![self.eg().expr(2)]),
            2 => Sexp::app("expr", vec![self.expr(1)]),
            3 | 4 => Sexp::app("assign", vec![self.var(), Sexp::atom(*self.rng.pick(ASSIGN_OPS)), self.expr(2)]),
            5 => {
                let ty = if self.wild && self.rng.chance(1, 5) { *self.rng.pick(&["string", "void"]) } else { *self.rng.pick(&["int", "float", "var"]) };
                let n = self.rng.below(4);
                let mut v = vec![Sexp::atom(ty)];
                for _ in 0..n {
                    let var = if self.wild && self.rng.chance(1, 6) { self.var() } else { self.plain_var() };
                    v.push(Sexp::list(if self.rng.chance(1, 2) { vec![var, self.expr(1)] } else { vec![var] }));
                }
                Sexp::app("decl", v)
            },
            6 => Sexp::app("jump", vec![self.jump()]),
            7 => Sexp::app("condjump", vec![Sexp::atom(*self.rng.pick(&["if", "unless"])), self.expr(2), self.jump()]),
            8 => if self.rng.chance(1, 2) { Sexp::app("ret", vec![]) } else { Sexp::app("ret", vec![self.expr(2)]) },
            9 => {
                let at = self.rng.chance(1, 2);
                let a = match self.rng.below(3) { 0 => Sexp::atom("_"), 1 => Sexp::atom("async"), _ => Sexp::app("asyncid", vec![self.expr(1)]) };
                let a = if !at && !self.wild && a == Sexp::atom("_") { Sexp::atom("async") } else { a };
                let mut v = vec![Sexp::atom(if at { "at" } else { "noat" }), a, Sexp::str(if self.wild && self.rng.chance(1, 8) { *self.rng.pick(BAD_LABELS) } else { *self.rng.pick(FUNCS) })];
                for _ in 0..self.rng.below(4) { v.push(self.expr(1)); }
                Sexp::app("callsub", v)
            },
            10 => Sexp::app("label", vec![Sexp::str(self.label())]),
            11 => match self.rng.below(3) {
                0 => { let t = self.time(); Sexp::app("abstime", vec![Sexp::int(t)]) },
                1 => {
                    // (a delta that starts with `++` is the known plus-before-plus glue; confined to the wild stream)
                    let e = loop { let e = self.expr(1); if self.wild || !(e.head() == Some("xcr") && e.args()[0].as_atom() == "pre" && e.args()[1].as_atom() == "inc") { break e; } };
                    Sexp::app("reltime", vec![e])
                },
                _ => Sexp::app("interrupt", vec![self.expr(1)]),
            },
            12 => Sexp::app("interrupt", vec![Sexp::app("int", vec![Sexp::int(self.rng.below(9) as i64), Sexp::atom("signed"), Sexp::atom("dec")])]),
            13 | 14 => {
                let mut v = vec![Sexp::atom(*self.rng.pick(&["if", "unless"])), self.expr(2), self.block(d - 1)];
                for _ in 0..self.rng.below(3) { v.push(Sexp::app("elif", vec![Sexp::atom(*self.rng.pick(&["if", "unless"])), self.expr(1), self.block(d - 1)])); }
                if self.rng.chance(1, 2) { v.push(Sexp::app("else", vec![self.block(d - 1)])); }
                Sexp::app("chain", v)
            },
            15 => Sexp::app("loop", vec![self.block(d - 1)]),
            16 => Sexp::app("while", vec![self.expr(2), self.block(d - 1)]),
            17 => Sexp::app("dowhile", vec![self.block(d - 1), self.expr(2)]),
            18 => { let c = if self.rng.chance(1, 2) { self.var() } else { Sexp::atom("_") }; Sexp::app("times", vec![c, self.expr(1), self.block(d - 1)]) },
            _ => Sexp::app("block", vec![self.block(d - 1)]),
        }
    }
    pub fn stmt(&mut self, d: u32) -> Sexp {
        let k = self.kind(d);
        let physical = !matches!(k.head(), Some("label") | Some("abstime") | Some("reltime"));
        let diff = if self.rng.chance(1, 6) && (physical || (self.wild && self.rng.chance(1, 3))) { self.diff() } else { Sexp::atom("_") };
        Sexp::app("stmt", vec![diff, k])
    }
}

fn var_named(n: &str) -> Sexp { Sexp::app("var", vec![Sexp::app("v", vec![Sexp::atom("none"), Sexp::atom("n"), Sexp::str(n)])]) }
fn v_named(n: &str) -> Sexp { Sexp::app("v", vec![Sexp::atom("none"), Sexp::atom("n"), Sexp::str(n)]) }
fn int_lit(n: i64) -> Sexp { Sexp::app("int", vec![Sexp::int(n), Sexp::atom("signed"), Sexp::atom("dec")]) }
fn plain(k: Sexp) -> Sexp { Sexp::app("stmt", vec![Sexp::atom("_"), k]) }
fn call(name: &str, args: Vec<Sexp>) -> Sexp { let mut v = vec![Sexp::app("n", vec![Sexp::str(name)]), Sexp::app("ps", vec![])]; v.extend(args); Sexp::app("call", v) }

/// one of every statement kind (small, fixed): used behind labels, in every block position, ...
fn one_of_each() -> Vec<Sexp> {
    let b = |v: Vec<Sexp>| Sexp::app("b", v);
    let x = var_named("x");
    let e = Sexp::app("bin", vec![Sexp::atom("Add"), var_named("a"), int_lit(1)]);
    vec![
        Sexp::app("expr", vec![call("f", vec![int_lit(1), e.clone()])]),
        Sexp::app("expr", vec![Sexp::app("call", vec![Sexp::app("ins", vec![Sexp::int(23)]), Sexp::app("ps", vec![]), x.clone()])]),
        Sexp::app("expr", vec![Sexp::app("xcr", vec![Sexp::atom("post"), Sexp::atom("inc"), v_named("x")])]),
        Sexp::app("expr", vec![Sexp::app("un", vec![Sexp::atom("CastI"), x.clone()])]),
        Sexp::app("expr", vec![Sexp::app("str", vec![Sexp::str("s")])]),
        Sexp::app("expr", vec![int_lit(-3)]),
        Sexp::app("assign", vec![v_named("x"), Sexp::atom("Assign"), e.clone()]),
        Sexp::app("decl", vec![Sexp::atom("int"), Sexp::list(vec![v_named("a"), e.clone()]), Sexp::list(vec![v_named("b")])]),
        Sexp::app("decl", vec![Sexp::atom("var")]),
        Sexp::app("jump", vec![Sexp::app("goto", vec![Sexp::str("L")])]),
        Sexp::app("jump", vec![Sexp::app("goto", vec![Sexp::str("L"), Sexp::int(-5)])]),
        Sexp::app("jump", vec![Sexp::app("break", vec![])]),
        Sexp::app("condjump", vec![Sexp::atom("if"), e.clone(), Sexp::app("goto", vec![Sexp::str("L"), Sexp::int(10)])]),
        Sexp::app("condjump", vec![Sexp::atom("unless"), x.clone(), Sexp::app("break", vec![])]),
        Sexp::app("ret", vec![]),
        Sexp::app("ret", vec![e.clone()]),
        Sexp::app("callsub", vec![Sexp::atom("at"), Sexp::atom("_"), Sexp::str("f"), x.clone()]),
        Sexp::app("callsub", vec![Sexp::atom("at"), Sexp::atom("async"), Sexp::str("f")]),
        Sexp::app("callsub", vec![Sexp::atom("noat"), Sexp::app("asyncid", vec![int_lit(3)]), Sexp::str("f"), x.clone(), e.clone()]),
        Sexp::app("label", vec![Sexp::str("lbl")]),
        Sexp::app("abstime", vec![Sexp::int(-30)]),
        Sexp::app("reltime", vec![int_lit(5)]),
        Sexp::app("interrupt", vec![int_lit(2)]),
        Sexp::app("chain", vec![Sexp::atom("if"), x.clone(), b(vec![])]),
        Sexp::app("chain", vec![Sexp::atom("if"), x.clone(), b(vec![]), Sexp::app("elif", vec![Sexp::atom("unless"), e.clone(), b(vec![])]), Sexp::app("else", vec![b(vec![])])]),
        Sexp::app("loop", vec![b(vec![])]),
        Sexp::app("while", vec![x.clone(), b(vec![])]),
        Sexp::app("dowhile", vec![b(vec![]), x.clone()]),
        Sexp::app("times", vec![Sexp::atom("_"), int_lit(3), b(vec![])]),
        Sexp::app("times", vec![v_named("c"), int_lit(3), b(vec![])]),
        Sexp::app("block", vec![b(vec![])]),
    ]
}

/// every position a block can stand in, holding `inner`
fn block_positions(inner: Sexp) -> Vec<Sexp> {
    let x = var_named("x");
    let e = || Sexp::app("b", vec![]);
    vec![
        Sexp::app("chain", vec![Sexp::atom("if"), x.clone(), inner.clone()]),
        Sexp::app("chain", vec![Sexp::atom("if"), x.clone(), e(), Sexp::app("elif", vec![Sexp::atom("if"), x.clone(), inner.clone()])]),
        Sexp::app("chain", vec![Sexp::atom("unless"), x.clone(), e(), Sexp::app("elif", vec![Sexp::atom("unless"), x.clone(), e()]), Sexp::app("else", vec![inner.clone()])]),
        Sexp::app("chain", vec![Sexp::atom("if"), x.clone(), e(), Sexp::app("else", vec![inner.clone()])]),
        Sexp::app("loop", vec![inner.clone()]),
        Sexp::app("while", vec![x.clone(), inner.clone()]),
        Sexp::app("dowhile", vec![inner.clone(), x.clone()]),
        Sexp::app("times", vec![Sexp::atom("_"), x.clone(), inner.clone()]),
        Sexp::app("times", vec![v_named("c"), x.clone(), inner.clone()]),
        Sexp::app("block", vec![inner]),
    ]
}

const STMT_TEXTS: &[&str] = &[
    // else binding (a body is always a block)
    "if (a) { } else { }", "if (a) { } else if (b) { } else { }", "if (a) { } else { } else { }", "if (a) { } else if (b) { } else { } else if (c) { }",
    "if (a) { if (b) { } else { } }", "if (a) { if (b) { } } else { }", "if (a) if (b) { } else { }", "if (a) f(); else g();", "if (a) { } else f();", "if (a) { } else goto L;",
    "if (a) { } else if (b) goto L;", "if (a) goto L; else { }", "else { }", "if (a) { } else", "if (a) { } else unless (b) { }", "unless (a) { } else if (b) { } else unless (c) { }",
    "if a { }", "if (a) { ", "if () { }", "if (a : b) { }", "if (a ? b : c) { }", "if (a) { } { }", "if (a) {} else {} ;", "if (a) break;", "if (a) break", "if (a) goto L @ 3;", "unless (x == 1) goto L @ -0x10;",
    // loops
    "loop { }", "loop { break; }", "loop f();", "loop", "while (a) { }", "while (a) f();", "while a { }", "do { } while (a);", "do { } while (a)", "do { } while a;", "do f(); while (a);", "do { }", "do { } until (a);",
    "times(3) { }", "times(x = 3) { }", "times($x = 3) { }", "times(REG[1] = 3) { }", "times(x = y = 3) { }", "times((x) = 3) { }", "times(x += 3) { }", "times(3 = x) { }", "times() { }", "times(x =) { }", "times(x) { }", "times(x ? 1 : 2) { }", "times(a : b) { }",
    "times(x++ = 3) { }", "times(x.y = 3) { }", "times(f(x) = 3) { }", "times 3 { }", "times(x = 3, 4) { }", "times(-x = 3) { }",
    // jumps / return
    "goto L;", "goto L", "goto;", "goto L @ 5;", "goto L @ -5;", "goto L @ - 5;", "goto L @ --5;", "goto L @ x;", "goto L @ (5);", "goto L @ 4294967295;", "goto L @ 4294967296;", "goto L @ -2147483648;", "goto L @ -4294967295;", "goto L @;", "goto L @ 0x10;", "goto L @ 1.0;",
    "goto if;", "goto sin;", "goto ins_3;", "goto case;", "goto L M;", "break;", "break", "break 1;", "continue;", "return;", "return", "return 1;", "return a : b;", "return a ? b : c;", "return (a);", "return f(x) + 1;", "return;;", "return return;",
    // labels
    "lbl:", "lbl :", "lbl::", "lbl: :", "lbl", "if:", "sin:", "int:", "REG:", "ins_5:", "case:", "true:", "x: y:", "x: f();", "$x:", "x.y:", "x():", "(x):",
    "10:", "-10:", "- 10:", "--10:", "+10:", "+ 10:", "++10:", "+-10:", "+(-10):", "+x:", "+(a + b):", "+a + b:", "+a ? b : c:", "+(a ? b : c):", "+a : b:", "+(a : b):", "+:", "+;", "+10;", "0x10:", "-0x10:", "4294967295:", "4294967296:", "-4294967296:", "-2147483648:", "1.0:", "-1.0:", "10", "10;", "-10;", "+++x:", "+ ++x:", "+x++:", "+--x:", "+f(x):", "-x:", "3 + 4:", "(3):",
    "interrupt[1]:", "interrupt[1]", "interrupt[1];", "interrupt[]:", "interrupt[a : b]:", "interrupt[a ? b : c]:", "interrupt[x + 1]:", "interrupt [ 1 ] :", "interrupt(1):", "interrupt[1]: f();", "interrupt[1, 2]:", "interrupt[f(1, 2)]:", "interrupt[-1]:", "interrupt:",
    // difficulty labels
    "{\"E\"}: f();", "{\"E\"}:  f();", "{\"E\"} f();", "{\"E\"}: lbl:", "{\"E\"}: 10:", "{\"E\"}: +10:", "{\"E\"}: interrupt[1]:", "{\"E\"}: { }", "{\"E\"}: {\"N\"}: f();", "{\"E\"}:", "{\"E\"}", "{ \"E\" } : x = 1;", "{\"E\"; }", "{ \"E\"; }", "{\"E\" + 1; }", "{E}: f();", "{\"\\q\"}: f();", "{\"a\\\"b\"}: f();",
    "{\"E\"}: if (a) { } else { }", "{\"E\"}: goto L;", "{\"E\"}: return;", "{\"E\"}: int x;", "{\"E\"}: @f();", "{\"E\"}: loop { }", "{\"E\"}: times(2) { }", "{\"E\"}: do { } while (a);", "{\"E\"}: x++;", "{\"E\", \"N\"}: f();", "{1}: f();",
    // blocks
    "{ }", "{ { } }", "{ { { } } { } }", "{ f(); }", "{ f() }", "{ ; }", "{", "}", "{ } }", "{ lbl: }", "{ 10: f(); +5: g(); }", "{ x: y: z: }", "{ \"s\"; }", "{ \"s\" }", "{ { \"s\"; } }",
    // expression statements, assignments, declarations
    "f();", "f()", "f(1, 2,);", "ins_23(a, b);", "x;", "x++;", "++x;", "x = 1;", "x = 1", "x == 1;", "x = = 1;", "x = y = 1;", "(x) = 1;", "x++ = 1;", "x.y = 1;", "f(x) = 1;", "$x = 1;", "%x = 1.0;", "REG[3] = 1;", "$REG[-3] += 1;", "-x = 1;", "x = a : b;", "x = a ? b : c;", "x = a ? b : c : d;",
    "x += 1;", "x -= 1;", "x *= 1;", "x /= 1;", "x %= 1;", "x |= 1;", "x ^= 1;", "x &= 1;", "x <<= 1;", "x >>= 1;", "x >>>= 1;", "x <= 1;", "x =+ 1;", "x = -1;", "x =- 1;", "x - = 1;", "x < <= 1;", "x >>>>= 1;", "%x %= 2;", "x % = 2;", "x %= %y;", "x && = 1;", "x ||= 1;", "x ~= 1;",
    "a ? b : c;", "(a ? b : c);", "a : b;", "(a : b);", "1;", "-1;", "1 + 2;", "\"s\";", "sin(x);", "int(x);", "float(x);", "int (x) + 1;", "$(x);", "%(x);", "_S(x);", "offsetof(l);", "E.v;", "-x;", "!x;", "~x;", ";", ";;", "f();;", "x = ;", "= 1;", "f(@mask=1);", "ins_1(@blob=\"00\");",
    "int x;", "int x = 1;", "int x = 1, y;", "int x, y = 2, z;", "int x,;", "int ,x;", "int;", "int ;", "float;", "var;", "var x;", "var x = 1.0;", "int x = a : b;", "int x = a ? b : c, y;", "int $x;", "int %x;", "int REG[1];", "int x y;", "int x = 1 y;", "int x == 1;", "int x += 1;", "int sin;", "int int;", "int if;", "int case;", "int x = ;", "int 3;", "int x.y;", "float x = 1.0, y = 2.0;", "float(x) = 1;", "int(x), y;",
    // explicit sub calls
    "@f();", "@f(1, 2);", "@f(1,);", "@f() async;", "@f() async 3;", "@f() async x + 1;", "@f() async (a : b);", "@f() async a : b;", "@f() async a ? b : c;", "@f() async (a ? b : c);", "@f() async async;", "@f(@mask=1);", "@f(@mask=1) async;", "@ f ( ) ;", "@f;", "@f() ;", "@f()", "@();", "@3();", "@ins_3();", "@sin();", "@if();", "@case();", "@f()();", "@f() + 1;", "@@f();", "@f() async", "@x = 1;",
    "f() async;", "f(1, 2) async 3;", "f() async x;", "f(@mask=1) async;", "(f()) async;", "f() + 1 async;", "ins_3() async;", "sin(x) async;", "x async;", "f() async async;", "f() async; g();", "f() async 1 2;", "x.y() async;", "f()() async;", "-f() async;", "f() async -1;", "f() async (1);", "async;", "async();", "async = 1;", "f() async, g();",
    // keywords in the wrong place
    "else;", "while;", "do;", "times;", "loop;", "goto = 1;", "break = 1;", "return = 1;", "interrupt = 1;", "if = 1;", "async: ", "times: ", "default:", "default = 1;", "case = 1;", "script = 1;", "mapfile();", "entry.x;", "anim++;", "sub:", "switch (x) { }", "global x;", "insdef x;",
];

fn statement_vocab() -> &'static [&'static str] {
    &["a", "b", "x", "L", "f", "ins_3", "REG", "[", "]", "(", ")", "(", ")", ",", "?", ":", ":", "+", "-", "*", "==", "<", "||", "!", "$", "%", "++", "--", ".", "@", "=", "=", "+=", "<<=", ">>>=", "%=",
      "1", "10", "0x1F", "4294967296", "1.5", "\"s\"", "\"E\"", "sin", "int", "float", "var", ";", ";", ";", "{", "}", "{", "}", "if", "unless", "else", "do", "while", "times", "loop", "goto", "break", "return", "interrupt", "async", "case", "true"]
}

/// text that may be read as an item statement (`const ..`, a function definition): not modelled
fn maybe_item(text: &str) -> bool {
    let toks: Vec<&str> = text.split(|c: char| c.is_whitespace()).filter(|t| !t.is_empty()).collect();
    for (i, t) in toks.iter().enumerate() {
        if matches!(*t, "const" | "inline" | "void" | "string") { return true; }
        if matches!(*t, "int" | "float") {
            if let (Some(n), Some(p)) = (toks.get(i + 1), toks.get(i + 2)) {
                if n.chars().next().map(|c| c.is_ascii_alphabetic() || c == '_').unwrap_or(false) && p.starts_with('(') { return true; }
            }
        }
    }
    // glued forms (`int f(`)
    let compact: String = text.split_whitespace().collect::<Vec<_>>().join(" ");
    for ty in ["int ", "float ", "void", "const", "inline", "string"] {
        if let Some(pos) = compact.find(ty) {
            let rest = &compact[pos + ty.len()..];
            if ty.ends_with(' ') {
                let id_len = rest.chars().take_while(|c| c.is_ascii_alphanumeric() || *c == '_').count();
                if id_len > 0 && rest[id_len..].trim_start().starts_with('(') { return true; }
            } else { return true; }
        }
    }
    false
}

fn token_texts(text: &str) -> Vec<String> {
    eval_lex(text).args().iter().skip(1).map(|t| t.args()[0].as_atom().to_string()).collect()
}

fn push_parse(out: &mut Vec<Case>, head: &str, text: String, tag: &str) {
    if lex_text_ok(&text) && !maybe_item(&text) { out.push(Case::corr(Sexp::app(head, vec![Sexp::str(text)])).tag(tag.to_string())); }
}

/// everything that is compared for one statement AST
fn push_stmt(out: &mut Vec<Case>, s: Sexp, tag: &str, widths: &[usize]) {
    let ast1 = build_stmt(&s);
    out.push(Case::corr(Sexp::app("sprint", vec![Sexp::int(UNLIMITED as i64), s.clone()])).tag(format!("sprint-{tag}")));
    out.push(Case::corr(Sexp::app("stoks", vec![Sexp::int(UNLIMITED as i64), s.clone()])).tag(format!("stoks-{tag}")));
    for &w in widths {
        out.push(Case::corr(Sexp::app("sprint", vec![Sexp::int(w as i64), s.clone()])).tag(format!("sprintw-{tag}")));
        out.push(Case::corr(Sexp::app("stoks", vec![Sexp::int(w as i64), s.clone()])).tag(format!("stoksw-{tag}")));
    }
    let text = match print_at(&ast1, UNLIMITED) { Ok(t) => t, Err(_) => return };
    push_parse(out, "sparse", text.clone(), &format!("sparse-printed-{tag}"));
    if let Some(&w) = widths.first() {
        if let Ok(narrow) = print_at(&ast1, w) { if narrow != text { push_parse(out, "sparse", narrow, &format!("sparse-printed-narrow-{tag}")); } }
    }
    if lex_text_ok(&text) && !maybe_item(&text) {
        if let Ok(t) = parse_stmt_tree(&text) {
            out.push(Case::corr(Sexp::app("sprint", vec![Sexp::int(UNLIMITED as i64), t])).tag(format!("sprint-reparsed-{tag}")));
        }
    }
}

fn push_block(out: &mut Vec<Case>, b: Sexp, tag: &str, widths: &[usize]) {
    let ast1 = build_block(&b);
    out.push(Case::corr(Sexp::app("bprint", vec![Sexp::int(UNLIMITED as i64), b.clone()])).tag(format!("bprint-{tag}")));
    for &w in widths { out.push(Case::corr(Sexp::app("bprint", vec![Sexp::int(w as i64), b.clone()])).tag(format!("bprintw-{tag}"))); }
    if let Ok(text) = print_at(&ast1, UNLIMITED) { push_parse(out, "bparse", text, &format!("bparse-printed-{tag}")); }
    if let Some(&w) = widths.first() { if let Ok(text) = print_at(&ast1, w) { push_parse(out, "bparse", text, &format!("bparse-printed-narrow-{tag}")); } }
}

pub fn gen(tier: Tier, rng: &mut Rng, out: &mut Vec<Case>) {
    let quick = tier == Tier::Quick;
    let scale = if quick { 1 } else { 20 };
    let each = one_of_each();

    // ---- one of every statement kind, alone, behind every kind of label, and under a difficulty label
    for k in &each {
        push_stmt(out, plain(k.clone()), "each-kind", &[12, 30]);
        push_stmt(out, Sexp::app("stmt", vec![Sexp::app("d", vec![Sexp::str("EN")]), k.clone()]), "each-kind-diff", &[20]);
        for lab in [Sexp::app("label", vec![Sexp::str("lbl")]), Sexp::app("abstime", vec![Sexp::int(-30)]), Sexp::app("abstime", vec![Sexp::int(2147483647)]), Sexp::app("reltime", vec![int_lit(5)]), Sexp::app("interrupt", vec![int_lit(1)])] {
            push_block(out, Sexp::app("b", vec![plain(lab.clone()), plain(k.clone())]), "label-before-each-kind", &[16]);
            push_block(out, Sexp::app("b", vec![plain(k.clone()), plain(lab.clone())]), "label-after-each-kind", &[]);
            push_block(out, Sexp::app("b", vec![plain(lab.clone()), Sexp::app("stmt", vec![Sexp::app("d", vec![Sexp::str("H")]), k.clone()]), plain(lab)]), "label-around-diff-kind", &[]);
        }
    }
    // ---- every block position holding every statement kind / a nested block position
    for k in &each {
        for p in block_positions(Sexp::app("b", vec![plain(k.clone())])) { push_stmt(out, plain(p), "block-position", &[14]); }
    }
    for p in block_positions(Sexp::app("b", vec![])) {
        for q in block_positions(Sexp::app("b", vec![plain(p.clone()), plain(Sexp::app("label", vec![Sexp::str("end")]))])) { push_stmt(out, plain(q), "block-position-nested", &[]); }
    }
    // ---- every assign-op with every kind of variable
    for op in ASSIGN_OPS {
        for v in [v_named("x"), Sexp::app("v", vec![Sexp::atom("int"), Sexp::atom("n"), Sexp::str("I0")]), Sexp::app("v", vec![Sexp::atom("float"), Sexp::atom("r"), Sexp::int(-10001)]), Sexp::app("v", vec![Sexp::atom("none"), Sexp::atom("r"), Sexp::int(3)])] {
            for e in [int_lit(1), int_lit(-1), Sexp::app("bin", vec![Sexp::atom("Rem"), var_named("a"), var_named("b")]), Sexp::app("switch", vec![var_named("a"), Sexp::atom("_"), var_named("b")]), Sexp::app("tern", vec![var_named("a"), var_named("b"), var_named("c")]), Sexp::app("var", vec![Sexp::app("v", vec![Sexp::atom("float"), Sexp::atom("n"), Sexp::str("y")])])] {
                push_stmt(out, plain(Sexp::app("assign", vec![v.clone(), Sexp::atom(*op), e])), "assign-op", &[]);
            }
        }
    }
    // ---- time labels and goto times over boundary values
    let mut times: Vec<i64> = TIMES.to_vec();
    times.extend(crate::rng::INT_BOUNDARY.iter().map(|&v| v as i64));
    for _ in 0..20 * scale { times.push(rng.next_u32() as i32 as i64); }
    for t in times {
        push_stmt(out, plain(Sexp::app("abstime", vec![Sexp::int(t)])), "abstime", &[]);
        push_stmt(out, plain(Sexp::app("jump", vec![Sexp::app("goto", vec![Sexp::str("L"), Sexp::int(t)])])), "goto-time", &[]);
        push_stmt(out, plain(Sexp::app("condjump", vec![Sexp::atom("unless"), var_named("x"), Sexp::app("goto", vec![Sexp::str("L"), Sexp::int(t)])])), "goto-time", &[]);
        push_stmt(out, plain(Sexp::app("reltime", vec![int_lit(t)])), "reltime", &[]);
    }
    // ---- relative time labels / interrupt labels over expression shapes (incl. the known glue `+ ++x`, and calls that break the line)
    {
        let shapes = vec![
            Sexp::app("xcr", vec![Sexp::atom("pre"), Sexp::atom("inc"), v_named("x")]), Sexp::app("xcr", vec![Sexp::atom("pre"), Sexp::atom("dec"), v_named("x")]), Sexp::app("xcr", vec![Sexp::atom("post"), Sexp::atom("inc"), v_named("x")]),
            Sexp::app("bin", vec![Sexp::atom("Add"), var_named("a"), int_lit(1)]), Sexp::app("tern", vec![var_named("a"), int_lit(1), int_lit(2)]), Sexp::app("switch", vec![int_lit(1), int_lit(2)]),
            Sexp::app("un", vec![Sexp::atom("Neg"), var_named("x")]), call("f", vec![int_lit(1), int_lit(2), var_named("somewhat_long_name")]), Sexp::app("flt", vec![Sexp::int(0x40200000), Sexp::str("2.5")]), Sexp::app("str", vec![Sexp::str("s")]),
        ];
        for e in shapes {
            for k in ["reltime", "interrupt"] {
                push_stmt(out, plain(Sexp::app(k, vec![e.clone()])), "label-expr", &[8, 25]);
                push_stmt(out, Sexp::app("stmt", vec![Sexp::app("d", vec![Sexp::str("E")]), Sexp::app(k, vec![e.clone()])]), "label-expr-diff", &[8, 25]);
                push_block(out, Sexp::app("b", vec![plain(Sexp::app("interrupt", vec![int_lit(1)])), Sexp::app("stmt", vec![Sexp::app("d", vec![Sexp::str("E")]), Sexp::app(k, vec![e.clone()])]), plain(Sexp::app("interrupt", vec![int_lit(2)])), plain(Sexp::app(k, vec![e.clone()]))]), "label-expr-block", &[8]);
            }
        }
    }
    // ---- times with and without counter
    for c in [Sexp::atom("_"), v_named("c"), Sexp::app("v", vec![Sexp::atom("int"), Sexp::atom("n"), Sexp::str("I1")]), Sexp::app("v", vec![Sexp::atom("none"), Sexp::atom("r"), Sexp::int(-1)]), Sexp::app("v", vec![Sexp::atom("float"), Sexp::atom("r"), Sexp::int(7)])] {
        for n in [int_lit(3), int_lit(-3), var_named("n"), Sexp::app("bin", vec![Sexp::atom("Sub"), var_named("a"), int_lit(1)]), Sexp::app("tern", vec![var_named("a"), int_lit(1), int_lit(2)]), Sexp::app("switch", vec![int_lit(1), Sexp::atom("_"), int_lit(2)]), call("f", vec![var_named("a")])] {
            push_stmt(out, plain(Sexp::app("times", vec![c.clone(), n, Sexp::app("b", vec![plain(Sexp::app("jump", vec![Sexp::app("break", vec![])]))])])), "times", &[]);
        }
    }
    // ---- shapes the parser cannot produce but the formatter accepts
    {
        let x = var_named("x");
        let shapes = vec![
            Sexp::app("stmt", vec![Sexp::app("d", vec![Sexp::str("E")]), Sexp::app("label", vec![Sexp::str("lbl")])]),
            Sexp::app("stmt", vec![Sexp::app("d", vec![Sexp::str("E")]), Sexp::app("abstime", vec![Sexp::int(10)])]),
            plain(Sexp::app("callsub", vec![Sexp::atom("noat"), Sexp::atom("_"), Sexp::str("f"), x.clone()])),
            plain(Sexp::app("decl", vec![Sexp::atom("string"), Sexp::list(vec![v_named("s")])])),
            plain(Sexp::app("decl", vec![Sexp::atom("void"), Sexp::list(vec![v_named("s")])])),
            plain(Sexp::app("decl", vec![Sexp::atom("int"), Sexp::list(vec![Sexp::app("v", vec![Sexp::atom("int"), Sexp::atom("n"), Sexp::str("s")])])])),
            plain(Sexp::app("decl", vec![Sexp::atom("int"), Sexp::list(vec![Sexp::app("v", vec![Sexp::atom("none"), Sexp::atom("r"), Sexp::int(3)])])])),
            plain(Sexp::app("label", vec![Sexp::str("if")])),
            plain(Sexp::app("jump", vec![Sexp::app("goto", vec![Sexp::str("sin")])])),
            plain(Sexp::app("callsub", vec![Sexp::atom("at"), Sexp::atom("_"), Sexp::str("ins_3")])),
            plain(Sexp::app("expr", vec![Sexp::app("switch", vec![x.clone(), x.clone()])])),
            plain(Sexp::app("expr", vec![Sexp::app("tern", vec![x.clone(), x.clone(), x.clone()])])),
        ];
        for s in shapes { push_stmt(out, s, "formatter-only-shape", &[10]); }
    }
    // ---- random statements: inside the fragment of the theorems, and wild
    for i in 0..500 * scale {
        let wild = i % 5 == 4;
        let depth = (i % 3) as u32;
        let s = StmtGen { rng, wild }.stmt(depth);
        let w1 = 1 + rng.below(30);
        let w2 = 30 + rng.below(70);
        push_stmt(out, s, if wild { "random-wild" } else { "random" }, &[w1, w2]);
    }
    for i in 0..150 * scale {
        let wild = i % 5 == 4;
        let b = StmtGen { rng, wild }.block(1 + (i % 2) as u32);
        let w = 1 + rng.below(60);
        push_block(out, b, if wild { "random-wild" } else { "random" }, &[w]);
    }
    // ---- hand-written statement texts, as a statement and inside a block
    for t in STMT_TEXTS {
        push_parse(out, "sparse", t.to_string(), "sparse-text");
        push_parse(out, "bparse", format!("{{ {t} }}"), "bparse-text");
        push_parse(out, "bparse", format!("{{ f(); {t} g(); }}"), "bparse-text-between");
    }
    // ---- every keyword of the lexer where a statement can start / where a label or a name can stand
    for kw in ["anim", "ecli", "meta", "sub", "script", "entry", "var", "int", "float", "insdef", "return", "goto", "loop", "if", "else", "unless", "do", "while",
               "times", "break", "switch", "case", "default", "interrupt", "async", "global", "pragma", "mapfile", "image_source", "offsetof", "timeof", "sin", "sqrt",
               "_S", "_f", "REG", "continue", "true", "INF", "ins_", "ins_1", "rad", "pop"] {
        for t in [format!("{kw};"), format!("{kw}:"), format!("{kw}();"), format!("{kw} = 1;"), format!("goto {kw};"), format!("@{kw}();"), format!("{kw}() async;"), format!("int {kw};"), format!("{kw} x;"), format!("{kw} {{ }}"), format!("{kw} (x) {{ }}"), format!("times({kw} = 1) {{ }}"), format!("f() async {kw};")] {
            push_parse(out, "sparse", t, "sparse-keyword");
        }
    }
    // ---- mutated printed statements: drop / duplicate / swap / replace one token
    for _ in 0..400 * scale {
        let s = StmtGen { rng, wild: false }.stmt(1);
        let text = match print_at(&build_stmt(&s), UNLIMITED) { Ok(t) => t, Err(_) => continue };
        if !lex_text_ok(&text) { continue; }
        let mut toks = token_texts(&text);
        if toks.len() < 2 { continue; }
        let k = rng.below(toks.len());
        match rng.below(4) {
            0 => { toks.remove(k); },
            1 => { let w = toks[k].clone(); toks.insert(k, w); },
            2 => { let j = rng.below(toks.len()); toks.swap(k, j); },
            _ => { toks[k] = rng.pick(statement_vocab()).to_string(); },
        }
        push_parse(out, "sparse", toks.join(" "), "sparse-mutated-print");
    }
    // ---- token soups over the statement vocabulary
    for _ in 0..1200 * scale {
        let n = 1 + rng.below(10);
        let t = (0..n).map(|_| *rng.pick(statement_vocab())).collect::<Vec<_>>().join(" ");
        if rng.chance(1, 2) { push_parse(out, "sparse", t, "sparse-soup"); } else { push_parse(out, "bparse", format!("{{ {t} }}"), "bparse-soup"); }
    }
}
