//! C18 — the debug info describes the file that was actually written.
//!
//! corr   `(low TARGET HASREGS ((OP ABI)...) (STMT...))`: a straight-line lowering-level stream (calls whose
//!        arguments may be `offsetof(label)` / `timeof(label)`, labels, time labels, `@blob` calls) through
//!        the real `Lowerer` — under a `TestLanguage` with generated signatures (`TARGET = test`) or through
//!        the real compiler of a game format with the game's own signatures (`TARGET = (real FORMAT GAME
//!        LANG IFMT)`) — debug-info instruction offsets, labels (name, offset, time), end offset and the
//!        emitted instructions (time, opcode, argument bytes) == Lean `Offsets.lowerTail`.
//! search `(prog FORMAT GAME (MAPS) TEXT (EXPECT...))`: a generated program of a real format is compiled,
//!        the debug-info document is written by `Truth::prepare_and_write_debug_info`, the WRITTEN BINARY is
//!        parsed by the independent layout parser below (`layout`), and both are compared.

use super::{Case, Failure, Prop, Tier, default_judge, fail};
use super::c12::{self, Enc, StrSize, Arg};
use crate::rng::Rng;
use crate::sexp::{Sexp, hex, unhex};
use crate::tc::{self, Format};
use crate::gensrc;
use crate::util::diag_class;
use truth::{ast, Game, LanguageKey};
use std::collections::BTreeMap;

pub struct C18;

// =============================================================================================
// independent layout parser: script instruction streams of every container, from the format
// descriptions (header layouts of Model/InstrIO.lean); shares no code with truth::formats

pub mod layout {
    use truth::Game;
    use crate::tc::Format;

    /// instruction header layouts
    #[derive(Copy, Clone, PartialEq, Eq, Debug)]
    pub enum IFmt { Msg, Anm07, Std06, Std10, Ecl06, Ecl07, Tl06, Tl08, Ecl10 }

    impl IFmt {
        pub fn name(self) -> &'static str {
            match self { IFmt::Msg => "msg", IFmt::Anm07 => "anm07", IFmt::Std06 => "std06", IFmt::Std10 => "std10", IFmt::Ecl06 => "ecl06", IFmt::Ecl07 => "ecl07", IFmt::Tl06 => "tl06", IFmt::Tl08 => "tl08", IFmt::Ecl10 => "ecl10" }
        }
        pub fn header(self) -> usize {
            match self { IFmt::Msg => 4, IFmt::Ecl06 | IFmt::Ecl07 => 12, IFmt::Ecl10 => 16, _ => 8 }
        }
        pub fn has_mask(self) -> bool { matches!(self, IFmt::Anm07 | IFmt::Ecl07) }
    }

    #[derive(Clone, Debug)]
    pub struct BinInstr { pub offset: usize, pub time: i32, pub opcode: u16, pub mask: u16, pub difficulty: u8, pub blob: Vec<u8> }

    #[derive(Clone, Debug)]
    pub struct BinScript { pub fmt: IFmt, pub start: usize, pub instrs: Vec<BinInstr>, /** bytes of instructions, the end marker excluded */ pub len: usize }

    #[derive(Clone, Debug, PartialEq, Eq, PartialOrd, Ord)]
    pub enum Key { Anm(usize), MsgOffset(usize), Std, Sub(usize), Timeline(usize), Named(String) }

    pub struct FileLayout { pub scripts: Vec<(Key, BinScript)>, /** MSG: script offset of every table entry */ pub msg_table: Vec<usize> }

    fn u8_at(b: &[u8], p: usize) -> Result<u8, String> { b.get(p).copied().ok_or_else(|| format!("read past end at {p}")) }
    fn u16_at(b: &[u8], p: usize) -> Result<u16, String> { Ok(u16::from_le_bytes([u8_at(b, p)?, u8_at(b, p + 1)?])) }
    fn u32_at(b: &[u8], p: usize) -> Result<u32, String> { Ok(u32::from_le_bytes([u8_at(b, p)?, u8_at(b, p + 1)?, u8_at(b, p + 2)?, u8_at(b, p + 3)?])) }

    /// Walks the instructions of one script.  `limit` (end of the script's region in the file) is needed
    /// only where the end marker is not recognisable by itself (MSG / ANM v0: four zero bytes).
    pub fn walk(b: &[u8], start: usize, fmt: IFmt, limit: Option<usize>) -> Result<BinScript, String> {
        let mut pos = start;
        let mut instrs = vec![];
        for _ in 0..1_000_000 {
            let off = pos - start;
            match fmt {
                IFmt::Msg => {
                    let limit = limit.ok_or("msg-style script needs a region end")?;
                    if limit < start + 4 { return Err(format!("region of script at {start} too small")); }
                    if pos == limit - 4 {
                        if u32_at(b, pos)? != 0 { return Err(format!("no end marker at {pos}")); }
                        return Ok(BinScript { fmt, start, instrs, len: off });
                    }
                    if pos > limit - 4 { return Err(format!("instruction at {pos} crosses the end marker of the script at {start}")); }
                    let time = u16_at(b, pos)? as i16 as i32;
                    let opcode = u8_at(b, pos + 2)? as u16;
                    let n = u8_at(b, pos + 3)? as usize;
                    if pos + 4 + n > b.len() { return Err(format!("instruction at {pos} runs past the end of the file")); }
                    instrs.push(BinInstr { offset: off, time, opcode, mask: 0, difficulty: 0, blob: b[pos + 4..pos + 4 + n].to_vec() });
                    pos += 4 + n;
                },
                IFmt::Anm07 => {
                    let opcode = u16_at(b, pos)?;
                    if opcode == 0xffff { return Ok(BinScript { fmt, start, instrs, len: off }); }
                    let size = u16_at(b, pos + 2)? as usize;
                    let time = u16_at(b, pos + 4)? as i16 as i32;
                    let mask = u16_at(b, pos + 6)?;
                    if size < 8 || pos + size > b.len() { return Err(format!("bad instruction size {size} at {pos}")); }
                    instrs.push(BinInstr { offset: off, time, opcode, mask, difficulty: 0, blob: b[pos + 8..pos + size].to_vec() });
                    pos += size;
                },
                IFmt::Std06 | IFmt::Std10 => {
                    let time = u32_at(b, pos)? as i32;
                    let opcode = u16_at(b, pos + 4)?;
                    if opcode == 0xffff { return Ok(BinScript { fmt, start, instrs, len: off }); }
                    let sz = u16_at(b, pos + 6)? as usize;
                    let size = if fmt == IFmt::Std06 { 8 + sz } else { sz };
                    if size < 8 || pos + size > b.len() { return Err(format!("bad instruction size {size} at {pos}")); }
                    instrs.push(BinInstr { offset: off, time, opcode, mask: 0, difficulty: 0, blob: b[pos + 8..pos + size].to_vec() });
                    pos += size;
                },
                IFmt::Ecl06 | IFmt::Ecl07 => {
                    let time = u32_at(b, pos)? as i32;
                    let opcode = u16_at(b, pos + 4)?;
                    let size = u16_at(b, pos + 6)? as i16 as i64;
                    if opcode == 0xffff { return Ok(BinScript { fmt, start, instrs, len: off }); }
                    let difficulty = u8_at(b, pos + 9)?;
                    let mask = u16_at(b, pos + 10)?;
                    if size < 12 || pos + size as usize > b.len() { return Err(format!("bad instruction size {size} at {pos}")); }
                    instrs.push(BinInstr { offset: off, time, opcode, mask, difficulty, blob: b[pos + 12..pos + size as usize].to_vec() });
                    pos += size as usize;
                },
                IFmt::Tl06 => {
                    let time = u16_at(b, pos)? as i16 as i32;
                    let arg0 = u16_at(b, pos + 2)? as i16;
                    if time == -1 && arg0 == 4 { return Ok(BinScript { fmt, start, instrs, len: off }); }
                    let opcode = u16_at(b, pos + 4)?;
                    let size = u16_at(b, pos + 6)? as i16 as i64;
                    if size < 8 || pos + size as usize > b.len() { return Err(format!("bad instruction size {size} at {pos}")); }
                    instrs.push(BinInstr { offset: off, time, opcode, mask: 0, difficulty: 0, blob: b[pos + 8..pos + size as usize].to_vec() });
                    pos += size as usize;
                },
                IFmt::Ecl10 => {
                    // no end marker: the sub runs to the next sub header or the end of the file
                    let limit = limit.ok_or("stack ECL sub needs a region end")?;
                    if pos == limit { return Ok(BinScript { fmt, start, instrs, len: off }); }
                    if pos > limit { return Err(format!("instruction before {pos} crosses the end of the sub at {start}")); }
                    let time = u32_at(b, pos)? as i32;
                    let opcode = u16_at(b, pos + 4)?;
                    let size = u16_at(b, pos + 6)? as usize;
                    let mask = u16_at(b, pos + 8)?;
                    let difficulty = u8_at(b, pos + 10)?;
                    if size < 16 || pos + size > b.len() { return Err(format!("bad instruction size {size} at {pos}")); }
                    instrs.push(BinInstr { offset: off, time, opcode, mask, difficulty, blob: b[pos + 16..pos + size].to_vec() });
                    pos += size;
                },
                IFmt::Tl08 => {
                    let time = u32_at(b, pos)? as i32;
                    let opcode = u16_at(b, pos + 4)?;
                    let size = u8_at(b, pos + 6)? as usize;
                    let difficulty = u8_at(b, pos + 7)?;
                    if time == -1 && opcode == 0 && size == 0 && difficulty == 0 { return Ok(BinScript { fmt, start, instrs, len: off }); }
                    if size < 8 || pos + size > b.len() { return Err(format!("bad instruction size {size} at {pos}")); }
                    instrs.push(BinInstr { offset: off, time, opcode, mask: 0, difficulty, blob: b[pos + 8..pos + size].to_vec() });
                    pos += size;
                },
            }
        }
        Err("script does not end".into())
    }

    pub fn anm_ifmt(game: Game) -> IFmt { if game == Game::Th06 { IFmt::Msg } else { IFmt::Anm07 } }
    pub fn std_ifmt(game: Game) -> IFmt { if game < Game::Th095 { IFmt::Std06 } else { IFmt::Std10 } }
    pub fn ecl_ifmt(game: Game) -> IFmt { if game == Game::Th06 { IFmt::Ecl06 } else { IFmt::Ecl07 } }
    pub fn tl_ifmt(game: Game) -> IFmt { if game <= Game::Th07 { IFmt::Tl06 } else { IFmt::Tl08 } }

    pub fn parse_file(format: Format, game: Game, b: &[u8]) -> Result<FileLayout, String> {
        let mut scripts = vec![];
        let mut msg_table = vec![];
        match format {
            Format::Anm => {
                let new_header = game >= Game::Th11;
                let fmt = anm_ifmt(game);
                let mut entry = 0usize;
                let mut index = 0usize;
                loop {
                    let (nsprites, nscripts, next, thtx) = if new_header {
                        (u16_at(b, entry + 4)? as usize, u16_at(b, entry + 6)? as usize, u32_at(b, entry + 0x24)? as usize, u32_at(b, entry + 0x1c)? as usize)
                    } else {
                        (u32_at(b, entry)? as usize, u32_at(b, entry + 4)? as usize, u32_at(b, entry + 0x38)? as usize, u32_at(b, entry + 0x30)? as usize)
                    };
                    let table = entry + 64 + 4 * nsprites;
                    let mut offsets = vec![];
                    for k in 0..nscripts { offsets.push(u32_at(b, table + 8 * k + 4)? as usize); }
                    let entry_end = if thtx != 0 { entry + thtx } else if next != 0 { entry + next } else { b.len() };
                    for &o in &offsets {
                        let limit = offsets.iter().copied().filter(|&x| x > o).min().map(|x| entry + x).unwrap_or(entry_end);
                        scripts.push((Key::Anm(index), walk(b, entry + o, fmt, Some(limit))?));
                        index += 1;
                    }
                    if next == 0 { break; }
                    entry += next;
                    if entry >= b.len() { return Err("entry chain leaves the file".into()); }
                }
            },
            Format::Msg | Format::End => {
                let n = u32_at(b, 0)? as usize;
                let stride = if game >= Game::Th09 { 8 } else { 4 };
                for k in 0..n { msg_table.push(u32_at(b, 4 + stride * k)? as usize); }
                let mut starts: Vec<usize> = msg_table.iter().copied().filter(|&o| o != 0).collect();
                starts.sort(); starts.dedup();
                for (k, &s) in starts.iter().enumerate() {
                    let limit = starts.get(k + 1).copied().unwrap_or(b.len());
                    scripts.push((Key::MsgOffset(s), walk(b, s, IFmt::Msg, Some(limit))?));
                }
            },
            Format::Std => {
                let s = u32_at(b, 8)? as usize;
                scripts.push((Key::Std, walk(b, s, std_ifmt(game), None)?));
            },
            Format::Ecl if game >= Game::Th10 => {
                // SCPT header (0x24 bytes), ANIM and ECLI name lists, sub offsets, sub names; every sub is `ECLH` + 12 bytes + instructions
                if b.get(0..4) != Some(b"SCPT") { return Err("no SCPT magic".into()); }
                let include_length = u16_at(b, 6)? as usize;
                let include_offset = u32_at(b, 8)? as usize;
                let nsubs = u32_at(b, 16)? as usize;
                let mut p = include_offset + include_length;
                let mut offs = vec![];
                for k in 0..nsubs { offs.push(u32_at(b, p + 4 * k)? as usize); }
                p += 4 * nsubs;
                let mut names = vec![];
                for _ in 0..nsubs {
                    let mut q = p;
                    while u8_at(b, q)? != 0 { q += 1; }
                    names.push(String::from_utf8_lossy(&b[p..q]).to_string());
                    p = q + 1;
                }
                for (k, (&o, name)) in offs.iter().zip(&names).enumerate() {
                    if b.get(o..o + 4) != Some(b"ECLH") { return Err(format!("no ECLH magic at {o}")); }
                    let limit = offs.get(k + 1).copied().unwrap_or(b.len());
                    scripts.push((Key::Named(name.clone()), walk(b, o + 16, IFmt::Ecl10, Some(limit))?));
                }
            },
            Format::Ecl => {
                let mut p = 0usize;
                if matches!(game, Game::Th08 | Game::Th09 | Game::Th095) { p += 4; }
                let nsubs = u16_at(b, p)? as usize;
                let ntl_field = u16_at(b, p + 2)? as usize;
                p += 4;
                let (array_len, ntl) = match game { Game::Th06 => (3, 1), Game::Th09 => (ntl_field, ntl_field), _ => (16, ntl_field) };
                let mut tl = vec![];
                for k in 0..array_len { tl.push(u32_at(b, p + 4 * k)? as usize); }
                p += 4 * array_len;
                for k in 0..nsubs {
                    let o = u32_at(b, p + 4 * k)? as usize;
                    scripts.push((Key::Sub(k), walk(b, o, ecl_ifmt(game), None)?));
                }
                for k in 0..ntl.min(array_len) {
                    if tl[k] == 0 { continue; }
                    scripts.push((Key::Timeline(k), walk(b, tl[k], tl_ifmt(game), None)?));
                }
            },
            Format::Mission => return Err("mission files have no scripts".into()),
        }
        Ok(FileLayout { scripts, msg_table })
    }
}

use layout::{IFmt, BinScript, Key};

// =============================================================================================
// compiling with debug info

pub struct Built { pub bytes: Vec<u8>, pub dbg: serde_json::Value }

/// the sequence of API calls of `truXXX compile IN -o OUT --output-debug-info DBG` (`cli_def.rs`)
pub fn compile_dbg(format: Format, game: Game, maps: &[String], text: &[u8]) -> tc::Outcome<Built> {
    tc::with_truth(format, game, maps, |truth| {
        let script = truth.parse::<ast::ScriptFile>("<input>", text)?.value;
        let compiled = tc::compile_ast(truth, format, game, &script)?;
        let bytes = tc::write_bytes(truth, format, game, &compiled)?;
        let dir = tempfile::tempdir().expect("tempdir");
        let path = dir.path().join("dbg.json");
        truth.validate_defs()?.prepare_and_write_debug_info(&path)?;
        let raw = std::fs::read(&path).expect("debug info file was not written");
        let dbg: serde_json::Value = serde_json::from_slice(&raw).expect("debug info is not JSON");
        Ok(Built { bytes, dbg })
    })
}

// =============================================================================================
// signatures: where the jump arguments of an instruction are, conversion to the C12 encoding enum

fn lang_of(format: Format, key: &Key) -> LanguageKey {
    match (format, key) {
        (Format::Anm, _) => LanguageKey::Anm,
        (Format::Msg, _) => LanguageKey::Msg,
        (Format::End, _) => LanguageKey::End,
        (Format::Std, _) => LanguageKey::Std,
        (Format::Ecl, Key::Timeline(_)) => LanguageKey::Timeline,
        _ => LanguageKey::Ecl,
    }
}

fn fixed_size(p: &gensrc::SigParam) -> Option<usize> {
    if p.attrs.split(';').any(|a| a.trim() == "arg0") { return Some(0); }
    match p.ch {
        'S' | 'U' | 'C' | 'n' | 'N' | 'E' | 'f' | 'o' | 't' | '_' => Some(4),
        's' | 'u' => Some(2),
        'b' | 'c' | '-' => Some(1),
        _ => None,
    }
}

/// byte positions of the `o` and `t` parameters in the argument blob (when everything before them has a fixed size)
fn jump_positions(sig: &str) -> (Option<usize>, Option<usize>) {
    let (mut o, mut t) = (None, None);
    let mut pos = 0usize;
    for p in gensrc::parse_sig(sig) {
        if p.ch == 'o' { o = Some(pos); }
        if p.ch == 't' { t = Some(pos); }
        match fixed_size(&p) { Some(n) => pos += n, None => break }
    }
    (o, t)
}

fn attr_value<'a>(attrs: &'a str, key: &str) -> Option<&'a str> {
    attrs.split(';').map(|a| a.trim()).find_map(|a| a.strip_prefix(key).and_then(|r| r.strip_prefix('=')))
}
fn attr_flag(attrs: &str, key: &str) -> bool { attrs.split(';').any(|a| a.trim() == key) }

/// a parameter of a built-in signature in the vocabulary of the C12 model
fn enc_of_param(p: &gensrc::SigParam) -> Option<Enc> {
    Some(match p.ch {
        'S' | 's' | 'c' | 'U' | 'u' | 'b' | 'C' | 'n' | 'N' | 'E' =>
            Enc::Int { letter: p.ch, arg0: attr_flag(&p.attrs, "arg0"), imm: attr_flag(&p.attrs, "imm"), hex: attr_flag(&p.attrs, "hex"), en: p.attrs.contains("enum=") },
        'f' => Enc::Float { imm: attr_flag(&p.attrs, "imm") },
        'o' => Enc::O,
        't' => Enc::T,
        '_' => Enc::Pad(true),
        '-' => Enc::Pad(false),
        'z' | 'm' | 'p' => {
            let size = if let Some(n) = attr_value(&p.attrs, "len") { StrSize::Fixed(n.parse().ok()?, attr_flag(&p.attrs, "nulless")) }
                else { let bs: usize = attr_value(&p.attrs, "bs")?.parse().ok()?; if p.ch == 'p' { StrSize::Pascal(bs) } else { StrSize::BlobEnd(bs) } };
            let mask = match attr_value(&p.attrs, "mask") {
                Some(m) => { let v: Vec<u8> = m.split(',').filter_map(|x| { let x = x.trim(); if let Some(h) = x.strip_prefix("0x") { u8::from_str_radix(h, 16).ok() } else { x.parse().ok() } }).collect(); if v.len() != 3 { return None; } [v[0], v[1], v[2]] },
                None => [0, 0, 0],
            };
            Enc::Str { letter: p.ch, size, mask, furibug: attr_flag(&p.attrs, "furibug") }
        },
        _ => return None,
    })
}

pub(crate) fn abi_of_sig(sig: &str) -> Option<Vec<Enc>> { gensrc::parse_sig(sig).iter().map(enc_of_param).collect() }

// =============================================================================================
// the oracle: debug info vs written binary

struct Ctx<'a> { format: Format, game: Game, text: &'a str }

fn jget<'a>(v: &'a serde_json::Value, k: &str) -> &'a serde_json::Value { &v[k] }

fn key_of_export(e: &serde_json::Value, lay: &layout::FileLayout) -> Result<Key, Sexp> {
    let ty = e["type"].as_str().unwrap_or("?");
    Ok(match ty {
        "anm-script" => Key::Anm(e["index"].as_u64().unwrap_or(u64::MAX) as usize),
        "std-script" => Key::Std,
        "olde-ecl-sub" => Key::Sub(e["index"].as_u64().unwrap_or(u64::MAX) as usize),
        "scl-script" => Key::Timeline(e["index"].as_u64().unwrap_or(u64::MAX) as usize),
        "named-ecl-sub" => Key::Named(e["name"].as_str().unwrap_or("?").to_string()),
        "msg-script" => {
            let idx: Vec<usize> = e["indices"].as_array().map(|a| a.iter().map(|x| x.as_u64().unwrap_or(u64::MAX) as usize).collect()).unwrap_or_default();
            let mut offs: Vec<usize> = vec![];
            for i in &idx {
                match lay.msg_table.get(*i) {
                    Some(&o) => offs.push(o),
                    None => return Err(fail("debug-info-script-export-wrong", format!("msg-script index {i} is outside the written script table of {} entries", lay.msg_table.len()))),
                }
            }
            offs.dedup();
            if offs.len() != 1 { return Err(fail("debug-info-script-export-wrong", format!("table entries {idx:?} of one script point at offsets {offs:?}"))); }
            // ... and these are all the entries of the written table that point at it
            let pointing: Vec<usize> = lay.msg_table.iter().enumerate().filter(|(_, &o)| o == offs[0]).map(|(k, _)| k).collect();
            let mut sorted = idx.clone(); sorted.sort(); sorted.dedup();
            if sorted != pointing || sorted.len() != idx.len() {
                return Err(fail("debug-info-script-export-wrong", format!("the written script table has the script at offset {} in entries {pointing:?} (of {}), debug info lists indices {idx:?}", offs[0], lay.msg_table.len())));
            }
            Key::MsgOffset(offs[0])
        },
        _ => return Err(fail("debug-info-script-export-wrong", format!("unknown export type {ty}"))),
    })
}

fn decode_jump(fmt: IFmt, cur: usize, bits: u32) -> i64 {
    match fmt {
        IFmt::Ecl06 | IFmt::Ecl07 | IFmt::Ecl10 => cur as i64 + bits as i32 as i64,
        IFmt::Std06 => bits as i64 * 20,
        _ => bits as i64,
    }
}

fn le32(b: &[u8], p: usize) -> Option<u32> { if p + 4 <= b.len() { Some(u32::from_le_bytes([b[p], b[p + 1], b[p + 2], b[p + 3]])) } else { None } }

struct ScriptFacts<'a> { name: String, bin: &'a BinScript, dbg: &'a serde_json::Value }

/// offsets, end, labels, jumps of one script
fn check_script(cx: &Ctx, key: &Key, name: &str, d: &serde_json::Value, s: &BinScript) -> Option<Sexp> {
    let what = |m: String| format!("{} {} script {name} ({key:?}): {m}", cx.format.name(), cx.game);
    let instrs = d["instrs"].as_array().cloned().unwrap_or_default();
    if instrs.len() != s.instrs.len() {
        return Some(fail("debug-info-instr-count-wrong", what(format!("debug info lists {} instructions, the written script has {}", instrs.len(), s.instrs.len()))));
    }
    for (k, (di, bi)) in instrs.iter().zip(&s.instrs).enumerate() {
        let off = di["offset"].as_u64().unwrap_or(u64::MAX);
        if off != bi.offset as u64 {
            return Some(fail("debug-info-instr-offset-wrong", what(format!("instruction {k} (opcode {}) starts at byte {} of the written script, debug info says {off}", bi.opcode, bi.offset))));
        }
    }
    let end = d["end-offset"].as_u64().unwrap_or(u64::MAX);
    if end != s.len as u64 {
        return Some(fail("debug-info-end-offset-wrong", what(format!("the written script is {} bytes long, debug info end-offset is {end}", s.len))));
    }
    let boundary = |o: u64| -> Option<Option<&layout::BinInstr>> {
        if o == s.len as u64 { return Some(None); }
        s.instrs.iter().find(|i| i.offset as u64 == o).map(Some)
    };
    let labels = d["labels"].as_array().cloned().unwrap_or_default();
    for l in &labels {
        let o = l["offset"].as_u64().unwrap_or(u64::MAX);
        if boundary(o).is_none() {
            return Some(fail("debug-info-label-not-on-boundary", what(format!("label {} at offset {o} is neither the start of an instruction nor the end ({})", l["name"], s.len))));
        }
    }
    // every jump in the written code goes to a recorded label (offset and time)
    let sigs: BTreeMap<i32, String> = gensrc::signatures(cx.game, lang_of(cx.format, key)).into_iter().collect();
    for bi in &s.instrs {
        let Some(sig) = sigs.get(&(bi.opcode as i32)) else { continue };
        let (po, pt) = jump_positions(sig);
        let Some(po) = po else { continue };
        let Some(bits) = le32(&bi.blob, po) else { continue };
        let dest = decode_jump(s.fmt, bi.offset, bits);
        let time = pt.and_then(|p| le32(&bi.blob, p)).map(|t| t as i32 as i64);
        if dest < 0 || boundary(dest as u64).is_none() {
            return Some(fail("written-jump-not-on-boundary", what(format!("instruction at {} (opcode {}) jumps to {dest}, which is not an instruction boundary", bi.offset, bi.opcode))));
        }
        let hit = labels.iter().any(|l| l["offset"].as_i64() == Some(dest) && (time.is_none() || l["time"].as_i64() == time));
        if !hit {
            return Some(fail("debug-info-label-missing-for-jump", what(format!("instruction at {} (opcode {}) jumps to offset {dest} time {time:?}; no debug-info label has that offset and time (labels: {})", bi.offset, bi.opcode,
                labels.iter().map(|l| format!("{}@{}t{}", l["name"].as_str().unwrap_or("?"), l["offset"], l["time"])).collect::<Vec<_>>().join(" ")))));
        }
    }
    None
}

fn find_marker<'a>(s: &'a BinScript, op: i64, magic_pos: usize, magic: i64, magic_float: bool) -> Vec<&'a layout::BinInstr> {
    s.instrs.iter().filter(|i| i.opcode as i64 == op && le32(&i.blob, 4 * magic_pos).map(|b| if magic_float { f32::from_bits(b) == magic as f32 } else { b as i32 as i64 == magic }).unwrap_or(false)).collect()
}

/// the generator's expectations (labels with times, uses of locals and constants in marker instructions)
fn check_expectations(cx: &Ctx, facts: &[ScriptFacts], consts: &serde_json::Value, expect: &[Sexp]) -> Option<Sexp> {
    let consts = consts.as_array().cloned().unwrap_or_default();
    let const_value = |name: &str| -> Vec<serde_json::Value> { consts.iter().filter(|c| c["name"].as_str() == Some(name) && !c["name-span"].is_null()).map(|c| c["value"].clone()).collect() };
    for e in expect {
        let a = e.args();
        match e.head().unwrap_or("") {
            // (label SCRIPT NAME TIME FOLLOWED)
            "label" => {
                let Some(f) = facts.iter().find(|f| f.name == a[0].as_atom()) else { continue };
                let name = a[1].as_atom();
                let found: Vec<&serde_json::Value> = f.dbg["labels"].as_array().map(|ls| ls.iter().filter(|l| l["name"].as_str() == Some(name)).collect()).unwrap_or_default();
                if found.len() != 1 { return Some(fail("debug-info-label-missing", format!("script {} label {name}: {} entries in the debug info", f.name, found.len()))); }
                let (t, o) = (found[0]["time"].as_i64().unwrap_or(i64::MIN), found[0]["offset"].as_u64().unwrap_or(u64::MAX));
                if t != a[2].as_i64() { return Some(fail("debug-info-label-time-wrong", format!("script {} label {name}: the source puts it at time {}, debug info says {t}; source: {}", f.name, a[2].as_i64(), cx.text.replace('\n', " ")))); }
                if a[3].as_i64() != 0 {
                    match f.bin.instrs.iter().find(|i| i.offset as u64 == o) {
                        Some(i) if i.time as i64 == t => {},
                        Some(i) => return Some(fail("debug-info-label-time-differs-from-instruction", format!("script {} label {name} (time {t}) is directly followed by an instruction; the instruction written at offset {o} has time {}", f.name, i.time))),
                        None => return Some(fail("debug-info-label-offset-wrong", format!("script {} label {name} is directly followed by an instruction, but offset {o} is not the start of an instruction (script length {})", f.name, f.bin.len))),
                    }
                }
            },
            // (use SCRIPT OP MAGICPOS MAGIC MAGICFLOAT ARGPOS KIND NAME)
            "use" => {
                let Some(f) = facts.iter().find(|f| f.name == a[0].as_atom()) else { continue };
                let (op, mpos, magic, mfloat, apos, kind, name) = (a[1].as_i64(), a[2].as_usize(), a[3].as_i64(), a[4].as_i64() != 0, a[5].as_usize(), a[6].as_atom(), a[7].as_atom());
                let hits = find_marker(f.bin, op, mpos, magic, mfloat);
                if hits.is_empty() { return Some(fail("marker-instruction-not-in-binary", format!("script {}: no ins_{op} carrying {magic} was written; source: {}", f.name, cx.text.replace('\n', " ")))); }
                for i in hits {
                    let Some(bits) = le32(&i.blob, 4 * apos) else { return Some(fail("marker-instruction-not-in-binary", format!("script {}: ins_{op} with {magic} is too short", f.name))) };
                    let is_reg_bit = (i.mask >> apos) & 1 == 1;
                    match kind {
                        "local-int" | "local-float" => {
                            let locs: Vec<&serde_json::Value> = f.dbg["locals"].as_array().map(|ls| ls.iter().filter(|l| l["name"].as_str() == Some(name)).collect()).unwrap_or_default();
                            if locs.len() != 1 { return Some(fail("debug-info-local-missing", format!("script {} local {name}: {} entries in the debug info", f.name, locs.len()))); }
                            let reg = locs[0]["bound-to"]["reg"].as_i64().unwrap_or(i64::MIN);
                            let ty = locs[0]["type"].as_str().unwrap_or("?");
                            if (kind == "local-int") != (ty == "int") { return Some(fail("debug-info-local-type-wrong", format!("script {} local {name} is declared {kind}, debug info says {ty}", f.name))); }
                            let used = if kind == "local-int" { bits as i32 as i64 } else { let x = f32::from_bits(bits); if x == x.round() { x as i64 } else { i64::MIN } };
                            if used != reg || (f.bin.fmt.has_mask() && !is_reg_bit) {
                                return Some(fail("debug-info-local-register-wrong", format!("script {} local {name}: debug info binds it to register {reg}; the written ins_{op} (marker {magic}) uses {} (register flag {is_reg_bit}) at argument {apos}; source: {}",
                                    f.name, if kind == "local-int" { format!("{}", bits as i32) } else { format!("{}", f32::from_bits(bits)) }, cx.text.replace('\n', " "))));
                            }
                        },
                        "const-int" | "const-float" => {
                            let vals = const_value(name);
                            if vals.len() != 1 { return Some(fail("debug-info-const-missing", format!("constant {name}: {} entries in the debug info", vals.len()))); }
                            let ok = if kind == "const-int" { vals[0]["int"].as_i64() == Some(bits as i32 as i64) }
                                else { vals[0]["float"].as_f64().map(|x| (x as f32).to_bits() == bits).unwrap_or(false) };
                            if !ok || (f.bin.fmt.has_mask() && is_reg_bit) {
                                return Some(fail("debug-info-const-value-wrong", format!("constant {name}: debug info value {}, the written ins_{op} (marker {magic}) carries {} (register flag {is_reg_bit}); source: {}", vals[0],
                                    if kind == "const-int" { format!("{}", bits as i32) } else { format!("{}", f32::from_bits(bits)) }, cx.text.replace('\n', " "))));
                            }
                        },
                        _ => {},
                    }
                }
            },
            // (const NAME KIND VALUE): the value the source defines
            "const" => {
                let (name, kind) = (a[0].as_atom(), a[1].as_atom());
                let vals = const_value(name);
                if vals.len() != 1 { return Some(fail("debug-info-const-missing", format!("constant {name}: {} entries in the debug info", vals.len()))); }
                let ok = match kind {
                    "int" => vals[0]["int"].as_i64() == Some(a[2].as_i64()),
                    "float" => {
                        let want = f32::from_bits(a[2].as_i64() as u32);
                        if !want.is_finite() {
                            if vals[0]["float"].is_null() { return Some(fail("debug-info-const-value-not-finite-null", format!("constant {name} = {want}: the debug info value is {} (JSON null), the value cannot be recovered", vals[0]))); }
                            false
                        } else { vals[0]["float"].as_f64().map(|x| (x as f32).to_bits() == want.to_bits()).unwrap_or(false) }
                    },
                    _ => vals[0]["string"].as_str() == Some(a[2].as_atom()),
                };
                if !ok { return Some(fail("debug-info-const-value-wrong", format!("constant {name} ({kind}): the source defines {}, debug info says {}", a[2], vals[0]))); }
            },
            _ => {},
        }
    }
    None
}

fn eval_prog(format: Format, game: Game, maps: &[String], text: &str, expect: &[Sexp]) -> Sexp {
    let out = compile_dbg(format, game, maps, text.as_bytes());
    let built = match out.value {
        Some(b) => b,
        None => {
            // generator diagnostics: C18_SHOW_REJECTED=1 turns rejected programs into failures so that the report lists them
            if std::env::var("C18_SHOW_REJECTED").is_ok() { return fail(format!("generator-program-rejected {}", diag_class(&out.diagnostics)), format!("{}\n{}", out.diagnostics.lines().take(12).collect::<Vec<_>>().join(" | "), text)); }
            return Sexp::app("rejected", vec![Sexp::str(diag_class(&out.diagnostics))]);
        },
    };
    let cx = Ctx { format, game, text };
    let lay = match layout::parse_file(format, game, &built.bytes) {
        Ok(l) => l,
        Err(e) => return fail("written-binary-layout-unparsable", format!("{} {}: {e}; source: {}", format.name(), game, text.replace('\n', " "))),
    };
    let exported = built.dbg["exported-scripts"].as_array().cloned().unwrap_or_default();
    if built.dbg["version"].as_u64() != Some(1) { return fail("debug-info-version-wrong", format!("{}", built.dbg["version"])); }
    let mut seen: Vec<Key> = vec![];
    let mut facts: Vec<ScriptFacts> = vec![];
    let (mut ninstr, mut nlabel, mut nlocal) = (0usize, 0usize, 0usize);
    for d in &exported {
        let key = match key_of_export(jget(d, "exported-as"), &lay) { Ok(k) => k, Err(f) => return f };
        let name = d["name"].as_str().unwrap_or("?").to_string();
        let Some((_, bin)) = lay.scripts.iter().find(|(k, _)| *k == key) else {
            return fail("debug-info-script-export-wrong", format!("{} {}: script {name} is exported as {key:?}, the written file has {:?}", format.name(), game, lay.scripts.iter().map(|s| &s.0).collect::<Vec<_>>()));
        };
        if seen.contains(&key) { return fail("debug-info-script-export-wrong", format!("two scripts exported as {key:?}")); }
        seen.push(key.clone());
        if let Some(f) = check_script(&cx, &key, &name, d, bin) { return f; }
        ninstr += bin.instrs.len();
        nlabel += d["labels"].as_array().map(|a| a.len()).unwrap_or(0);
        nlocal += d["locals"].as_array().map(|a| a.len()).unwrap_or(0);
        facts.push(ScriptFacts { name, bin, dbg: d });
    }
    if seen.len() != lay.scripts.len() {
        return fail("debug-info-script-missing", format!("{} {}: the written file has scripts {:?}, the debug info describes {:?}", format.name(), game, lay.scripts.iter().map(|s| &s.0).collect::<Vec<_>>(), seen));
    }
    if let Some(f) = check_expectations(&cx, &facts, &built.dbg["consts"], expect) { return f; }
    Sexp::app("pass", vec![Sexp::int(facts.len() as i64), Sexp::int(ninstr as i64), Sexp::int(nlabel as i64), Sexp::int(nlocal as i64), Sexp::int(expect.len() as i64)])
}

// =============================================================================================
// corr: lowering-level streams

#[derive(Clone, Debug)]
enum LArg { Plain(Arg), Off(String), Tof(String) }

#[derive(Clone, Debug)]
enum LStmt { Time(i32), Label(String), Call(usize, Vec<LArg>), Blob(usize, Vec<u8>) }

#[derive(Clone, Debug)]
enum Target { Test, Real { format: Format, game: Game, lang: LanguageKey, ifmt: IFmt } }

fn lang_name(l: LanguageKey) -> &'static str {
    match l { LanguageKey::Anm => "anm", LanguageKey::Msg => "msg", LanguageKey::End => "end", LanguageKey::Std => "std", LanguageKey::Ecl => "ecl", LanguageKey::Timeline => "timeline", _ => "dummy" }
}
fn lang_from(s: &str) -> LanguageKey {
    match s { "anm" => LanguageKey::Anm, "msg" => LanguageKey::Msg, "end" => LanguageKey::End, "std" => LanguageKey::Std, "ecl" => LanguageKey::Ecl, _ => LanguageKey::Timeline }
}
fn ifmt_from(s: &str) -> IFmt {
    match s { "msg" => IFmt::Msg, "anm07" => IFmt::Anm07, "std06" => IFmt::Std06, "std10" => IFmt::Std10, "ecl06" => IFmt::Ecl06, "ecl07" => IFmt::Ecl07, "tl06" => IFmt::Tl06, _ => IFmt::Tl08 }
}

fn larg_sexp(a: &LArg) -> Sexp {
    match a { LArg::Plain(x) => x.to_sexp(), LArg::Off(n) => Sexp::app("off", vec![Sexp::atom(n.clone())]), LArg::Tof(n) => Sexp::app("tof", vec![Sexp::atom(n.clone())]) }
}
fn larg_from(s: &Sexp) -> LArg {
    match s.head() { Some("off") => LArg::Off(s.args()[0].as_atom().to_string()), Some("tof") => LArg::Tof(s.args()[0].as_atom().to_string()), _ => LArg::Plain(Arg::from_sexp(s)) }
}
fn lstmt_sexp(s: &LStmt) -> Sexp {
    match s {
        LStmt::Time(t) => Sexp::app("t", vec![Sexp::int(*t)]),
        LStmt::Label(n) => Sexp::app("lab", vec![Sexp::atom(n.clone())]),
        LStmt::Call(k, args) => { let mut v = vec![Sexp::int(*k as i64)]; v.extend(args.iter().map(larg_sexp)); Sexp::app("call", v) },
        LStmt::Blob(k, b) => Sexp::app("blob", vec![Sexp::int(*k as i64), Sexp::atom(hex(b))]),
    }
}
fn lstmt_from(s: &Sexp) -> LStmt {
    let a = s.args();
    match s.head() {
        Some("t") => LStmt::Time(a[0].as_i32()),
        Some("lab") => LStmt::Label(a[0].as_atom().to_string()),
        Some("blob") => LStmt::Blob(a[0].as_usize(), unhex(a[1].as_atom())),
        _ => LStmt::Call(a[0].as_usize(), a[1..].iter().map(larg_from).collect()),
    }
}

fn float_text(bits: u32) -> String {
    let x = f32::from_bits(bits);
    let mag = x.abs();
    let body = if mag.is_infinite() { "INF".to_string() } else { let mut s = format!("{}", mag); if !s.contains('.') && !s.contains('e') { s.push_str(".0"); } s };
    if x.is_sign_negative() { format!("(-{body})") } else { body }
}

fn larg_text(a: &LArg) -> String {
    match a {
        LArg::Off(n) => format!("offsetof({n})"),
        LArg::Tof(n) => format!("timeof({n})"),
        LArg::Plain(Arg::Int(v, false)) => format!("{}", *v as u32),
        LArg::Plain(Arg::Int(v, true)) => format!("$REG[{v}]"),
        LArg::Plain(Arg::Float(b, false)) => float_text(*b),
        LArg::Plain(Arg::Float(b, true)) => format!("%REG[{}]", f32::from_bits(*b) as i32),
        LArg::Plain(Arg::Str(s)) => c12::string_literal(&c12::sjis_decode(s).expect("generated strings are valid Shift-JIS")),
    }
}

fn stream_text(ops: &[(i32, Vec<Enc>)], stmts: &[LStmt], indent: &str) -> String {
    let mut t = String::new();
    for s in stmts {
        match s {
            LStmt::Time(n) => t.push_str(&format!("{n}:\n")),
            LStmt::Label(n) => t.push_str(&format!("{n}:\n")),
            LStmt::Call(k, args) => t.push_str(&format!("{indent}ins_{}({});\n", ops[*k].0, args.iter().map(larg_text).collect::<Vec<_>>().join(", "))),
            LStmt::Blob(k, b) => t.push_str(&format!("{indent}ins_{}(@blob=\"{}\");\n", ops[*k].0, b.iter().map(|x| format!("{x:02x}")).collect::<String>())),
        }
    }
    t
}

/// path of a source file relative to the repository root, wherever the tree under test lives
fn rel_src(path: &str) -> String { match path.rfind("src/") { Some(k) => path[k..].to_string(), None => path.to_string() } }

fn canon_panic(r: Sexp) -> Sexp {
    if r.head() == Some("panic") {
        let a = r.args();
        let file = rel_src(a[0].as_atom().split(':').next().unwrap_or("?"));
        let msg = a[1].as_atom().lines().next().unwrap_or("?");
        let msg = msg.split(':').next().unwrap_or(msg).to_string();
        return Sexp::app("panic", vec![Sexp::str(file), Sexp::str(msg)]);
    }
    r
}

fn low_result(instrs: Vec<u64>, labels: Vec<(String, u64, i64)>, end: u64, raws: Vec<(i64, i64, Vec<u8>)>) -> Sexp {
    Sexp::app("ok", vec![
        Sexp::app("instrs", instrs.into_iter().map(|o| Sexp::int(o as i64)).collect()),
        Sexp::app("labels", labels.into_iter().map(|(n, o, t)| Sexp::list(vec![Sexp::atom(n), Sexp::int(o as i64), Sexp::int(t)])).collect()),
        Sexp::app("end", vec![Sexp::int(end as i64)]),
        Sexp::app("raws", raws.into_iter().map(|(t, op, b)| Sexp::list(vec![Sexp::int(t), Sexp::int(op), Sexp::atom(hex(&b))])).collect()),
    ])
}

fn eval_low_test(ops: &[(i32, Vec<Enc>)], stmts: &[LStmt]) -> Sexp {
    let mut scope = truth::Builder::new().capture_diagnostics(true).build();
    let mut truth = scope.truth();
    let mut hooks = truth::llir::TestLanguage::default();
    hooks.language = LanguageKey::Anm;
    let abis: Vec<Vec<Enc>> = ops.iter().map(|o| o.1.clone()).collect();
    if let Err(e) = truth.apply_mapfile_str(&c12::mapfile_text(c12::Lang::Anm, &abis), Game::Th12) { e.ignore(); return Sexp::app("sigerr", vec![]); }
    let text = format!("{{\n{}}}\n", stream_text(ops, stmts, "    "));
    let r = (|| -> Result<_, truth::ErrorReported> {
        let mut block = truth.parse::<ast::Block>("<input>", text.as_bytes())?.value;
        let ctx = truth.ctx();
        truth::passes::resolution::assign_languages(&mut block, hooks.language, ctx)?;
        truth::passes::resolution::resolve_names(&block, ctx)?;
        truth::passes::type_check::run(&block, ctx)?;
        truth::passes::evaluate_const_vars::run(ctx)?;
        truth::passes::const_simplify::run(&mut block, ctx)?;
        truth::passes::desugar_blocks::run(&mut block, ctx, hooks.language)?;
        let mut errors = truth::error::ErrorFlag::new();
        let mut lowerer = truth::llir::Lowerer::new(&hooks);
        let out = lowerer.lower_sub(&block.0, None, ctx, true).map_err(|e| errors.set(e)).ok();
        lowerer.finish(ctx).unwrap_or_else(|e| errors.set(e));
        errors.into_result(())?;
        Ok(out.expect("no error but no output"))
    })();
    match r {
        Ok((instrs, info)) => {
            let info = info.expect("debug info was requested").offset_info;
            low_result(info.instrs.iter().map(|i| i.offset).collect(),
                info.labels.iter().map(|l| (l.name.clone(), l.offset, l.time as i64)).collect(), info.end_offset,
                instrs.iter().map(|i| (i.time as i64, i.opcode as i64, i.args_blob.clone())).collect())
        },
        Err(e) => { e.ignore(); Sexp::app("err", vec![Sexp::str(diag_class(&truth.get_captured_diagnostics().unwrap_or_default()))]) },
    }
}

/// a complete source file of the format around one script body
fn wrap_body(format: Format, game: Game, lang: LanguageKey, body: &str) -> String {
    match (format, lang) {
        (Format::Anm, _) => format!("entry {{ path: \"a.png\", has_data: false, img_width: 16, img_height: 16, img_format: 3, sprites: {{}} }}\nscript script0 {{\n{body}}}\n"),
        (Format::Msg, _) | (Format::End, _) => format!("meta {{ table: {{ 0: {{script: \"script0\"}} }} }}\nscript script0 {{\n{body}}}\n"),
        (Format::Std, _) => {
            let head = if game < Game::Th095 { "    stage_name: \"dm\",\n    bgm: [ {path: \"a\", name: \"a\"}, {path: \" \", name: \" \"}, {path: \" \", name: \" \"}, {path: \" \", name: \" \"} ],\n".to_string() } else { "    anm_path: \"stage01.anm\",\n".to_string() };
            format!("meta {{\n    unknown: 0,\n{head}    objects: {{}},\n    instances: [],\n}}\nscript main {{\n{body}}}\n")
        },
        (Format::Ecl, LanguageKey::Timeline) => format!("script timeline0 {{\n{body}}}\nvoid sub0() {{\n}}\n"),
        (Format::Ecl, _) => format!("script timeline0 {{\n}}\nvoid sub0() {{\n{body}}}\n"),
        _ => panic!("no wrapper"),
    }
}

fn eval_low_real(format: Format, game: Game, lang: LanguageKey, ops: &[(i32, Vec<Enc>)], stmts: &[LStmt]) -> Sexp {
    let text = wrap_body(format, game, lang, &stream_text(ops, stmts, "    "));
    let maps = if format == Format::Ecl { vec![gensrc::ECL_DIFFICULTY_MAP.to_string()] } else { vec![] };
    let out = compile_dbg(format, game, &maps, text.as_bytes());
    let built = match out.value { Some(b) => b, None => return Sexp::app("err", vec![Sexp::str(diag_class(&out.diagnostics))]) };
    let lay = match layout::parse_file(format, game, &built.bytes) { Ok(l) => l, Err(e) => return fail("written-binary-layout-unparsable", e) };
    let want = match (format, lang) { (Format::Anm, _) => Key::Anm(0), (Format::Std, _) => Key::Std, (Format::Ecl, LanguageKey::Timeline) => Key::Timeline(0), (Format::Ecl, _) => Key::Sub(0), _ => match lay.scripts.first() { Some(s) => s.0.clone(), None => return fail("written-binary-layout-unparsable", "no script") } };
    let Some((_, bin)) = lay.scripts.iter().find(|s| s.0 == want) else { return fail("written-binary-layout-unparsable", format!("no script {want:?}")) };
    let exported = built.dbg["exported-scripts"].as_array().cloned().unwrap_or_default();
    let name = match (format, lang) { (Format::Std, _) => "main", (Format::Ecl, LanguageKey::Timeline) => "timeline0", (Format::Ecl, _) => "sub0", _ => "script0" };
    let Some(d) = exported.iter().find(|d| d["name"].as_str() == Some(name)) else { return fail("debug-info-script-missing", format!("no debug info for {name}")) };
    low_result(d["instrs"].as_array().map(|a| a.iter().map(|i| i["offset"].as_u64().unwrap_or(u64::MAX)).collect()).unwrap_or_default(),
        d["labels"].as_array().map(|a| a.iter().map(|l| (l["name"].as_str().unwrap_or("?").to_string(), l["offset"].as_u64().unwrap_or(u64::MAX), l["time"].as_i64().unwrap_or(i64::MIN))).collect()).unwrap_or_default(),
        d["end-offset"].as_u64().unwrap_or(u64::MAX),
        bin.instrs.iter().map(|i| (i.time as i64, i.opcode as i64, i.blob.clone())).collect())
}

fn target_sexp(t: &Target) -> Sexp {
    match t {
        Target::Test => Sexp::atom("test"),
        Target::Real { format, game, lang, ifmt } => Sexp::app("real", vec![Sexp::atom(format.name()), Sexp::atom(format!("{game}")), Sexp::atom(lang_name(*lang)), Sexp::atom(ifmt.name())]),
    }
}

fn low_case(target: &Target, has_regs: bool, ops: &[(i32, Vec<Enc>)], stmts: &[LStmt]) -> Sexp {
    Sexp::app("low", vec![target_sexp(target), Sexp::int(has_regs as i64),
        Sexp::list(ops.iter().map(|(op, abi)| Sexp::list(vec![Sexp::int(*op), c12::abi_sexp(abi)])).collect()),
        Sexp::list(stmts.iter().map(lstmt_sexp).collect())])
}

fn eval_low(case: &Sexp) -> Sexp {
    let a = case.args();
    let ops: Vec<(i32, Vec<Enc>)> = a[2].as_list().iter().map(|o| (o.as_list()[0].as_i32(), c12::abi_from_sexp(&o.as_list()[1]))).collect();
    let stmts: Vec<LStmt> = a[3].as_list().iter().map(lstmt_from).collect();
    let r = crate::pool::guarded(std::panic::AssertUnwindSafe(|| {
        if a[0].head() == Some("real") {
            let t = a[0].args();
            eval_low_real(Format::from_name(t[0].as_atom()), tc::game(t[1].as_atom()), lang_from(t[2].as_atom()), &ops, &stmts)
        } else { eval_low_test(&ops, &stmts) }
    }));
    canon_panic(r)
}

// =============================================================================================
// generators of lowering-level streams

/// encodings of the non-padding parameters, in argument order
fn param_encs(abi: &[Enc]) -> Vec<&Enc> { abi.iter().filter(|e| !e.is_padding()).collect() }

fn is_narrow(e: &Enc) -> bool { matches!(e, Enc::Int { letter, .. } if c12::int_letter_info(*letter).0 < 4) }

struct LowOpts { max_time: i32, blob_len: Option<usize>, allow_regs: bool, misfits: bool }

fn gen_stream(rng: &mut Rng, ops: &[(i32, Vec<Enc>)], o: &LowOpts) -> Vec<LStmt> {
    let names = ["La", "Lb", "Lc", "Ld"];
    let nlabels = rng.below(names.len() + 1);
    let mut pending: Vec<&str> = names[..nlabels].to_vec();
    rng.shuffle(&mut pending);
    let n = 1 + rng.below(10);
    let mut stmts = vec![];
    let mut furi = 0usize;
    let mut time = 0i32;
    let pick_label = |rng: &mut Rng| -> String {
        if rng.chance(1, 30) || nlabels == 0 { "Lundefined".to_string() } else { names[rng.below(nlabels)].to_string() }
    };
    for _ in 0..n {
        match rng.below(12) {
            0 | 1 => {
                time = if rng.chance(1, 6) { *rng.pick(&[0, 127, 128, 255, 256, 300, 32767, 40000, -1, -5]) } else { time + *rng.pick(&[0, 1, 10, 60, 100]) };
                time = time.clamp(-o.max_time, o.max_time);
                stmts.push(LStmt::Time(time));
            },
            2 | 3 => if let Some(l) = pending.pop() {
                stmts.push(LStmt::Label(l.to_string()));
                if rng.chance(1, 25) { stmts.push(LStmt::Label(l.to_string())); }
            },
            4 if !ops.is_empty() => {
                let k = rng.below(ops.len());
                let len = o.blob_len.unwrap_or_else(|| 4 * rng.below(4));
                stmts.push(LStmt::Blob(k, (0..len).map(|_| rng.next_u32() as u8).collect()));
            },
            _ if !ops.is_empty() => {
                let k = rng.below(ops.len());
                let abi = &ops[k].1;
                let mode = if o.misfits && rng.chance(1, 12) { *rng.pick(&[c12::ArgMode::IntMisfit, c12::ArgMode::StringTooLarge]) } else { c12::ArgMode::Valid };
                let plain = c12::gen_args(rng, abi, mode, o.allow_regs, &mut furi);
                let encs = param_encs(abi);
                let mut args = vec![];
                for (e, a) in encs.iter().zip(plain) {
                    let replace = match e {
                        Enc::O | Enc::T => rng.chance(3, 4),
                        Enc::Int { arg0: false, .. } => if is_narrow(e) { rng.chance(1, 8) } else { rng.chance(1, 4) },
                        _ => false,
                    };
                    if replace {
                        let l = pick_label(rng);
                        let as_time = match e { Enc::T => true, Enc::O => false, _ => rng.chance(1, 2) };
                        args.push(if as_time { LArg::Tof(l) } else { LArg::Off(l) });
                    } else { args.push(LArg::Plain(a)); }
                }
                stmts.push(LStmt::Call(k, args));
            },
            _ => {},
        }
    }
    // labels that were not placed yet go to the end of the script (offset = end offset)
    if rng.chance(5, 6) { for l in pending.drain(..) { stmts.push(LStmt::Label(l.to_string())); } }
    stmts
}

fn gen_low_test(rng: &mut Rng) -> Case {
    let nops = 1 + rng.below(4);
    let mut ops = vec![];
    for k in 0..nops {
        let mut abi = c12::gen_valid_abi(rng, c12::Lang::Anm, true);
        if k == 0 && rng.chance(1, 2) { abi = vec![Enc::O, Enc::T]; }
        if k == 1 && rng.chance(1, 2) { abi = vec![Enc::Int { letter: 'S', arg0: false, imm: false, hex: false, en: false }, Enc::Str { letter: 'm', size: StrSize::BlobEnd(4), mask: [0x77, 7, 16], furibug: true }]; }
        ops.push((900 + k as i32, abi));
    }
    let stmts = gen_stream(rng, &ops, &LowOpts { max_time: 100000, blob_len: None, allow_regs: true, misfits: true });
    let has_str = ops.iter().any(|o| o.1.iter().any(|e| matches!(e, Enc::Str { .. })));
    let has_lab = stmts.iter().any(|s| matches!(s, LStmt::Call(_, a) if a.iter().any(|x| !matches!(x, LArg::Plain(_)))));
    Case::corr(low_case(&Target::Test, true, &ops, &stmts)).tag("low-test").tag(if has_str { "low-strings" } else { "low-no-strings" }).tag(if has_lab { "low-label-args" } else { "low-no-label-args" })
        .trivial(!stmts.iter().any(|s| matches!(s, LStmt::Call(..) | LStmt::Blob(..))))
}

const REAL_TARGETS: &[(Format, LanguageKey)] = &[(Format::Anm, LanguageKey::Anm), (Format::Msg, LanguageKey::Msg), (Format::End, LanguageKey::End), (Format::Std, LanguageKey::Std), (Format::Ecl, LanguageKey::Ecl), (Format::Ecl, LanguageKey::Timeline)];

fn games_of(format: Format) -> &'static [Game] {
    match format { Format::Anm => gensrc::GAMES_ANM, Format::Msg => gensrc::GAMES_MSG, Format::End => gensrc::GAMES_END, Format::Std => gensrc::GAMES_STD, _ => gensrc::GAMES_ECL }
}

fn ifmt_of(format: Format, game: Game, lang: LanguageKey) -> IFmt {
    match (format, lang) {
        (Format::Anm, _) => layout::anm_ifmt(game),
        (Format::Std, _) => layout::std_ifmt(game),
        (Format::Ecl, LanguageKey::Timeline) => layout::tl_ifmt(game),
        (Format::Ecl, _) => layout::ecl_ifmt(game),
        _ => IFmt::Msg,
    }
}

fn lang_has_regs(game: Game, lang: LanguageKey) -> bool {
    truth::verif_hooks::language_hooks(game, lang).map(|h| h.has_registers()).unwrap_or(false)
}

fn gen_low_real(rng: &mut Rng) -> Option<Case> {
    let &(format, lang) = rng.pick(REAL_TARGETS);
    let game = *rng.pick(games_of(format));
    let ifmt = ifmt_of(format, game, lang);
    let sigs: Vec<(i32, Vec<Enc>)> = gensrc::signatures(game, lang).into_iter().filter(|(op, _)| *op >= 0 && *op < 0xffff).filter_map(|(op, s)| abi_of_sig(&s).map(|a| (op, a))).collect();
    // EoSD ANM: opcodes 0 and 15 end the script ("statement after end of script"), a rule upstream of the modelled passes
    let sigs: Vec<(i32, Vec<Enc>)> = sigs.into_iter().filter(|s| !(format == Format::Anm && game == Game::Th06 && (s.0 == 0 || s.0 == 15))).collect();
    if sigs.is_empty() { return None; }
    let mut ops = vec![];
    // favour jumps and strings
    let special: Vec<&(i32, Vec<Enc>)> = sigs.iter().filter(|s| s.1.iter().any(|e| matches!(e, Enc::O | Enc::Str { .. }))).collect();
    for k in 0..1 + rng.below(4) {
        let pick = if k < 2 && !special.is_empty() && rng.chance(2, 3) { (*rng.pick(&special)).clone() } else { rng.pick(&sigs).clone() };
        if !ops.iter().any(|o: &(i32, Vec<Enc>)| o.0 == pick.0) { ops.push(pick); }
    }
    let has_regs = lang_has_regs(game, lang);
    let max_time = if matches!(ifmt, IFmt::Msg | IFmt::Anm07 | IFmt::Tl06) { 30000 } else { 100000 };
    let (allow_regs, misfits) = (has_regs && rng.chance(1, 2), rng.chance(1, 4));
    // EoSD-PoFV STD: every instruction has 12 argument bytes; other sizes are exercised rarely (std.rs encode_label asserts on them)
    let blob_len = if ifmt == IFmt::Std06 && !rng.chance(1, 12) { Some(12) } else { None };
    let stmts = gen_stream(rng, &ops, &LowOpts { max_time, blob_len, allow_regs, misfits });
    let target = Target::Real { format, game, lang, ifmt };
    Some(Case::corr(low_case(&target, has_regs, &ops, &stmts)).tag("low-real").tag(format!("low-real-{}", ifmt.name()))
        .trivial(!stmts.iter().any(|s| matches!(s, LStmt::Call(..) | LStmt::Blob(..)))))
}

// =============================================================================================
// corr: the MSG script table (sparse table of the meta -> written table + export indices of the debug info)

fn entry_text(sc: &Sexp, fl: &Sexp) -> String {
    let script = if sc.as_atom() == "z" { "0".to_string() } else { format!("\"s{}\"", sc.as_atom()) };
    if fl.as_i64() != 0 { format!("{{script: {script}, flags: {}}}", fl.as_i64()) } else { format!("{{script: {script}}}") }
}

/// `(msgtab game hasflags len|- ((key script flags)...) (default script flags) nscripts)`; script `k` is called `s<k>` and
/// its first instruction has time `k + 1` (that is how the table entries of the written file are told apart)
fn eval_msgtab(case: &Sexp) -> Sexp {
    let a = case.args();
    let game = tc::game(a[0].as_atom());
    let n = a[5].as_usize();
    let Some((op, _)) = gensrc::signatures(game, LanguageKey::Msg).into_iter().find(|(_, s)| s.trim().is_empty()) else { return Sexp::atom("no-plain-opcode") };
    let mut text = String::from("meta {\n    table: {\n");
    for e in a[3].as_list() { let e = e.as_list(); text.push_str(&format!("        {}: {},\n", e[0].as_atom(), entry_text(&e[1], &e[2]))); }
    let d = a[4].args();
    if !(d[0].as_atom() == "z" && d[1].as_i64() == 0) || a[3].as_list().is_empty() { text.push_str(&format!("        default: {},\n", entry_text(&d[0], &d[1]))); }
    text.push_str("    },\n");
    if a[2].as_atom() != "-" { text.push_str(&format!("    table_len: {},\n", a[2].as_atom())); }
    text.push_str("}\n");
    for k in 0..n { text.push_str(&format!("script s{k} {{\n+{}:\n    ins_{op}();\n}}\n", k + 1)); }
    let out = compile_dbg(Format::Msg, game, &[], text.as_bytes());
    let Some(built) = out.value else { return Sexp::app("err", vec![Sexp::str(diag_class(&out.diagnostics))]) };
    let lay = match layout::parse_file(Format::Msg, game, &built.bytes) { Ok(l) => l, Err(e) => return fail("written-binary-layout-unparsable", format!("{e}; source: {}", text.replace('\n', " "))) };
    let has_flags = game >= Game::Th09;
    let mut table = vec![];
    for (k, &o) in lay.msg_table.iter().enumerate() {
        let who = if o == 0 { Sexp::atom("z") } else {
            match lay.scripts.iter().find(|(key, _)| *key == Key::MsgOffset(o)).and_then(|(_, s)| s.instrs.first()) {
                Some(i) => Sexp::int(i.time as i64 - 1),
                None => return fail("written-table-entry-points-nowhere", format!("entry {k} has offset {o}; source: {}", text.replace('\n', " "))),
            }
        };
        let flags = if has_flags { le32(&built.bytes, 4 + 8 * k + 4).unwrap_or(0) as i64 } else { 0 };
        table.push(Sexp::list(vec![who, Sexp::int(flags)]));
    }
    let mut export = vec![];
    for d in built.dbg["exported-scripts"].as_array().cloned().unwrap_or_default() {
        let name = d["name"].as_str().unwrap_or("?").to_string();
        let k: i64 = name.trim_start_matches('s').parse().unwrap_or(-1);
        let mut items = vec![Sexp::int(k)];
        for i in d["exported-as"]["indices"].as_array().cloned().unwrap_or_default() { items.push(Sexp::int(i.as_i64().unwrap_or(-1))); }
        export.push(Sexp::list(items));
    }
    Sexp::app("ok", vec![Sexp::app("table", table), Sexp::app("export", export)])
}

fn gen_msgtab(rng: &mut Rng) -> Case {
    let game = *rng.pick(gensrc::GAMES_MSG);
    let has_flags = game >= Game::Th09;
    let n = 1 + rng.below(4);
    let span = *rng.pick(&[1usize, 2, 4, 6, 10, 20]);
    let mut keys: Vec<usize> = (0..span).filter(|_| rng.chance(1, 2)).collect();
    if rng.chance(1, 8) { keys.push(span + rng.below(40)); }
    if rng.chance(1, 3) { let k = keys.len(); for i in (1..k).rev() { let j = rng.below(i + 1); keys.swap(i, j); } }
    let entry = |rng: &mut Rng| -> (Sexp, Sexp) {
        let sc = if rng.chance(1, 8) { Sexp::atom("z") } else { Sexp::int(rng.below(n) as i64) };
        let fl = if has_flags && rng.chance(1, 3) { Sexp::int(*rng.pick(&[1i64, 2, 3, 256, 0x7fffffff])) } else { Sexp::int(0) };
        (sc, fl)
    };
    let table: Vec<Sexp> = keys.iter().map(|&k| { let (sc, fl) = entry(rng); Sexp::list(vec![Sexp::int(k as i64), sc, fl]) }).collect();
    let named_default = rng.chance(1, 2);
    let (dsc, dfl) = if named_default { entry(rng) } else { (Sexp::atom("z"), Sexp::int(0)) };
    let maxk = keys.iter().max().map(|m| m + 1).unwrap_or(0);
    let (len, how) = match rng.below(5) {
        0 | 1 => (Sexp::atom("-"), "msgtab-implicit-len"),
        2 => (Sexp::int((maxk + 1 + rng.below(6)) as i64), "msgtab-len-beyond-keys"),
        3 => (Sexp::int(rng.below(maxk + 1) as i64), "msgtab-len-cuts-keys"),
        _ => (Sexp::int(maxk as i64), "msgtab-len-exact"),
    };
    let gaps = keys.len() < maxk;
    Case::corr(Sexp::app("msgtab", vec![Sexp::atom(format!("{game}")), Sexp::int(has_flags as i64), len, Sexp::list(table), Sexp::app("default", vec![dsc, dfl]), Sexp::int(n as i64)]))
        .tag("msgtab").tag(how).tag(if named_default { "msgtab-named-default" } else { "msgtab-zero-default" }).tag(if gaps { "msgtab-gaps" } else { "msgtab-no-gaps" })
        .trivial(keys.is_empty() && !named_default)
}

// =============================================================================================

fn judge_c18(result: &Sexp) -> Option<Failure> {
    match result.head() {
        Some("panic") => {
            let a = result.args();
            let file = rel_src(a[0].as_atom().split(':').next().unwrap_or("?"));
            let msg = a[1].as_atom().lines().next().unwrap_or("?").split(':').next().unwrap_or("?").to_string();
            let msg = super::strip_digits(&msg);
            Some(Failure { signature: format!("panic {file} {msg}"), what: format!("panic at {}: {}", a[0].as_atom(), a[1].as_atom()) })
        },
        _ => default_judge(result),
    }
}

impl Prop for C18 {
    fn id(&self) -> &'static str { "C18" }
    fn relation(&self) -> &'static str {
        "msgtab: (written MSG script table (script or none, flags per entry), export indices of every script in the debug info) of the real compiler for a sparse table (explicit keys in any order, named or empty default, implicit / exact / longer / cutting table_len) == Lean `MsgTable.densify` / `written` / `exports`. low: (debug-info instruction offsets, labels (name, offset, time), end offset, emitted instructions (time, opcode, argument bytes)) of the real Lowerer — under a TestLanguage with generated signatures, and through the real compiler + written binary of every format with the game's own signatures — == Lean `Offsets.lowerTail` (gather_label_info with dummy substitution, encode_labels, second encoding pass); errors by diagnostic class"
    }
    fn rule(&self) -> &'static str {
        "low: straight-line streams of 1-10 statements over 1-4 signatures (generated ones incl. strings of every size kind / mask / furibug, jumps, narrow integers; or drawn from the game's table, favouring jumps and strings), labels at the start / between / doubled / at the end, offsetof/timeof arguments in jump, wide and narrow integer positions, @blob calls, absolute time labels, occasional misfits, duplicate and undefined labels; non-trivial = at least one instruction. prog: generated programs of ANM / MSG / ending MSG / STD / old ECL (subs and timelines) of every supported game: string instructions with furigana prefixes, labels at block edges and at the script end, loops, times, if/else, gotos, locals and sub parameters used in marker instructions, expression temporaries, difficulty switches and difficulty labels, const definitions (forward references, chains); MSG script tables with gaps, a named `default` entry and an explicit `table_len` (the export indices of every script must be exactly the entries of the written table that point at it); stack ECL (TH10-TH17) subs of raw instructions with per-difficulty string and number arguments (copies of different sizes), labels and offsetof/timeof jumps; debug info written by prepare_and_write_debug_info vs the written binary parsed by an independent layout parser; non-trivial = the program compiled and at least one script has an instruction; distinct by case text"
    }
    fn theorems(&self) -> &'static [&'static str] {
        &["TruthModel.C18.dummy_same_size", "TruthModel.C18.offsets_stable", "TruthModel.C18.label_on_boundary", "TruthModel.C18.end_is_length", "TruthModel.C18.instr_count",
          "TruthModel.C18.label_time", "TruthModel.C18.label_args_use_recorded", "TruthModel.C18.written_layout", "TruthModel.C18.second_pass_ok_of_wide", "TruthModel.C18.no_panic_after_gather",
          "TruthModel.C18.second_pass_reports", "TruthModel.C18.index20_no_assert", "TruthModel.C18.encodeLabels_no_panic",
          "TruthModel.C18.msg_export_indices", "TruthModel.C18.msg_export_indices_written", "TruthModel.C18.default_entry_listed", "TruthModel.C18.entry_beyond_len_not_listed", "TruthModel.C18.exports_complete", "TruthModel.C18.exports_sound"]
    }
    fn timeout_secs(&self) -> u64 { 60 }

    fn gen(&self, tier: Tier, rng: &mut Rng) -> Vec<Case> {
        let (n_test, n_real, n_prog) = if tier == Tier::Quick { (600, 400, 800) } else { (20000, 15000, 30000) };
        let mut out = fixed_cases();
        let mut r = rng.fork(1);
        for _ in 0..n_test { out.push(gen_low_test(&mut r)); }
        let mut r = rng.fork(2);
        let mut k = 0;
        while k < n_real { if let Some(c) = gen_low_real(&mut r) { out.push(c); k += 1; } }
        let mut r = rng.fork(3);
        for _ in 0..n_prog { out.push(gen_prog(&mut r)); }
        let mut r = rng.fork(4);
        for _ in 0..n_test / 2 { out.push(gen_msgtab(&mut r)); }
        out
    }

    fn eval(&self, case: &Sexp) -> Sexp {
        match case.head() {
            Some("low") => eval_low(case),
            Some("msgtab") => eval_msgtab(case),
            Some("prog") => {
                let a = case.args();
                let maps: Vec<String> = a[2].as_list().iter().map(|m| m.as_atom().to_string()).collect();
                eval_prog(Format::from_name(a[0].as_atom()), tc::game(a[1].as_atom()), &maps, a[3].as_atom(), a[4].as_list())
            },
            _ => Sexp::atom("bad-case"),
        }
    }

    fn judge(&self, _case: &Sexp, result: &Sexp) -> Option<Failure> { judge_c18(result) }
}

// =============================================================================================
// generators of whole programs (search)

#[derive(Clone, Debug)]
struct Marker { op: i32, params: Vec<char> }

impl Marker {
    /// (position of the observed argument, position of the magic number, magic is a float)
    fn place(&self, want: char) -> Option<(usize, usize, bool)> {
        let apos = self.params.iter().position(|&c| c == want)?;
        let mpos = (0..self.params.len()).filter(|&k| k != apos).min_by_key(|&k| if self.params[k] == 'S' { 0 } else { 1 })?;
        Some((apos, mpos, self.params[mpos] == 'f'))
    }
    fn call(&self, apos: usize, arg: &str, mpos: usize, magic: i64) -> String {
        let args: Vec<String> = self.params.iter().enumerate().map(|(k, &c)| {
            if k == apos { arg.to_string() } else if k == mpos { if c == 'f' { format!("{magic}.0") } else { format!("{magic}") } } else if c == 'f' { "0.0".into() } else { "0".into() }
        }).collect();
        format!("ins_{}({});", self.op, args.join(", "))
    }
}

struct PG<'a> {
    rng: &'a mut Rng, format: Format, game: Game,
    sigs: Vec<(i32, String)>, skip: Vec<i32>, markers: Vec<Marker>,
    str_ops: Vec<(i32, Vec<gensrc::SigParam>)>,
    has_regs: bool, max_int: usize, max_float: usize, named_int: Vec<i32>, named_float: Vec<i32>,
    has_jump: bool, diff: bool, max_time: i32,
    expect: Vec<Sexp>, magic: i64, uid: usize, tags: Vec<&'static str>,
    script: String, time: i32, labels_all: Vec<String>, labels_pending: Vec<String>,
    locals: Vec<(String, bool)>, consts: Vec<(String, char)>,
}

impl<'a> PG<'a> {
    fn new(rng: &'a mut Rng, format: Format, game: Game, lang: LanguageKey) -> PG<'a> {
        let sigs = gensrc::signatures(game, lang);
        let mut skip = gensrc::intrinsic_opcodes(game, lang);
        if format == Format::Anm && game == Game::Th06 { skip.push(0); skip.push(15); }
        let markers: Vec<Marker> = sigs.iter().filter(|(op, _)| *op >= 0 && !skip.contains(op)).filter_map(|(op, sig)| {
            let ps = gensrc::parse_sig(sig);
            if ps.len() >= 2 && ps.iter().all(|p| matches!(p.ch, 'S' | 'f') && p.attrs.is_empty()) { Some(Marker { op: *op, params: ps.iter().map(|p| p.ch).collect() }) } else { None }
        }).collect();
        let str_ops = sigs.iter().filter(|(op, _)| *op >= 0 && !skip.contains(op)).filter_map(|(op, sig)| {
            let ps = gensrc::parse_sig(sig);
            if ps.iter().any(|p| matches!(p.ch, 'z' | 'm' | 'p')) && !ps.iter().any(|p| matches!(p.ch, 'o' | 't')) { Some((*op, ps)) } else { None }
        }).collect();
        let hooks = truth::verif_hooks::language_hooks(game, lang);
        // instructions that forbid scratch registers would reject most programs with locals
        if let Some(h) = hooks.as_ref() { for (op, _) in &sigs { if *op >= 0 && *op < 0xffff && h.instr_disables_scratch_regs(*op as u16).is_some() { skip.push(*op); } } }
        let has_regs = hooks.as_ref().map(|h| h.has_registers()).unwrap_or(false);
        let (mut gi, mut gf) = (vec![], vec![]);
        if let (true, Some(h)) = (has_regs, hooks.as_ref()) {
            let g = h.general_use_regs();
            gi = g[truth::ScalarType::Int].iter().map(|r| r.0).collect();
            gf = g[truth::ScalarType::Float].iter().map(|r| r.0).collect();
        }
        // registers the source names: ones outside the scratch pools when the language has them
        let (mut named_int, mut named_float) = (vec![], vec![]);
        if has_regs {
            let mut scope = truth::Builder::new().capture_diagnostics(true).build();
            let mut t = scope.truth();
            let m = truth::verif_hooks::core_mapfile(t.ctx().emitter, game, lang);
            for (id, ty) in &m.gvar_types {
                if gi.contains(id) || gf.contains(id) { continue; }
                if ty.value == "$" { named_int.push(*id); } else if ty.value == "%" { named_float.push(*id); }
            }
            named_int.truncate(6); named_float.truncate(6);
            if named_int.is_empty() { named_int = gi.iter().rev().take(1).copied().collect(); }
            if named_float.is_empty() { named_float = gf.iter().rev().take(1).copied().collect(); }
        }
        let has_jump = sigs.iter().any(|(op, s)| skip.contains(op) && s.contains('o'));
        let ifmt = ifmt_of(format, game, lang);
        PG { rng, format, game, sigs, skip, markers, str_ops, has_regs,
            max_int: gi.len().saturating_sub(3), max_float: gf.len().saturating_sub(2), named_int, named_float, has_jump,
            diff: lang == LanguageKey::Ecl, max_time: if matches!(ifmt, IFmt::Msg | IFmt::Anm07 | IFmt::Tl06) { 30000 } else { 1_000_000 },
            expect: vec![], magic: 700001, uid: 0, tags: vec![],
            script: String::new(), time: 0, labels_all: vec![], labels_pending: vec![], locals: vec![], consts: vec![] }
    }

    fn tag(&mut self, t: &'static str) { if !self.tags.contains(&t) { self.tags.push(t); } }

    fn start_script(&mut self, name: &str, params: &[(String, bool)]) {
        self.script = name.to_string();
        self.time = 0;
        let n = self.rng.below(4);
        self.labels_all = (0..n).map(|k| format!("lab_{}_{k}", name)).collect();
        self.labels_pending = self.labels_all.clone();
        self.rng.shuffle(&mut self.labels_pending);
        self.locals = params.to_vec();
    }

    fn next_magic(&mut self) -> i64 { self.magic += 1; self.magic }

    fn plain_call(&mut self) -> Option<String> {
        let style = gensrc::ArgStyle { boundary: true, allow_strings: true };
        gensrc::gen_call(self.rng, &self.sigs, &self.skip, &style)
    }

    fn string_call(&mut self) -> Option<String> {
        if self.str_ops.is_empty() { return None; }
        let (op, ps) = self.rng.pick(&self.str_ops).clone();
        let style = gensrc::ArgStyle { boundary: false, allow_strings: true };
        let mut args = vec![];
        for p in &ps {
            if matches!(p.ch, 'z' | 'm' | 'p') {
                let fixed = p.attrs.contains("len=");
                let mut t = c12::gen_text(self.rng, if fixed { 6 } else { 14 });
                // furigana lines: `|` prefix on a string that a later string follows
                if !fixed && self.rng.chance(1, 4) && !t.starts_with('|') { t.insert(0, '|'); }
                if t.starts_with('|') { self.tag("furigana-prefix"); }
                args.push(c12::string_literal(&t));
            } else {
                match gensrc::gen_arg(self.rng, p, &style) { Ok(Some(a)) => args.push(a), Ok(None) => {}, Err(()) => return None }
            }
        }
        self.tag("string-instr");
        Some(format!("ins_{op}({});", args.join(", ")))
    }

    fn int_atom(&mut self) -> String {
        let ints: Vec<String> = self.locals.iter().filter(|l| !l.1).map(|l| l.0.clone()).collect();
        match self.rng.below(4) {
            0 if !ints.is_empty() => self.rng.pick(&ints).clone(),
            1 if !self.named_int.is_empty() => format!("$REG[{}]", self.rng.pick(&self.named_int)),
            2 if self.consts.iter().any(|c| c.1 == 'i') => { let cs: Vec<&(String, char)> = self.consts.iter().filter(|c| c.1 == 'i').collect(); self.rng.pick(&cs).0.clone() },
            _ => format!("{}", self.rng.range(0, 20)),
        }
    }
    fn float_atom(&mut self) -> String {
        let fl: Vec<String> = self.locals.iter().filter(|l| l.1).map(|l| l.0.clone()).collect();
        match self.rng.below(3) {
            0 if !fl.is_empty() => self.rng.pick(&fl).clone(),
            1 if !self.named_float.is_empty() => format!("%REG[{}]", self.rng.pick(&self.named_float)),
            _ => format!("{}.5", self.rng.range(0, 20)),
        }
    }
    fn int_expr(&mut self, depth: u32) -> String {
        if depth == 0 || self.rng.chance(1, 3) { return self.int_atom(); }
        let op = *self.rng.pick(&["+", "-", "*"]);
        format!("({} {op} {})", self.int_expr(depth - 1), self.int_expr(depth - 1))
    }
    fn float_expr(&mut self, depth: u32) -> String {
        if depth == 0 || self.rng.chance(1, 3) { return self.float_atom(); }
        let op = *self.rng.pick(&["+", "-", "*"]);
        format!("({} {op} {})", self.float_expr(depth - 1), self.float_expr(depth - 1))
    }
    fn cond(&mut self) -> String {
        if self.rng.chance(2, 3) { format!("{} {} {}", self.int_atom(), self.rng.pick(&["==", "!=", "<", ">="]), self.rng.range(0, 9)) }
        else { format!("{} {} {}.0", self.float_atom(), self.rng.pick(&["<", ">"]), self.rng.range(0, 9)) }
    }

    fn use_marker(&mut self, name: &str, is_float: bool, kind: &str) -> Option<String> {
        let want = if is_float { 'f' } else { 'S' };
        let cands: Vec<Marker> = self.markers.iter().filter(|m| m.place(want).is_some()).cloned().collect();
        if cands.is_empty() { return None; }
        let m = self.rng.pick(&cands).clone();
        let (apos, mpos, mfloat) = m.place(want).unwrap();
        let magic = self.next_magic();
        self.expect.push(Sexp::app("use", vec![Sexp::atom(self.script.clone()), Sexp::int(m.op), Sexp::int(mpos as i64), Sexp::int(magic), Sexp::int(mfloat as i64), Sexp::int(apos as i64), Sexp::atom(kind), Sexp::atom(name)]));
        Some(m.call(apos, name, mpos, magic))
    }

    fn stmts(&mut self, out: &mut String, depth: u32, n: usize, ind: usize) {
        let pad = " ".repeat(ind);
        let scope_mark = self.locals.len();
        for _ in 0..n {
            let live_int = self.locals.iter().filter(|l| !l.1).count();
            let live_float = self.locals.iter().filter(|l| l.1).count();
            match self.rng.below(24) {
                0..=3 => if let Some(c) = self.plain_call() { out.push_str(&format!("{pad}{c}\n")); },
                4..=6 => if let Some(c) = self.string_call() { out.push_str(&format!("{pad}{c}\n")); } else if let Some(c) = self.plain_call() { out.push_str(&format!("{pad}{c}\n")); },
                7 | 8 => {
                    if self.rng.chance(2, 3) { let d = *self.rng.pick(&[1, 5, 10, 60, 100]); if self.time + d <= self.max_time { self.time += d; out.push_str(&format!("+{d}:\n")); } }
                    else { let t = *self.rng.pick(&[0, 10, 30, 100, 1000, 5000]); self.time = t; out.push_str(&format!("{t}:\n")); }
                },
                9 | 10 => if let Some(l) = self.labels_pending.pop() {
                    out.push_str(&format!("{l}:\n"));
                    let time = self.time;
                    let mut followed = false;
                    if self.rng.chance(1, 2) { if let Some(c) = self.plain_call() { out.push_str(&format!("{pad}{c}\n")); followed = true; } }
                    self.expect.push(Sexp::app("label", vec![Sexp::atom(self.script.clone()), Sexp::atom(l), Sexp::int(time), Sexp::int(followed as i64)]));
                    self.tag("user-label");
                },
                11 if self.has_jump && !self.labels_all.is_empty() => { let l = self.rng.pick(&self.labels_all).clone(); out.push_str(&format!("{pad}goto {l};\n")); self.tag("goto"); },
                12 | 13 if self.has_regs => {
                    let is_float = self.rng.chance(1, 3);
                    if (is_float && live_float < self.max_float) || (!is_float && live_int < self.max_int) {
                        self.uid += 1;
                        let name = format!("{}{}", if is_float { "fv" } else { "iv" }, self.uid);
                        let e = if is_float { self.float_expr(1) } else { self.int_expr(1) };
                        out.push_str(&format!("{pad}{} {name} = {e};\n", if is_float { "float" } else { "int" }));
                        self.locals.push((name, is_float));
                        self.tag("local");
                    }
                },
                14..=16 if !self.locals.is_empty() => {
                    let (name, is_float) = self.rng.pick(&self.locals).clone();
                    if let Some(c) = self.use_marker(&name, is_float, if is_float { "local-float" } else { "local-int" }) { out.push_str(&format!("{pad}{c}\n")); self.tag("local-use"); }
                },
                17 if self.has_regs && !self.markers.is_empty() => {
                    // an expression that needs temporaries
                    let ms: Vec<Marker> = self.markers.iter().filter(|m| m.place('S').is_some()).cloned().collect();
                    if !ms.is_empty() {
                        let m = self.rng.pick(&ms).clone();
                        let (apos, mpos, _) = m.place('S').unwrap();
                        let e = self.int_expr(2);
                        let magic = self.next_magic();
                        out.push_str(&format!("{pad}{}\n", m.call(apos, &e, mpos, magic)));
                        self.tag("temporaries");
                    }
                },
                18 if !self.consts.is_empty() => {
                    let (name, k) = self.rng.pick(&self.consts).clone();
                    if let Some(c) = self.use_marker(&name, k == 'f', if k == 'f' { "const-float" } else { "const-int" }) { out.push_str(&format!("{pad}{c}\n")); self.tag("const-use"); }
                },
                19 | 20 if self.has_jump && depth > 0 => {
                    let k = self.rng.below(if self.has_regs { 5 } else { 1 });
                    let inner_n = 1 + self.rng.below(4);
                    let mut inner = String::new();
                    match k {
                        0 => { self.stmts(&mut inner, depth - 1, inner_n, ind + 4); out.push_str(&format!("{pad}loop {{\n{inner}{pad}}}\n")); self.tag("loop"); },
                        1 => { let c = self.rng.range(0, 5); self.stmts(&mut inner, depth - 1, inner_n, ind + 4); out.push_str(&format!("{pad}times({c}) {{\n{inner}{pad}}}\n")); self.tag("times"); },
                        2 => {
                            let c = self.cond();
                            self.stmts(&mut inner, depth - 1, inner_n, ind + 4);
                            out.push_str(&format!("{pad}if ({c}) {{\n{inner}{pad}}}"));
                            if self.rng.chance(1, 2) { let mut e = String::new(); let m = self.rng.below(3); self.stmts(&mut e, depth - 1, m, ind + 4); out.push_str(&format!(" else {{\n{e}{pad}}}")); }
                            out.push('\n');
                            self.tag("if-else");
                        },
                        3 => { let c = self.cond(); self.stmts(&mut inner, depth - 1, inner_n, ind + 4); out.push_str(&format!("{pad}while ({c}) {{\n{inner}{pad}}}\n")); self.tag("while"); },
                        _ => { self.stmts(&mut inner, depth - 1, inner_n, ind + 4); out.push_str(&format!("{pad}{{\n{inner}{pad}}}\n")); self.tag("block"); },
                    }
                },
                21 if self.diff => {
                    if self.rng.chance(1, 2) {
                        let ms: Vec<Marker> = self.markers.iter().filter(|m| m.place('S').is_some()).cloned().collect();
                        if !ms.is_empty() {
                            let m = self.rng.pick(&ms).clone();
                            let (apos, mpos, _) = m.place('S').unwrap();
                            let cases: Vec<String> = (0..4).map(|k| if k > 0 && self.rng.chance(1, 4) { String::new() } else { self.int_atom() }).collect();
                            let magic = self.next_magic();
                            out.push_str(&format!("{pad}{}\n", m.call(apos, &format!("({})", cases.join(":")), mpos, magic)));
                            self.tag("difficulty-switch");
                        }
                    } else if let (Some(c), Some(c2)) = (self.plain_call(), self.plain_call()) {
                        // (a difficulty label must be followed by an instruction statement)
                        out.push_str(&format!("{}:\n{pad}{c}\n{{\"*\"}}:\n{pad}{c2}\n", self.rng.pick(&["{\"EN\"}", "{\"HL\"}", "{\"E\"}", "{\"NHL\"}"])));
                        self.tag("difficulty-label");
                    }
                },
                _ => if let Some(c) = self.plain_call() { out.push_str(&format!("{pad}{c}\n")); },
            }
        }
        self.locals.truncate(scope_mark);
    }

    /// body of one script; labels that were not placed go to the very end (offset = end offset)
    fn body(&mut self, depth: u32, max_stmts: usize) -> String {
        let mut out = String::new();
        let n = self.rng.below(max_stmts + 1);
        self.stmts(&mut out, depth, n, 4);
        let rest: Vec<String> = self.labels_pending.drain(..).collect();
        for l in rest {
            if self.rng.chance(1, 3) { let d = 10; if self.time + d <= self.max_time { self.time += d; out.push_str(&format!("+{d}:\n")); } }
            out.push_str(&format!("{l}:\n"));
            self.expect.push(Sexp::app("label", vec![Sexp::atom(self.script.clone()), Sexp::atom(l), Sexp::int(self.time), Sexp::int(0)]));
            self.tag("label-at-end");
        }
        out
    }

    /// `const` items: literals, chains, forward references; returns the source text
    fn const_items(&mut self) -> String {
        let n = self.rng.below(5);
        let mut defs: Vec<String> = vec![];
        let mut ints: Vec<(String, i32)> = vec![];
        let mut floats: Vec<(String, f32)> = vec![];
        for _ in 0..n {
            self.uid += 1;
            if self.rng.chance(2, 3) {
                let name = format!("CI{}", self.uid);
                let (text, v) = if !ints.is_empty() && self.rng.chance(1, 2) {
                    let (b, bv) = self.rng.pick(&ints).clone();
                    match self.rng.below(3) { 0 => { let k = self.rng.int_boundary(); (format!("{b} + {}", k as u32), bv.wrapping_add(k)) }, 1 => { let k = self.rng.range(-9, 9) as i32; (format!("{b} * ({k})"), bv.wrapping_mul(k)) }, _ => (format!("-{b}"), bv.wrapping_neg()) }
                } else { let k = self.rng.int_boundary(); (format!("{}", k as u32), k) };
                defs.push(format!("const int {name} = {text};\n"));
                self.expect.push(Sexp::app("const", vec![Sexp::atom(name.clone()), Sexp::atom("int"), Sexp::int(v)]));
                ints.push((name.clone(), v));
                self.consts.push((name, 'i'));
            } else {
                let name = format!("CF{}", self.uid);
                let (text, v) = if !floats.is_empty() && self.rng.chance(1, 2) {
                    let (b, bv) = self.rng.pick(&floats).clone();
                    (format!("{b} + 0.25"), bv + 0.25)
                } else { let x = *self.rng.pick(&[0.0f32, 1.5, -2.25, 100.0, 0.1, 3.14159, 16777216.0, 1e-3]); (gensrc::float_text(x), x) };
                defs.push(format!("const float {name} = {text};\n"));
                self.expect.push(Sexp::app("const", vec![Sexp::atom(name.clone()), Sexp::atom("float"), Sexp::int(v.to_bits() as i64)]));
                floats.push((name.clone(), v));
                self.consts.push((name, 'f'));
            }
        }
        // forward references: definition order does not matter
        if self.rng.chance(1, 2) { defs.reverse(); }
        if !defs.is_empty() { self.tag("consts"); }
        defs.concat()
    }
}

fn prog_case(format: Format, game: Game, maps: Vec<String>, text: String, expect: Vec<Sexp>, tags: &[&'static str]) -> Case {
    let mut c = Case::search(Sexp::app("prog", vec![Sexp::atom(format.name()), Sexp::atom(format!("{game}")), Sexp::list(maps.into_iter().map(Sexp::str).collect()), Sexp::str(text.clone()), Sexp::list(expect)]))
        .tag(format!("prog-{}", format.name())).trivial(!text.contains("ins_"));
    for t in tags { c = c.tag(*t); }
    c
}

/// Stack ECL (TH10+): subs of raw instructions; string and number arguments that differ per difficulty (the compiler
/// writes one copy of the instruction per difficulty group, of different sizes where the strings differ in length),
/// labels everywhere, jumps by `offsetof` / `timeof`.
fn gen_prog_ecl10(rng: &mut Rng) -> Case {
    let game = *rng.pick(&[Game::Th10, Game::Th10, Game::Th11, Game::Th12, Game::Th13, Game::Th14, Game::Th15, Game::Th16, Game::Th17]);
    // only TH10 has built-in stack ECL signatures; the later games get the same ones from a user mapfile
    let sigs = gensrc::signatures(Game::Th10, LanguageKey::Ecl);
    let usable = |sig: &str| gensrc::parse_sig(sig).iter().all(|p| matches!(p.ch, 'S' | 's' | 'f' | 'P' | 'z' | 'm' | 'o' | 't') && (!p.attrs.contains("enum") && !p.attrs.contains("len=")));
    let strs: Vec<(i32, String)> = sigs.iter().filter(|(_, s)| usable(s) && s.contains(|c| c == 'P' || c == 'z' || c == 'm')).cloned().collect();
    let plain: Vec<(i32, String)> = sigs.iter().filter(|(_, s)| usable(s) && !s.contains(|c| "Pzmot".contains(c)) && gensrc::parse_sig(s).len() <= 4).cloned().collect();
    let jumps: Vec<(i32, String)> = sigs.iter().filter(|(_, s)| s.trim() == "ot").cloned().collect();
    const WORDS: &[&str] = &["", "a", "Girl", "abc", "GirlNormal01", "Boss1Card", "GirlHardVariantA", "GirlLunaticVariantLong00", "\u{3042}", "\u{6771}\u{65b9}x", "0123456789abcdef0123456789abcdef"];
    let mut tags: Vec<&'static str> = vec!["stack-ecl"];
    let mut expect = vec![];
    let mut text = String::new();
    if rng.chance(1, 2) { text.push_str("meta { anim: [\"enemy.anm\"], ecli: [] }\n"); }
    let nsubs = 1 + rng.below(3);
    for si in 0..nsubs {
        let name = if si == 0 { "main".to_string() } else { format!("Sub{si}") };
        let nlabels = 1 + rng.below(4);
        let n = 2 + rng.below(7);
        let label_at: Vec<usize> = (0..nlabels).map(|_| rng.below(n + 1)).collect();
        let mut body = String::new();
        let mut time = 0i64;
        for k in 0..=n {
            for (l, &at) in label_at.iter().enumerate() {
                if at == k { body.push_str(&format!("lab{si}_{l}:\n")); expect.push(Sexp::app("label", vec![Sexp::atom(&name), Sexp::atom(format!("lab{si}_{l}")), Sexp::int(time), Sexp::int(0)])); }
            }
            if k == n { break; }
            if rng.chance(1, 5) { let d = *rng.pick(&[1i64, 10, 60]); time += d; body.push_str(&format!("+{d}:\n")); }
            let (op, sig) = match rng.below(10) {
                0..=4 if !strs.is_empty() => rng.pick(&strs).clone(),
                5 | 6 if !jumps.is_empty() => rng.pick(&jumps).clone(),
                _ if !plain.is_empty() => rng.pick(&plain).clone(),
                _ => (10, String::new()),
            };
            let target = rng.below(nlabels);
            let mut switched = false;
            // all switches of one statement have the same number of cases
            let stmt_alts = 2 + rng.below(3);
            let args: Vec<String> = gensrc::parse_sig(&sig).iter().map(|p| {
                let sw = rng.chance(1, 2);
                let alts = if sw { stmt_alts } else { 1 };
                let one = |rng: &mut Rng| match p.ch {
                    'f' => format!("{}.5", rng.below(40)),
                    'P' | 'z' | 'm' => format!("\"{}\"", rng.pick(WORDS)),
                    'o' => format!("offsetof(lab{si}_{target})"),
                    't' => format!("timeof(lab{si}_{target})"),
                    _ => format!("{}", rng.below(200)),
                };
                if matches!(p.ch, 'o' | 't') || alts == 1 { return one(rng); }
                switched = true;
                (0..alts).map(|_| one(rng)).collect::<Vec<_>>().join(" : ")
            }).collect();
            if switched { tags.push(if sig.contains(|c| c == 'P' || c == 'z' || c == 'm') { "diff-switch-string" } else { "diff-switch" }); }
            if sig.trim() == "ot" { tags.push("jump"); }
            body.push_str(&format!("    ins_{op}({});\n", args.join(", ")));
        }
        text.push_str(&format!("void {name}() {{\n{body}}}\n"));
    }
    tags.sort(); tags.dedup();
    let maps = if game == Game::Th10 { vec![] } else {
        let mut m = String::from("!eclmap\n!ins_signatures\n");
        for (op, sig) in strs.iter().chain(&plain).chain(&jumps) { m.push_str(&format!("{op} {}\n", sig.trim())); }
        m.push_str("10 \n");
        vec![m]
    };
    prog_case(Format::Ecl, game, maps, text, expect, &tags)
}

fn gen_prog(rng: &mut Rng) -> Case {
    if rng.chance(1, 8) { return gen_prog_ecl10(rng); }
    match rng.below(10) {
        0..=2 => {
            let end = rng.chance(1, 4);
            let game = *rng.pick(if end { gensrc::GAMES_END } else { gensrc::GAMES_MSG });
            // the furigana quirk lives in TH12+ MSG
            let game = if !end && rng.chance(1, 2) { *rng.pick(&[Game::Th12, Game::Th128, Game::Th13, Game::Th14, Game::Th15, Game::Th16, Game::Th17, Game::Th18]) } else { game };
            let format = if end { Format::End } else { Format::Msg };
            let mut g = PG::new(rng, format, game, if end { LanguageKey::End } else { LanguageKey::Msg });
            let consts = g.const_items();
            let nscripts = 1 + g.rng.below(3);
            let mut text = String::from("meta {\n    table: {\n");
            let mut idx = 0;
            let mut first_of: Vec<usize> = vec![];
            for k in 0..nscripts { idx += g.rng.below(2) + (k > 0) as usize; first_of.push(idx); text.push_str(&format!("        {idx}: {{script: \"script{k}\"}},\n")); if g.rng.chance(1, 4) { idx += 1 + g.rng.below(2); text.push_str(&format!("        {idx}: {{script: \"script{k}\"}},\n")); } }
            // the shapes `trumsg decompile` writes for game files: a named default filling the gaps, an explicit table length
            // (longer than the explicit entries, or cutting some of them off)
            if g.rng.chance(1, 3) { let d = g.rng.below(nscripts); text.push_str(&format!("        default: {{script: \"script{d}\"}},\n")); g.tags.push("msg-table-default"); }
            text.push_str("    },\n");
            if g.rng.chance(1, 4) {
                // every script keeps an entry (a script without one is written but not described, and the independent
                // layout parser cannot tell where its neighbour ends)
                let min_len = first_of.iter().max().copied().unwrap_or(0) + 1;
                let len = if g.rng.chance(1, 3) && idx + 1 > min_len { min_len + g.rng.below(idx + 1 - min_len) } else { idx + 1 + g.rng.below(4) };
                text.push_str(&format!("    table_len: {len},\n")); g.tags.push("msg-table-len");
            }
            text.push_str("}\n");
            text.push_str(&consts);
            for k in 0..nscripts {
                g.start_script(&format!("script{k}"), &[]);
                let b = g.body(0, 8);
                text.push_str(&format!("script script{k} {{\n{b}}}\n"));
            }
            let (e, t) = (g.expect, g.tags);
            prog_case(format, game, vec![], text, e, &t)
        },
        3 | 4 => {
            let game = *rng.pick(gensrc::GAMES_STD);
            let base = gensrc::gen_std(rng, game);
            let mut g = PG::new(rng, Format::Std, game, LanguageKey::Std);
            let consts = g.const_items();
            let cut = base.text.find("script main {").unwrap_or(base.text.len());
            g.start_script("main", &[]);
            let b = g.body(2, 9);
            let text = format!("{}{}script main {{\n{b}}}\n", &base.text[..cut], consts);
            let (e, t) = (g.expect, g.tags);
            prog_case(Format::Std, game, vec![], text, e, &t)
        },
        5..=7 => {
            let game = *rng.pick(gensrc::GAMES_ANM);
            let mut g = PG::new(rng, Format::Anm, game, LanguageKey::Anm);
            let mut text = String::new();
            let nentries = if game == Game::Th06 { 1 } else { 1 + g.rng.below(2) };
            let mut next_id = 0u32;
            let mut sn = 0;
            let mut k = 0;
            for e in 0..nentries {
                text.push_str(&gensrc::anm_entry_text(g.rng, game, e, 1, sn, false, &mut next_id));
                sn += 1;
                if e == 0 { let c = g.const_items(); text.push_str(&c); }
                for _ in 0..1 + g.rng.below(2) {
                    g.start_script(&format!("script{k}"), &[]);
                    let mut b = g.body(3, 10);
                    if game == Game::Th06 && !b.contains("ins_") { b = format!("    ins_1(0);\n{b}"); }
                    text.push_str(&format!("script script{k} {{\n{b}}}\n"));
                    k += 1;
                }
            }
            let (e, t) = (g.expect, g.tags);
            prog_case(Format::Anm, game, vec![], text, e, &t)
        },
        _ => {
            let game = *rng.pick(gensrc::GAMES_ECL);
            let mut text = String::new();
            let mut expect = vec![];
            let mut tags: Vec<&'static str> = vec![];
            let mut magic = 700001;
            let ntl = if game == Game::Th06 { 1 } else { 1 + rng.below(2) };
            {
                let mut g = PG::new(rng, Format::Ecl, game, LanguageKey::Timeline);
                let consts = g.const_items();
                text.push_str(&consts);
                for k in 0..ntl {
                    g.start_script(&format!("timeline{k}"), &[]);
                    let b = g.body(0, 5);
                    text.push_str(&format!("script timeline{k} {{\n{b}}}\n"));
                }
                expect.append(&mut g.expect); tags.append(&mut g.tags); magic = g.magic;
            }
            let mut g = PG::new(rng, Format::Ecl, game, LanguageKey::Ecl);
            g.magic = magic;
            // constants defined above are visible in the subs too
            for e in &expect { if e.head() == Some("const") { g.consts.push((e.args()[0].as_atom().to_string(), if e.args()[1].as_atom() == "int" { 'i' } else { 'f' })); } }
            for k in 0..1 + g.rng.below(3) {
                let mut params: Vec<(String, bool)> = vec![];
                match g.rng.below(4) {
                    0 => params.push((format!("pa{k}"), false)),
                    1 => params.push((format!("px{k}"), true)),
                    2 => { params.push((format!("pa{k}"), false)); params.push((format!("px{k}"), true)); },
                    _ => {},
                }
                if !params.is_empty() { g.tag("sub-params"); }
                g.start_script(&format!("sub{k}"), &params);
                let b = g.body(3, 10);
                let ptext: Vec<String> = params.iter().map(|p| format!("{} {}", if p.1 { "float" } else { "int" }, p.0)).collect();
                text.push_str(&format!("void sub{k}({}) {{\n{b}}}\n", ptext.join(", ")));
            }
            expect.append(&mut g.expect);
            for t in g.tags { if !tags.contains(&t) { tags.push(t); } }
            prog_case(Format::Ecl, game, vec![gensrc::ECL_DIFFICULTY_MAP.to_string()], text, expect, &tags)
        },
    }
}

/// hand-written cases that run first on every tier
fn fixed_cases() -> Vec<Case> {
    let mut out = vec![];
    // a float constant whose value JSON cannot carry
    let anm = |body: &str, pre: &str| format!("entry {{ path: \"a.png\", has_data: false, img_width: 16, img_height: 16, img_format: 3, sprites: {{}} }}\n{pre}script script0 {{\n{body}}}\n");
    out.push(prog_case(Format::Anm, Game::Th12, vec![], anm("    ins_47(CINF);\n", "const float CINF = INF;\n"), vec![Sexp::app("const", vec![Sexp::atom("CINF"), Sexp::atom("float"), Sexp::int(f32::INFINITY.to_bits() as i64)])], &["const-not-finite"]));
    // the program of the exploration notes: locals, loop, if/else, times, timeof, labels at block edges and at the end
    out.push(prog_case(Format::Anm, Game::Th12, vec![], anm("    int x = 5;\n    ins_75(x);\nlbl:\n    loop {\n        float y = 2.0;\n        ins_75(FOO);\n+10:\n        if (x == 3) { ins_75(FOO); ins_47(y); } else { ins_75(x + $REG[10000] * 2); }\n    }\n    times(3) { ins_75(1); }\n    ins_75(timeof(endl));\n    goto lbl;\n+300:\nendl:\n", "const int FOO = 3 + 4;\n"),
        vec![Sexp::app("label", vec![Sexp::atom("script0"), Sexp::atom("lbl"), Sexp::int(0), Sexp::int(0)]), Sexp::app("label", vec![Sexp::atom("script0"), Sexp::atom("endl"), Sexp::int(310), Sexp::int(0)]), Sexp::app("const", vec![Sexp::atom("FOO"), Sexp::atom("int"), Sexp::int(7)])], &["handwritten"]));
    // timeof in a one-byte parameter: dummy 0 fits, the real time does not
    out.push(prog_case(Format::Anm, Game::Th12, vec![], anm("    ins_68(timeof(endl));\n+300:\nendl:\n", ""), vec![], &["narrow-timeof"]));
    // EoSD STD: a label after an instruction whose size is not 20 bytes (`encode_label` asserts `dest % 20 == 0`)
    let s_ = Enc::Int { letter: 'S', arg0: false, imm: false, hex: false, en: false };
    let f_ = Enc::Float { imm: false };
    let ops = vec![(0, vec![f_.clone(), f_.clone(), f_]), (3, vec![s_, Enc::Pad(true), Enc::Pad(true)])];
    let stmts = vec![LStmt::Blob(0, vec![0, 0, 0, 0]), LStmt::Label("La".into()), LStmt::Call(1, vec![LArg::Off("La".into())])];
    out.push(Case::corr(low_case(&Target::Real { format: Format::Std, game: Game::Th06, lang: LanguageKey::Std, ifmt: IFmt::Std06 }, false, &ops, &stmts)).tag("std06-unaligned-label"));
    out
}
