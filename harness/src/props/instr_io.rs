//! Instruction-level I/O through the real `InstrFormat` implementations (shared by C03 and C16).

use crate::rng::Rng;
use crate::sexp::{Sexp, hex, unhex};
use crate::util::diag_class;
use std::io::Cursor;
use truth::{Game, LanguageKey};
use truth::io::{BinReader, BinWriter};
use truth::llir::{RawInstr, ReadInstr};

/// (game, language, model format name).  The harness' own table of which header layout each game
/// uses; a change of layout selection in the code shows up as a correspondence break.
pub const FORMATS: &[(Game, LanguageKey, &str)] = &[
    (Game::Th06, LanguageKey::Msg, "msg"), (Game::Th08, LanguageKey::Msg, "msg"), (Game::Th12, LanguageKey::Msg, "msg"), (Game::Th17, LanguageKey::Msg, "msg"),
    (Game::Th08, LanguageKey::End, "msg"), (Game::Th12, LanguageKey::End, "msg"),
    (Game::Th06, LanguageKey::Anm, "msg"),
    (Game::Th07, LanguageKey::Anm, "anm07"), (Game::Th08, LanguageKey::Anm, "anm07"), (Game::Th10, LanguageKey::Anm, "anm07"), (Game::Th12, LanguageKey::Anm, "anm07"), (Game::Th16, LanguageKey::Anm, "anm07"),
    (Game::Th06, LanguageKey::Std, "std06"), (Game::Th07, LanguageKey::Std, "std06"), (Game::Th08, LanguageKey::Std, "std06"), (Game::Th09, LanguageKey::Std, "std06"),
    (Game::Th095, LanguageKey::Std, "std10"), (Game::Th10, LanguageKey::Std, "std10"), (Game::Th14, LanguageKey::Std, "std10"),
    (Game::Th06, LanguageKey::Ecl, "ecl06"), (Game::Th07, LanguageKey::Ecl, "ecl07"), (Game::Th08, LanguageKey::Ecl, "ecl07"), (Game::Th09, LanguageKey::Ecl, "ecl07"), (Game::Th095, LanguageKey::Ecl, "ecl07"),
    (Game::Th06, LanguageKey::Timeline, "tl06"), (Game::Th07, LanguageKey::Timeline, "tl06"),
    (Game::Th08, LanguageKey::Timeline, "tl08"), (Game::Th09, LanguageKey::Timeline, "tl08"), (Game::Th095, LanguageKey::Timeline, "tl08"),
];

pub fn lang_name(l: LanguageKey) -> &'static str {
    match l { LanguageKey::Anm => "anm", LanguageKey::Msg => "msg", LanguageKey::End => "end", LanguageKey::Std => "std", LanguageKey::Ecl => "ecl", LanguageKey::Timeline => "timeline", LanguageKey::Dummy => "dummy" }
}
pub fn lang_by_name(s: &str) -> LanguageKey {
    match s { "anm" => LanguageKey::Anm, "msg" => LanguageKey::Msg, "end" => LanguageKey::End, "std" => LanguageKey::Std, "ecl" => LanguageKey::Ecl, "timeline" => LanguageKey::Timeline, _ => panic!("lang {s}") }
}

pub fn header_size(fmt: &str) -> usize { match fmt { "msg" => 4, "ecl06" | "ecl07" => 12, _ => 8 } }

/// `(kind fmt game lang ...)`: the model only looks at `fmt` and the payload.
pub fn case_head(kind: &str, f: &(Game, LanguageKey, &str)) -> Vec<Sexp> {
    vec![Sexp::atom(kind), Sexp::atom(f.2), Sexp::atom(format!("{}", f.0)), Sexp::atom(lang_name(f.1))]
}

pub fn instr_fields(time: i32, opcode: u16, mask: u16, difficulty: u8, extra: Option<i16>, blob: &[u8]) -> Vec<Sexp> {
    vec![Sexp::int(time), Sexp::int(opcode), Sexp::int(mask), Sexp::int(difficulty),
         match extra { Some(e) => Sexp::int(e), None => Sexp::atom("none") }, Sexp::atom(hex(blob))]
}

pub fn raw_of_fields(a: &[Sexp]) -> RawInstr {
    RawInstr {
        time: a[0].as_i64() as i32, opcode: a[1].as_i64() as u16, param_mask: a[2].as_i64() as u16, difficulty: a[3].as_i64() as u8,
        extra_arg: if a[4].as_atom() == "none" { None } else { Some(a[4].as_i64() as i16) },
        args_blob: unhex(a[5].as_atom()),
        ..RawInstr::DEFAULTS
    }
}

pub fn instr_sexp(i: &RawInstr) -> Sexp {
    Sexp::app("instr", instr_fields(i.time, i.opcode, i.param_mask, i.difficulty, i.extra_arg, &i.args_blob))
}

fn err_class(diags: &str) -> String {
    // unspanned errors: "error: <prefix chain>: <message>"
    let c = diag_class(diags);
    if c.contains("too large for this instruction format") || diags.contains("too large for this instruction format") || diags.contains("is reserved for the end-of-script marker") || diags.contains("but this format requires exactly") { return "too large for this instruction format".into(); }
    if diags.contains("bad instruction size") { return "bad instruction size".into(); }
    if diags.contains("failed to fill whole buffer") || diags.contains("incomplete word") || diags.contains("unexpected EOF") || diags.contains("UnexpectedEof") { return "unexpected EOF".into(); }
    c
}

/// model-format-independent part: strips `kind fmt` and returns (game, lang, rest)
fn parse_head(case: &Sexp) -> (Game, LanguageKey, &[Sexp]) {
    let a = case.args();
    (crate::tc::game(a[1].as_atom()), lang_by_name(a[2].as_atom()), &a[3..])
}

pub fn eval_winstr(case: &Sexp, many: bool) -> Sexp {
    let (game, lang, rest) = parse_head(case);
    let hooks = truth::verif_hooks::language_hooks(game, lang).expect("hooks");
    let mut scope = truth::Builder::new().capture_diagnostics(true).build();
    let mut truth = scope.truth();
    let emitter = truth.ctx().emitter;
    let mut w = BinWriter::from_writer(emitter, "<out>", Cursor::new(Vec::new()));
    let e = w.emitter();
    let r = if many {
        let instrs: Vec<RawInstr> = rest.iter().map(|i| raw_of_fields(i.as_list())).collect();
        truth::llir::write_instrs(&mut w, &e, hooks.instr_format(), &instrs)
    } else {
        hooks.instr_format().write_instr(&mut w, &e, &raw_of_fields(rest))
    };
    match r {
        Ok(()) => Sexp::app("ok", vec![Sexp::atom(hex(&w.into_inner().into_inner()))]),
        Err(er) => { er.ignore(); drop(w); Sexp::app("err", vec![Sexp::str(err_class(&truth.get_captured_diagnostics().unwrap_or_default()))]) },
    }
}

pub fn eval_rinstr(case: &Sexp) -> Sexp {
    let (game, lang, rest) = parse_head(case);
    let bytes = unhex(rest[0].as_atom());
    let total = bytes.len();
    let hooks = truth::verif_hooks::language_hooks(game, lang).expect("hooks");
    let mut scope = truth::Builder::new().capture_diagnostics(true).build();
    let mut truth = scope.truth();
    let emitter = truth.ctx().emitter;
    let mut r = BinReader::from_reader(emitter, "<in>", Cursor::new(bytes));
    let e = r.emitter();
    let res = hooks.instr_format().read_instr(&mut r, &e);
    use truth::io::BinRead;
    match res {
        Ok(ri) => {
            let pos = r.pos().unwrap_or(0) as usize;
            let rest_len = Sexp::int((total - pos.min(total)) as i64);
            Sexp::app("ok", vec![match ri {
                ReadInstr::Instr(i) => instr_sexp(&i),
                ReadInstr::MaybeTerminal(i) => Sexp::app("maybe-terminal", vec![instr_sexp(&i)]),
                ReadInstr::Terminal => Sexp::atom("terminal"),
                ReadInstr::EndOfFile => Sexp::atom("eof"),
            }, rest_len])
        },
        Err(er) => { er.ignore(); drop(r); Sexp::app("err", vec![Sexp::str(err_class(&truth.get_captured_diagnostics().unwrap_or_default()))]) },
    }
}

pub fn eval_rinstrs(case: &Sexp) -> Sexp {
    let (game, lang, rest) = parse_head(case);
    let bytes = unhex(rest[0].as_atom());
    let hooks = truth::verif_hooks::language_hooks(game, lang).expect("hooks");
    let mut scope = truth::Builder::new().capture_diagnostics(true).build();
    let mut truth = scope.truth();
    let emitter = truth.ctx().emitter;
    let mut r = BinReader::from_reader(emitter, "<in>", Cursor::new(bytes));
    let e = r.emitter();
    let res = truth::llir::read_instrs(&mut r, &e, hooks.instr_format(), 0, None);
    match res {
        Ok(is) => Sexp::app("ok", is.iter().map(instr_sexp).collect()),
        Err(er) => { er.ignore(); drop(r); Sexp::app("err", vec![Sexp::str(err_class(&truth.get_captured_diagnostics().unwrap_or_default()))]) },
    }
}

/// A random instruction around the field-width boundaries of format `fmt`.
pub fn gen_instr(rng: &mut Rng, fmt: &str, fitting: bool) -> (i32, u16, u16, u8, Option<i16>, Vec<u8>) {
    let time_pool: &[i32] = &[0, 1, -1, 10, 60, 300, 32767, 32768, -32768, -32769, 40000, 65535, 65536, 70000, i32::MAX, i32::MIN, -2];
    let op_pool: &[u16] = &[0, 1, 2, 5, 100, 127, 128, 200, 255, 256, 300, 1000, 32767, 32768, 65534, 65535];
    let mut time = if rng.chance(3, 4) { *rng.pick(time_pool) } else { rng.next_u32() as i32 };
    let mut opcode = if rng.chance(3, 4) { *rng.pick(op_pool) } else { rng.next_u32() as u16 };
    let hs = header_size(fmt);
    let len_pool: &[usize] = &[0, 1, 4, 8, 12, 16, 243, 244, 247, 248, 251, 252, 255, 256, 260, 1000, 32755, 32756, 32759, 32760, 65527, 65528, 65535, 65536, 70000];
    let mut len = if rng.chance(3, 4) { *rng.pick(len_pool) } else { rng.below(300) };
    if fmt == "std06" && rng.chance(9, 10) { len = 12; }
    if fitting {
        if matches!(fmt, "msg" | "anm07" | "tl06") { time = time.clamp(-32768, 32767); }
        if fmt == "msg" { opcode %= 256; len %= 256; }
        if fmt != "msg" && fmt != "tl06" && fmt != "tl08" && opcode == 65535 { opcode = 7; }
        if fmt == "std06" { len = 12; }
        let max_total = match fmt { "anm07" | "std10" => 65535, "ecl06" | "ecl07" | "tl06" => 32767, "tl08" => 255, _ => usize::MAX };
        if max_total != usize::MAX && hs + len > max_total { len = (max_total - hs).min(len % 300); }
    }
    let blob: Vec<u8> = (0..len).map(|_| rng.next_u32() as u8).collect();
    let mask = if rng.chance(1, 2) { 0 } else { rng.next_u32() as u16 };
    let difficulty = if rng.chance(1, 2) { 255 } else { rng.next_u32() as u8 };
    let extra = if fmt == "tl06" { Some(if rng.chance(1, 2) { rng.range(-3, 40) as i16 } else { rng.next_u32() as i16 }) } else { None };
    (time, opcode, mask, difficulty, extra, blob)
}
