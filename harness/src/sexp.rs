//! Minimal S-expression codec shared (by convention) with the Lean driver.
//! Atoms are bare tokens without whitespace/parens/quotes, or double-quoted strings with the
//! escapes `\\`, `\"`, `\n`, `\xHH` (bytes are hex-escaped when not printable ASCII).

use std::fmt;

#[derive(Debug, Clone, PartialEq, Eq, Hash)]
pub enum Sexp {
    Atom(String),
    Str(String),
    List(Vec<Sexp>),
}

impl Sexp {
    pub fn atom(s: impl Into<String>) -> Sexp { Sexp::Atom(s.into()) }
    pub fn str(s: impl Into<String>) -> Sexp { Sexp::Str(s.into()) }
    pub fn int(i: impl Into<i64>) -> Sexp { Sexp::Atom(i.into().to_string()) }
    pub fn list(v: Vec<Sexp>) -> Sexp { Sexp::List(v) }
    /// `(head a b c)`
    pub fn app(head: &str, mut args: Vec<Sexp>) -> Sexp {
        let mut v = vec![Sexp::atom(head)];
        v.append(&mut args);
        Sexp::List(v)
    }
    pub fn head(&self) -> Option<&str> {
        match self {
            Sexp::List(v) => match v.first() { Some(Sexp::Atom(s)) => Some(s), _ => None },
            _ => None,
        }
    }
    pub fn args(&self) -> &[Sexp] {
        match self { Sexp::List(v) if !v.is_empty() => &v[1..], _ => &[] }
    }
    pub fn as_atom(&self) -> &str {
        match self { Sexp::Atom(s) => s, Sexp::Str(s) => s, _ => panic!("expected atom, got {self}") }
    }
    pub fn as_i64(&self) -> i64 { self.as_atom().parse().unwrap_or_else(|_| panic!("expected int, got {self}")) }
    pub fn as_i32(&self) -> i32 { self.as_i64() as i32 }
    pub fn as_u32(&self) -> u32 { self.as_i64() as u32 }
    pub fn as_usize(&self) -> usize { self.as_i64() as usize }
    pub fn as_list(&self) -> &[Sexp] {
        match self { Sexp::List(v) => v, _ => panic!("expected list, got {self}") }
    }
    /// Number of nodes; used by the shrinker as a size measure.
    pub fn size(&self) -> usize {
        match self { Sexp::List(v) => 1 + v.iter().map(|x| x.size()).sum::<usize>(), _ => 1 }
    }
}

impl fmt::Display for Sexp {
    fn fmt(&self, f: &mut fmt::Formatter) -> fmt::Result {
        match self {
            Sexp::Atom(s) => write!(f, "{s}"),
            Sexp::Str(s) => {
                write!(f, "\"")?;
                for &b in s.as_bytes() {
                    match b {
                        b'\\' => write!(f, "\\\\")?,
                        b'"' => write!(f, "\\\"")?,
                        b'\n' => write!(f, "\\n")?,
                        0x20..=0x7e => write!(f, "{}", b as char)?,
                        _ => write!(f, "\\x{b:02x}")?,
                    }
                }
                write!(f, "\"")
            },
            Sexp::List(v) => {
                write!(f, "(")?;
                for (i, x) in v.iter().enumerate() {
                    if i > 0 { write!(f, " ")?; }
                    write!(f, "{x}")?;
                }
                write!(f, ")")
            },
        }
    }
}

pub fn parse(text: &str) -> Result<Sexp, String> {
    let b = text.as_bytes();
    let mut pos = 0;
    let r = parse_at(b, &mut pos)?;
    skip_ws(b, &mut pos);
    if pos != b.len() { return Err(format!("trailing input at {pos}")); }
    Ok(r)
}

fn skip_ws(b: &[u8], pos: &mut usize) { while *pos < b.len() && (b[*pos] as char).is_ascii_whitespace() { *pos += 1; } }

fn parse_at(b: &[u8], pos: &mut usize) -> Result<Sexp, String> {
    skip_ws(b, pos);
    if *pos >= b.len() { return Err("unexpected end".into()); }
    match b[*pos] {
        b'(' => {
            *pos += 1;
            let mut v = vec![];
            loop {
                skip_ws(b, pos);
                if *pos >= b.len() { return Err("unclosed (".into()); }
                if b[*pos] == b')' { *pos += 1; return Ok(Sexp::List(v)); }
                v.push(parse_at(b, pos)?);
            }
        },
        b')' => Err("unexpected )".into()),
        b'"' => {
            *pos += 1;
            let mut out = vec![];
            loop {
                if *pos >= b.len() { return Err("unclosed string".into()); }
                let c = b[*pos];
                *pos += 1;
                match c {
                    b'"' => break,
                    b'\\' => {
                        let e = *b.get(*pos).ok_or("bad escape")?;
                        *pos += 1;
                        match e {
                            b'n' => out.push(b'\n'),
                            b'x' => {
                                let h = std::str::from_utf8(&b[*pos..*pos + 2]).map_err(|e| e.to_string())?;
                                out.push(u8::from_str_radix(h, 16).map_err(|e| e.to_string())?);
                                *pos += 2;
                            },
                            other => out.push(other),
                        }
                    },
                    c => out.push(c),
                }
            }
            Ok(Sexp::Str(String::from_utf8(out).map_err(|e| e.to_string())?))
        },
        _ => {
            let start = *pos;
            while *pos < b.len() && !(b[*pos] as char).is_ascii_whitespace() && b[*pos] != b'(' && b[*pos] != b')' && b[*pos] != b'"' { *pos += 1; }
            Ok(Sexp::Atom(String::from_utf8_lossy(&b[start..*pos]).into_owned()))
        },
    }
}

pub fn hex(bytes: &[u8]) -> String {
    let mut s = String::with_capacity(bytes.len() * 2 + 1);
    s.push('x');
    for b in bytes { s.push_str(&format!("{b:02x}")); }
    s
}

pub fn unhex(s: &str) -> Vec<u8> {
    let s = s.strip_prefix('x').unwrap_or(s);
    (0..s.len() / 2).map(|i| u8::from_str_radix(&s[2 * i..2 * i + 2], 16).unwrap()).collect()
}
