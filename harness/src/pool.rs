//! Worker pool: every case is evaluated in a child process (`<exe> worker <id>`), so that a panic,
//! abort, stack overflow, allocation failure or hang of the code under test is an *observed
//! outcome* of that case rather than the end of the run.

use std::io::{BufRead, BufReader, Write};
use std::process::{Child, Command, Stdio};
use std::sync::atomic::{AtomicUsize, Ordering};
use std::sync::mpsc;
use std::sync::{Arc, Mutex};
use std::time::Duration;

pub struct PoolOptions {
    pub workers: usize,
    pub timeout: Duration,
}

impl Default for PoolOptions {
    fn default() -> Self { PoolOptions { workers: 16, timeout: Duration::from_secs(20) } }
}

struct Worker {
    child: Child,
    rx: mpsc::Receiver<String>,
    stderr_tail: Arc<Mutex<Vec<u8>>>,
    stderr_done: Arc<std::sync::atomic::AtomicBool>,
}

fn spawn_worker(id: &str) -> Worker {
    let exe = std::env::current_exe().expect("current_exe");
    let mut child = Command::new(exe)
        .arg("worker").arg(id)
        .stdin(Stdio::piped()).stdout(Stdio::piped()).stderr(Stdio::piped())
        .spawn().expect("spawn worker");
    let stdout = child.stdout.take().unwrap();
    let (tx, rx) = mpsc::channel();
    std::thread::spawn(move || {
        for line in BufReader::new(stdout).lines() {
            // only protocol lines count: the code under test may print to stdout itself
            match line { Ok(l) => { if let Some(r) = l.strip_prefix("@@ ") { if tx.send(r.to_string()).is_err() { break; } } }, Err(_) => break }
        }
    });
    let stderr = child.stderr.take().unwrap();
    let stderr_tail = Arc::new(Mutex::new(Vec::new()));
    let tail2 = stderr_tail.clone();
    let stderr_done = Arc::new(std::sync::atomic::AtomicBool::new(false));
    let done2 = stderr_done.clone();
    std::thread::spawn(move || {
        use std::io::Read;
        let mut r = stderr;
        let mut buf = [0u8; 4096];
        loop {
            match r.read(&mut buf) {
                Ok(0) | Err(_) => break,
                Ok(n) => {
                    let mut t = tail2.lock().unwrap();
                    t.extend_from_slice(&buf[..n]);
                    let len = t.len();
                    if len > 4096 { t.drain(..len - 4096); }
                },
            }
        }
        done2.store(true, Ordering::SeqCst);
    });
    Worker { child, rx, stderr_tail, stderr_done }
}

/// Evaluates `cases[i]` (one line each) with property `id`; returns one result line per case.
pub fn run_cases(id: &str, cases: &[String], opts: &PoolOptions) -> Vec<String> {
    let n = cases.len();
    let next = AtomicUsize::new(0);
    let results: Vec<Mutex<Option<String>>> = (0..n).map(|_| Mutex::new(None)).collect();
    let workers = opts.workers.max(1).min(n.max(1));
    std::thread::scope(|scope| {
        for _ in 0..workers {
            scope.spawn(|| {
                let mut worker: Option<Worker> = None;
                loop {
                    let i = next.fetch_add(1, Ordering::SeqCst);
                    if i >= n { break; }
                    if worker.is_none() { worker = Some(spawn_worker(id)); }
                    let w = worker.as_mut().unwrap();
                    let line = &cases[i];
                    debug_assert!(!line.contains('\n'));
                    let wrote = {
                        let stdin = w.child.stdin.as_mut().unwrap();
                        stdin.write_all(line.as_bytes()).and_then(|_| stdin.write_all(b"\n")).and_then(|_| stdin.flush())
                    };
                    let res = if wrote.is_err() { Err(mpsc::RecvTimeoutError::Disconnected) } else { w.rx.recv_timeout(opts.timeout) };
                    let out = match res {
                        Ok(l) => l,
                        Err(mpsc::RecvTimeoutError::Timeout) => {
                            let _ = w.child.kill();
                            let _ = w.child.wait();
                            worker = None;
                            format!("(timeout {})", opts.timeout.as_secs())
                        },
                        Err(mpsc::RecvTimeoutError::Disconnected) => {
                            let status = w.child.wait().ok();
                            // the last words of a dying worker ("has overflowed its stack", "memory allocation of .. failed")
                            // classify the abort: wait until the stderr reader has seen end-of-file (the pipe closes with the child)
                            let t0 = std::time::Instant::now();
                            while !w.stderr_done.load(Ordering::SeqCst) && t0.elapsed() < Duration::from_secs(10) { std::thread::sleep(Duration::from_millis(5)); }
                            let tail = String::from_utf8_lossy(&w.stderr_tail.lock().unwrap()).into_owned();
                            let tail: String = tail.lines().rev().take(6).collect::<Vec<_>>().into_iter().rev().collect::<Vec<_>>().join(" | ");
                            worker = None;
                            let st = match status { Some(s) => format!("{s}"), None => "unknown".into() };
                            format!("{}", crate::sexp::Sexp::app("abort", vec![crate::sexp::Sexp::str(st), crate::sexp::Sexp::str(tail)]))
                        },
                    };
                    *results[i].lock().unwrap() = Some(out);
                }
                if let Some(mut w) = worker { drop(w.child.stdin.take()); let _ = w.child.wait(); }
            });
        }
    });
    let mut out: Vec<String> = results.into_iter().map(|m| m.into_inner().unwrap().unwrap_or_else(|| "(missing)".into())).collect();
    // A timeout on a busy machine is not a hang: re-run each timed-out case alone with a much longer
    // limit before reporting it.
    if opts.workers > 1 {
        let again: Vec<usize> = (0..n).filter(|&i| out[i].starts_with("(timeout")).collect();
        if !again.is_empty() && again.len() <= 50 {
            let retry_opts = PoolOptions { workers: 1, timeout: opts.timeout * 6 };
            for i in again {
                let r = run_cases(id, &cases[i..i + 1], &retry_opts);
                out[i] = r.into_iter().next().unwrap();
            }
        }
    }
    out
}

thread_local! {
    static LAST_PANIC: std::cell::RefCell<Option<(String, String)>> = std::cell::RefCell::new(None);
}

/// Worker side: evaluate one case under `catch_unwind`, mapping a panic to `(panic "file" "msg")`.
pub fn guarded<F: FnOnce() -> crate::sexp::Sexp + std::panic::UnwindSafe>(f: F) -> crate::sexp::Sexp {
    use crate::sexp::Sexp;
    LAST_PANIC.with(|p| *p.borrow_mut() = None);
    match std::panic::catch_unwind(f) {
        Ok(s) => s,
        Err(_) => {
            let (loc, msg) = LAST_PANIC.with(|p| p.borrow_mut().take()).unwrap_or(("?".into(), "?".into()));
            Sexp::app("panic", vec![Sexp::str(loc), Sexp::str(msg)])
        },
    }
}

pub fn install_panic_hook() {
    std::panic::set_hook(Box::new(|info| {
        let loc = info.location().map(|l| format!("{}:{}", l.file(), l.line())).unwrap_or_else(|| "?".into());
        let msg = if let Some(s) = info.payload().downcast_ref::<&str>() { s.to_string() }
                  else if let Some(s) = info.payload().downcast_ref::<String>() { s.clone() }
                  else { "?".to_string() };
        let msg: String = msg.chars().take(200).collect();
        LAST_PANIC.with(|p| *p.borrow_mut() = Some((loc, msg)));
    }));
}

pub fn worker_main(prop: &dyn crate::props::Prop) {
    install_panic_hook();
    truth::setup_for_test_harness();
    let stdin = std::io::stdin();
    let stdout = std::io::stdout();
    for line in stdin.lock().lines() {
        let line = match line { Ok(l) => l, Err(_) => break };
        if line.trim().is_empty() { continue; }
        let res = match crate::sexp::parse(&line) {
            Ok(case) => guarded(std::panic::AssertUnwindSafe(|| prop.eval(&case))),
            Err(e) => crate::sexp::Sexp::app("bad-case", vec![crate::sexp::Sexp::str(e)]),
        };
        let mut out = stdout.lock();
        let s = format!("{res}");
        let _ = writeln!(out, "\n@@ {}", s.replace('\n', "\\n"));
        let _ = out.flush();
    }
}

/// Runs the compiled Lean model driver on the given case lines.
pub fn run_lean_driver(driver: &str, id: &str, cases: &[String]) -> Result<Vec<String>, String> {
    let mut child = Command::new(driver).arg(id)
        .stdin(Stdio::piped()).stdout(Stdio::piped()).stderr(Stdio::piped())
        .spawn().map_err(|e| format!("cannot start lean driver {driver}: {e}"))?;
    let mut stdin = child.stdin.take().unwrap();
    let input: String = cases.iter().map(|c| format!("{c}\n")).collect();
    let writer = std::thread::spawn(move || { let _ = stdin.write_all(input.as_bytes()); });
    let out = child.wait_with_output().map_err(|e| e.to_string())?;
    let _ = writer.join();
    let text = String::from_utf8_lossy(&out.stdout);
    let lines: Vec<String> = text.lines().map(|s| s.to_string()).collect();
    if lines.len() != cases.len() {
        return Err(format!("lean driver produced {} lines for {} cases (status {}): {}", lines.len(), cases.len(), out.status, String::from_utf8_lossy(&out.stderr)));
    }
    Ok(lines)
}
