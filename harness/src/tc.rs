//! In-process equivalents of the `truanm|trustd|trumsg|truecl compile|decompile` commands
//! (same sequence of API calls as `src/cli_def.rs`, with in-memory streams and captured diagnostics).
#![allow(dead_code)]

use std::io::Cursor;
use truth::{ast, Game, LanguageKey, Truth, ErrorReported, DecompileOptions};
use truth::io::{BinReader, BinWriter};

#[derive(Copy, Clone, Debug, PartialEq, Eq, Hash)]
pub enum Format { Anm, Std, Msg, End, Mission, Ecl }

impl Format {
    pub fn name(self) -> &'static str {
        match self { Format::Anm => "anm", Format::Std => "std", Format::Msg => "msg", Format::End => "end", Format::Mission => "mission", Format::Ecl => "ecl" }
    }
    pub fn from_name(s: &str) -> Format {
        match s { "anm" => Format::Anm, "std" => Format::Std, "msg" => Format::Msg, "end" => Format::End, "mission" => Format::Mission, "ecl" => Format::Ecl, _ => panic!("bad format {s}") }
    }
    pub fn languages(self) -> &'static [LanguageKey] {
        match self {
            Format::Anm => &[LanguageKey::Anm],
            Format::Std => &[LanguageKey::Std],
            Format::Msg => &[LanguageKey::Msg],
            Format::End => &[LanguageKey::End],
            Format::Mission => &[],
            Format::Ecl => &[LanguageKey::Ecl, LanguageKey::Timeline],
        }
    }
    pub fn cli(self) -> (&'static str, &'static [&'static str]) {
        match self {
            Format::Anm => ("truanm", &[]), Format::Std => ("trustd", &[]), Format::Msg => ("trumsg", &[]),
            Format::End => ("trumsg", &["--ending"]), Format::Mission => ("trumsg", &["--mission"]), Format::Ecl => ("truecl", &[]),
        }
    }
}

pub fn game(s: &str) -> Game { s.parse().unwrap_or_else(|_| panic!("bad game {s}")) }

pub struct Outcome<T> {
    pub value: Option<T>,
    /// everything the tool would have printed to stderr
    pub diagnostics: String,
}

impl<T> Outcome<T> {
    pub fn has_error_diag(&self) -> bool { self.diagnostics.lines().any(|l| l.starts_with("error")) }
    pub fn has_warning_diag(&self) -> bool { self.diagnostics.lines().any(|l| l.starts_with("warning")) }
}

/// Runs `f` with a fresh `Truth` that has the core mapfiles of `format` and the given user
/// mapfile texts applied, like every CLI entry point does.
pub fn with_truth<T>(format: Format, game: Game, user_maps: &[String], f: impl FnOnce(&mut Truth) -> Result<T, ErrorReported>) -> Outcome<T> {
    let mut scope = truth::Builder::new().capture_diagnostics(true).build();
    let mut truth = scope.truth();
    let r = (|| {
        for &language in format.languages() {
            let core = truth::verif_hooks::core_mapfile(truth.ctx().emitter, game, language);
            truth.apply_mapfile(&core, game).expect("failed to apply core mapfile!?");
        }
        for m in user_maps { truth.apply_mapfile_str(m, game)?; }
        f(&mut truth)
    })();
    let diagnostics = truth.get_captured_diagnostics().unwrap_or_default();
    match r {
        Ok(v) => Outcome { value: Some(v), diagnostics },
        Err(e) => { e.ignore(); Outcome { value: None, diagnostics } },
    }
}

pub enum Compiled {
    Anm(truth::AnmFile), Std(truth::StdFile), Msg(truth::MsgFile), Mission(truth::MissionMsgFile), Ecl(truth::EclFile),
}

pub fn compile_ast(truth: &mut Truth, format: Format, game: Game, script: &ast::ScriptFile) -> Result<Compiled, ErrorReported> {
    if format != Format::Anm { truth.expect_no_image_sources(script)?; }
    let mut truth = truth.validate_defs()?;
    Ok(match format {
        Format::Anm => { let w = truth.compile_anm(game, script)?; Compiled::Anm(truth.finalize_anm(game, w)?) },
        Format::Std => Compiled::Std(truth.compile_std(game, script)?),
        Format::Msg => Compiled::Msg(truth.compile_msg(game, LanguageKey::Msg, script)?),
        Format::End => Compiled::Msg(truth.compile_msg(game, LanguageKey::End, script)?),
        Format::Mission => Compiled::Mission(truth.compile_mission(game, script)?),
        Format::Ecl => Compiled::Ecl(truth.compile_ecl(game, script)?),
    })
}

pub fn write_bytes(truth: &mut Truth, format: Format, game: Game, compiled: &Compiled) -> Result<Vec<u8>, ErrorReported> {
    let emitter = truth.ctx().emitter;
    let mut w = BinWriter::from_writer(emitter, "<output>", Cursor::new(Vec::new()));
    match (compiled, format) {
        (Compiled::Anm(f), _) => f.write_to_stream(&mut w, game)?,
        (Compiled::Std(f), _) => f.write_to_stream(&mut w, game)?,
        (Compiled::Msg(f), Format::End) => f.write_to_stream(&mut w, game, LanguageKey::End)?,
        (Compiled::Msg(f), _) => f.write_to_stream(&mut w, game, LanguageKey::Msg)?,
        (Compiled::Mission(f), _) => f.write_to_stream(&mut w, game)?,
        (Compiled::Ecl(f), _) => f.write_to_stream(&mut w, game)?,
    }
    Ok(w.into_inner().into_inner())
}

pub fn read_bytes(truth: &mut Truth, format: Format, game: Game, bytes: &[u8]) -> Result<Compiled, ErrorReported> {
    let emitter = truth.ctx().emitter;
    let mut r = BinReader::from_reader(emitter, "<input>", Cursor::new(bytes.to_vec()));
    Ok(match format {
        Format::Anm => Compiled::Anm(truth::AnmFile::read_from_stream(&mut r, game, true)?),
        Format::Std => Compiled::Std(truth::StdFile::read_from_stream(&mut r, game)?),
        Format::Msg => Compiled::Msg(truth::MsgFile::read_from_stream(&mut r, game, LanguageKey::Msg)?),
        Format::End => Compiled::Msg(truth::MsgFile::read_from_stream(&mut r, game, LanguageKey::End)?),
        Format::Mission => Compiled::Mission(truth::MissionMsgFile::read_from_stream(&mut r, game)?),
        Format::Ecl => Compiled::Ecl(truth::EclFile::read_from_stream(&mut r, game)?),
    })
}

pub fn decompile_ast(truth: &mut Truth, format: Format, game: Game, file: &Compiled, options: &DecompileOptions) -> Result<ast::ScriptFile, ErrorReported> {
    let mut truth = truth.validate_defs()?;
    match (file, format) {
        (Compiled::Anm(f), _) => truth.decompile_anm(game, f, options),
        (Compiled::Std(f), _) => truth.decompile_std(game, f, options),
        (Compiled::Msg(f), Format::End) => truth.decompile_msg(game, LanguageKey::End, f, options),
        (Compiled::Msg(f), _) => truth.decompile_msg(game, LanguageKey::Msg, f, options),
        (Compiled::Mission(f), _) => truth.decompile_mission(game, f),
        (Compiled::Ecl(f), _) => truth.decompile_ecl(game, f, options),
    }
}

/// `compile`: text -> bytes
pub fn compile(format: Format, game: Game, user_maps: &[String], text: &[u8]) -> Outcome<Vec<u8>> {
    compile_with_image_source(format, game, user_maps, text, None)
}

/// `truanm compile -i ORIGINAL.anm`: the original binary supplied as image source
pub fn compile_with_image_source(format: Format, game: Game, user_maps: &[String], text: &[u8], anm_source: Option<&[u8]>) -> Outcome<Vec<u8>> {
    with_truth(format, game, user_maps, |truth| {
        let script = truth.parse::<ast::ScriptFile>("<input>", text)?.value;
        let compiled = match (format, anm_source) {
            (Format::Anm, Some(src)) => {
                let source = match read_bytes(truth, format, game, src)? { Compiled::Anm(f) => f, _ => unreachable!() };
                let mut truth = truth.validate_defs()?;
                let mut w = truth.compile_anm(game, &script)?;
                w.apply_image_source(truth::anm::ImageSource::Anm(source), &truth.fs())?;
                Compiled::Anm(truth.finalize_anm(game, w)?)
            },
            _ => compile_ast(truth, format, game, &script)?,
        };
        write_bytes(truth, format, game, &compiled)
    })
}

/// `decompile`: bytes -> text at the given width
pub fn decompile(format: Format, game: Game, user_maps: &[String], bytes: &[u8], options: &DecompileOptions, width: usize) -> Outcome<String> {
    with_truth(format, game, user_maps, |truth| {
        let file = read_bytes(truth, format, game, bytes)?;
        let script = decompile_ast(truth, format, game, &file, options)?;
        Ok(truth::fmt::stringify_with(&script, truth::fmt::Config::new().max_columns(width)))
    })
}

pub fn options_from_bits(bits: u32) -> DecompileOptions {
    DecompileOptions {
        arguments: bits & 1 == 0,
        intrinsics: bits & 2 == 0,
        calls: bits & 4 == 0,
        blocks: bits & 8 == 0,
        diff_switches: bits & 16 == 0,
        show_instr_offsets: false,
    }
}
