//! Helpers shared by the per-property evaluators.
#![allow(dead_code)]

use truth::ast;
use truth::pos::Sp;

/// First line of a diagnostic message, up to the first quote or digit: the canonical class.
pub fn diag_class(diagnostics: &str) -> String {
    for line in diagnostics.lines() {
        if let Some(rest) = line.strip_prefix("error: ") {
            let cut = rest.find(|c: char| c == '\'' || c == '"' || c == '`' || c.is_ascii_digit()).unwrap_or(rest.len());
            return rest[..cut].trim().to_string();
        }
    }
    "no-error-diagnostic".to_string()
}

pub fn sp_expr(e: ast::Expr) -> Sp<ast::Expr> { sp!(e) }

pub fn lit_int(v: i32) -> ast::Expr { ast::Expr::LitInt { value: v, format: ast::IntFormat::SIGNED } }
pub fn lit_float(bits: u32) -> ast::Expr { ast::Expr::LitFloat { value: f32::from_bits(bits) } }

/// canonical float bits: all NaNs collapse
pub fn canon_bits(x: f32) -> u32 { if x.is_nan() { 0x7fc0_0000 } else { x.to_bits() } }
