//! Independent, deliberately dumb parser of the on-disk layouts (MSG table/scripts, STD
//! header/objects/quads/instances, ANM entry header/sprites/script table, old ECL sub/timeline
//! tables), written from the format descriptions.  Shares no code with `truth::formats`: plain
//! byte slicing, every offset taken from the file.  It is the oracle where "compile and decompile
//! could be wrong in the same way" (C20; DESIGN.md 2.2).
#![allow(dead_code)]

pub type R<T> = Result<T, String>;

pub fn u8_at(b: &[u8], p: usize) -> R<u8> { b.get(p).copied().ok_or_else(|| format!("read u8 at {p} past end {}", b.len())) }
pub fn u16_at(b: &[u8], p: usize) -> R<u16> { if p + 2 <= b.len() { Ok(u16::from_le_bytes([b[p], b[p + 1]])) } else { Err(format!("read u16 at {p} past end {}", b.len())) } }
pub fn u32_at(b: &[u8], p: usize) -> R<u32> { if p + 4 <= b.len() { Ok(u32::from_le_bytes([b[p], b[p + 1], b[p + 2], b[p + 3]])) } else { Err(format!("read u32 at {p} past end {}", b.len())) } }
pub fn i16_at(b: &[u8], p: usize) -> R<i16> { u16_at(b, p).map(|x| x as i16) }
pub fn i32_at(b: &[u8], p: usize) -> R<i32> { u32_at(b, p).map(|x| x as i32) }
fn slice(b: &[u8], p: usize, n: usize) -> R<Vec<u8>> { if p + n <= b.len() { Ok(b[p..p + n].to_vec()) } else { Err(format!("read {n} bytes at {p} past end {}", b.len())) } }

#[derive(Debug, Clone, PartialEq)]
pub struct Instr {
    pub offset: usize,
    pub time: i32,
    pub opcode: u16,
    /// timeline `arg0` header field (EoSD/PCB timelines), else 0
    pub extra: i16,
    pub blob: Vec<u8>,
}

/// instruction header layouts
#[derive(Copy, Clone, Debug, PartialEq, Eq)]
pub enum InstrFmt {
    /// i16 time, u8 opcode, u8 argsize; end marker = 4 zero bytes (MSG, ENDING, EoSD ANM)
    Msg,
    /// u16 opcode, u16 size, i16 time, u16 mask; end marker opcode 0xffff (ANM since PCB)
    Anm07,
    /// i32 time, u16 opcode, u16 argsize(=12); end marker opcode 0xffff (20 x ff)
    Std06,
    /// i32 time, u16 opcode, u16 size; end marker opcode 0xffff
    Std10,
    /// i32 time, u16 opcode, u16 size, u8 0, u8 difficulty, u16 mask; end marker opcode 0xffff
    Ecl,
    /// i16 time, i16 arg0, u16 opcode, u16 size; end marker (time -1, arg0 4), 4 bytes
    Tl06,
    /// i32 time, u16 opcode, u8 size, u8 difficulty; end marker time -1 then a zero dword
    Tl08,
}

/// instructions from `pos` up to and including the end marker; returns them and the position after the marker
pub fn parse_script(fmt: InstrFmt, b: &[u8], mut pos: usize) -> R<(Vec<Instr>, usize)> {
    let mut out = vec![];
    loop {
        if out.len() > 100_000 { return Err("script does not end".into()); }
        let offset = pos;
        match fmt {
            InstrFmt::Msg => {
                let time = i16_at(b, pos)? as i32; let opcode = u8_at(b, pos + 2)? as u16; let n = u8_at(b, pos + 3)? as usize;
                if time == 0 && opcode == 0 && n == 0 { return Ok((out, pos + 4)); }
                out.push(Instr { offset, time, opcode, extra: 0, blob: slice(b, pos + 4, n)? });
                pos += 4 + n;
            },
            InstrFmt::Anm07 => {
                let opcode = u16_at(b, pos)?; let size = u16_at(b, pos + 2)? as usize;
                if opcode == 0xffff { return Ok((out, pos + 8)); }
                if size < 8 { return Err(format!("instruction size {size} < 8 at {pos}")); }
                let time = i16_at(b, pos + 4)? as i32;
                out.push(Instr { offset, time, opcode, extra: 0, blob: slice(b, pos + 8, size - 8)? });
                pos += size;
            },
            InstrFmt::Std06 => {
                let time = i32_at(b, pos)?; let opcode = u16_at(b, pos + 4)?; let n = u16_at(b, pos + 6)? as usize;
                if opcode == 0xffff { return Ok((out, pos + 20)); }
                out.push(Instr { offset, time, opcode, extra: 0, blob: slice(b, pos + 8, n)? });
                pos += 8 + n;
            },
            InstrFmt::Std10 => {
                let time = i32_at(b, pos)?; let opcode = u16_at(b, pos + 4)?; let size = u16_at(b, pos + 6)? as usize;
                if opcode == 0xffff { return Ok((out, pos + 20)); }
                if size < 8 { return Err(format!("instruction size {size} < 8 at {pos}")); }
                out.push(Instr { offset, time, opcode, extra: 0, blob: slice(b, pos + 8, size - 8)? });
                pos += size;
            },
            InstrFmt::Ecl => {
                let time = i32_at(b, pos)?; let opcode = u16_at(b, pos + 4)?; let size = u16_at(b, pos + 6)? as usize;
                if opcode == 0xffff { return Ok((out, pos + 12)); }
                if size < 12 { return Err(format!("instruction size {size} < 12 at {pos}")); }
                out.push(Instr { offset, time, opcode, extra: 0, blob: slice(b, pos + 12, size - 12)? });
                pos += size;
            },
            InstrFmt::Tl06 => {
                let time = i16_at(b, pos)? as i32; let arg0 = i16_at(b, pos + 2)?;
                if time == -1 && arg0 == 4 { return Ok((out, pos + 4)); }
                let opcode = u16_at(b, pos + 4)?; let size = u16_at(b, pos + 6)? as usize;
                if size < 8 { return Err(format!("instruction size {size} < 8 at {pos}")); }
                out.push(Instr { offset, time, opcode, extra: arg0, blob: slice(b, pos + 8, size - 8)? });
                pos += size;
            },
            InstrFmt::Tl08 => {
                let time = i32_at(b, pos)?; let opcode = u16_at(b, pos + 4)?; let size = u8_at(b, pos + 6)? as usize; let diff = u8_at(b, pos + 7)?;
                if time == -1 && opcode == 0 && size == 0 && diff == 0 { return Ok((out, pos + 8)); }
                if size < 8 { return Err(format!("instruction size {size} < 8 at {pos}")); }
                out.push(Instr { offset, time, opcode, extra: 0, blob: slice(b, pos + 8, size - 8)? });
                pos += size;
            },
        }
    }
}

// ------------------------------------------------------------------------------------------ MSG

#[derive(Debug)]
pub struct MsgLayout {
    /// (offset, flags) per slot; flags 0 where the format has none
    pub table: Vec<(u32, u32)>,
    /// every script stored behind the table, in file order: (start offset, instructions)
    pub scripts: Vec<(usize, Vec<Instr>)>,
}

/// u32 count; count x (u32 offset [, u32 flags]); scripts back to back until the end of the file
pub fn parse_msg(b: &[u8], has_flags: bool) -> R<MsgLayout> {
    let n = u32_at(b, 0)? as usize;
    let stride = if has_flags { 8 } else { 4 };
    if 4 + n * stride > b.len() { return Err(format!("table of {n} slots does not fit in {} bytes", b.len())); }
    let mut table = vec![];
    for i in 0..n {
        let p = 4 + i * stride;
        table.push((u32_at(b, p)?, if has_flags { u32_at(b, p + 4)? } else { 0 }));
    }
    let mut scripts = vec![];
    let mut pos = 4 + n * stride;
    while pos < b.len() {
        let (instrs, end) = parse_script(InstrFmt::Msg, b, pos)?;
        scripts.push((pos, instrs));
        pos = end;
    }
    Ok(MsgLayout { table, scripts })
}

// ------------------------------------------------------------------------------------------ STD

#[derive(Debug)]
pub struct StdObject { pub offset: usize, pub id: u16, pub layer: u16, pub quads: Vec<(i16, u16)> }

#[derive(Debug)]
pub struct StdLayout {
    pub num_objects: u16,
    pub num_quads: u16,
    pub objects: Vec<StdObject>,
    /// (object index, unknown) per instance
    pub instances: Vec<(u16, u16)>,
    pub script: Vec<Instr>,
}

/// u16 nobjects, u16 nquads, u32 instances offset, u32 script offset, u32 unknown,
/// then 9 x 128 bytes of strings (EoSD..PoFV) or 1 x 128 bytes (StB and later), then the object offsets.
pub fn parse_std(b: &[u8], new_format: bool) -> R<StdLayout> {
    let num_objects = u16_at(b, 0)?;
    let num_quads = u16_at(b, 2)?;
    let inst_off = u32_at(b, 4)? as usize;
    let script_off = u32_at(b, 8)? as usize;
    let table = 16 + if new_format { 128 } else { 128 * 9 };
    let mut objects = vec![];
    for i in 0..num_objects as usize {
        let off = u32_at(b, table + 4 * i)? as usize;
        let id = u16_at(b, off)?;
        let layer = u16_at(b, off + 2)?;
        let mut pos = off + 4 + 24;
        let mut quads = vec![];
        loop {
            let kind = i16_at(b, pos)?; let size = u16_at(b, pos + 2)? as usize;
            if kind == -1 { break; }
            if size < 8 || quads.len() > 100_000 { return Err(format!("bad quad size {size} at {pos}")); }
            quads.push((kind, u16_at(b, pos + 4)?));
            pos += size;
        }
        objects.push(StdObject { offset: off, id, layer, quads });
    }
    let mut instances = vec![];
    let mut pos = inst_off;
    loop {
        let id = u16_at(b, pos)?; let unknown = u16_at(b, pos + 2)?;
        if id == 0xffff { break; }
        if instances.len() > 1_000_000 { return Err("instance list does not end".into()); }
        instances.push((id, unknown));
        pos += 16;
    }
    let (script, _) = parse_script(if new_format { InstrFmt::Std10 } else { InstrFmt::Std06 }, b, script_off)?;
    Ok(StdLayout { num_objects, num_quads, objects, instances, script })
}

// ------------------------------------------------------------------------------------------ ANM

#[derive(Debug)]
pub struct AnmEntry {
    pub offset: usize,
    pub version: u32,
    pub path: Vec<u8>,
    /// id field of every sprite, in sprite-offset-table order
    pub sprite_ids: Vec<u32>,
    /// (number in the script table, instructions) in script-table order
    pub scripts: Vec<(i32, Vec<Instr>)>,
}

/// 64-byte entry header.  Old layout (EoSD..MoF, all dwords): nsprites, nscripts, 0, w, h, format,
/// colorkey, name offset, 0, name2 offset, version, memory priority, thtx offset, u16 has_data, u16 0,
/// next offset, 0.  New layout (SA and later): u32 version, u16 nsprites, u16 nscripts, u16 0, u16 w,
/// u16 h, u16 format, u32 name offset, u16 x, u16 y, u32 memory priority, u32 thtx offset,
/// u16 has_data, u16 low_res, u32 next offset, 24 bytes of zeros.  Then nsprites x u32 sprite offset,
/// nscripts x (i32 number, u32 offset); all offsets relative to the entry.
pub fn parse_anm(b: &[u8], new_header: bool, v0_instrs: bool) -> R<Vec<AnmEntry>> {
    let mut out = vec![];
    let mut e = 0usize;
    loop {
        if out.len() > 10_000 { return Err("entry chain does not end".into()); }
        let (nsprites, nscripts, name_off, next_off, version);
        if new_header {
            version = u32_at(b, e)?;
            nsprites = u16_at(b, e + 4)? as usize; nscripts = u16_at(b, e + 6)? as usize;
            name_off = u32_at(b, e + 0x10)? as usize; next_off = u32_at(b, e + 0x24)? as usize;
        } else {
            nsprites = u32_at(b, e)? as usize; nscripts = u32_at(b, e + 4)? as usize;
            name_off = u32_at(b, e + 0x1c)? as usize; version = u32_at(b, e + 0x28)?; next_off = u32_at(b, e + 0x38)? as usize;
        }
        let mut path = vec![];
        let mut p = e + name_off;
        while u8_at(b, p)? != 0 { path.push(b[p]); p += 1; }
        let mut sprite_ids = vec![];
        for i in 0..nsprites {
            let off = u32_at(b, e + 64 + 4 * i)? as usize;
            sprite_ids.push(u32_at(b, e + off)?);
        }
        let mut scripts = vec![];
        for i in 0..nscripts {
            let p = e + 64 + 4 * nsprites + 8 * i;
            let number = i32_at(b, p)?; let off = u32_at(b, p + 4)? as usize;
            let (instrs, _) = parse_script(if v0_instrs { InstrFmt::Msg } else { InstrFmt::Anm07 }, b, e + off)?;
            scripts.push((number, instrs));
        }
        out.push(AnmEntry { offset: e, version, path, sprite_ids, scripts });
        if next_off == 0 { break; }
        e += next_off;
    }
    Ok(out)
}

// ------------------------------------------------------------------------------------------ old ECL

#[derive(Copy, Clone, Debug, PartialEq, Eq)]
pub enum EclKind {
    /// EoSD: no magic, 3 timeline slots, only the first used
    Th06,
    /// PCB: no magic, 16 slots, count in the header, one extra slot = end of file
    Th07,
    /// IN / StB: magic 0x800, otherwise like PCB
    Th08,
    /// PoFV: magic 0x900, as many slots as the header says
    Th09,
}

#[derive(Debug)]
pub struct EclLayout {
    pub num_subs: u16,
    pub header_timelines: u16,
    pub sub_offsets: Vec<u32>,
    pub timeline_offsets: Vec<u32>,
    pub subs: Vec<Vec<Instr>>,
    /// the timelines actually present (see `EclKind`)
    pub timelines: Vec<Vec<Instr>>,
}

/// [u32 magic]; u16 nsubs; u16 ntimelines; timeline offsets; nsubs x u32 sub offsets
pub fn parse_ecl(b: &[u8], kind: EclKind) -> R<EclLayout> {
    let mut p = 0;
    match kind {
        EclKind::Th08 => { if u32_at(b, 0)? != 0x800 { return Err("magic is not 0x800".into()); } p = 4; },
        EclKind::Th09 => { if u32_at(b, 0)? != 0x900 { return Err("magic is not 0x900".into()); } p = 4; },
        _ => {},
    }
    let num_subs = u16_at(b, p)?; let header_timelines = u16_at(b, p + 2)?;
    p += 4;
    let slots = match kind { EclKind::Th06 => 3, EclKind::Th07 | EclKind::Th08 => 16, EclKind::Th09 => header_timelines as usize };
    let mut timeline_offsets = vec![];
    for i in 0..slots { timeline_offsets.push(u32_at(b, p + 4 * i)?); }
    p += 4 * slots;
    let mut sub_offsets = vec![];
    for i in 0..num_subs as usize { sub_offsets.push(u32_at(b, p + 4 * i)?); }
    let sub_fmt = InstrFmt::Ecl;
    let tl_fmt = match kind { EclKind::Th06 | EclKind::Th07 => InstrFmt::Tl06, _ => InstrFmt::Tl08 };
    let mut subs = vec![];
    for &o in &sub_offsets { subs.push(parse_script(sub_fmt, b, o as usize)?.0); }
    let used: Vec<u32> = match kind {
        EclKind::Th09 => timeline_offsets.clone(),
        EclKind::Th06 => timeline_offsets.iter().copied().take_while(|&o| o != 0).collect(),
        EclKind::Th07 | EclKind::Th08 => {
            let nz: Vec<u32> = timeline_offsets.iter().copied().take_while(|&o| o != 0).collect();
            if nz.len() != header_timelines as usize + 1 { return Err(format!("{} nonzero timeline slots for {} timelines", nz.len(), header_timelines)); }
            if *nz.last().unwrap() as usize != b.len() { return Err("slot after the last timeline is not the end of the file".into()); }
            nz[..nz.len() - 1].to_vec()
        },
    };
    let mut timelines = vec![];
    for &o in &used { timelines.push(parse_script(tl_fmt, b, o as usize)?.0); }
    Ok(EclLayout { num_subs, header_timelines, sub_offsets, timeline_offsets, subs, timelines })
}

// ------------------------------------------------------------------------------------------ arguments

/// (byte offset in the argument blob, width, in-header?) of parameter `index` of a signature given as
/// (format char, attribute text) pairs.  Integer/float parameters only: S U n N E f C = 4 bytes,
/// s u = 2, b c = 1, `_` = 4 bytes of padding, `-` = 1 byte; an `arg0` parameter lives in the header.
pub fn param_location(sig: &[(char, String)], index: usize) -> Option<(usize, usize, bool)> {
    let mut off = 0;
    for (i, (ch, attrs)) in sig.iter().enumerate() {
        let w = match ch { 'S' | 'U' | 'n' | 'N' | 'E' | 'f' | 'C' | '_' => 4, 's' | 'u' => 2, 'b' | 'c' | '-' => 1, _ => return None };
        let arg0 = attrs.split(';').any(|a| a.trim() == "arg0");
        if i == index { return Some((off, w, arg0)); }
        if !arg0 { off += w; }
    }
    None
}

/// little-endian integer of `w` bytes at `off` (1 byte: unsigned; 2: signed; 4: signed)
pub fn int_at(blob: &[u8], off: usize, w: usize) -> R<i64> {
    match w {
        1 => u8_at(blob, off).map(|x| x as i64),
        2 => i16_at(blob, off).map(|x| x as i64),
        4 => i32_at(blob, off).map(|x| x as i64),
        _ => Err(format!("width {w}")),
    }
}
