//! Counting allocator: lets a worker report the peak heap use of one case (C16: "never exhausts memory").
use std::alloc::{GlobalAlloc, Layout, System};
use std::sync::atomic::{AtomicUsize, Ordering};

pub struct Counting;
static CURRENT: AtomicUsize = AtomicUsize::new(0);
static PEAK: AtomicUsize = AtomicUsize::new(0);

unsafe impl GlobalAlloc for Counting {
    unsafe fn alloc(&self, l: Layout) -> *mut u8 {
        let p = System.alloc(l);
        if !p.is_null() { let c = CURRENT.fetch_add(l.size(), Ordering::Relaxed) + l.size(); PEAK.fetch_max(c, Ordering::Relaxed); }
        p
    }
    unsafe fn alloc_zeroed(&self, l: Layout) -> *mut u8 {
        let p = System.alloc_zeroed(l);
        if !p.is_null() { let c = CURRENT.fetch_add(l.size(), Ordering::Relaxed) + l.size(); PEAK.fetch_max(c, Ordering::Relaxed); }
        p
    }
    unsafe fn dealloc(&self, p: *mut u8, l: Layout) { System.dealloc(p, l); CURRENT.fetch_sub(l.size(), Ordering::Relaxed); }
    unsafe fn realloc(&self, p: *mut u8, l: Layout, new: usize) -> *mut u8 {
        let q = System.realloc(p, l, new);
        if !q.is_null() {
            if new >= l.size() { let c = CURRENT.fetch_add(new - l.size(), Ordering::Relaxed) + (new - l.size()); PEAK.fetch_max(c, Ordering::Relaxed); }
            else { CURRENT.fetch_sub(l.size() - new, Ordering::Relaxed); }
        }
        q
    }
}

/// start measuring: peak := current
pub fn reset_peak() -> usize { let c = CURRENT.load(Ordering::Relaxed); PEAK.store(c, Ordering::Relaxed); c }
/// bytes allocated above the level at `reset_peak`
pub fn peak_above(base: usize) -> usize { PEAK.load(Ordering::Relaxed).saturating_sub(base) }
