//! truth-verif-harness: correspondence between the Lean models (/verif/lean) and the real
//! implementation (/repo, path dependency, rebuilt from the working tree), plus the direct
//! property searches.  See /verif/DESIGN.md section 2.2.

#[macro_use]
extern crate truth;

mod sexp;
mod rng;
mod pool;
mod props;
mod util;
mod tc;
mod gensrc;
mod layout;
mod alloc;

#[global_allocator]
static GLOBAL: alloc::Counting = alloc::Counting;

use props::{Case, Tier};
use serde_json::json;
use std::collections::{BTreeMap, HashSet};

fn usage() -> ! {
    eprintln!("usage: harness run <id> <quick|thorough> --seed N --driver PATH --out FILE [--corpus DIR]\n       harness replay <id> --driver PATH --case SEXP [--corr 0|1]\n       harness worker <id>\n       harness cli <args...>");
    std::process::exit(2)
}

fn arg_value(args: &[String], name: &str) -> Option<String> {
    args.iter().position(|a| a == name).and_then(|i| args.get(i + 1).cloned())
}

fn main() {
    let args: Vec<String> = std::env::args().collect();
    if args.len() < 2 { usage(); }
    match args[1].as_str() {
        "worker" => {
            let prop = props::by_id(&args[2]).unwrap_or_else(|| usage());
            pool::worker_main(&*prop);
        },
        "cli" => {
            // the very code the user runs, for fresh-process checks (C19, exit status in C04/C16)
            let rest: Vec<String> = args[2..].to_vec();
            truth::cli_def::truth_main("verif", &rest);
        },
        "probe" => {
            // development aid: how many generated sources compile, and why the others do not
            let n: usize = args.get(2).and_then(|s| s.parse().ok()).unwrap_or(100);
            let mut rng = rng::Rng::new(arg_value(&args, "--seed").and_then(|s| s.parse().ok()).unwrap_or(1));
            let mut hist: BTreeMap<String, usize> = BTreeMap::new();
            let show = arg_value(&args, "--show");
            for _ in 0..n {
                let g = gensrc::gen_any(&mut rng);
                let out = tc::compile(g.format, g.game, &g.maps, g.text.as_bytes());
                let key = format!("{} {} {}", g.format.name(), g.game, if out.value.is_some() { "ok".to_string() } else { util::diag_class(&out.diagnostics) });
                if let Some(sh) = &show { if key.contains(sh.as_str()) { println!("=== {key}\n{}\n--- {}", g.text, out.diagnostics); } }
                *hist.entry(key).or_default() += 1;
            }
            for (k, v) in hist { println!("{v:6} {k}"); }
        },
        "dbg" => {
            let fmt = tc::Format::from_name(&args[2]);
            let game = tc::game(&args[3]);
            let text = std::fs::read(&args[4]).unwrap();
            let out = tc::with_truth(fmt, game, &[], |truth| {
                let script = truth.parse::<truth::ast::ScriptFile>("<input>", &text)?.value;
                let compiled = tc::compile_ast(truth, fmt, game, &script)?;
                let a = props::c03::canon_debug(&compiled, fmt, game);
                let bytes = tc::write_bytes(truth, fmt, game, &compiled)?;
                let back = tc::read_bytes(truth, fmt, game, &bytes)?;
                Ok((a, props::c03::canon_debug(&back, fmt, game)))
            });
            match out.value { Some((a, b)) => println!("{a}\n=========\n{b}"), None => println!("{}", out.diagnostics) }
        },
        "run" => {
            let id = args.get(2).cloned().unwrap_or_else(|| usage());
            let tier = match args.get(3).map(|s| s.as_str()) { Some("quick") => Tier::Quick, Some("thorough") => Tier::Thorough, _ => usage() };
            let seed: u64 = arg_value(&args, "--seed").and_then(|s| s.parse().ok()).unwrap_or(20260923);
            let driver = arg_value(&args, "--driver").unwrap_or_else(|| usage());
            let out = arg_value(&args, "--out").unwrap_or_else(|| usage());
            let corpus = arg_value(&args, "--corpus");
            let report = run(&id, tier, seed, &driver, corpus.as_deref());
            std::fs::write(&out, serde_json::to_string_pretty(&report).unwrap()).expect("write report");
        },
        "replay" => {
            let id = args.get(2).cloned().unwrap_or_else(|| usage());
            let driver = arg_value(&args, "--driver").unwrap_or_else(|| usage());
            let case = arg_value(&args, "--case").unwrap_or_else(|| usage());
            let corr = arg_value(&args, "--corr").map(|s| s == "1").unwrap_or(false);
            let prop = props::by_id(&id).unwrap_or_else(|| usage());
            let sexp = sexp::parse(&case).expect("bad case");
            let opts = pool::PoolOptions { workers: 1, timeout: std::time::Duration::from_secs(prop.timeout_secs()) };
            let res = pool::run_cases(&id, &[case.clone()], &opts).remove(0);
            println!("impl:  {res}");
            let mut bad = false;
            if let Some(f) = prop.judge(&sexp, &sexp::parse(&res).unwrap_or(sexp::Sexp::atom("unparsable"))) {
                println!("FAILS: [{}] {}", f.signature, f.what);
                bad = true;
            }
            if corr {
                let m = pool::run_lean_driver(&driver, &id, &[case]).map(|mut v| v.remove(0)).unwrap_or_else(|e| format!("(driver-error {e:?})"));
                println!("model: {m}");
                if m != res { println!("DISAGREE"); bad = true; }
            }
            std::process::exit(if bad { 1 } else { 0 });
        },
        _ => usage(),
    }
}

fn read_corpus(dir: &str) -> Vec<Case> {
    let mut out = vec![];
    let mut paths: Vec<_> = match std::fs::read_dir(dir) { Ok(rd) => rd.filter_map(|e| e.ok()).map(|e| e.path()).collect(), Err(_) => return out };
    paths.sort();
    for p in paths {
        if p.extension().and_then(|e| e.to_str()) != Some("case") { continue; }
        let text = std::fs::read_to_string(&p).unwrap_or_default();
        for line in text.lines() {
            let line = line.trim();
            if line.is_empty() || line.starts_with('#') { continue; }
            let (corr, rest) = if let Some(r) = line.strip_prefix("corr ") { (true, r) } else if let Some(r) = line.strip_prefix("search ") { (false, r) } else { (false, line) };
            if let Ok(s) = sexp::parse(rest) {
                out.push(Case { sexp: s, corr, nontrivial: true, tags: vec!["corpus".into()] });
            }
        }
    }
    out
}

fn run(id: &str, tier: Tier, seed: u64, driver: &str, corpus: Option<&str>) -> serde_json::Value {
    let t0 = std::time::Instant::now();
    let prop = props::by_id(id).unwrap_or_else(|| { eprintln!("unknown property {id}"); std::process::exit(2) });
    let mut rng = rng::Rng::new(seed);
    let mut cases: Vec<Case> = corpus.map(read_corpus).unwrap_or_default();
    let n_corpus = cases.len();
    cases.extend(prop.gen(tier, &mut rng));

    let lines: Vec<String> = cases.iter().map(|c| format!("{}", c.sexp)).collect();
    let opts = pool::PoolOptions { workers: 16, timeout: std::time::Duration::from_secs(prop.timeout_secs()) };
    let impl_out = pool::run_cases(id, &lines, &opts);

    // model
    let corr_idx: Vec<usize> = (0..cases.len()).filter(|&i| cases[i].corr).collect();
    let corr_lines: Vec<String> = corr_idx.iter().map(|&i| lines[i].clone()).collect();
    let mut driver_error = None;
    let model_out: Vec<String> = if corr_lines.is_empty() { vec![] } else {
        match pool::run_lean_driver(driver, id, &corr_lines) {
            Ok(v) => v,
            Err(e) => { driver_error = Some(e); vec!["(driver-error)".to_string(); corr_lines.len()] },
        }
    };

    let mut disagreements = vec![];
    for (k, &i) in corr_idx.iter().enumerate() {
        if model_out[k] != impl_out[i] {
            disagreements.push(json!({"index": i, "case": lines[i], "impl": impl_out[i], "model": model_out[k]}));
        }
    }

    // failures of the property itself on the implementation
    let mut failures = vec![];
    let mut unparsable = 0usize;
    for i in 0..cases.len() {
        match sexp::parse(&impl_out[i]) {
            Ok(res) => if let Some(f) = prop.judge(&cases[i].sexp, &res) {
                failures.push(json!({"index": i, "case": lines[i], "impl": impl_out[i], "signature": f.signature, "what": f.what, "origin": "generated"}));
            },
            Err(_) => { unparsable += 1; },
        }
    }

    // neighbourhood search around disagreements (the concrete failing input for the replay)
    let mut neighbour_evals = 0usize;
    if !disagreements.is_empty() {
        let mut extra: Vec<Case> = vec![];
        for d in disagreements.iter().take(50) {
            let i = d["index"].as_u64().unwrap() as usize;
            extra.extend(prop.neighbours(&cases[i].sexp, &mut rng));
        }
        let elines: Vec<String> = extra.iter().map(|c| format!("{}", c.sexp)).collect();
        let eout = pool::run_cases(id, &elines, &opts);
        neighbour_evals = elines.len();
        for i in 0..extra.len() {
            if let Ok(res) = sexp::parse(&eout[i]) {
                if let Some(f) = prop.judge(&extra[i].sexp, &res) {
                    failures.push(json!({"case": elines[i], "impl": eout[i], "signature": f.signature, "what": f.what, "origin": "neighbourhood-of-disagreement"}));
                }
            }
        }
    }

    // statistics
    let mut distinct: HashSet<&str> = HashSet::new();
    let mut distinct_nontrivial = 0usize;
    let mut hist: BTreeMap<String, usize> = BTreeMap::new();
    for (i, c) in cases.iter().enumerate() {
        if distinct.insert(&lines[i]) && c.nontrivial { distinct_nontrivial += 1; }
        for t in &c.tags { *hist.entry(t.clone()).or_default() += 1; }
    }
    let mut outcome_hist: BTreeMap<String, usize> = BTreeMap::new();
    for o in &impl_out {
        let head: String = o.trim_start_matches('(').split(|c: char| c == ' ' || c == ')').next().unwrap_or("?").to_string();
        *outcome_hist.entry(head).or_default() += 1;
    }
    let mut samples = vec![];
    let step = (cases.len() / 6).max(1);
    for i in (0..cases.len()).step_by(step).take(8) {
        samples.push(json!({"case": lines[i], "impl": impl_out[i], "compared_with_model": cases[i].corr}));
    }

    json!({
        "property": id,
        "tier": if tier == Tier::Quick { "quick" } else { "thorough" },
        "seed": seed,
        "relation": prop.relation(),
        "rule": prop.rule(),
        "theorems": prop.theorems(),
        "evaluations": cases.len() + neighbour_evals,
        "corpus_cases": n_corpus,
        "corr_cases": corr_idx.len(),
        "search_cases": cases.len() - corr_idx.len(),
        "distinct_nontrivial": distinct_nontrivial,
        "tag_histogram": hist,
        "outcome_histogram": outcome_hist,
        "samples": samples,
        "disagreements": disagreements,
        "failures": failures,
        "unparsable_results": unparsable,
        "driver_error": driver_error,
        "wall_s": t0.elapsed().as_secs_f64(),
    })
}
