//! SplitMix64: every random choice of a run derives from one seed, so `(seed, index)` replays.

#[derive(Clone)]
pub struct Rng(pub u64);

impl Rng {
    pub fn new(seed: u64) -> Self { Rng(seed ^ 0x9E37_79B9_7F4A_7C15) }
    /// Independent stream for a sub-task.
    pub fn fork(&mut self, salt: u64) -> Rng { Rng(self.next_u64() ^ salt.wrapping_mul(0xD6E8_FEB8_6659_FD93)) }
    pub fn next_u64(&mut self) -> u64 {
        self.0 = self.0.wrapping_add(0x9E37_79B9_7F4A_7C15);
        let mut z = self.0;
        z = (z ^ (z >> 30)).wrapping_mul(0xBF58_476D_1CE4_E5B9);
        z = (z ^ (z >> 27)).wrapping_mul(0x94D0_49BB_1331_11EB);
        z ^ (z >> 31)
    }
    pub fn next_u32(&mut self) -> u32 { (self.next_u64() >> 32) as u32 }
    /// uniform in `0..n` (n > 0)
    pub fn below(&mut self, n: usize) -> usize { (self.next_u64() % n as u64) as usize }
    /// uniform in `lo..=hi`
    pub fn range(&mut self, lo: i64, hi: i64) -> i64 { lo + (self.next_u64() % ((hi - lo + 1) as u64)) as i64 }
    pub fn chance(&mut self, num: u32, den: u32) -> bool { (self.next_u64() % den as u64) < num as u64 }
    pub fn pick<'a, T>(&mut self, xs: &'a [T]) -> &'a T { &xs[self.below(xs.len())] }
    pub fn shuffle<T>(&mut self, xs: &mut [T]) {
        for i in (1..xs.len()).rev() { let j = self.below(i + 1); xs.swap(i, j); }
    }
}

pub const INT_BOUNDARY: &[i32] = &[
    0, 1, -1, 2, -2, 3, 5, 7, -7, 8, 16, 31, 32, 33, -31, -32, -33, 63, 64, 65, 100, 127, 128, 255, 256,
    -128, -129, 32767, 32768, -32768, -32769, 65535, 65536, 0x7fff_ffff, -0x7fff_ffff, i32::MIN, i32::MIN + 1,
    0x4000_0000, -0x4000_0000, 0x5555_5555, 0x2aaa_aaaa, 1000, -1000, 46341, 46340, -46341,
];

pub const FLOAT_BOUNDARY_BITS: &[u32] = &[
    0x0000_0000, 0x8000_0000, 0x3f80_0000, 0xbf80_0000, 0x4000_0000, 0x3f00_0000, 0x7f80_0000, 0xff80_0000,
    0x0000_0001, 0x8000_0001, 0x007f_ffff, 0x0080_0000, 0x7f7f_ffff, 0xff7f_ffff, 0x4b80_0000, 0x4b80_0001,
    0x4f00_0000, 0xcf00_0000, 0x4f00_0001, 0xcf00_0001, 0x4eff_ffff, 0x3eaa_aaab, 0x4049_0fdb, 0x3dcc_cccd,
    0x4040_0000, 0xc0a0_0000, 0x42c8_0000, 0x3f8c_cccd, 0x3fc0_0000, 0xbfc0_0000, 0x4020_0000,
];

impl Rng {
    pub fn int_boundary(&mut self) -> i32 {
        if self.chance(3, 4) { *self.pick(INT_BOUNDARY) } else { self.next_u32() as i32 }
    }
    pub fn small_int(&mut self) -> i32 { self.range(-9, 9) as i32 }
    /// never NaN
    pub fn float_bits(&mut self) -> u32 {
        loop {
            let b = if self.chance(3, 4) { *self.pick(FLOAT_BOUNDARY_BITS) } else { self.next_u32() };
            if !f32::from_bits(b).is_nan() { return b; }
        }
    }
}
