import TruthModel.Driver.Sexp
import TruthModel.Driver.C11
import TruthModel.Driver.C04
import TruthModel.Driver.C08
import TruthModel.Driver.C18
import TruthModel.Driver.C20
import TruthModel.Driver.C02
import TruthModel.Driver.C05
import TruthModel.Driver.C09
import TruthModel.Driver.C07
import TruthModel.Driver.C15
import TruthModel.Driver.C12
import TruthModel.Driver.C10
import TruthModel.Driver.C06
import TruthModel.Driver.C14
import TruthModel.Driver.C13
import TruthModel.Driver.C17
import TruthModel.Driver.C03
import TruthModel.Driver.C01
import TruthModel.Driver.Files
import TruthModel.Driver.FilesEcl10
/-
Line-protocol driver: `truthmodel <property-id>` reads one S-expression case per line on stdin and
prints the model's canonical result line for it.  Imports only the import-free model files so it
links as a `lean_exe`.
-/
open TruthModel

def handler (id : String) : Sexp → Sexp :=
  match id with
  | "C11" => Driver.C11.handle
  | "C04" => Driver.C04.handle
  | "C08" => Driver.C08.handle
  | "C18" => Driver.C18.handle
  | "C20" => Driver.C20.handle
  | "C02" => Driver.C02.handle
  | "C05" => Driver.C05.handle
  | "C09" => Driver.C09.handle
  | "C07" => Driver.C07.handle
  | "C15" => Driver.C15.handle
  | "C12" => Driver.C12.handle
  | "C10" => Driver.C10.handle
  | "C06" => Driver.C06.handle
  | "C14" => Driver.C14.handle
  | "C13" => Driver.C13.handle
  | "C17" => Driver.C17.handle
  | "C03" => Driver.Files.handle
  | "C16" => Driver.Files.handle
  | "C01" => Driver.C01.handle
  | _ => fun _ => .atom "unknown-property"

partial def loop (h : IO.FS.Stream) (out : IO.FS.Stream) (f : Sexp → Sexp) : IO Unit := do
  let line ← h.getLine
  if line.isEmpty then return ()
  let t := line.trimAscii.toString
  if t.isEmpty then
    loop h out f
  else
    match Sexp.parse t with
    | .ok c => out.putStrLn (toString (f c))
    | .error e => out.putStrLn (toString (Sexp.app "bad-case" [.str e]))
    loop h out f

def main (args : List String) : IO Unit := do
  let id := args.headD ""
  let stdin ← IO.getStdin
  let stdout ← IO.getStdout
  loop stdin stdout (handler id)
