import TruthModel.Model.Fmt
import TruthModel.Driver.Sexp
/-
Driver glue for C08 (trusted, not part of any theorem).
Cases:
  (pint signed|unsigned dec|hex|bin|bool V)  -> (ok "text")            Fmt.printInt
  (pstr "s")                                 -> (ok "text")            Fmt.escapeString
  (ustr "text")                              -> (ok "s") | (err escape) | other
                                                                       Fmt.lex, then Fmt.parseStringLiteral on a lone string token
  (lexint "text")                            -> (int V) | bad-int | other    Fmt.evalLiteral
  (lex "text")                               -> (toks eof|invalid|comment (CLASS "text")...)   Fmt.lex
  (layout W DOC)   DOC ::= "atom text" | (l DOC...)   -> (ok "text")   Fmt.render of nested `[..]` lists
-/
namespace TruthModel.Driver.C08
open TruthModel TruthModel.Fmt

def radixOf (s : String) : Radix :=
  match s with
  | "hex" => .hex | "bin" => .bin | "bool" => .bool | _ => .dec

def str (cs : List Char) : Sexp := .str (String.ofList cs)

def tokSexp : Tok → Sexp
  | .punct s => Sexp.app "punct" [str s]
  | .word s => Sexp.app "word" [str s]
  | .int s => Sexp.app "int" [str s]
  | .float s => Sexp.app "float" [str s]
  | .str s => Sexp.app "str" [str s]
  | .difficulty s => Sexp.app "difficulty" [str s]

def endName : LexEnd → String
  | .eof => "eof" | .invalid => "invalid" | .comment => "comment" | .fuel => "fuel"

mutual
partial def toDoc (s : Sexp) : Doc :=
  match s with
  | .list (_ :: xs) => .list ['['] [']'] (toDocs xs)
  | other => .atom other.asAtom.toList
partial def toDocs (xs : List Sexp) : Docs :=
  match xs with
  | [] => .nil
  | x :: r => .cons (toDoc x) (toDocs r)
end

def handle (case : Sexp) : Sexp :=
  let a := case.args
  match case.head? with
  | some "pint" =>
    let f : IntFormat := { signed := (a[0]!).asAtom == "signed", radix := radixOf (a[1]!).asAtom }
    Sexp.app "ok" [str (printInt f (Int32.ofInt (a[2]!).asInt))]
  | some "pstr" => Sexp.app "ok" [str (escapeString (a[0]!).asAtom.toList)]
  | some "ustr" =>
    match lex (a[0]!).asAtom.toList with
    | ([.str s], .eof) =>
      match parseStringLiteral s with
      | .ok r => Sexp.app "ok" [str r]
      | .err _ => Sexp.app "err" [.atom "escape"]
      | .panic site => Sexp.app "panic" [.str "model", .str site]
    | _ => .atom "other"
  | some "lexint" =>
    match evalLiteral (a[0]!).asAtom.toList with
    | .int v => Sexp.app "int" [Sexp.int v.toInt]
    | .badInt => .atom "bad-int"
    | .other => .atom "other"
  | some "lex" =>
    let r := lex (a[0]!).asAtom.toList
    Sexp.app "toks" (.atom (endName r.2) :: r.1.map tokSexp)
  | some "layout" => Sexp.app "ok" [str (render (a[0]!).asNat (toDoc (a[1]!)))]
  | _ => .atom "bad-case"

end TruthModel.Driver.C08
