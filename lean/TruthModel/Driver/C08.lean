import TruthModel.Model.Fmt
import TruthModel.Model.FmtExpr
import TruthModel.Model.FmtStmt
import TruthModel.Driver.Sexp
/-
Driver glue for C08 (trusted, not part of any theorem).
Cases:
  (pint signed|unsigned dec|hex|bin|bool V)  -> (ok "text")            Fmt.printInt
  (pstr "s")                                 -> (ok "text")            Fmt.escapeString
  (ustr "text")                              -> (ok "s") | (err escape) | other
                                                                       Fmt.lex, then Fmt.parseStringLiteral on a lone string token
  (lexint "text")                            -> (int V) | bad-int | other    Fmt.evalLiteral
  (lex "text")                               -> (toks eof|invalid|comment (CLASS "text")...)   Fmt.lex
  (layout W DOC)   DOC ::= "atom text" | (l DOC...)   -> (ok "text")   Fmt.render of nested `[..]` lists
  (eprint EXPR)                              -> (ok "text")            FmtExpr.printText (unlimited width)
  (eprintw W EXPR)                           -> (ok "text")            FmtExpr.renderExpr W (inline / block argument lists)
  (etoks W EXPR)                             -> (toks END (CLASS "text")...)
        the tokens of the printed expression (width-independent): `FmtExpr.printExpr` when
        `FmtExpr.NoGlue` holds (this is the hypothesis `LexOK` of `expr_print_parse_text`, compared
        with the real lexer on the real text), otherwise `Fmt.lex` of `printText`
  (eparse "text")                            -> (ok EXPR) | reject     FmtExpr.parseText
  EXPR ::= (tern C L R) | (bin OP A B) | (un OP X) | (xcr pre|post inc|dec VAR) | (var VAR)
         | (call NAME (ps (KIND EXPR)...) EXPR...) | (switch (EXPR | _)...)
         | (int V signed|unsigned dec|hex|bin|bool) | (flt BITS "magnitude text") | (fltt "token text")
         | (str "s") | (labelprop offsetof|timeof "l") | (enumc "e" "i")
  VAR ::= (v none|int|float n "name") | (v none|int|float r N)     NAME ::= (n "ident") | (ins N)
Statement layer (Model/FmtStmt.lean):
  (sprint W STMT)  -> (ok "text") | (fmtpanic "msg")      FmtStmt.renderStmt W (layout at target width W)
  (bprint W BLOCK) -> (ok "text") | (fmtpanic "msg")      FmtStmt.renderBlock W
  (stoks W STMT)   -> (toks END (CLASS "text")...) | (fmtpanic "msg")
        the tokens of the printed statement (width-independent): `FmtStmt.printStmt` when `FmtStmt.OKS` holds
        (the hypothesis that the joined text lexes to the written tokens, compared with the real lexer on
        the real text), otherwise `Fmt.lex` of the rendered text
  (sparse "text")  -> (ok STMT) | reject               FmtStmt.parseStmtText
  (bparse "text")  -> (ok BLOCK) | reject              FmtStmt.parseBlockText
  STMT ::= (stmt DIFF KIND)    DIFF ::= _ | (d "string")    BLOCK ::= (b STMT...)
  KIND ::= (jump JUMP) | (ret) | (ret EXPR) | (condjump KW EXPR JUMP) | (chain KW EXPR BLOCK CH...)
         | (loop BLOCK) | (while EXPR BLOCK) | (dowhile BLOCK EXPR) | (times _|VAR EXPR BLOCK) | (expr EXPR)
         | (block BLOCK) | (assign VAR OP EXPR) | (decl TY (VAR)|(VAR EXPR)...) | (callsub at|noat ASYNC "f" EXPR...)
         | (label "n") | (interrupt EXPR) | (abstime N) | (reltime EXPR)
  JUMP ::= (goto "l") | (goto "l" N) | (break)     CH ::= (elif KW EXPR BLOCK) | (else BLOCK)
  ASYNC ::= _ | async | (asyncid EXPR)    KW ::= if | unless    TY ::= int|float|string|var|void
  OP ::= Assign|Add|Sub|Mul|Div|Rem|BitOr|BitXor|BitAnd|ShiftLeft|ShiftRightSigned|ShiftRightUnsigned
-/
namespace TruthModel.Driver.C08
open TruthModel TruthModel.Fmt

def radixOf (s : String) : Radix :=
  match s with
  | "hex" => .hex | "bin" => .bin | "bool" => .bool | _ => .dec

def str (cs : List Char) : Sexp := .str (String.ofList cs)

def tokSexp : Tok → Sexp
  | .punct s => Sexp.app "punct" [str s]
  | .word s => Sexp.app "word" [str s]
  | .int s => Sexp.app "int" [str s]
  | .float s => Sexp.app "float" [str s]
  | .str s => Sexp.app "str" [str s]
  | .difficulty s => Sexp.app "difficulty" [str s]

def endName : LexEnd → String
  | .eof => "eof" | .invalid => "invalid" | .comment => "comment" | .fuel => "fuel"

mutual
partial def toDoc (s : Sexp) : Doc :=
  match s with
  | .list (_ :: xs) => .list ['['] [']'] (toDocs xs)
  | other => .atom other.asAtom.toList
partial def toDocs (xs : List Sexp) : Docs :=
  match xs with
  | [] => .nil
  | x :: r => .cons (toDoc x) (toDocs r)
end

/-! ### expressions -/
open TruthModel.FmtExpr

def binOpNames : List (String × BinOp) :=
  [("Add", .add), ("Sub", .sub), ("Mul", .mul), ("Div", .div), ("Rem", .rem), ("Eq", .eq), ("Ne", .ne),
   ("Lt", .lt), ("Le", .le), ("Gt", .gt), ("Ge", .ge), ("BitOr", .bitOr), ("BitXor", .bitXor),
   ("BitAnd", .bitAnd), ("LogicOr", .logicOr), ("LogicAnd", .logicAnd), ("ShiftLeft", .shl),
   ("ShiftRightSigned", .shr), ("ShiftRightUnsigned", .ushr)]

def unOpNames : List (String × UnOp) :=
  [("Not", .not), ("Neg", .neg), ("BitNot", .bitNot), ("Sin", .sin), ("Cos", .cos), ("Tan", .tan),
   ("Asin", .asin), ("Acos", .acos), ("Atan", .atan), ("Sqrt", .sqrt), ("EncodeI", .encI),
   ("EncodeF", .encF), ("CastI", .castI), ("CastF", .castF)]

def pseudoNames : List (String × PseudoKind) :=
  [("mask", .mask), ("pop", .pop), ("blob", .blob), ("arg0", .arg0), ("nargs", .nargs)]

def lookupD {α : Type} (l : List (String × α)) (k : String) (d : α) : α :=
  match l.find? (fun p => p.1 == k) with
  | some p => p.2
  | none => d

def nameOf {α : Type} [BEq α] (l : List (String × α)) (x : α) : String :=
  match l.find? (fun p => p.2 == x) with
  | some p => p.1
  | none => "?"

def sigilOf (s : String) : Option Sigil :=
  match s with
  | "int" => some .int | "float" => some .float | _ => none

def toVar (s : Sexp) : Var :=
  let a := s.args
  let nm : VarName := if (a[1]!).asAtom == "r" then .reg (Int32.ofInt (a[2]!).asInt) else .normal (a[2]!).asAtom.toList
  { sigil := sigilOf (a[0]!).asAtom, name := nm }

/-- the float of a case: sign and class from the bit pattern, digits as given (a parameter) -/
def floatOf (bits : Nat) (text : String) : Expr :=
  let neg := bits ≥ 2147483648
  let exp := (bits / 8388608) % 256
  let man := bits % 8388608
  if exp = 255 ∧ man ≠ 0 then .litFloat false .nan
  else if exp = 255 then .litFloat neg .inf
  else .litFloat neg (.num text.toList)

mutual
partial def toExpr (s : Sexp) : Expr :=
  let a := s.args
  match s.head? with
  | some "tern" => .ternary (toExpr (a[0]!)) (toExpr (a[1]!)) (toExpr (a[2]!))
  | some "bin" => .binop (toExpr (a[1]!)) (lookupD binOpNames (a[0]!).asAtom .add) (toExpr (a[2]!))
  | some "un" => .unop (lookupD unOpNames (a[0]!).asAtom .neg) (toExpr (a[1]!))
  | some "xcr" => .xcrement ((a[0]!).asAtom == "pre") ((a[1]!).asAtom == "inc") (toVar (a[2]!))
  | some "var" => .var (toVar (a[0]!))
  | some "call" =>
    let name : CallName := if (a[0]!).head? == some "ins" then .ins ((a[0]!).args[0]!).asNat else .normal ((a[0]!).args[0]!).asAtom.toList
    .call name (toPseudos (a[1]!).args) (toExprs (a.drop 2))
  | some "switch" => .diffSwitch (toCases a)
  | some "int" => .litInt (Int32.ofInt (a[0]!).asInt) { signed := (a[1]!).asAtom == "signed", radix := radixOf (a[2]!).asAtom }
  | some "flt" => floatOf (a[0]!).asNat (a[1]!).asAtom
  | some "fltt" => .litFloat false (.num (a[0]!).asAtom.toList)
  | some "str" => .litString (a[0]!).asAtom.toList
  | some "labelprop" => .labelProp (if (a[0]!).asAtom == "timeof" then .timeof else .offsetof) (a[1]!).asAtom.toList
  | some "enumc" => .enumConst (a[0]!).asAtom.toList (a[1]!).asAtom.toList
  | _ => .litString "bad-expr".toList
partial def toExprs (xs : List Sexp) : Exprs :=
  match xs with
  | [] => .nil
  | x :: r => .cons (toExpr x) (toExprs r)
partial def toPseudos (xs : List Sexp) : Pseudos :=
  match xs with
  | [] => .nil
  | x :: r => .cons (lookupD pseudoNames (x.items[0]!).asAtom .mask) (toExpr (x.items[1]!)) (toPseudos r)
partial def toCases (xs : List Sexp) : Cases :=
  match xs with
  | [] => .nil
  | x :: r => if x.asAtom == "_" && x.head?.isNone then .blank (toCases r) else .some (toExpr x) (toCases r)
end

def sigilName : Option Sigil → String
  | none => "none" | some .int => "int" | some .float => "float"

def varSexp (v : Var) : Sexp :=
  match v.name with
  | .normal id => Sexp.app "v" [.atom (sigilName v.sigil), .atom "n", str id]
  | .reg n => Sexp.app "v" [.atom (sigilName v.sigil), .atom "r", Sexp.int n.toInt]

def radixName : Radix → String
  | .dec => "dec" | .hex => "hex" | .bin => "bin" | .bool => "bool"

mutual
partial def exprSexp (e : Expr) : Sexp :=
  match e with
  | .ternary c l r => Sexp.app "tern" [exprSexp c, exprSexp l, exprSexp r]
  | .binop a op b => Sexp.app "bin" [.atom (nameOf binOpNames op), exprSexp a, exprSexp b]
  | .unop op x => Sexp.app "un" [.atom (nameOf unOpNames op), exprSexp x]
  | .xcrement pre inc v => Sexp.app "xcr" [.atom (if pre then "pre" else "post"), .atom (if inc then "inc" else "dec"), varSexp v]
  | .var v => Sexp.app "var" [varSexp v]
  | .call name ps as =>
    let n := match name with
      | .normal id => Sexp.app "n" [str id]
      | .ins k => Sexp.app "ins" [Sexp.nat k]
    Sexp.app "call" (n :: Sexp.app "ps" (pseudosSexp ps) :: exprsSexp as)
  | .diffSwitch cs => Sexp.app "switch" (casesSexp cs)
  | .litInt v f => Sexp.app "int" [Sexp.int v.toInt, .atom (if f.signed then "signed" else "unsigned"), .atom (radixName f.radix)]
  | .litFloat neg b =>
    match b with
    | .num t => if neg then Sexp.app "fltneg" [str t] else Sexp.app "fltt" [str t]
    | .inf => Sexp.app "fltinf" [.atom (if neg then "neg" else "pos")]
    | .nan => Sexp.app "fltnan" []
  | .litString s => Sexp.app "str" [str s]
  | .labelProp kw l => Sexp.app "labelprop" [.atom (match kw with | .offsetof => "offsetof" | .timeof => "timeof"), str l]
  | .enumConst en id => Sexp.app "enumc" [str en, str id]
partial def exprsSexp (es : Exprs) : List Sexp :=
  match es with
  | .nil => []
  | .cons e r => exprSexp e :: exprsSexp r
partial def pseudosSexp (ps : Pseudos) : List Sexp :=
  match ps with
  | .nil => []
  | .cons k e r => Sexp.list [.atom (nameOf pseudoNames k), exprSexp e] :: pseudosSexp r
partial def casesSexp (cs : Cases) : List Sexp :=
  match cs with
  | .nil => []
  | .blank r => .atom "_" :: casesSexp r
  | .some e r => exprSexp e :: casesSexp r
end


/-! ### statements -/
open TruthModel.FmtStmt

def assignOpNames : List (String × AssignOp) :=
  [("Assign", .assign), ("Add", .add), ("Sub", .sub), ("Mul", .mul), ("Div", .div), ("Rem", .rem), ("BitOr", .bitOr),
   ("BitXor", .bitXor), ("BitAnd", .bitAnd), ("ShiftLeft", .shl), ("ShiftRightSigned", .shr), ("ShiftRightUnsigned", .ushr)]

def tyNames : List (String × TypeKw) :=
  [("int", .int), ("float", .float), ("string", .string), ("var", .var), ("void", .void)]

def kwOf (s : Sexp) : CondKw := if s.asAtom == "unless" then .unless else .if_
def kwName : CondKw → String
  | .if_ => "if" | .unless => "unless"

def toJump (s : Sexp) : Jump :=
  let a := s.args
  match s.head? with
  | some "goto" =>
    match a with
    | [l] => .goto l.asAtom.toList none
    | l :: t :: _ => .goto l.asAtom.toList (some (Int32.ofInt t.asInt))
    | _ => .brk
  | _ => .brk

def toDiff (s : Sexp) : Option (List Char) :=
  match s.head? with
  | some "d" => some (s.args[0]!).asAtom.toList
  | _ => none

def toAsync (s : Sexp) : Async :=
  match s.head? with
  | some "asyncid" => .id (toExpr (s.args[0]!))
  | _ => if s.asAtom == "async" then .plain else .none

def toDeclVar (s : Sexp) : Var × Option Expr :=
  match s.items with
  | [v] => (toVar v, none)
  | v :: e :: _ => (toVar v, some (toExpr e))
  | _ => (default, none)

mutual
partial def toKind (s : Sexp) : Kind :=
  let a := s.args
  match s.head? with
  | some "jump" => .jump (toJump (a[0]!))
  | some "ret" => match a with
    | [] => .ret none
    | e :: _ => .ret (some (toExpr e))
  | some "condjump" => .condJump (kwOf (a[0]!)) (toExpr (a[1]!)) (toJump (a[2]!))
  | some "chain" => .condChain (kwOf (a[0]!)) (toExpr (a[1]!)) (toBlock (a[2]!)) (toChain (a.drop 3))
  | some "loop" => .loop (toBlock (a[0]!))
  | some "while" => .while_ (toExpr (a[0]!)) (toBlock (a[1]!))
  | some "dowhile" => .doWhile (toBlock (a[0]!)) (toExpr (a[1]!))
  | some "times" =>
    .times (if (a[0]!).head?.isNone then none else some (toVar (a[0]!))) (toExpr (a[1]!)) (toBlock (a[2]!))
  | some "expr" => .expr (toExpr (a[0]!))
  | some "block" => .block (toBlock (a[0]!))
  | some "assign" => .assign (toVar (a[0]!)) (lookupD assignOpNames (a[1]!).asAtom .assign) (toExpr (a[2]!))
  | some "decl" => .decl (lookupD tyNames (a[0]!).asAtom .int) ((a.drop 1).map toDeclVar)
  | some "callsub" => .callSub ((a[0]!).asAtom == "at") (toAsync (a[1]!)) (a[2]!).asAtom.toList (toExprs (a.drop 3))
  | some "label" => .label (a[0]!).asAtom.toList
  | some "interrupt" => .interrupt (toExpr (a[0]!))
  | some "abstime" => .absTime (Int32.ofInt (a[0]!).asInt)
  | some "reltime" => .relTime (toExpr (a[0]!))
  | _ => .label "bad-kind".toList
partial def toBlockItems (xs : List Sexp) : Block :=
  match xs with
  | [] => .nil
  | x :: r => .cons (toDiff (x.args[0]!)) (toKind (x.args[1]!)) (toBlockItems r)
partial def toBlock (s : Sexp) : Block := toBlockItems s.args
partial def toChain (xs : List Sexp) : Chain :=
  match xs with
  | [] => .nil
  | x :: r =>
    match x.head? with
    | some "else" => .els (toBlock (x.args[0]!))
    | _ => .elif (kwOf (x.args[0]!)) (toExpr (x.args[1]!)) (toBlock (x.args[2]!)) (toChain r)
end

def toStmt (s : Sexp) : Stmt := { diff := toDiff (s.args[0]!), kind := toKind (s.args[1]!) }

def jumpSexp : Jump → Sexp
  | .goto l none => Sexp.app "goto" [str l]
  | .goto l (some t) => Sexp.app "goto" [str l, Sexp.int t.toInt]
  | .brk => Sexp.app "break" []

def diffSexp : Option (List Char) → Sexp
  | none => .atom "_"
  | some s => Sexp.app "d" [str s]

def asyncSexp : Async → Sexp
  | .none => .atom "_"
  | .plain => .atom "async"
  | .id e => Sexp.app "asyncid" [exprSexp e]

def declVarSexp : Var × Option Expr → Sexp
  | (v, none) => .list [varSexp v]
  | (v, some e) => .list [varSexp v, exprSexp e]

mutual
partial def kindSexp (k : Kind) : Sexp :=
  match k with
  | .jump j => Sexp.app "jump" [jumpSexp j]
  | .ret none => Sexp.app "ret" []
  | .ret (some e) => Sexp.app "ret" [exprSexp e]
  | .condJump kw c j => Sexp.app "condjump" [.atom (kwName kw), exprSexp c, jumpSexp j]
  | .condChain kw c b rest => Sexp.app "chain" (.atom (kwName kw) :: exprSexp c :: blockSexp b :: chainSexp rest)
  | .loop b => Sexp.app "loop" [blockSexp b]
  | .while_ c b => Sexp.app "while" [exprSexp c, blockSexp b]
  | .doWhile b c => Sexp.app "dowhile" [blockSexp b, exprSexp c]
  | .times cl n b => Sexp.app "times" [match cl with | none => .atom "_" | some v => varSexp v, exprSexp n, blockSexp b]
  | .expr e => Sexp.app "expr" [exprSexp e]
  | .block b => Sexp.app "block" [blockSexp b]
  | .assign v op e => Sexp.app "assign" [varSexp v, .atom (nameOf assignOpNames op), exprSexp e]
  | .decl ty vars => Sexp.app "decl" (.atom (nameOf tyNames ty) :: vars.map declVarSexp)
  | .callSub atSym as f args => Sexp.app "callsub" (.atom (if atSym then "at" else "noat") :: asyncSexp as :: str f :: exprsSexp args)
  | .label n => Sexp.app "label" [str n]
  | .interrupt e => Sexp.app "interrupt" [exprSexp e]
  | .absTime t => Sexp.app "abstime" [Sexp.int t.toInt]
  | .relTime d => Sexp.app "reltime" [exprSexp d]
partial def blockItemsSexp (b : Block) : List Sexp :=
  match b with
  | .nil => []
  | .cons d k rest => Sexp.app "stmt" [diffSexp d, kindSexp k] :: blockItemsSexp rest
partial def blockSexp (b : Block) : Sexp := Sexp.app "b" (blockItemsSexp b)
partial def chainSexp (c : Chain) : List Sexp :=
  match c with
  | .nil => []
  | .els b => [Sexp.app "else" [blockSexp b]]
  | .elif kw c b rest => Sexp.app "elif" [.atom (kwName kw), exprSexp c, blockSexp b] :: chainSexp rest
end

def stmtSexp (s : Stmt) : Sexp := Sexp.app "stmt" [diffSexp s.diff, kindSexp s.kind]

def outcomeText : Outcome (List Char) → Sexp
  | .ok t => Sexp.app "ok" [str t]
  | .err c => Sexp.app "err" [.str c]
  | .panic p => Sexp.app "fmtpanic" [.str p]

/-- block layout writes a comma after the last item: not a token the inline layout has -/
def dropTrailingCommas : List Tok → List Tok
  | [] => []
  | .punct [','] :: .punct [')'] :: r => .punct [')'] :: dropTrailingCommas r
  | t :: r => t :: dropTrailingCommas r

def handle (case : Sexp) : Sexp :=
  let a := case.args
  match case.head? with
  | some "pint" =>
    let f : IntFormat := { signed := (a[0]!).asAtom == "signed", radix := radixOf (a[1]!).asAtom }
    Sexp.app "ok" [str (printInt f (Int32.ofInt (a[2]!).asInt))]
  | some "pstr" => Sexp.app "ok" [str (escapeString (a[0]!).asAtom.toList)]
  | some "ustr" =>
    match lex (a[0]!).asAtom.toList with
    | ([.str s], .eof) =>
      match parseStringLiteral s with
      | .ok r => Sexp.app "ok" [str r]
      | .err _ => Sexp.app "err" [.atom "escape"]
      | .panic site => Sexp.app "panic" [.str "model", .str site]
    | _ => .atom "other"
  | some "lexint" =>
    match evalLiteral (a[0]!).asAtom.toList with
    | .int v => Sexp.app "int" [Sexp.int v.toInt]
    | .badInt => .atom "bad-int"
    | .other => .atom "other"
  | some "lex" =>
    let r := lex (a[0]!).asAtom.toList
    Sexp.app "toks" (.atom (endName r.2) :: r.1.map tokSexp)
  | some "layout" => Sexp.app "ok" [str (render (a[0]!).asNat (toDoc (a[1]!)))]
  | some "eprint" => Sexp.app "ok" [str (printText (toExpr (a[0]!)))]
  | some "eprintw" => Sexp.app "ok" [str (renderExpr (a[0]!).asNat (toExpr (a[1]!)))]
  | some "etoks" =>
    let e := toExpr (a[1]!)
    let r : List Tok × LexEnd := if NoGlue e then (printExpr e, .eof) else lex (printText e)
    Sexp.app "toks" (.atom (endName r.2) :: (dropTrailingCommas r.1).map tokSexp)
  | some "eparse" =>
    match parseText (a[0]!).asAtom.toList with
    | some e => Sexp.app "ok" [exprSexp e]
    | none => .atom "reject"
  | some "sprint" => outcomeText (renderStmt (a[0]!).asNat (toStmt (a[1]!)))
  | some "bprint" => outcomeText (renderBlock (a[0]!).asNat (toBlock (a[1]!)))
  | some "stoks" =>
    let s := toStmt (a[1]!)
    match renderStmt (a[0]!).asNat s with
    | .ok text =>
      let r : List Tok × LexEnd := if OKS s then (printStmt s, .eof) else lex text
      Sexp.app "toks" (.atom (endName r.2) :: (dropTrailingCommas r.1).map tokSexp)
    | other => outcomeText other
  | some "sparse" =>
    match parseStmtText (a[0]!).asAtom.toList with
    | some s => Sexp.app "ok" [stmtSexp s]
    | none => .atom "reject"
  | some "bparse" =>
    match parseBlockText (a[0]!).asAtom.toList with
    | some b => Sexp.app "ok" [blockSexp b]
    | none => .atom "reject"
  | _ => .atom "bad-case"

end TruthModel.Driver.C08
