import TruthModel.Model.RoundTrip
import TruthModel.Driver.C12
import TruthModel.Driver.C14
/-
Driver glue for C01 (trusted, not part of any theorem): S-expression case -> `TruthModel.RoundTrip`
-> canonical result (the format of `harness/src/props/c01.rs`).

  LANG  ::= (lang HDR MODE HASREGS DIFFALLOWED ((OP ABI)...) (DIFFLINE...) TARGET)
            MODE ::= absolute | relative | index20     ABI as in C12     DIFFLINE as in C14
  INSTR ::= (TIME OPCODE DIFFICULTY MASK EXTRA xBLOB)   EXTRA ::= N | none
  STMT  ::= (lab "name") | (abs T) | (rel D) | (ins DIFF OP MASK ARG0 BLOB ARG...)
            DIFF ::= none | "label"   MASK, ARG0 ::= none | N   BLOB ::= none | xHEX
            ARG ::= (i V) | (f BITS) | (s xHEX) | (r N 0|1) | (off "name") | (tof "name")
  (raise LANG ARGUMENTS INSTR...)  -> (ok (stmts STMT...) (w "class"...)) | (err "class")
  (lower LANG STMT...)             -> (ok INSTR...) | (err "class")
  (rtm LANG ARGUMENTS INSTR...)    -> (ok (w "class"...) (same) | (re INSTR...) | (reerr "class")) | (err "class")
-/
namespace TruthModel.Driver.C01
open TruthModel TruthModel.Abi TruthModel.Offsets TruthModel.RoundTrip

/-- hardware IEEE single through Lean's `Float32`: `x == x.round()`, `x as i32` (saturating), `reg as f32` -/
def nativeFloatReg : FloatReg where
  toReg b :=
    let x := Float32.ofBits b
    if x == x.round then some x.toInt32.toInt else none
  ofReg r := (Int32.ofInt r).toFloat32.toBits

def canonF (b : UInt32) : UInt32 :=
  if (b &&& 0x7f800000) == 0x7f800000 && (b &&& 0x007fffff) != 0 then 0x7fc00000 else b

def toMode : String → LabelMode
  | "relative" => .relative
  | "index20" => .index20
  | _ => .absolute

def toLang (s : Sexp) : Lang :=
  let a := s.args
  let ops : List (Nat × Abi) := (a[4]!).items.map fun o => ((o.items[0]!).asNat, Driver.C12.toAbi (o.items[1]!))
  let defs := match Diff.applyLines Diff.defaultDefs (Driver.C14.toLines (a[5]!)) with
    | .ok d => d
    | _ => Diff.defaultDefs
  { hdr := (a[0]!).asNat, mode := toMode (a[1]!).asAtom,
    sig := fun op => (ops.find? (·.1 == op)).map (·.2),
    hasRegs := (a[2]!).asInt != 0, diffAllowed := (a[3]!).asInt != 0, defs := defs, fr := nativeFloatReg }

def optInt (s : Sexp) : Option Int := if s.asAtom == "none" then none else some s.asInt
def optNat (s : Sexp) : Option Nat := if s.asAtom == "none" then none else some s.asNat
def ofOptInt : Option Int → Sexp | some v => Sexp.int v | none => .atom "none"
def ofOptNat : Option Nat → Sexp | some v => Sexp.nat v | none => .atom "none"

def toInstr (s : Sexp) : RawInstr :=
  let a := s.items
  { time := (a[0]!).asInt, opcode := (a[1]!).asNat, difficulty := (a[2]!).asNat, mask := (a[3]!).asNat,
    extra := optInt (a[4]!), blob := Driver.C12.unhex (a[5]!).asAtom }

def ofInstr (r : RawInstr) : Sexp :=
  .list [Sexp.int r.time, Sexp.nat r.opcode, Sexp.nat r.difficulty, Sexp.nat r.mask, ofOptInt r.extra, .atom (Driver.C12.hex r.blob)]

def toFArg (s : Sexp) : FArg :=
  let a := s.args
  match s.head? with
  | some "i" => .int (a[0]!).asInt
  | some "f" => .float (UInt32.ofNat (a[0]!).asNat)
  | some "s" => .str (Driver.C12.unhex (a[0]!).asAtom)
  | some "r" => .reg (a[0]!).asInt ((a[1]!).asInt != 0)
  | some "off" => .offsetof (a[0]!).asAtom
  | _ => .timeof (a[0]!).asAtom

def ofFArg : FArg → Sexp
  | .int v => Sexp.app "i" [Sexp.int v]
  | .float b => Sexp.app "f" [Sexp.nat (canonF b).toNat]
  | .str s => Sexp.app "s" [.atom (Driver.C12.hex s)]
  | .reg r f => Sexp.app "r" [Sexp.int r, Sexp.nat (if f then 1 else 0)]
  | .offsetof l => Sexp.app "off" [.str l]
  | .timeof l => Sexp.app "tof" [.str l]

def toStmt (s : Sexp) : FlatStmt :=
  let a := s.args
  match s.head? with
  | some "lab" => .label (a[0]!).asAtom
  | some "abs" => .abs (Int32.ofInt (a[0]!).asInt)
  | some "rel" => .rel (Int32.ofInt (a[0]!).asInt)
  | _ =>
    let diff : Option (List Char) := match a[0]! with | .atom "none" => none | d => some d.asAtom.toList
    let blob : Option Bytes := match a[4]! with | .atom "none" => none | b => some (Driver.C12.unhex b.asAtom)
    .call { diff := diff, opcode := (a[1]!).asNat, mask := optNat (a[2]!), arg0 := optInt (a[3]!), blob := blob,
            args := (a.drop 5).map toFArg }

def ofStmt : FlatStmt → Sexp
  | .label n => Sexp.app "lab" [.str n]
  | .abs t => Sexp.app "abs" [Sexp.int t.toInt]
  | .rel d => Sexp.app "rel" [Sexp.int d.toInt]
  | .call c =>
    Sexp.app "ins" ([match c.diff with | some d => .str (String.ofList d) | none => .atom "none",
      Sexp.nat c.opcode, ofOptNat c.mask, ofOptInt c.arg0,
      match c.blob with | some b => .atom (Driver.C12.hex b) | none => .atom "none"] ++ c.args.map ofFArg)

/-- the cut the harness applies to diagnostics: up to the first quote, `!` or digit -/
def cutClass (s : String) : String :=
  (String.ofList (s.toList.takeWhile fun c => !(c == '\'' || c == '"' || c == '`' || c == '!' || c.isDigit))).trimAscii.toString

def errOf {α} : Outcome α → Sexp
  | .err c => Sexp.app "err" [.str (cutClass c)]
  | .panic p => Sexp.app "panic" [.str "model", .str p]
  | .ok _ => .atom "ok"

def strs (head : String) (xs : List String) : Sexp := Sexp.app head (xs.map fun x => .str (cutClass x))

def handleRaise (case : Sexp) : Sexp :=
  let a := case.args
  let L := toLang a[0]!
  match raiseFlat L ((a[1]!).asInt != 0) ((a.drop 2).map toInstr) with
  | .ok (ss, ws) => Sexp.app "ok" [Sexp.app "stmts" (ss.map ofStmt), strs "w" ws]
  | e => errOf e

def handleLower (case : Sexp) : Sexp :=
  let a := case.args
  let L := toLang a[0]!
  match lowerFlat L ((a.drop 1).map toStmt) with
  | .ok is => Sexp.app "ok" (is.map ofInstr)
  | e => errOf e

def handleRt (case : Sexp) : Sexp :=
  let a := case.args
  let L := toLang a[0]!
  let is := (a.drop 2).map toInstr
  match raiseFlat L ((a[1]!).asInt != 0) is with
  | .ok (ss, ws) =>
    let re := match lowerFlat L ss with
      | .ok is' => if is' == is then Sexp.app "same" [] else Sexp.app "re" (is'.map ofInstr)
      | .err c => strs "reerr" [c]
      | .panic p => Sexp.app "panic" [.str "model", .str p]
    Sexp.app "ok" [strs "w" ws, re]
  | e => errOf e

def handle (case : Sexp) : Sexp :=
  match case.head? with
  | some "raise" => handleRaise case
  | some "lower" => handleLower case
  | some "rtm" => handleRt case
  | _ => .atom "bad-case"

end TruthModel.Driver.C01
