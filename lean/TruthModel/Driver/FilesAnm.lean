import TruthModel.Model.FilesAnm
import TruthModel.Driver.C03
/-
Driver glue for the ANM container model (C03 / C16).

  (ranm <variant> <with-images 0|1> (<undecodable strings as hex>...) x<hex> ...)  ->  (ok <structure>) | (err c) | (panic ..)
  (wanm <variant> <structure> ...)                                                 ->  (ok x<hex>)      | (err c) | (panic ..)

variant: v0 v2 v3 v4 v7 v8 (the container version of the game).  Structure:

  (anm (e (specs rt_width rt_height rt_format colorkey offset_x offset_y memory_priority low_res_scale)
          x<path> x<path_2>|none
          (sprites (s <name> <id>|none x y w h) ...)
          (scripts (c <name> <id> (instr ..) ...) ...)
          (tex format width height)|none x<data>|none) ...)

Floats are bit patterns, script ids are printed as signed 32-bit numbers (the `i32` of the Rust side).
-/
namespace TruthModel.Driver.FilesAnm
open TruthModel TruthModel.InstrIO TruthModel.Files TruthModel.Driver.C03

/-- tail-recursive hex decoder (whole files); same as `Driver.Files.ofHexFast` -/
def ofHexFast (s : String) : Bytes :=
  let b := s.toUTF8
  let start := if b.size > 0 && b[0]! == 120 then 1 else 0
  let hv (c : UInt8) : UInt8 := if c >= 48 && c <= 57 then c - 48 else if c >= 97 then c - 87 else c - 55
  let n := (b.size - start) / 2
  let rec go : Nat → Bytes → Bytes
    | 0, acc => acc
    | k + 1, acc => go k ((hv b[start + 2 * k]! * 16 + hv b[start + 2 * k + 1]!) :: acc)
  go n []

/-- panic sites are `"<source file>: <message>"`; printed like a caught panic of the implementation -/
def fileOutcome {α} (f : α → List Sexp) : Outcome α → Sexp
  | .ok a => Sexp.app "ok" (f a)
  | .err c => Sexp.app "err" [.str c]
  | .panic s =>
    match s.splitOn ": " with
    | file :: msg :: rest => Sexp.app "panic" [.str ("/repo/" ++ file), .str (": ".intercalate (msg :: rest))]
    | _ => Sexp.app "panic" [.str "model", .str s]

def fmtOf : String → AnmFmt
  | "v0" => anmV0 | "v2" => anmV2 | "v3" => anmV3 | "v4" => anmV4 | "v7" => anmV7 | _ => anmV8

def u32Of (s : Sexp) : UInt32 := UInt32.ofNat s.asNat
/-- a signed 32-bit number as its bit pattern -/
def patOf (s : Sexp) : UInt32 := UInt32.ofNat (twos 32 s.asInt)
def optBytes (s : Sexp) : Option Bytes := if s.asAtom == "none" then none else some (ofHexFast s.asAtom)
def optBytesS : Option Bytes → Sexp
  | none => .atom "none"
  | some b => .atom (toHex b)

def spriteSexp (x : Nat × Sprite) : Sexp :=
  Sexp.app "s" [Sexp.nat x.1, (match x.2.id with | none => .atom "none" | some i => Sexp.nat i.toNat),
    Sexp.nat x.2.x.toNat, Sexp.nat x.2.y.toNat, Sexp.nat x.2.w.toNat, Sexp.nat x.2.h.toNat]

def spriteOf (s : Sexp) : Nat × Sprite :=
  let a := s.args
  ((a[0]!).asNat, { id := if (a[1]!).asAtom == "none" then none else some (u32Of (a[1]!)),
                    x := u32Of (a[2]!), y := u32Of (a[3]!), w := u32Of (a[4]!), h := u32Of (a[5]!) })

def scriptSexp (x : Nat × AnmScript) : Sexp :=
  Sexp.app "c" (Sexp.nat x.1 :: Sexp.int (signed 32 x.2.id.toNat) :: x.2.instrs.map instrSexp)

def scriptOf (s : Sexp) : Nat × AnmScript :=
  let a := s.args
  ((a[0]!).asNat, { id := patOf (a[1]!), instrs := (a.drop 2).map fun i => instrOf i.args })

def entrySexp (e : AnmEntry) : Sexp :=
  Sexp.app "e" [
    Sexp.app "specs" [Sexp.nat e.specs.rtWidth.toNat, Sexp.nat e.specs.rtHeight.toNat, Sexp.nat e.specs.rtFormat.toNat,
      Sexp.nat e.specs.colorkey.toNat, Sexp.nat e.specs.offsetX.toNat, Sexp.nat e.specs.offsetY.toNat,
      Sexp.nat e.specs.memoryPriority.toNat, Sexp.nat (if e.specs.lowResScale then 1 else 0)],
    .atom (toHex e.path), optBytesS e.path2,
    Sexp.app "sprites" (e.sprites.map spriteSexp),
    Sexp.app "scripts" (e.scripts.map scriptSexp),
    (match e.texMeta with
     | none => .atom "none"
     | some m => Sexp.app "tex" [Sexp.nat m.format.toNat, Sexp.nat m.width.toNat, Sexp.nat m.height.toNat]),
    optBytesS e.texData]

def entryOf (s : Sexp) : AnmEntry :=
  let a := s.args
  let sp := (a[0]!).args
  { specs := { rtWidth := u32Of (sp[0]!), rtHeight := u32Of (sp[1]!), rtFormat := u32Of (sp[2]!), colorkey := u32Of (sp[3]!),
               offsetX := u32Of (sp[4]!), offsetY := u32Of (sp[5]!), memoryPriority := u32Of (sp[6]!),
               lowResScale := (sp[7]!).asNat != 0 },
    path := ofHexFast (a[1]!).asAtom, path2 := optBytes (a[2]!),
    sprites := (a[3]!).args.map spriteOf, scripts := (a[4]!).args.map scriptOf,
    texMeta := (if (a[5]!).asAtom == "none" && (a[5]!).head? == none then none
                else let t := (a[5]!).args; some { format := u32Of (t[0]!), width := u32Of (t[1]!), height := u32Of (t[2]!) }),
    texData := optBytes (a[6]!) }

def anmSexp (f : AnmFile) : Sexp := Sexp.app "anm" (f.entries.map entrySexp)
def anmOf (s : Sexp) : AnmFile := { entries := s.args.map entryOf }

def handle (case : Sexp) : Sexp :=
  let a := case.args
  match case.head? with
  | some "ranm" =>
    let bad : List Bytes := (a[2]!).items.map fun x => ofHexFast x.asAtom
    let decOk : Bytes → Bool := fun s => !bad.contains s
    fileOutcome (fun f => [anmSexp f]) (readAnm decOk (fmtOf (a[0]!).asAtom) ((a[1]!).asNat != 0) (ofHexFast (a[3]!).asAtom))
  | some "wanm" =>
    fileOutcome (fun (b : Bytes) => [Sexp.atom (toHex b)]) (writeAnm (fmtOf (a[0]!).asAtom) (anmOf (a[1]!)))
  | _ => .atom "bad-case"

end TruthModel.Driver.FilesAnm
