import TruthModel.Model.Diff
import TruthModel.Driver.Sexp
import TruthModel.Driver.C14Raise
/-
Driver glue for C14 (trusted, not part of any theorem).
  LINE ::= (INDEX "cs")                      one `!difficulty_flags` line
  (table (LINE...))                          -> (ok ("label" MASK)...) for masks 0..255 | (err CLASS)
  (parse (LINE...) "str")                    -> (ok MASK) | (err CLASS)
  (switch (LINE...) LABEL ARG...)            -> (ok (MASK (V...))...) | (err CLASS)
        LABEL ::= "str" | none     ARG ::= (v N) | (sw CASE...)     CASE ::= _ | ARG
  (assign (LINE...) LABEL CASE...)           -> (ok (MASK N)...)   CASE ::= _ | (lit N) | (add N)
  (unit CASE...)   CASE ::= _ | N            -> (ok (select V...) (cases (MASK V)...) (bitmasks MASK...))
  (raise GAME (LINE...) SIGS INSTR...)       -> (ok STMT...)        see Driver/C14Raise.lean
-/
namespace TruthModel.Driver.C14
open TruthModel TruthModel.Diff

def toLines (s : Sexp) : List (Int × List Char) :=
  s.items.map fun l => ((l.items[0]!).asInt, (l.items[1]!).asAtom.toList)

def errOf {α} : Outcome α → Sexp
  | .err c => Sexp.app "err" [.str c]
  | .panic s => Sexp.app "panic" [.str "model", .str s]
  | .ok _ => .atom "ok"

def maskSexp (m : Mask) : Sexp := Sexp.nat m.toNat

def entry (d : Defs) (m : Nat) : Sexp :=
  match label d (BitVec.ofNat 8 m) with
  | .ok s =>
    let str := String.ofList s
    match parse d s with
    | .ok m' => Sexp.list [.str str, maskSexp m']
    | e => Sexp.list [.str str, errOf e]
  | e => errOf e

def table (lines : Sexp) : Sexp :=
  match applyLines defaultDefs (toLines lines) with
  | .ok d => Sexp.app "ok" ((List.range 256).map (entry d))
  | e => errOf e

def parseCase (lines : Sexp) (str : Sexp) : Sexp :=
  match applyLines defaultDefs (toLines lines) with
  | .ok d => match parse d str.asAtom.toList with
    | .ok m => Sexp.app "ok" [maskSexp m]
    | e => errOf e
  | e => errOf e

partial def toArg (s : Sexp) : Arg :=
  match s.head? with
  | some "sw" => .sw (s.args.map fun c => match c with | .atom "_" => none | c => some (toArg c))
  | _ => .val (Int32.ofInt (s.args[0]!).asInt)

/-- mask of the statement: `none` = no label = 0xFF -/
def stmtMask (d : Defs) (lab : Sexp) : Outcome Mask :=
  match lab with
  | .atom "none" => .ok 0xFF#8
  | l => parse d l.asAtom.toList

def switchCase (lines lab : Sexp) (args : List Sexp) : Sexp :=
  match applyLines defaultDefs (toLines lines) with
  | .ok d => match stmtMask d lab with
    | .ok m => match expand d m (args.map toArg) with
      | .ok cs => Sexp.app "ok" (cs.map fun c => Sexp.list [maskSexp c.mask, Sexp.list (c.args.map fun v => Sexp.int v.toInt)])
      | e => errOf e
    | e => errOf e
  | e => errOf e

def assignCase (lines lab : Sexp) (cases : List Sexp) : Sexp :=
  match applyLines defaultDefs (toLines lines) with
  | .ok d => match stmtMask d lab with
    | .ok m =>
      let vals : List (Option Int32) := cases.map fun c => match c with
        | .atom "_" => none
        | c => some (Int32.ofInt (c.args[0]!).asInt)
      let complex := cases.any fun c => c.head? == some "add"
      if complex then
        match assignCopies d m vals with
        | .ok cs => Sexp.app "ok" (cs.map fun (cm, v) => Sexp.list [maskSexp cm, Sexp.int v.toInt])
        | e => errOf e
      else
        match expand d m [.sw (vals.map (Option.map Arg.val))] with
        | .ok cs => Sexp.app "ok" (cs.map fun c => Sexp.list [maskSexp c.mask, Sexp.int ((c.args.headD 0).toInt)])
        | e => errOf e
    | e => errOf e
  | e => errOf e

def unitCase (cases : List Sexp) : Sexp :=
  let vals : List (Option Int32) := cases.map fun c => match c with
    | .atom "_" => none
    | c => some (Int32.ofInt c.asInt)
  let n := vals.length
  let sel := (List.range n).map fun d => match selectCase vals d with
    | .ok v => Sexp.int v.toInt
    | e => errOf e
  let ec := match explicitCases vals with
    | .ok l => l.map fun (m, v) => Sexp.list [maskSexp m, Sexp.int v.toInt]
    | e => [errOf e]
  let mt := ({ num := 0, explicit := 0#8 } : Meta).update vals
  let bm := mt.caseRanges.map fun (a, b) => maskSexp (rangeMask a b)
  Sexp.app "ok" [Sexp.app "select" sel, Sexp.app "cases" ec, Sexp.app "bitmasks" bm]

def handle (case : Sexp) : Sexp :=
  let a := case.args
  match case.head? with
  | some "table" => table a[0]!
  | some "parse" => parseCase a[0]! a[1]!
  | some "switch" => switchCase a[0]! a[1]! (a.drop 2)
  | some "assign" => assignCase a[0]! a[1]! (a.drop 2)
  | some "unit" => unitCase a
  | some "raise" => C14Raise.raiseCase a[1]! a[2]! (a.drop 3)
  | _ => .atom "bad-case"

end TruthModel.Driver.C14
