import TruthModel.Model.Ids
import TruthModel.Driver.Sexp
/-
Driver glue for C20: layout case (S-expression) -> `Model/Ids.lean` -> canonical result.
Case grammar: see harness/src/props/c20.rs (module comment).
-/
namespace TruthModel.Driver.C20
open TruthModel TruthModel.Ids

partial def toExpr (s : Sexp) : IdExpr :=
  let a := s.args
  match s.head? with
  | some "i" => .lit (Int32.ofInt (a[0]!).asInt)
  | some "nm" => .name (a[0]!).asAtom
  | some "add" => .add (toExpr a[0]!) (toExpr a[1]!)
  | some "sub" => .sub (toExpr a[0]!) (toExpr a[1]!)
  | some "mul" => .mul (toExpr a[0]!) (toExpr a[1]!)
  | some "neg" => .neg (toExpr a[0]!)
  | _ => .lit 0

def optExpr (s : Sexp) : Option IdExpr :=
  if s.asAtom == "none" && s.head?.isNone then none else some (toExpr s)

def optInt (s : Sexp) : Option Int32 :=
  if s.asAtom == "none" then none else some (Int32.ofInt s.asInt)

def optNat (s : Sexp) : Option Nat :=
  if s.asAtom == "none" then none else some s.asNat

def refsOf (xs : List Sexp) : List Sexp := xs.filter (fun x => x.head? == some "ref")

def toAnmRef (s : Sexp) : Ref :=
  let a := s.args
  { kind := if (a[0]!).asAtom == "script" then .script else .sprite,
    qual := (a[1]!).asAtom == "1",
    name := (a[2]!).asAtom }

def toAnmItem (s : Sexp) : AnmItem :=
  let a := s.args
  match s.head? with
  | some "entry" => .entry (a.map fun sp => { name := (sp.args[0]!).asAtom, id := optExpr (sp.args[1]!) })
  | some "script" => .script (a[0]!).asAtom (optInt a[1]!) ((refsOf a).map toAnmRef)
  | _ => .const (a[0]!).asAtom (toExpr a[1]!)

def ofOutcome {α} (f : α → List Sexp) : Outcome α → Sexp
  | .ok a => Sexp.app "ok" (f a)
  | .err c => Sexp.app "err" [.str c]
  | .panic s => Sexp.app "panic" [.str "model", .str s]

def anm (items : List Sexp) : Sexp :=
  ofOutcome (fun (o : AnmOut) => [
    Sexp.app "sprites" (o.sprites.map fun e => .list (e.map fun i => Sexp.nat i.toNat)),
    Sexp.app "scripts" (o.scripts.map fun e => .list (e.map fun p => .list [.atom p.1, Sexp.int p.2.toInt])),
    Sexp.app "refs" (o.refs.map fun r => .list (r.map fun v => Sexp.int v.toInt))])
    (compileAnm (items.map toAnmItem))

def toEclItem (s : Sexp) : EclItem :=
  let a := s.args
  match s.head? with
  | some "tl" => .timeline (a[0]!).asAtom (optInt a[1]!) ((refsOf a).map fun r => (r.args[0]!).asAtom)
  | _ => .sub (a[0]!).asAtom ((refsOf a).map fun r => (r.args[0]!).asAtom)

/-- the harness' own table of the timeline capacity of each game -/
def maxTimelines : String → Option Nat
  | "th06" => some 1
  | "th09" => none
  | _ => some 15

def ecl (game : String) (items : List Sexp) : Sexp :=
  ofOutcome (fun (o : EclOut) => [
    Sexp.app "subs" (o.subs.map .atom),
    Sexp.app "tls" (o.timelines.map Sexp.nat),
    Sexp.app "refs" (o.refs.map fun r => .list (r.map Sexp.nat))])
    (compileEcl (maxTimelines game) (items.map toEclItem))

def toMsgEntry (script flags : Sexp) : MsgEntry :=
  { script := if script.asAtom == "0" then none else some script.asAtom, flags := flags.asNat }

def msgHasFlags : String → Bool
  | "th06" | "th07" | "th08" => false
  | _ => true

def msg (game : String) (a : List Sexp) : Sexp :=
  let table := (a[0]!).args.map fun e => ((e.items[0]!).asNat, toMsgEntry (e.items[1]!) (e.items[2]!))
  let dflt := if (a[1]!).head? == some "default" then some (toMsgEntry ((a[1]!).args[0]!) ((a[1]!).args[1]!)) else none
  let scripts := (a[3]!).args.map fun s => ((s.items[0]!).asAtom, 4 :: (s.items.drop 2).map Sexp.asNat)
  let f : MsgFile := { table := table, default := dflt, tableLen := optNat a[2]!, scripts := scripts, hasFlags := msgHasFlags game }
  ofOutcome (fun (o : MsgOut) => [
    Sexp.app "table" (o.table.map fun p => .list [Sexp.nat p.1, Sexp.nat p.2]),
    Sexp.app "scripts" (o.scripts.map fun p => .list [.atom p.1, Sexp.nat p.2])])
    (compileMsg f)

/-- the harness renders every object at an odd position with one quad, the others with none -/
def std (a : List Sexp) : Sexp :=
  let objects := (a[0]!).args.map Sexp.asAtom
  ofOutcome (fun (o : List Nat) => o.map Sexp.nat)
    (compileStd objects ((a[1]!).args.map Sexp.asAtom) (objects.length / 2))

def handle (case : Sexp) : Sexp :=
  let a := case.args
  match case.head? with
  | some "anm" => anm (a.drop 1)
  | some "ecl" => ecl (a[0]!).asAtom (a.drop 1)
  | some "msg" => msg (a[0]!).asAtom (a.drop 1)
  | some "std" => std (a.drop 1)
  | _ => .atom "bad-case"

end TruthModel.Driver.C20
