import TruthModel.Model.Diag
import TruthModel.Model.Pipeline
import TruthModel.Driver.Sexp
import TruthModel.Driver.Native
import TruthModel.Driver.C03
import TruthModel.Driver.C09
/-
Driver glue for C04.  Case grammar (shared with harness/src/props/c04.rs):

  (trace OP*)                         OP ::= (emit W (SEV*)) | (emitign W (SEV*)) | (ignore) | (drop)
                                            | (flagnew) | (flagset) | (flagres) | (errof) | (ok)
                                            | (orelse) | (collect N) | (collectemit (ELEM*)) | (try)
                                      W ::= root | chain1 | chain2 | chain3 | dummy | null
                                      SEV ::= bug | error | warning | note      ELEM ::= ok | (W (SEV*))
      -> (exit N (log (SEV DEPTH)*)) | (stuck)
  (spans FLAVOUR HEX ((F LO HI)*) (SOP*))   F ::= -1 (no file) | 0 (the file) | 1 (a file id not in the database)
                                      SOP ::= (merge I J) | (join I J) | (start I) | (end I)
      -> (spans (ops ok|panic ...) ((F LO HI valid renders)*))
         renders = a diagnostic given this span through `Diagnostic::primary` renders (file-less: as a note)
         a failing operation contributes its left operand, so that indices stay aligned
  (pipe CTX (STMT*))                  grammar of Driver/C09.lean
      -> (stop typecheck|constvars|simplify "class") | (through) | (panic "model" "site")
-/
namespace TruthModel.Driver.C04
open TruthModel TruthModel.Diag

def sevOf : String → Severity
  | "bug" => .bug | "error" => .error | "warning" => .warning | "note" => .note | _ => .help

def sevName : Severity → String
  | .bug => "bug" | .error => "error" | .warning => "warning" | .note => "note" | .help => "help"

def writerOf : String → Writer
  | "root" => .root | "chain1" => .chain 1 | "chain2" => .chain 2 | "chain3" => .chain 3
  | "dummy" => .dummy | _ => .null

def sevs (s : Sexp) : List Severity := s.items.map fun x => sevOf x.asAtom

def elemOf (s : Sexp) : Elem :=
  match s with
  | .list [w, ds] => some (writerOf w.asAtom, sevs ds)
  | _ => none

def opOf (s : Sexp) : Op :=
  let a := s.args
  match s.head? with
  | some "emit" => .emit (writerOf (a[0]!).asAtom) (sevs a[1]!)
  | some "emitign" => .emitIgnore (writerOf (a[0]!).asAtom) (sevs a[1]!)
  | some "ignore" => .ignore
  | some "drop" => .drop
  | some "flagnew" => .flagNew
  | some "flagset" => .flagSet
  | some "flagres" => .flagRes
  | some "errof" => .errOf
  | some "ok" => .okUnit
  | some "orelse" => .orElse
  | some "collect" => .collect (a[0]!).asNat
  | some "collectemit" => .collectEmit ((a[0]!).items.map elemOf)
  | _ => .try_

def spanOf (s : Sexp) : Span :=
  let a := s.items
  let f := (a[0]!).asInt
  { file := if f < 0 then none else some f.toNat, lo := (a[1]!).asNat, hi := (a[2]!).asNat }

def fileNum : Option Nat → Int
  | none => -1
  | some f => f

/-- one span operation on the list built so far: (result tag, span appended) -/
def spanOp (spans : Array Span) (s : Sexp) : String × Span :=
  let a := s.args
  let get (i : Nat) : Span := spans[(a[i]!).asNat]!
  let r : Outcome Span := match s.head? with
    | some "merge" => Span.merge (get 0) (get 1)
    | some "join" => Span.join (get 0) (get 1)
    | some "start" => .ok (get 0).startSpan
    | _ => .ok (get 0).endSpan
  match r with
  | .ok sp => ("ok", sp)
  | _ => ("panic", get 0)

def handle (case : Sexp) : Sexp :=
  let a := case.args
  match case.head? with
  | some "trace" =>
    match exec State.init (a.map opOf) with
    | some (r, s) =>
      Sexp.app "exit" [Sexp.nat (exitCode r),
        Sexp.app "log" (s.log.map fun e => .list [.atom (sevName e.sev), Sexp.nat e.depth])]
    | none => Sexp.app "stuck" []
  | some "spans" =>
    let fs : Files := [Driver.C03.ofHex (a[1]!).asAtom]
    let init : Array Span := ((a[2]!).items.map spanOf).toArray
    let (tags, all) := (a[3]!).items.foldl (fun (acc : List String × Array Span) op =>
      let (t, sp) := spanOp acc.2 op
      (acc.1 ++ [t], acc.2.push sp)) ([], init)
    Sexp.app "spans" [Sexp.app "ops" (tags.map .atom),
      .list (all.toList.map fun sp => .list [Sexp.int (fileNum sp.file), Sexp.nat sp.lo, Sexp.nat sp.hi,
        .atom (if sp.valid fs then "t" else "f"),
        .atom (match renderDiag fs [sp] with | .ok _ => "ok" | _ => "panic")])]
  | some "pipe" =>
    match Pipeline.run nativeFloat (Driver.C09.toCtx a[0]!) (Driver.C09.toStmts (a[1]!).items) with
    | .ok (.typecheck c) => Sexp.app "stop" [.atom "typecheck", .str c]
    | .ok (.constvars c) => Sexp.app "stop" [.atom "constvars", .str c]
    | .ok (.simplify c) => Sexp.app "stop" [.atom "simplify", .str c]
    | .ok .through => Sexp.app "through" []
    | .err c => Sexp.app "err" [.str c]
    | .panic p => Sexp.app "panic" [.str "model", .str p]
  | _ => .atom "bad-case"

end TruthModel.Driver.C04
