import TruthModel.Model.Basic
/- Native instantiation of `FloatOps` (hardware IEEE single through Lean's `Float32`). -/
namespace TruthModel

def f32 (b : UInt32) : Float32 := Float32.ofBits b
/-- `Float32.toBits` collapses every NaN to 0x7fc00000, which is the canonical form of the protocol -/
def bits (x : Float32) : UInt32 := x.toBits

def nativeFloat : FloatOps where
  add a b := bits (f32 a + f32 b)
  sub a b := bits (f32 a - f32 b)
  mul a b := bits (f32 a * f32 b)
  div a b := bits (f32 a / f32 b)
  rem _ _ := 0  -- fmod is not available natively; `%` on floats is excluded from the correspondence
  neg a := bits (- f32 a)
  lt a b := f32 a < f32 b
  le a b := f32 a ≤ f32 b
  eq a b := f32 a == f32 b
  ofInt i := bits i.toFloat32
  toInt a := (f32 a).toInt32
  math k a := match k with
    | 0 => bits (f32 a).sin | 1 => bits (f32 a).cos | 2 => bits (f32 a).tan
    | 3 => bits (f32 a).asin | 4 => bits (f32 a).acos | 5 => bits (f32 a).atan
    | _ => bits (f32 a).sqrt

end TruthModel
