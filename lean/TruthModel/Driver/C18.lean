import TruthModel.Model.Offsets
import TruthModel.Model.MsgTable
import TruthModel.Driver.C12
/- Driver glue for C18: S-expression case -> `TruthModel.Offsets.lowerTail` -> canonical result (the
format of `harness/src/props/c18.rs`).  Trusted glue, no theorem depends on it. -/
namespace TruthModel.Driver.C18
open TruthModel TruthModel.Abi TruthModel.Offsets

def toLArg (s : Sexp) : LArg :=
  match s.head? with
  | some "off" => .label (s.args[0]!).asAtom
  | some "tof" => .timeOf (s.args[0]!).asAtom
  | _ => .raw (Driver.C12.toArg s)

def fmtOf : String → InstrIO.Fmt
  | "msg" => .msg | "anm07" => .anm07 | "std06" => .std06 | "std10" => .std10
  | "ecl06" => .ecl06 | "ecl07" => .ecl07 | "tl06" => .tl06 | _ => .tl08

/-- statements of the case with the running time (`N:` sets it) -/
def toStmts (ops : List (Nat × Abi)) : Int → List Sexp → List LStmt
  | _, [] => []
  | t, s :: rest =>
    let a := s.args
    match s.head? with
    | some "t" => toStmts ops (a[0]!).asInt rest
    | some "lab" => .label t (a[0]!).asAtom :: toStmts ops t rest
    | some "blob" =>
      let (op, _) := ops.getD (a[0]!).asNat (0, [])
      .instr ⟨t, op, 255, .unknown (Driver.C12.unhex (a[1]!).asAtom)⟩ :: toStmts ops t rest
    | _ =>
      let (op, abi) := ops.getD (a[0]!).asNat (0, [])
      .instr ⟨t, op, 255, .known abi ((a.drop 1).map toLArg)⟩ :: toStmts ops t rest

def handleLow (case : Sexp) : Sexp :=
  let a := case.args
  let hasRegs := (a[1]!).asInt != 0
  let ops : List (Nat × Abi) := (a[2]!).items.map fun o => ((o.items[0]!).asNat, Driver.C12.toAbi (o.items[1]!))
  let code := toStmts ops 0 (a[3]!).items
  let real : Option InstrIO.Fmt := match (a[0]!).head? with
    | some "real" => some (fmtOf ((a[0]!).args[3]!).asAtom)
    | _ => none
  let (hdr, mode) : Nat × LabelMode := match real with
    | some f => (InstrIO.headerSize f, labelModeOf f)
    | none => (4, .absolute)
  match lowerTail hdr hasRegs mode code with
  | .ok out =>
    -- real formats: the file is written afterwards; a header field that does not fit is an error of the writer (C03)
    let writes := match real with
      | some f => (InstrIO.writeInstrs f (out.instrs.map RawInstr.toIO)).isOk
      | none => true
    if !writes then Sexp.app "err" [.str "while writing"] else
    Sexp.app "ok" [
      Sexp.app "instrs" (out.info.instrs.map Sexp.nat),
      Sexp.app "labels" (out.info.labels.map fun l => .list [.atom l.name, Sexp.nat l.offset, Sexp.int l.time]),
      Sexp.app "end" [Sexp.nat out.info.endOffset],
      Sexp.app "raws" (out.instrs.map fun r => .list [Sexp.int r.time, Sexp.nat r.opcode, .atom (Driver.C12.hex r.blob)])]
  | .err c => Sexp.app "err" [.str c]
  | .panic p =>
    Sexp.app "panic" [.str "model", .str p]

def toEntry (sc fl : Sexp) : MsgTable.Entry := ⟨if sc.asAtom == "z" then none else some sc.asNat, fl.asNat⟩

/-- `(msgtab game hasFlags len|- ((key script flags)...) (default script flags) nscripts)`: the written table and the
export indices of every script -/
def handleMsgTab (case : Sexp) : Sexp :=
  let a := case.args
  let hasFlags := (a[1]!).asInt != 0
  let len : Option Nat := if (a[2]!).asAtom == "-" then none else some (a[2]!).asNat
  let table := (a[3]!).items.map fun e => ((e.items[0]!).asNat, toEntry (e.items[1]!) (e.items[2]!))
  let d := (a[4]!).args
  let s : MsgTable.Sparse := ⟨len, table, toEntry (d[0]!) (d[1]!)⟩
  let n := (a[5]!).asNat
  let dense := s.densify
  let scr (e : MsgTable.Entry) : Sexp := match e.script with | none => .atom "z" | some k => Sexp.nat k
  Sexp.app "ok" [
    Sexp.app "table" (dense.map fun e => .list [scr e, Sexp.nat (if hasFlags then e.flags else 0)]),
    Sexp.app "export" ((MsgTable.exports dense (List.range n)).map fun (k, is) => .list (Sexp.nat k :: is.map Sexp.nat))]

def handle (case : Sexp) : Sexp :=
  match case.head? with
  | some "low" => handleLow case
  | some "msgtab" => handleMsgTab case
  | _ => .atom "bad-case"

end TruthModel.Driver.C18
