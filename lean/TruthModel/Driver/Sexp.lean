/-
S-expression codec of the line protocol (same conventions as /verif/harness/src/sexp.rs).
Trusted glue (part of the correspondence check, not of any theorem).
-/
namespace TruthModel

inductive Sexp where
  | atom (s : String)
  | str (s : String)
  | list (xs : List Sexp)
deriving Inhabited, Repr, BEq

namespace Sexp

def hexDigit (n : Nat) : Char :=
  if n < 10 then Char.ofNat (48 + n) else Char.ofNat (87 + n)

def escapeStr (s : String) : String := Id.run do
  let mut out := ""
  for b in s.toUTF8.data.toList do
    if b == 92 then out := out ++ "\\\\"
    else if b == 34 then out := out ++ "\\\""
    else if b == 10 then out := out ++ "\\n"
    else if b >= 0x20 && b <= 0x7e then out := out.push (Char.ofNat b.toNat)
    else out := (out ++ "\\x").push (hexDigit (b.toNat / 16)) |>.push (hexDigit (b.toNat % 16))
  return out

partial def toString : Sexp → String
  | .atom s => s
  | .str s => "\"" ++ escapeStr s ++ "\""
  | .list xs => "(" ++ " ".intercalate (xs.map toString) ++ ")"

instance : ToString Sexp := ⟨Sexp.toString⟩

def app (head : String) (args : List Sexp) : Sexp := .list (.atom head :: args)
def int (i : Int) : Sexp := .atom (ToString.toString i)
def nat (i : Nat) : Sexp := .atom (ToString.toString i)

def head? : Sexp → Option String
  | .list (.atom s :: _) => some s
  | _ => none

def args : Sexp → List Sexp
  | .list (_ :: xs) => xs
  | _ => []

def items : Sexp → List Sexp
  | .list xs => xs
  | _ => []

def asAtom : Sexp → String
  | .atom s => s
  | .str s => s
  | _ => ""

def asInt (s : Sexp) : Int := (asAtom s).toInt?.getD 0
def asNat (s : Sexp) : Nat := (asInt s).toNat

def hexVal (c : UInt8) : UInt8 :=
  if c >= 48 && c <= 57 then c - 48
  else if c >= 97 && c <= 102 then c - 87
  else if c >= 65 && c <= 70 then c - 55
  else 0

def isWs (c : UInt8) : Bool := c == 32 || c == 9 || c == 10 || c == 13

/-- parser over the UTF-8 bytes; returns the remaining position -/
partial def parseAt (b : ByteArray) (pos : Nat) : Except String (Sexp × Nat) := do
  let mut p := pos
  while p < b.size && isWs b[p]! do p := p + 1
  if p >= b.size then throw "unexpected end"
  let c := b[p]!
  if c == 40 then  -- (
    p := p + 1
    let mut xs : Array Sexp := #[]
    repeat
      while p < b.size && isWs b[p]! do p := p + 1
      if p >= b.size then throw "unclosed ("
      if b[p]! == 41 then
        p := p + 1
        break
      let (x, p') ← parseAt b p
      xs := xs.push x
      p := p'
    return (.list xs.toList, p)
  else if c == 41 then throw "unexpected )"
  else if c == 34 then
    p := p + 1
    let mut out := ByteArray.empty
    repeat
      if p >= b.size then throw "unclosed string"
      let c := b[p]!
      p := p + 1
      if c == 34 then break
      if c == 92 then
        let e := b[p]!
        p := p + 1
        if e == 110 then out := out.push 10
        else if e == 120 then
          out := out.push (hexVal b[p]! * 16 + hexVal b[p+1]!)
          p := p + 2
        else out := out.push e
      else out := out.push c
    return (.str (String.fromUTF8! out), p)
  else
    let start := p
    while p < b.size && !isWs b[p]! && b[p]! != 40 && b[p]! != 41 && b[p]! != 34 do p := p + 1
    return (.atom (String.fromUTF8! (b.extract start p)), p)

def parse (s : String) : Except String Sexp := do
  let (x, _) ← parseAt s.toUTF8 0
  return x

end Sexp
end TruthModel
