import TruthModel.Driver.Lw
namespace TruthModel.Driver.C02
open TruthModel

/-- `(low CFG (body ...))` -> `(ok (ins ...)...)` | `(err class)` -/
def handle (case : Sexp) : Sexp :=
  match case.head? with
  | some "low" => Driver.Lw.compileCase case false
  | _ => .atom "bad-case"

end TruthModel.Driver.C02
