import TruthModel.Driver.Lw
import TruthModel.Driver.C02Body
namespace TruthModel.Driver.C02
open TruthModel

/-- `(low CFG (body ...))` / `(lowj CFG (body ...))` (bodies with labels and jumps; jump targets are printed as\nthe position of the target in the instruction list) -> `(ok (ins ...)...)` | `(err class)` -/
def handle (case : Sexp) : Sexp :=
  match case.head? with
  | some "low" => Driver.Lw.compileCase case false
  | some "lowj" => Driver.Lw.compileCaseJ case
  | some "srcvm" => Driver.C02Body.srcvm case
  | some "tgtvm" => Driver.C02Body.tgtvm case
  | _ => .atom "bad-case"

end TruthModel.Driver.C02
