import TruthModel.Model.Lower
import TruthModel.Model.LowerJumps
import TruthModel.Driver.Sexp
import TruthModel.Driver.Native
/-
Glue shared by the C02 and C05 drivers: the body language of /verif/harness/src/props/lw.rs ->
`Lower.SStmt`, the intrinsic tables and register file of the generated test language, and the
canonical printing of emitted instructions.  Trusted (part of the correspondence check only).
-/
namespace TruthModel.Driver.Lw
open TruthModel TruthModel.Regs TruthModel.Lower

def intRegs : List Int := [1000, 1001, 1002, 1003, 1004, 1005, 1006, 1007]
def floatRegs : List Int := [1010, 1011, 1012, 1013, 1014, 1015]
def regIsFloat (r : Int) : Bool := floatRegs.contains r || r == 1021

def tNoAssignOps : Nat := 1
def tNoUnops : Nat := 2
def tNoMulSub : Nat := 4
def tNoMath : Nat := 128

def has (table bit : Nat) : Bool := table &&& bit != 0

def assignIndex : AssignOp → Nat
  | .set => 0 | .add => 1 | .sub => 2 | .mul => 3 | .div => 4 | .rem => 5 | .bor => 6 | .xor => 7
  | .band => 8 | .shl => 9 | .shr => 10 | .ushr => 11

def assignOfName : String → AssignOp
  | "set" => .set | "add" => .add | "sub" => .sub | "mul" => .mul | "div" => .div | "rem" => .rem
  | "bor" => .bor | "xor" => .xor | "band" => .band | "shl" => .shl | "shr" => .shr | _ => .ushr

/-- order of `BIN_OPS` in lw.rs -/
def binIndex : BinOp → Nat
  | .add => 0 | .sub => 1 | .mul => 2 | .div => 3 | .rem => 4 | .eq => 5 | .ne => 6 | .lt => 7 | .le => 8
  | .gt => 9 | .ge => 10 | .bor => 11 | .xor => 12 | .band => 13 | .lor => 14 | .land => 15
  | .shl => 16 | .shr => 17 | .ushr => 18

def binOfName : String → BinOp
  | "add" => .add | "sub" => .sub | "mul" => .mul | "div" => .div | "rem" => .rem
  | "eq" => .eq | "ne" => .ne | "lt" => .lt | "le" => .le | "gt" => .gt | "ge" => .ge
  | "lor" => .lor | "land" => .land | "xor" => .xor | "band" => .band | "bor" => .bor
  | "shl" => .shl | "shr" => .shr | _ => .ushr

def unOfName : String → UnOp
  | "neg" => .neg | "not" => .not | "bnot" => .bnot | "sin" => .sin | "cos" => .cos | "sqrt" => .sqrt
  | "castI" => .castI | "castF" => .castF | "sigI" => .sigI | _ => .sigF

def floatBinopOk : BinOp → Bool
  | .add | .sub | .mul | .div | .rem | .eq | .ne | .lt | .le | .gt | .ge => true
  | _ => false

def tyOff : RTy → Nat
  | .int => 0 | .float => 1

/-- mirror of `lw::mapfile` -/
def intrinsics (table : Nat) : Intrinsics where
  assignOp op ty :=
    let k := assignIndex op
    if (k == 0 || !has table tNoAssignOps) && (ty == .int || k < 6) then some (10 + 2 * k + tyOff ty) else none
  binOp op ty :=
    let k := binIndex op
    let removed := has table tNoMulSub && (op == .mul || (op == .sub && ty == .int))
    if !removed && (ty == .int || floatBinopOk op) then some (40 + 2 * k + tyOff ty) else none
  unOp op ty :=
    let entry : Option (Nat × Bool × Bool × Bool) := match op with
      | .neg => some (0, true, true, false) | .not => some (1, true, false, false) | .bnot => some (2, true, false, false)
      | .sin => some (3, false, true, true) | .cos => some (4, false, true, true) | .sqrt => some (5, false, true, true)
      | _ => none
    match entry with
    | some (k, okInt, okFloat, math) =>
      let present := if math then !has table tNoMath else !has table tNoUnops
      let tyOk := match ty with | .int => okInt | .float => okFloat
      if present && tyOk then some (110 + 2 * k + tyOff ty) else none
    | none => none

def hooks (ints floats : Nat) : Hooks where
  general
    | .int => intRegs.take ints
    | .float => floatRegs.take floats
  antiScratch op := if op == 105 then some .thisFunction else none

/-! ### parsing -/

def sigOf : String → Option RTy
  | "i" => some .int | "f" => some .float | _ => none

def tyOfAtom (s : String) : RTy := if s == "f" then .float else .int

/-- locals are called `v<N>` -/
def localId (s : String) : Nat := ((s.drop 1).toNat?).getD 0

abbrev Env := List (Nat × RTy)

def envTy (env : Env) (d : Nat) : RTy :=
  match env.find? (·.1 == d) with
  | some (_, ty) => ty
  | none => .int

def parseVar (env : Env) (s : Sexp) : VarRef :=
  let a := s.args
  match s.head? with
  | some "reg" =>
    let r := (a[0]!).asInt
    ⟨.reg r, sigOf (a[1]!).asAtom, if regIsFloat r then .float else .int⟩
  | _ =>
    let d := localId (a[0]!).asAtom
    ⟨.loc d, sigOf (a[1]!).asAtom, envTy env d⟩

partial def parseExpr (env : Env) (s : Sexp) : SExpr :=
  let a := s.args
  match s.head? with
  | some "i" => .litI (Int32.ofInt (a[0]!).asInt)
  | some "f" =>
    let b := (a[0]!).asNat
    -- the source text of a negative literal is `(-x)`: a unary minus applied to the magnitude
    if b ≥ 0x80000000 then .unop .neg (.litF (UInt32.ofNat (b - 0x80000000))) else .litF (UInt32.ofNat b)
  | some "reg" => .var (parseVar env s)
  | some "loc" => .var (parseVar env s)
  | some "un" => .unop (unOfName (a[0]!).asAtom) (parseExpr env a[1]!)
  | some "bin" => .binop (binOfName (a[0]!).asAtom) (parseExpr env a[1]!) (parseExpr env a[2]!)
  | some "tern" => .ternary (parseExpr env a[0]!) (parseExpr env a[1]!) (parseExpr env a[2]!)
  | some "sw" => .switch (a.map fun c => match c with
      | .atom _ => .omitted
      | c => parseExpr env c)
  | _ => .omitted

/-- statements of one block, flattened like `desugar_blocks` does, with a `ScopeEnd` for every local
declared directly in the block appended at its end -/
partial def parseBlock (env : Env) (ss : List Sexp) : List SStmt × Env :=
  let rec go (env : Env) (ss : List Sexp) (acc : List SStmt) (declared : List Nat) : List SStmt × Env × List Nat :=
    match ss with
    | [] => (acc, env, declared)
    | s :: rest =>
      let a := s.args
      match s.head? with
      | some "decl" =>
        let ty := tyOfAtom (a[0]!).asAtom
        let d := localId (a[1]!).asAtom
        -- the initialiser is resolved before the name comes into scope only syntactically; names are unique
        let init := (a[2]?).map (parseExpr env)
        go ((d, ty) :: env) rest (acc ++ [.decl d ty init]) (declared ++ [d])
      | some "asg" =>
        go env rest (acc ++ [.assign (assignOfName (a[0]!).asAtom) (parseVar env a[1]!) (parseExpr env a[2]!)]) declared
      | some "call" =>
        go env rest (acc ++ [.call (a[0]!).asNat ((a.drop 1).map (parseExpr env))]) declared
      | some "anti" => go env rest (acc ++ [.call 105 []]) declared
      | some "block" =>
        let (inner, env') := parseBlock env a
        go env' rest (acc ++ inner) declared
      | _ => go env rest (acc ++ [.other]) declared
  let (stmts, env', declared) := go env ss [] []
  (stmts ++ declared.map .scopeEnd, env')

structure Cfg where
  ints : Nat
  floats : Nat
  table : Nat

def parseCfg (s : Sexp) : Cfg :=
  let a := s.args
  ⟨(a[0]!).asNat, (a[1]!).asNat, (a[2]!).asNat⟩

/-! ### printing -/

def canonF (b : UInt32) : UInt32 := (Float32.ofBits b).toBits

def tyName : RTy → String
  | .int => "i" | .float => "f"

def ofArg : Arg → Sexp
  | .raw r ty => Sexp.app "r" [Sexp.int r, .atom (tyName ty)]
  | .imm (.int v) => Sexp.app "i" [Sexp.int v.toInt]
  | .imm (.float b) => Sexp.app "f" [Sexp.nat (canonF b).toNat]
  | .imm (.str s) => Sexp.app "s" [.str s]
  | .loc d _ => Sexp.app "unassigned-local" [Sexp.nat d]
  | .switch _ => .atom "unelaborated-switch"
  | .absent => .atom "absent"
  | .label l => Sexp.app "label" [Sexp.nat l]
  | .timeOf l => Sexp.app "timeof" [Sexp.nat l]

def ofStmt : Regs.Stmt → Option Sexp
  | .instr t m op (some args) => some (Sexp.app "ins" ([Sexp.int t, Sexp.nat op, Sexp.nat m] ++ args.map ofArg))
  | .instr t m op none => some (Sexp.app "ins" [Sexp.int t, Sexp.nat op, Sexp.nat m, .atom "blob"])
  | _ => none

def firstTemp : Nat := 100000

/-- the whole compile of one case; `withLocals` adds the debug-info `locals` (C05) -/
def compileCase (case : Sexp) (withLocals : Bool) : Sexp :=
  let cfg := parseCfg (case.args[0]!)
  let body := (case.args[1]!).args
  let (stmts, _) := parseBlock [] body
  match compile (intrinsics cfg.table) 255 0 currentMode (hooks cfg.ints cfg.floats) firstTemp stmts with
  | .ok (res, instrs) =>
    let locals := Sexp.app "locals" (res.locals.map fun l => .list [.atom (tyName l.ty), Sexp.int l.reg])
    Sexp.app "ok" ((if withLocals then [locals] else []) ++ instrs.filterMap ofStmt)
  | .err c => Sexp.app "err" [.str c]
  | .panic p => Sexp.app "panic" [.str "model", .str p]

/-! ### bodies with labels and jumps (`Model/LowerJumps.lean`) -/

def tTwoPart : Nat := 8
def tCountGt : Nat := 16
def tTimeFirst : Nat := 32
def tBothCount : Nat := 64
def tFewCond : Nat := 256
def tNoCond : Nat := 512
def tNoCount : Nat := 1024
def tNoJmp : Nat := 2048
def tLocOnly : Nat := 4096

/-- order of `CMP_OPS` in lw.rs -/
def cmpIndex : BinOp → Option Nat
  | .eq => some 0 | .ne => some 1 | .lt => some 2 | .le => some 3 | .gt => some 4 | .ge => some 5
  | _ => none

/-- mirror of `lw::mapfile`, jump intrinsics -/
def jIntrinsics (table : Nat) : JIntrinsics where
  base := intrinsics table
  jmp := if has table tNoJmp then none else some 1
  condJmp op ty :=
    match cmpIndex op with
    | none => none
    | some k =>
      let native := (!has table tTwoPart || has table tFewCond) && !has table tNoCond
      let few := op == .eq || op == .lt || op == .ge
      if native && (!has table tFewCond || few) then some (80 + 2 * k + tyOff ty) else none
  cmp ty := if has table tTwoPart then some (94 + tyOff ty) else none
  cmpJmp op :=
    match cmpIndex op with
    | none => none
    | some k => if has table tTwoPart then some (96 + k) else none
  countJmp k :=
    if has table tNoCount then none else
    match k with
    | .ne => if !has table tCountGt || has table tBothCount then some 2 else none
    | .gt => if has table tCountGt || has table tBothCount then some 3 else none

def jumpOrder (table : Nat) : JumpOrder :=
  if has table tLocOnly then .loc else if has table tTimeFirst then .timeLoc else .locTime

/-- labels are called `lab<N>` -/
def labelId (s : String) : Nat := ((s.drop 3).toNat?).getD 0

def kwOf (s : String) : Kw := if s == "unless" then .kunless else .kif

def isZeroLit (s : Sexp) : Bool :=
  match s.head? with
  | some "i" => (s.args[0]!).asInt == 0
  | _ => false

/-- `CountJmpKind::of_cond` -/
def parseCond (env : Env) (s : Sexp) : JCond :=
  let a := s.args
  match s.head? with
  | some "predec" => .predec (parseVar env a[0]!) .ne
  | some "bin" =>
    let lhs := a[1]!
    if lhs.head? == some "predec" && isZeroLit a[2]! then
      match (a[0]!).asAtom with
      | "ne" => .predec (parseVar env lhs.args[0]!) .ne
      | "gt" => .predec (parseVar env lhs.args[0]!) .gt
      | _ => .expr (parseExpr env s)
    else .expr (parseExpr env s)
  | _ => .expr (parseExpr env s)

def optTime (s : Option Sexp) : Option Int := s.map (·.asInt)

/-- `parseBlock` for bodies with labels and jumps -/
partial def parseBlockJ (env : Env) (ss : List Sexp) : List JSStmt × Env :=
  let rec go (env : Env) (ss : List Sexp) (acc : List JSStmt) (declared : List Nat) : List JSStmt × Env × List Nat :=
    match ss with
    | [] => (acc, env, declared)
    | s :: rest =>
      let a := s.args
      match s.head? with
      | some "decl" =>
        let ty := tyOfAtom (a[0]!).asAtom
        let d := localId (a[1]!).asAtom
        let init := (a[2]?).map (parseExpr env)
        go ((d, ty) :: env) rest (acc ++ [.base (.decl d ty init)]) (declared ++ [d])
      | some "asg" =>
        go env rest (acc ++ [.base (.assign (assignOfName (a[0]!).asAtom) (parseVar env a[1]!) (parseExpr env a[2]!))]) declared
      | some "call" =>
        go env rest (acc ++ [.base (.call (a[0]!).asNat ((a.drop 1).map (parseExpr env)))]) declared
      | some "anti" => go env rest (acc ++ [.base (.call 105 [])]) declared
      | some "block" =>
        let (inner, env') := parseBlockJ env a
        go env' rest (acc ++ inner) declared
      | some "label" => go env rest (acc ++ [.label (labelId (a[0]!).asAtom)]) declared
      | some "goto" => go env rest (acc ++ [.goto ⟨labelId (a[0]!).asAtom, optTime a[1]?⟩]) declared
      | some "ifgoto" =>
        go env rest (acc ++ [.condGoto (kwOf (a[0]!).asAtom) (parseCond env a[1]!) ⟨labelId (a[2]!).asAtom, optTime a[3]?⟩]) declared
      | some "wait" => go env rest (acc ++ [.wait (a[0]!).asInt]) declared
      | _ => go env rest (acc ++ [.base .other]) declared
  let (stmts, env', declared) := go env ss [] []
  (stmts ++ declared.map (fun d => .base (.scopeEnd d)), env')

def firstLabel : Nat := 1000000

/-- the whole compile of one case with labels and jumps -/
def compileCaseJ (case : Sexp) : Sexp :=
  let cfg := parseCfg (case.args[0]!)
  let body := (case.args[1]!).args
  let (stmts, _) := parseBlockJ [] body
  match compileJ (jIntrinsics cfg.table) (jumpOrder cfg.table) 255 0 currentMode (hooks cfg.ints cfg.floats) firstTemp firstLabel stmts with
  | .ok (_, instrs) => Sexp.app "ok" (instrs.filterMap ofStmt)
  | .err c => Sexp.app "err" [.str c]
  | .panic p => Sexp.app "panic" [.str "model", .str p]

end TruthModel.Driver.Lw
