import TruthModel.Model.Decomp
import TruthModel.Model.DecompSem
import TruthModel.Driver.Sexp
/-
Driver glue for C07: `(pp S...)` -> `Decomp.postprocess` -> `(ok S...)`.
Statement syntax: see /verif/harness/src/props/c07.rs.
-/
namespace TruthModel.Driver.C07
open TruthModel TruthModel.Decomp

def opOfName : String → BinOp
  | "eq" => .eq | "ne" => .ne | "lt" => .lt | "le" => .le | "gt" => .gt | "ge" => .ge
  | "add" => .add | "sub" => .sub | _ => .band

def opName : BinOp → String
  | .eq => "eq" | .ne => "ne" | .lt => "lt" | .le => "le" | .gt => "gt" | .ge => "ge"
  | .add => "add" | .sub => "sub" | .band => "band"

def toOperand (s : Sexp) : Operand :=
  let a := s.args
  match s.head? with
  | some "r" => .reg (a[0]!).asNat
  | some "i" => .lit (a[0]!).asInt
  | some "dec" => .dec (a[0]!).asNat
  | some "timeof" => .timeof (a[0]!).asNat
  | some "offsetof" => .offsetof (a[0]!).asNat
  | _ => .lit 0

def toExpr (s : Sexp) : Expr :=
  match s.head? with
  | some "bin" => let a := s.args; .bin (opOfName (a[0]!).asAtom) (toOperand a[1]!) (toOperand a[2]!)
  | _ => .val (toOperand s)

def toJump (s : Sexp) : Jump :=
  match s.head? with
  | some "break" => .brk
  | _ =>
    let a := s.args
    .goto (a[0]!).asNat (match a[1]? with | some t => some t.asInt | none => none)

def toAtom (s : Sexp) : Atom :=
  let a := s.args
  match s.head? with
  | some "lab" => .label (a[0]!).asNat
  | some "goto" => .jump (toJump s)
  | some "break" => .jump .brk
  | some "cj" => .condJump (if (a[0]!).asAtom == "if" then .if_ else .unless) (toExpr a[1]!) (toJump a[2]!)
  | some "int" => .interrupt (a[0]!).asInt
  | some "abs" => .absTime (a[0]!).asInt
  | some "rel" => .relTime (a[0]!).asInt
  | some "ins" => .ins (a[0]!).asNat ((a.drop 1).map toOperand)
  | some "set" => .set (a[0]!).asNat (toExpr a[1]!)
  | _ => .ins 0 []

def toStmt (s : Sexp) : Stmt :=
  match s.head? with
  | some "diff" => let a := s.args; .atom (some (a[0]!).asAtom) (toAtom a[1]!)
  | _ => .atom none (toAtom s)

def ofOperand : Operand → Sexp
  | .reg r => Sexp.app "r" [Sexp.nat r]
  | .lit v => Sexp.app "i" [Sexp.int v]
  | .dec r => Sexp.app "dec" [Sexp.nat r]
  | .timeof l => Sexp.app "timeof" [Sexp.nat l]
  | .offsetof l => Sexp.app "offsetof" [Sexp.nat l]

def ofExpr : Expr → Sexp
  | .bin op a b => Sexp.app "bin" [.atom (opName op), ofOperand a, ofOperand b]
  | .val a => ofOperand a

def ofJump : Jump → Sexp
  | .goto d none => Sexp.app "goto" [Sexp.nat d]
  | .goto d (some t) => Sexp.app "goto" [Sexp.nat d, Sexp.int t]
  | .brk => Sexp.app "break" []

def kwName : Kw → String
  | .if_ => "if" | .unless => "unless"

def ofAtom : Atom → Sexp
  | .label l => Sexp.app "lab" [Sexp.nat l]
  | .jump j => ofJump j
  | .condJump kw c j => Sexp.app "cj" [.atom (kwName kw), ofExpr c, ofJump j]
  | .interrupt n => Sexp.app "int" [Sexp.int n]
  | .absTime t => Sexp.app "abs" [Sexp.int t]
  | .relTime d => Sexp.app "rel" [Sexp.int d]
  | .ins op args => Sexp.app "ins" (Sexp.nat op :: args.map ofOperand)
  | .set r e => Sexp.app "set" [Sexp.nat r, ofExpr e]

mutual
def ofStmt : Stmt → Sexp
  | .atom none a => ofAtom a
  | .atom (some d) a => Sexp.app "diff" [.atom d, ofAtom a]
  | .node (.loop _) b => Sexp.app "loop" (ofBlock b)
  | .node (.doWhile _ c) b => Sexp.app "dowhile" (ofExpr c :: ofBlock b)
  | .node .chain b => Sexp.app "chain" (ofBlock b)
  | .node (.arm kw c) b => Sexp.app "arm" (.atom (kwName kw) :: ofExpr c :: ofBlock b)
  | .node .els b => Sexp.app "else" (ofBlock b)
def ofBlock : List Stmt → List Sexp
  | [] => []
  | s :: ss => ofStmt s :: ofBlock ss
end

/-! `(sem (S...) (VAL...))`: the model machine on the flat block and on the lowered reconstruction -/

def regList : List Nat := [10000, 10001, 10002, 10003]

def ofState (st : VmState) : Sexp :=
  Sexp.app "t" [
    .list (st.log.map fun (rt, op, args) => .list (Sexp.int rt :: Sexp.nat op :: args.map (fun a => Sexp.int a.toInt))),
    Sexp.int st.time, Sexp.int st.realTime,
    .list (regList.map fun r => Sexp.int (st.regs r).toInt)]

def tagLetters : List Char := ['E', 'N', 'H', 'L']

def mkEnv (difficulty : Nat) : VmEnv :=
  { tagOn := fun s => match tagLetters[difficulty]? with | some c => s.toList.contains c | none => false,
    labelProp := fun _ _ => 0 }

def mkState (val : Sexp) : VmState :=
  let vs := (val.items.drop 1).map (fun x => Int32.ofInt x.asInt)
  { regs := fun r => if r ≥ 10000 then vs.getD (r - 10000) 0 else 0, time := 0, realTime := 0, log := [] }

/-- AstVm allows `max_iterations` statements including the two bookends of the block -/
def flatFuel : Nat := 1499

def semOne (flat : List Leaf) (recon : Option (List Leaf)) (val : Sexp) : Sexp :=
  let env := mkEnv (val.items[0]!).asNat
  let st := mkState val
  match run env flat flatFuel st with
  | none => .atom "skip"
  | some a =>
    match recon with
    | none => Sexp.app "sem" [ofState a, .atom "unsupported"]
    | some r =>
      match run env r (flatFuel * 14) st with
      | none => Sexp.app "sem" [ofState a, .atom "reconstructed-does-not-terminate"]
      | some b => if toString (ofState a) == toString (ofState b) then Sexp.app "sem" [ofState a, .atom "same"]
                  else Sexp.app "sem" [ofState a, Sexp.app "reconstructed" [ofState b]]

def sem (stmts : List Sexp) (vals : List Sexp) : Sexp :=
  let ss := stmts.map toStmt
  let flat := atomsL ss
  let recon := match postprocess ss with
    | .ok out => some (lower (maxLabel ss + 1) out)
    | _ => none
  .list (vals.map (semOne flat recon))

def handle (case : Sexp) : Sexp :=
  match case.head? with
  | some "sem" => sem (case.args[0]!).items (case.args[1]!).items
  | some "pp" =>
    match postprocess (case.args.map toStmt) with
    | .ok out => Sexp.app "ok" (ofBlock out)
    | .err e => Sexp.app "err" [.str e]
    | .panic "not implemented" => Sexp.app "unsupported" []
    | .panic p => Sexp.app "panic" [.str "model", .str p]
  | _ => .atom "bad-case"

end TruthModel.Driver.C07
