import TruthModel.Driver.C12
/- Driver glue for C15: the model-compared cases of C15 are single string parameters (every size
kind x mask x furibug, with a preceding furigana line) in the case format of C12. -/
namespace TruthModel.Driver.C15
open TruthModel

def handle (case : Sexp) : Sexp := Driver.C12.handle case

end TruthModel.Driver.C15
