import TruthModel.Driver.Lw
namespace TruthModel.Driver.C05
open TruthModel

/-- `(assign CFG (body ...))` -> `(ok (locals ...) (ins ...)...)` | `(err class)` -/
def handle (case : Sexp) : Sexp :=
  match case.head? with
  | some "assign" => Driver.Lw.compileCase case true
  | _ => .atom "bad-case"

end TruthModel.Driver.C05
