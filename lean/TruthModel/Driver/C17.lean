import TruthModel.Model.Pixels
import TruthModel.Driver.Sexp
/-
Driver glue for C17: S-expression case -> model (`Model/Pixels.lean`) -> canonical result.
Same conventions as `harness/src/props/c17.rs`.  Trusted glue, not part of any theorem.
-/
namespace TruthModel.Driver.C17
open TruthModel TruthModel.Pixels

/-- The Gray8 luminance with native IEEE single arithmetic; the constants are the bit patterns of
the `f32` literals `0.2126`, `0.7152`, `0.0722`, `0.001`; `Float32.toUInt8` saturates like `as u8`. -/
def nativeLum : Lum := fun r g b =>
  let y := r.toFloat32 * Float32.ofBits 0x3e59b3d0 + g.toFloat32 * Float32.ofBits 0x3f371759
            + b.toFloat32 * Float32.ofBits 0x3d93dd98
  (y + Float32.ofBits 0x3a83126f).toUInt8

def fmtOfName : String → Option ColorFormat
  | "argb8888" => some .argb8888
  | "rgb565" => some .rgb565
  | "argb4444" => some .argb4444
  | "gray8" => some .gray8
  | _ => none

/-- `x0a1b..` -> bytes -/
def unhex (s : String) : Bytes :=
  let b := s.toUTF8
  let rec go (i : Nat) (fuel : Nat) (acc : Array UInt8) : Array UInt8 :=
    match fuel with
    | 0 => acc
    | fuel + 1 =>
      if i + 1 < b.size then go (i + 2) fuel (acc.push (Sexp.hexVal b[i]! * 16 + Sexp.hexVal b[i+1]!))
      else acc
  (go 1 b.size #[]).toList

def hexOf (bs : Bytes) : String :=
  bs.foldl (fun s b => (s.push (Sexp.hexDigit (b.toNat / 16))).push (Sexp.hexDigit (b.toNat % 16))) "x"

def hex64 (v : UInt64) : String :=
  (List.range 16).foldl (fun s i => s.push (Sexp.hexDigit ((v.toNat >>> (4 * (15 - i))) % 16))) ""

/-- short buffers verbatim, long ones as length + FNV-1a 64 -/
def digest (bs : Bytes) : Sexp :=
  if bs.length ≤ 48 then .atom (hexOf bs)
  else
    let h := bs.foldl (fun (h : UInt64) b => (h ^^^ b.toUInt64) * 0x100000001b3) 0xcbf29ce484222325
    .atom s!"h{bs.length}-{hex64 h}"

def ofOutcome {α} (f : α → List Sexp) : Outcome α → Sexp
  | .ok a => Sexp.app "ok" (f a)
  | .err c => Sexp.app "err" [.str c]
  | .panic s => Sexp.app "panic" [.str "model", .str s]

def le16 (v : Nat) : Bytes := [UInt8.ofNat (v % 256), UInt8.ofNat (v / 256 % 256)]

def sweep (fmt : ColorFormat) (start count : Nat) : Sexp :=
  let input : Bytes :=
    if fmt.bytesPerPixel = 2 then (List.range count).flatMap fun i => le16 (start + i)
    else (List.range count).map fun i => UInt8.ofNat (start + i)
  match transcodeTo8888 fmt input with
  | .ok argb =>
    match transcodeFrom8888 nativeLum fmt argb with
    | .ok back => Sexp.app "ok" [.atom (hexOf argb), .atom (hexOf back)]
    | o => ofOutcome (fun _ => []) o
  | o => ofOutcome (fun _ => []) o

/-- BGRA <-> RGBA -/
def swizzle : Bytes → Bytes
  | b0 :: b1 :: b2 :: b3 :: rest => b2 :: b1 :: b0 :: b3 :: swizzle rest
  | _ => []

def padCase (fmt : ColorFormat) (w h ox oy : Nat) (data : Bytes) : Sexp :=
  match transcodeTo8888 fmt data with
  | .ok argb =>
    let px := chunks 4 argb
    let out := pad [0xFF, 0xFF, 0xFF, 0xFF] ox oy w h px
    Sexp.app "ok" [Sexp.nat (w + ox), Sexp.nat (h + oy), digest (swizzle out.flatten)]
  | o => ofOutcome (fun _ => []) o

def softOfAtom (s : Sexp) : SoftOption Nat :=
  if s.asAtom = "-" then .missing else .explicit s.asNat

def cropCase (fmt : ColorFormat) (iw ih : SoftOption Nat) (ox oy sw sh : Nat) (rgba : Bytes) : Sexp :=
  let specs : ImgSpecs := { imgWidth := iw, imgHeight := ih, offsetX := .explicit ox, offsetY := .explicit oy }
  let r : Outcome (Nat × Nat × Bytes) := do
    let (specs', px) ← loadImage specs sw sh (chunks 4 (swizzle rgba))
    let bytes ← imageTextureForEntry nativeLum (.explicit fmt.num) px.flatten
    pure (specs'.imgWidth.toOption.getD 0, specs'.imgHeight.toOption.getD 0, bytes)
  ofOutcome (fun (w, h, bytes) => [Sexp.nat w, Sexp.nat h, digest bytes]) r

def hasDataOfAtom (s : Sexp) : SoftOption HasData :=
  match s.asAtom with
  | "0" => .explicit .no
  | "1" => .explicit .yes
  | _ => .missing

def texOfAtom (s : Sexp) : Option Nat := if s.asAtom = "-" then none else some s.asNat

def sourceOf (s : Sexp) : Source Nat :=
  match s.head? with
  | some "anm" => .anm (s.args.map fun e => ((e.items[0]!).asAtom, ⟨texOfAtom (e.items[1]!)⟩))
  | _ => .dir (s.args.map fun e => ((e.items[0]!).asAtom, (e.items[1]!).asNat))

def sourcesCase (dests : Sexp) (srcs : List Sexp) : Sexp :=
  let ds : List (Dest Nat) := dests.args.map fun e =>
    { path := (e.items[0]!).asAtom, hasData := hasDataOfAtom (e.items[1]!) }
  let out := applySources (srcs.map sourceOf) ds
  let rec go (ds : List (Dest Nat)) (acc : List Sexp) : Sexp :=
    match ds with
    | [] => Sexp.app "ok" acc.reverse
    | d :: rest =>
      match finalizeDest d with
      | .ok (some (.fromAnm t)) => go rest (Sexp.nat t :: acc)
      | .ok (some (.fromImage t)) => go rest (Sexp.nat t :: acc)
      | .ok none => go rest (.atom "-" :: acc)
      | .err c => Sexp.app "err" [.str c]
      | .panic s => Sexp.app "panic" [.str "model", .str s]
  go out []

def handle (case : Sexp) : Sexp :=
  let a := case.args
  match case.head? with
  | some "sweep" =>
    match fmtOfName (a[0]!).asAtom with
    | some f => sweep f (a[1]!).asNat (a[2]!).asNat
    | none => .atom "bad-format"
  | some "to8888" =>
    match fmtOfName (a[0]!).asAtom with
    | some f => ofOutcome (fun bs => [.atom (hexOf bs)]) (transcodeTo8888 f (unhex (a[1]!).asAtom))
    | none => .atom "bad-format"
  | some "from8888" =>
    match fmtOfName (a[0]!).asAtom with
    | some f => ofOutcome (fun bs => [.atom (hexOf bs)]) (transcodeFrom8888 nativeLum f (unhex (a[1]!).asAtom))
    | none => .atom "bad-format"
  | some "pad" =>
    match fmtOfName (a[0]!).asAtom with
    | some f => padCase f (a[1]!).asNat (a[2]!).asNat (a[3]!).asNat (a[4]!).asNat (unhex (a[5]!).asAtom)
    | none => .atom "bad-format"
  | some "crop" =>
    match fmtOfName (a[0]!).asAtom with
    | some f => cropCase f (softOfAtom a[1]!) (softOfAtom a[2]!) (a[3]!).asNat (a[4]!).asNat (a[5]!).asNat
        (a[6]!).asNat (unhex (a[7]!).asAtom)
    | none => .atom "bad-format"
  | some "sources" => sourcesCase (a[0]!) (a.drop 1)
  | _ => .atom "bad-case"

end TruthModel.Driver.C17
