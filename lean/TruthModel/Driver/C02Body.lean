import TruthModel.Model.BodySem
import TruthModel.Driver.Lw
/-
Glue for the `srcvm` / `tgtvm` cases of C02: the two machines of `Model/BodySem.lean` run from the register
valuations of the case, printed like `harness/src/props/c02.rs` prints the state of the real `AstVm`.
Trusted (part of the correspondence check only).
-/
namespace TruthModel.Driver.C02Body
open TruthModel TruthModel.Regs TruthModel.Lower TruthModel.Driver.Lw

/-- `(val DIFF ((reg ty value)...))` -> difficulty and store (everything not listed holds 0) -/
def parseVal (v : Sexp) : Nat × Store :=
  let a := v.args
  let diff := (a[0]!).asNat
  let regs : List (Int × Value) := (a[1]!).items.map fun r =>
    let x := r.items
    let id := (x[0]!).asInt
    let n := (x[2]!).asInt
    (id, if (x[1]!).asAtom == "i" then .int (Int32.ofInt n) else .float (UInt32.ofNat n.toNat))
  let σ : Store := fun x => match x with
    | .reg r => match regs.find? (·.1 == r) with
      | some (_, v) => v
      | none => .int 0
    | .loc _ => .int 0
  (diff, σ)

def ofValue : Value → Sexp
  | .int v => Sexp.app "i" [Sexp.int v.toInt]
  | .float b => Sexp.app "f" [Sexp.nat (canonF b).toNat]
  | .str s => Sexp.app "s" [.str s]

def failClass (p : String) : String :=
  if p == "out of fuel" then "limit" else if p == "jump to undefined label" then "nolabel" else "fail"

def showRun (v : VM) (regs : List Int) : Sexp :=
  let calls := (v.m.log.zip v.stamps).map fun (c, rt) => Sexp.list ([Sexp.int rt, Sexp.nat c.1] ++ c.2.map ofValue)
  Sexp.app "run" [Sexp.int v.m.time, Sexp.int v.real, Sexp.app "log" calls,
    Sexp.app "regs" (regs.map fun r => Sexp.list [Sexp.int r, ofValue (v.m.store (.reg r))])]

def allRegs : List Int := intRegs ++ floatRegs ++ [1020, 1021]

def sourceLimit : Nat := 300
def compiledLimit : Nat := 100000

/-- The harness runs the real VM with `max_iterations = sourceLimit` on the parsed block, which carries one
`NoInstruction` bookend statement in front of the body and one behind it; both count as iterations.  So statement `k`
of the body is iteration `k + 1`: a failure in statement `k` is seen iff `k + 1 <= sourceLimit`, and the run finishes
iff the body needs at most `sourceLimit - 2` statements.  With fuel `f` the machine `runJS` executes up to `f`
statements and needs one more unit to notice that it ran off the end: fuel `sourceLimit - 1` is exactly that. -/
def runSource (stmts : List JSStmt) (diff : Nat) (σ : Store) : Outcome VM :=
  runJS nativeFloat diff (stampBody 0 stmts) (sourceLimit - 1) 0 ⟨⟨σ, [], 0⟩, 0, []⟩

/-- `(srcvm CFG (body ...) VAL...)` -> `(ok (run TIME REAL (log ...) (regs ...)) | (fail CLASS) ...)` -/
def srcvm (case : Sexp) : Sexp :=
  let body := (case.args[1]!).args
  let (stmts, _) := parseBlockJ [] body
  Sexp.app "ok" ((case.args.drop 2).map fun v =>
    let (diff, σ) := parseVal v
    match runSource stmts diff σ with
    | .ok s => showRun s allRegs
    | .err _ => Sexp.app "fail" [.atom "fail"]
    | .panic p => Sexp.app "fail" [.atom (failClass p)])

/-- `(tgtvm CFG (body ...) (obs r...) VAL...)`: the model's lowering run by the model's target machine.
`(rejected)` when the model's compile fails; per valuation `(skip)` when the source run does not finish. -/
def tgtvm (case : Sexp) : Sexp :=
  let cfg := parseCfg (case.args[0]!)
  let body := (case.args[1]!).args
  let obs := (case.args[2]!).args.map (·.asInt)
  let (stmts, _) := parseBlockJ [] body
  let I := jIntrinsics cfg.table
  match compileJ I (jumpOrder cfg.table) 255 0 currentMode (hooks cfg.ints cfg.floats) firstTemp firstLabel stmts,
        lowerBodyJ I 255 0 255 firstTemp firstLabel 0 stmts with
  | .ok _, .ok P =>
    Sexp.app "ok" ((case.args.drop 3).map fun v =>
      let (diff, σ) := parseVal v
      match runSource stmts diff σ with
      | .ok _ =>
        match execT nativeFloat diff P compiledLimit 0 ⟨⟨⟨σ, [], 0⟩, 0, []⟩, none⟩ with
        | .ok s => showRun s.vm obs
        | .err _ => Sexp.app "fail" [.atom "fail"]
        | .panic p => Sexp.app "fail" [.atom (failClass p)]
      | _ => Sexp.app "skip" [])
  | _, _ => Sexp.app "rejected" []

end TruthModel.Driver.C02Body
