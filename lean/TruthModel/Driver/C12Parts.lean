import TruthModel.Model.AbiParts
import TruthModel.Driver.Sexp
/- Driver glue for the `parts` / `cstr` cases of C12 / C15 (format of `harness/src/props/c12_parts.rs`).
Trusted glue, no theorem depends on it. -/
namespace TruthModel.Driver.C12Parts
open TruthModel TruthModel.Abi TruthModel.AbiParts

def flag (s : Sexp) : Bool := s.asInt != 0

def letterInfo : String → IntW × Bool
  | "S" | "n" | "N" | "E" => (.w4, true)
  | "U" | "C" => (.w4, false)
  | "s" => (.w2, true)
  | "u" => (.w2, false)
  | "c" => (.w1, true)
  | _ => (.w1, false)

/-- the encoding S-expressions of c12.rs; `eclSub` = letter `E` without a user `enum=` attribute -/
def toPEnc (s : Sexp) : PEnc :=
  let a := s.args
  match s.head? with
  | some "i" =>
    let letter := (a[0]!).asAtom
    let (w, signed) := letterInfo letter
    ⟨.int w signed (flag a[1]!) (flag a[2]!), letter == "E" && !(flag a[4]!)⟩
  | some "o" => ⟨.jumpOffset, false⟩
  | some "t" => ⟨.jumpTime, false⟩
  | some "pad" => ⟨.padding ((a[0]!).asInt == 4), false⟩
  | some "f" => ⟨.float (flag a[0]!), false⟩
  | some "z" => ⟨.str (.toBlobEnd 4) ⟨0, 0, 0⟩ false, false⟩
  | _ => ⟨.padding false, false⟩

def toSTy (s : Sexp) : STy := if s.asAtom == "float" then .float else .int

/-- `BinOpKind::class` -/
def binCls : String → BinCls
  | "add" | "sub" | "mul" | "div" | "rem" => .arithmetic
  | "eq" | "ne" | "lt" | "le" | "gt" | "ge" => .comparison
  | "bitor" | "bitxor" | "bitand" => .bitwise
  | "logor" | "logand" => .logical
  | _ => .shift

/-- the arms of `_unop_ty` -/
def unCls : String → UnCls
  | "neg" => .neg
  | "not" | "bitnot" | "enci" | "casti" => .intResult
  | _ => .floatResult

def toKind (s : Sexp) : Kind :=
  let a := s.args
  match (a[0]!).asAtom with
  | "Jmp" => .jmp
  | "Interrupt" => .interruptLabel
  | "AssignOp" => .assignOp (toSTy a[2]!)
  | "BinOp" => .binOp (binCls (a[1]!).asAtom) (toSTy a[2]!)
  | "UnOp" => .unOp (unCls (a[1]!).asAtom) (toSTy a[2]!)
  | "CountJmp" => .countJmp
  | "CondJmp" => .condJmp (toSTy a[2]!)
  | "DedicatedCmp" => .condJmp2A (toSTy a[2]!)
  | "DedicatedCmpJmp" => .condJmp2B
  | "CallEosd" => .callEosd
  | _ => .callReg

def ofParts (p : Parts) : Sexp :=
  Sexp.app "ok" [Sexp.nat p.numInstrArgs,
    Sexp.app "plain" (p.plainArgs.map Sexp.nat),
    Sexp.app "out" (p.outputs.map fun (i, m) => .list [Sexp.nat i, .atom (match m with | .natural => "Natural" | .floatAsInt => "FloatAsInt")]),
    (match p.jump with
     | some (i, o) => Sexp.app "jump" [Sexp.nat i, .atom (match o with | .timeLoc => "TimeLoc" | .locTime => "LocTime" | .loc => "Loc")]
     | none => Sexp.app "jump" []),
    (match p.subId with | some i => Sexp.app "sub" [Sexp.nat i] | none => Sexp.app "sub" [])]

/-- the builder the harness' source statement corresponds to: named parts -/
def builderFor (p : Parts) : Builder String :=
  ⟨p.jump.map (fun _ => ("label", "time")), p.subId.map (fun _ => "sub"),
   (List.range p.plainArgs.length).map (fun k => "plain" ++ toString k),
   (List.range p.outputs.length).map (fun k => "out" ++ toString k)⟩

def handleParts (case : Sexp) : Sexp :=
  let a := case.args
  let k := toKind a[0]!
  let abi := (a[1]!).items.map toPEnc
  let doLower := flag a[2]!
  match fromAbi k abi with
  | .err c => Sexp.app "ok" [Sexp.app "fromabi" [Sexp.app "err" [.str c]]]
  | .panic s => Sexp.app "panic" [.str "model", .str s]
  | .ok p =>
    let fa := Sexp.app "fromabi" [ofParts p]
    if !doLower then Sexp.app "ok" [fa] else
    match intoVec id p (builderFor p) with
    | .ok vs =>
      -- lower then raise gives back the same parts (`raise_parts_inverse`): the decompiled statement is the
      -- intrinsic again and compiles to the same instruction
      let back := match raiseParts p (expand "pad" abi vs) with
        | .ok r => if r.plainArgs == (builderFor p).plainArgs && r.outputs == (builderFor p).outputs && r.subId == (builderFor p).subId
                      && r.jump.map (·.1) == (builderFor p).jump.map (·.1) then "same" else "differ"
        | _ => "panic"
      Sexp.app "ok" [fa, Sexp.app "lower" (.atom "ok" :: vs.map .atom), Sexp.app "raise" [.atom "intrinsic", .atom back]]
    | .panic s => Sexp.app "ok" [fa, Sexp.app "lower" [.atom "panic", .str s]]
    | .err c => Sexp.app "ok" [fa, Sexp.app "lower" [.atom "err", .str c]]

/-- `(cstr BLOCK xBYTES xTAIL)`: `write_cstring` then `read_cstring_blockwise` with `xTAIL` following -/
def hexDigitVal (c : Char) : Nat :=
  if c.toNat ≥ 48 && c.toNat ≤ 57 then c.toNat - 48
  else if c.toNat ≥ 97 && c.toNat ≤ 102 then c.toNat - 87
  else 0

def unhex (s : String) : Bytes :=
  let rec go : List Char → Bytes
    | a :: b :: rest => UInt8.ofNat (hexDigitVal a * 16 + hexDigitVal b) :: go rest
    | _ => []
  go (s.toList.drop 1)

def hex (b : Bytes) : String :=
  b.foldl (fun acc x => (acc.push (Sexp.hexDigit (x.toNat / 16))).push (Sexp.hexDigit (x.toNat % 16))) "x"

def handleCstr (case : Sexp) : Sexp :=
  let a := case.args
  let block := (a[0]!).asNat
  let b := unhex (a[1]!).asAtom
  let tl := unhex (a[2]!).asAtom
  match writeCString block b with
  | .ok out =>
    let input := out ++ tl
    let rd := match readCStringBlockwise block (input.length / block + 1) [] input with
      | .ok (s, rest) => Sexp.app "read" [.atom (hex s), .atom (hex rest)]
      | .err c => Sexp.app "readerr" [.str c]
      | .panic s => Sexp.app "panic" [.str "model", .str s]
    Sexp.app "ok" [Sexp.app "written" [.atom (hex out)], rd]
  | .err c => Sexp.app "err" [.str c]
  | .panic s => Sexp.app "panic" [.str "model", .str s]

end TruthModel.Driver.C12Parts
