import TruthModel.Model.Blocks
import TruthModel.Driver.Sexp
/-
Driver glue for C06 (trusted, not part of any theorem): S-expression program -> `Stmt`, then
`desugar` / `runS` / `runFlat`, printed in the canonical form of `harness/src/props/c06.rs`.
-/
namespace TruthModel.Driver.C06
open TruthModel TruthModel.Blocks

def opOfName : String → IOp
  | "add" => .add | "sub" => .sub | "mul" => .mul | "eq" => .eq | "ne" => .ne
  | "lt" => .lt | "le" => .le | "gt" => .gt | _ => .ge

def opName : IOp → String
  | .add => "add" | .sub => "sub" | .mul => "mul" | .eq => "eq" | .ne => "ne"
  | .lt => "lt" | .le => "le" | .gt => "gt" | .ge => "ge"

partial def toExpr (s : Sexp) : Expr :=
  let a := s.args
  match s.head? with
  | some "i" => .lit (Int32.ofInt (a[0]!).asInt)
  | some "reg" => .reg (a[0]!).asNat
  | some "bin" => .bin (opOfName (a[0]!).asAtom) (toExpr a[1]!) (toExpr a[2]!)
  | _ => .lit 0

mutual
partial def toStmt (s : Sexp) : Stmt :=
  let a := s.args
  match s.head? with
  | some "call" => .call (a[0]!).asNat ((a.drop 1).map toExpr)
  | some "set" => .assign (a[0]!).asNat (toExpr a[1]!)
  | some "tabs" => .tabs (a[0]!).asInt
  | some "trel" => .trel (a[0]!).asInt
  | some "break" => .brk
  | some "cbreak" => .cbrk ((a[0]!).asAtom == "if") (toExpr a[1]!)
  | some "block" => .block (a.map toStmt)
  | some "cond" => .cond (toChain a)
  | some "loop" => .loop (a.map toStmt)
  | some "while" => .while_ (toExpr a[0]!) ((a.drop 1).map toStmt)
  | some "dowhile" => .doWhile (toExpr a[0]!) ((a.drop 1).map toStmt)
  | some "times" =>
    let clob := if (a[0]!).asAtom == "none" then none else some (a[0]!).asNat
    .times clob (toExpr a[1]!) ((a.drop 2).map toStmt)
  | _ => .brk
partial def toChain (bs : List Sexp) : Chain :=
  match bs with
  | [] => .none
  | b :: rest =>
    let a := b.args
    match b.head? with
    | some "else" => .els (a.map toStmt)
    | some kw => .elif (kw == "if") (toExpr a[0]!) ((a.drop 1).map toStmt) (toChain rest)
    | none => .none
end

def toProg (s : Sexp) : List Stmt := s.items.map toStmt

def kindOf (s : Sexp) : CJ := if s.asAtom == "gt" then .gt else .ne

def regsOf (s : Sexp) : Nat → Int32 :=
  let vals := s.items.map (fun x => Int32.ofInt x.asInt)
  fun r => if r ≥ 10000 then vals.getD (r - 10000) 0 else 0

/-- generated names renumbered by first occurrence -/
abbrev Names := List Nat

def nameIdx (ns : Names) (k : Nat) : Names × Nat :=
  match ns.findIdx? (· == k) with
  | some i => (ns, i)
  | none => (ns ++ [k], ns.length)

def gen (ns : Names) (k : Nat) : Names × Sexp :=
  let (ns, i) := nameIdx ns k
  (ns, Sexp.app "g" [Sexp.nat i])

def ofExpr : Expr → Sexp
  | .lit v => Sexp.app "i" [Sexp.int v.toInt]
  | .reg r => Sexp.app "reg" [Sexp.nat r]
  | .bin op a b => Sexp.app "bin" [.atom (opName op), ofExpr a, ofExpr b]

def ofVar (ns : Names) : Var → Names × Sexp
  | .reg r => (ns, Sexp.app "reg" [Sexp.nat r])
  | .tmp k => let (ns, g) := gen ns k; (ns, Sexp.app "tmp" [g])

def ofF (ns : Names) : FStmt → Names × Sexp
  | .nop => (ns, Sexp.app "nop" [])
  | .decl k => let (ns, v) := ofVar ns (.tmp k); (ns, Sexp.app "decl" [v])
  | .scopeEnd _ => (ns, Sexp.app "scopeend" [])
  | .call op args => (ns, Sexp.app "call" (Sexp.nat op :: args.map ofExpr))
  | .assign v e => let (ns, v) := ofVar ns v; (ns, Sexp.app "set" [v, ofExpr e])
  | .tabs t => (ns, Sexp.app "tabs" [Sexp.int t])
  | .trel d => (ns, Sexp.app "trel" [Sexp.int d])
  | .label l => let (ns, g) := gen ns l; (ns, Sexp.app "label" [g])
  | .goto l => let (ns, g) := gen ns l; (ns, Sexp.app "goto" [g])
  | .cjmp isIf c l =>
    let (ns, g) := gen ns l
    (ns, Sexp.app "cjmp" [.atom (if isIf then "if" else "unless"), ofExpr c, g])
  | .jz v l =>
    let (ns, v) := ofVar ns v
    let (ns, g) := gen ns l
    (ns, Sexp.app "cjmp" [.atom "if", Sexp.app "bin" [.atom "eq", v, Sexp.app "i" [Sexp.int 0]], g])
  | .cntjmp k v l =>
    let (ns, v) := ofVar ns v
    let (ns, g) := gen ns l
    let pd := Sexp.app "predec" [v]
    let c := match k with
      | .ne => pd
      | .gt => Sexp.app "bin" [.atom "gt", pd, Sexp.app "i" [Sexp.int 0]]
    (ns, Sexp.app "cjmp" [.atom "if", c, g])

def ofFlat (p : List FStmt) : Sexp :=
  let rec go (ns : Names) (p : List FStmt) (acc : List Sexp) : List Sexp :=
    match p with
    | [] => acc.reverse
    | f :: fs => let (ns, s) := ofF ns f; go ns fs (s :: acc)
  Sexp.app "flat" (go [] p [])

def ofSt (st : St) : Sexp :=
  let log := st.log.reverse.map fun c =>
    Sexp.list (Sexp.nat c.op :: Sexp.int c.rtime :: c.args.map (fun v => Sexp.int v.toInt))
  let regs := [10000, 10001, 10002, 10003].map fun r => Sexp.int (st.regs r).toInt
  Sexp.app "ok" [Sexp.int st.time, Sexp.int st.rtime, Sexp.app "log" log, Sexp.app "regs" regs]

def ofRes : Res → Sexp
  | .done st _ => ofSt st
  | .brk _ _ => Sexp.app "vmpanic" [.str "AST VM tried to break out of a loop, but wasn't in one!"]
  | .limit => Sexp.app "limit" []
  | .panic m => Sexp.app "vmpanic" [.str m]
  | .fuel => Sexp.app "model-fuel" []

def ofFRes : FRes → Sexp
  | .done fs _ => ofSt fs.st
  | .limit => Sexp.app "limit" []
  | .panic m => Sexp.app "vmpanic" [.str m]
  | .stuck m => Sexp.app "vmpanic" [.str m]
  | .fuel => Sexp.app "model-fuel" []

def handle (case : Sexp) : Sexp :=
  let a := case.args
  match case.head? with
  | some "desugar" => ofFlat (desugar (kindOf a[0]!) (toProg a[1]!))
  | some "vm" => ofRes (runS (a[0]!).asNat (toProg a[2]!) (regsOf a[1]!))
  | some "vmflat" => ofFRes (runFlat (kindOf a[0]!) (a[1]!).asNat (toProg a[3]!) (regsOf a[2]!))
  | _ => .atom "bad-case"

end TruthModel.Driver.C06
