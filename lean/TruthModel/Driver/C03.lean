import TruthModel.Model.InstrIO
import TruthModel.Driver.Sexp
namespace TruthModel.Driver.C03
open TruthModel TruthModel.InstrIO

def fmtOfName : String → Fmt
  | "msg" => .msg | "anm07" => .anm07 | "std06" => .std06 | "std10" => .std10
  | "ecl06" => .ecl06 | "ecl07" => .ecl07 | "tl06" => .tl06 | _ => .tl08

def hexDigits : String := "0123456789abcdef"

def toHex (bs : Bytes) : String :=
  "x" ++ String.join (bs.map fun b => String.ofList [hexDigits.toList[b.toNat / 16]!, hexDigits.toList[b.toNat % 16]!])

def hexVal (c : Char) : Nat :=
  if c.isDigit then c.toNat - 48 else if c.toNat >= 97 then c.toNat - 87 else c.toNat - 55

def ofHex (s : String) : Bytes :=
  let cs := match s.toList with | 'x' :: r => r | r => r
  let rec go : List Char → Bytes
    | a :: b :: r => UInt8.ofNat (hexVal a * 16 + hexVal b) :: go r
    | _ => []
  go cs

def instrOf (a : List Sexp) : Instr :=
  -- time opcode mask difficulty extra blob
  { time := (a[0]!).asInt, opcode := (a[1]!).asNat, mask := (a[2]!).asNat, difficulty := (a[3]!).asNat,
    extra := if (a[4]!).asAtom == "none" then none else some (a[4]!).asInt, blob := ofHex (a[5]!).asAtom }

def instrSexp (i : Instr) : Sexp :=
  Sexp.app "instr" [Sexp.int i.time, Sexp.nat i.opcode, Sexp.nat i.mask, Sexp.nat i.difficulty,
    (match i.extra with | none => .atom "none" | some e => Sexp.int e), .atom (toHex i.blob)]

def outcome {α} (f : α → List Sexp) : Outcome α → Sexp
  | .ok a => Sexp.app "ok" (f a)
  | .err c => Sexp.app "err" [.str c]
  | .panic s => Sexp.app "panic" [.str "model", .str s]

def handle (case : Sexp) : Sexp :=
  let a := case.args
  match case.head? with
  | some "winstr" => outcome (fun b => [.atom (toHex b)]) (writeInstr (fmtOfName (a[0]!).asAtom) (instrOf (a.drop 3)))
  | some "winstrs" =>
    outcome (fun b => [.atom (toHex b)]) (writeInstrs (fmtOfName (a[0]!).asAtom) ((a.drop 3).map fun i => instrOf i.items))
  | some "rinstr" =>
    outcome (fun (r, rest) => [match r with
        | .instr i => instrSexp i
        | .maybeTerminal i => Sexp.app "maybe-terminal" [instrSexp i]
        | .terminal => .atom "terminal"
        | .eof => .atom "eof", Sexp.nat rest.length])
      (readInstr (fmtOfName (a[0]!).asAtom) (ofHex (a[3]!).asAtom))
  | some "rinstrs" =>
    outcome (fun is => is.map instrSexp) (readInstrs (fmtOfName (a[0]!).asAtom) (ofHex (a[3]!).asAtom))
  | _ => .atom "bad-case"

end TruthModel.Driver.C03
