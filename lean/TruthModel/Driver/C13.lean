import TruthModel.Model.Time
import TruthModel.Driver.Sexp
import TruthModel.Driver.C13X
/-
Driver glue for C13 (trusted, not part of any theorem).
Cases:
  (compile STMT...)   STMT ::= (abs N) | (rel N ...) | (relbad) | (ins) | (lab) | (blk KIND STMT...)
      -> (ok (T0 T1 ...)) times of the instructions in order | (err CLASS)
  (visit STMT...)     -> (ok ((K T)...)) kind and time of every statement in pre-order | (err CLASS)
  (raise INSTR...)    INSTR ::= (i T) | (j T DEST TM)   TM ::= N | none
      -> (ok (OUT...)) | (err CLASS)   OUT ::= (lab r|n INDEX) | (lab start) | (abs N) | (rel N) | (ins)
-/
namespace TruthModel.Driver.C13
open TruthModel TruthModel.Time

partial def toStmt (s : Sexp) : Stmt :=
  let a := s.args
  match s.head? with
  | some "abs" => .abs (Int32.ofInt (a[0]!).asInt)
  | some "rel" => .rel (Int32.ofInt (a[0]!).asInt)
  | some "relbad" => .relBad
  | some "ins" => .instr
  | some "lab" => .label
  | some "blk" => .block ((a.drop 1).map toStmt)
  | _ => .instr

def ofOutcome {α} (f : α → List Sexp) : Outcome α → Sexp
  | .ok a => Sexp.app "ok" (f a)
  | .err c => Sexp.app "err" [.str c]
  | .panic s => Sexp.app "panic" [.str "model", .str s]

def compile (stmts : List Sexp) : Sexp :=
  ofOutcome (fun ts => [Sexp.list (ts.map fun t => Sexp.int t.toInt)]) (instrTimes (stmts.map toStmt))

def kindName : Kind → String
  | .timeLabel => "t" | .instr => "i" | .label => "l" | .block => "b"

def visit (stmts : List Sexp) : Sexp :=
  ofOutcome (fun rs => [Sexp.list (rs.map fun r => Sexp.list [.atom (kindName r.1), Sexp.int r.2.toInt])]) (run (stmts.map toStmt))

def toRInstr (s : Sexp) : RInstr :=
  let a := s.args
  match s.head? with
  | some "j" =>
    let tm : Option Int32 := if (a[2]!).asAtom == "none" then none else some (Int32.ofInt (a[2]!).asInt)
    { time := Int32.ofInt (a[0]!).asInt, jump := some ((a[1]!).asNat, tm) }
  | _ => { time := Int32.ofInt (a[0]!).asInt, jump := none }

def ofOut : Out → Sexp
  | .label (.dest i) => Sexp.app "lab" [.atom "n", Sexp.nat i]
  | .label (.before i) => Sexp.app "lab" [.atom "r", Sexp.nat i]
  | .label .start => Sexp.app "lab" [.atom "start"]
  | .abs v => Sexp.app "abs" [Sexp.int v.toInt]
  | .rel d => Sexp.app "rel" [Sexp.int d.toInt]
  | .instr => Sexp.app "ins" []

def raiseCase (instrs : List Sexp) : Sexp :=
  ofOutcome (fun os => [Sexp.list (os.map ofOut)]) (raise (instrs.map toRInstr))

def handle (case : Sexp) : Sexp :=
  match case.head? with
  | some "compile" => compile case.args
  | some "visit" => visit case.args
  | some "raise" => raiseCase case.args
  | some "xcompile" => C13X.xcompile case.args
  | some "xvisit" => C13X.xvisit case.args
  | some "xraise" => C13X.xraise case.args
  | _ => .atom "bad-case"

end TruthModel.Driver.C13
