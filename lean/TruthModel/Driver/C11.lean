import TruthModel.Model.Expr
import TruthModel.Driver.Sexp
import TruthModel.Driver.Native
namespace TruthModel.Driver.C11
open TruthModel

def binopOfName : String → BinOp
  | "add" => .add | "sub" => .sub | "mul" => .mul | "div" => .div | "rem" => .rem
  | "eq" => .eq | "ne" => .ne | "lt" => .lt | "le" => .le | "gt" => .gt | "ge" => .ge
  | "lor" => .lor | "land" => .land | "xor" => .xor | "band" => .band | "bor" => .bor
  | "shl" => .shl | "shr" => .shr | _ => .ushr

def binopName : BinOp → String
  | .add => "add" | .sub => "sub" | .mul => "mul" | .div => "div" | .rem => "rem"
  | .eq => "eq" | .ne => "ne" | .lt => "lt" | .le => "le" | .gt => "gt" | .ge => "ge"
  | .lor => "lor" | .land => "land" | .xor => "xor" | .band => "band" | .bor => "bor"
  | .shl => "shl" | .shr => "shr" | .ushr => "ushr"

def unopOfName : String → UnOp
  | "neg" => .neg | "not" => .not | "bnot" => .bnot
  | "sin" => .sin | "cos" => .cos | "tan" => .tan | "asin" => .asin | "acos" => .acos | "atan" => .atan
  | "sqrt" => .sqrt | "castI" => .castI | "castF" => .castF | "sigI" => .sigI | _ => .sigF

def unopName : UnOp → String
  | .neg => "neg" | .not => "not" | .bnot => "bnot"
  | .sin => "sin" | .cos => "cos" | .tan => "tan" | .asin => "asin" | .acos => "acos" | .atan => "atan"
  | .sqrt => "sqrt" | .castI => "castI" | .castF => "castF" | .sigI => "sigI" | .sigF => "sigF"

def sigOf : String → Option Sigil
  | "i" => some .int | "f" => some .float | _ => none

def sigName : Option Sigil → String
  | some .int => "i" | some .float => "f" | none => "n"

/-- names of consts in chains are `K<n>` -/
def constIndex (s : String) : Nat := ((s.drop 1).toNat?).getD 0

partial def toExpr (s : Sexp) : Expr :=
  let a := s.args
  match s.head? with
  | some "i" => .litI (Int32.ofInt (a[0]!).asInt)
  | some "f" => .litF (UInt32.ofNat (a[0]!).asNat)
  | some "reg" => .reg (a[0]!).asNat (sigOf (a[1]!).asAtom)
  | some "cref" => .var (constIndex (a[0]!).asAtom) (sigOf (a[1]!).asAtom)
  | some "un" => .unop (unopOfName (a[0]!).asAtom) (toExpr a[1]!)
  | some "bin" => .binop (binopOfName (a[0]!).asAtom) (toExpr a[1]!) (toExpr a[2]!)
  | some "tern" => .ternary (toExpr a[0]!) (toExpr a[1]!) (toExpr a[2]!)
  | _ => .litI 0

def canonF (b : UInt32) : UInt32 := (Float32.ofBits b).toBits

def ofExpr : Expr → Sexp
  | .litI v => Sexp.app "i" [Sexp.int v.toInt]
  | .litF b => Sexp.app "f" [Sexp.nat (canonF b).toNat]
  | .litS s => Sexp.app "s" [.str s]
  | .reg r sig => Sexp.app "reg" [Sexp.nat r, .atom (sigName sig)]
  | .var n sig => Sexp.app "cref" [.atom s!"K{n}", .atom (sigName sig)]
  | .unop op e => Sexp.app "un" [.atom (unopName op), ofExpr e]
  | .binop op a b => Sexp.app "bin" [.atom (binopName op), ofExpr a, ofExpr b]
  | .ternary c l r => Sexp.app "tern" [ofExpr c, ofExpr l, ofExpr r]

def ofValue (v : Value) : Sexp := ofExpr v.toExpr

def ofOutcome {α} (f : α → List Sexp) : Outcome α → Sexp
  | .ok a => Sexp.app "ok" (f a)
  | .err c => Sexp.app "err" [.str c]
  | .panic s => Sexp.app "panic" [.str "model", .str s]

def fold (e : Sexp) : Sexp :=
  ofOutcome (fun x => [ofExpr x]) (simplify nativeFloat (fun _ => none) (toExpr e))

/-- definitions in textual order; evaluation order = textual order, first error wins -/
def chain (defs : List Sexp) : Sexp :=
  let table : List (Nat × Expr) := defs.map fun d => (constIndex (d.items[0]!).asAtom, toExpr (d.items[1]!))
  let lookup : Nat → Option Expr := fun n => (table.find? (·.1 == n)).map (·.2)
  let fuel := table.length + 1
  let rec go (ds : List (Nat × Expr)) (acc : List Sexp) : Sexp :=
    match ds with
    | [] => Sexp.app "ok" acc.reverse
    | (n, _) :: rest =>
      match evalConst nativeFloat lookup fuel [] n with
      | .ok v => go rest (ofValue v :: acc)
      | .err c => Sexp.app "err" [.str c]
      | .panic s => Sexp.app "panic" [.str "model", .str s]
  go table []

def handle (case : Sexp) : Sexp :=
  match case.head? with
  | some "fold" => fold (case.args[0]!)
  | some "chain" => chain case.args
  | _ => .atom "bad-case"

end TruthModel.Driver.C11
