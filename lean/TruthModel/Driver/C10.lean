import TruthModel.Model.Scope
import TruthModel.Driver.Sexp
/-
Driver glue for C10: S-expression scope tree -> `Scope.resolveRibs` -> canonical per-occurrence
resolution.  Case grammar (shared with harness/src/props/c10.rs):

  (resolve ENV ROOT)
  ENV  := (env (langs L..) (funcs L) (scripts L) (reg (L NAME N)..) (ins (L NAME N)..)
               (enums E..) (enum (E NAME)..) (builtin NAME..))
  ROOT := (file STMT..) | (blk STMT..)
  STMT := (expr E) | (assign E E) | (ret E) | (decl (ID NAME E?)..) | (block STMT..) | (loop STMT..)
        | (while E STMT..) | (dowhile E STMT..) | (times E STMT..)
        | (if (E STMT..).. [(else STMT..)])
        | (func QUAL ID NAME ((ID NAME)..) STMT..) | (const (ID NAME E)..) | (script STMT..)
  E    := (v ID NAME) | (q ID ENUM NAME) | (f ID NAME E..) | (add E E) | (ins N COLOR E..) | (lit)
-/
namespace TruthModel.Driver.C10
open TruthModel TruthModel.Scope

def optName (s : Sexp) : Option Name := if s.asAtom == "-" then none else some s.asAtom

/-- identifier uses of an expression in the order `visit_expr` reaches them -/
partial def usesOf (color : Option Name) (e : Sexp) : List Use :=
  let a := e.args
  match e.head? with
  | some "v" => [{ id := (a[0]!).asNat, ns := .vars, name := (a[1]!).asAtom, color := color }]
  | some "q" => [{ id := (a[0]!).asNat, ns := .vars, name := (a[2]!).asAtom, color := color,
                   enumQual := some (a[1]!).asAtom }]
  | some "f" => { id := (a[0]!).asNat, ns := .funcs, name := (a[1]!).asAtom, color := none } ::
      (a.drop 2).flatMap (usesOf none)
  | some "add" => a.flatMap (usesOf color)
  | some "ins" => (a.drop 2).flatMap (usesOf (optName a[1]!))
  | _ => []

def declVar (s : Sexp) : DeclVar :=
  let xs := s.items
  { id := (xs[0]!).asNat, name := (xs[1]!).asAtom, init := (xs.drop 2).flatMap (usesOf none) }

def qualOf : String → FuncQual
  | "const" => .const
  | "inline" => .inline
  | _ => .plain

mutual
partial def toStmt (s : Sexp) : List Stmt :=
  let a := s.args
  match s.head? with
  | some "expr" => [.expr (usesOf none a[0]!)]
  | some "assign" => [.expr (usesOf none a[0]! ++ usesOf none a[1]!)]
  | some "ret" => [.expr (a.flatMap (usesOf none))]
  | some "decl" => [.decl (a.map declVar)]
  | some "block" => [.block (toStmts a)]
  | some "loop" => Stmt.loop (toStmts a)
  | some "while" => Stmt.while false (usesOf none a[0]!) (toStmts (a.drop 1))
  | some "dowhile" => Stmt.while true (usesOf none a[0]!) (toStmts (a.drop 1))
  | some "times" => Stmt.times (usesOf none a[0]!) (toStmts (a.drop 1))
  | some "if" =>
    let branches := a.filter (fun b => b.head? != some "else")
    let els := a.find? (fun b => b.head? == some "else")
    Stmt.condChain (branches.map fun b => (usesOf none (b.items[0]!), toStmts (b.items.drop 1)))
      (els.map fun b => toStmts b.args)
  | some "func" =>
    let ps := (a[3]!).items.map fun p => ((p.items[0]!).asNat, (p.items[1]!).asAtom)
    [.func (a[1]!).asNat (a[2]!).asAtom (qualOf (a[0]!).asAtom) ps (toStmts (a.drop 4))]
  | some "const" => [.const (a.map declVar)]
  | some "script" => [.script (toStmts a)]
  | _ => []
partial def toStmts (xs : List Sexp) : List Stmt := xs.flatMap toStmt
end

def section? (env : Sexp) (name : String) : List Sexp :=
  match env.args.find? (fun s => s.head? == some name) with
  | some s => s.args
  | none => []

def triple (s : Sexp) : Lang × Name × Int :=
  ((s.items[0]!).asAtom, (s.items[1]!).asAtom, (s.items[2]!).asInt)

def toGlobals (env : Sexp) : Globals :=
  { langs := (section? env "langs").map (·.asAtom),
    regAliases := (section? env "reg").map triple,
    insAliases := (section? env "ins").map triple,
    enums := (section? env "enums").map (·.asAtom),
    enumConsts := (section? env "enum").map fun s => ((s.items[0]!).asAtom, (s.items[1]!).asAtom),
    builtins := (section? env "builtin").map (·.asAtom),
    funcsLang := ((section? env "funcs").headD (.atom "?")).asAtom,
    scriptsLang := ((section? env "scripts").headD (.atom "?")).asAtom }

def localKindStr : LocalKind → String
  | .local => "local"
  | .param => "parameter"
def itemKindStr : ItemKind → String
  | .function => "function"
  | .const => "const"
def nounStr : Noun → String
  | .local => "local"
  | .param => "parameter"
  | .const => "const"
  | .func => "function"

def errStr : ErrClass → String
  | .unknown => "unknown"
  | .crossBarrier lk ik => s!"cannot use {localKindStr lk} from outside {itemKindStr ik}"
  | .ambiguousEnum => "ambiguous enum const"
  | .noSuchEnum => "no such enum"
  | .noEnumConst => "no enum const"

def defSexp : Def → Sexp
  | .decl id => Sexp.app "d" [Sexp.nat id]
  | .regAlias l r => Sexp.app "reg" [.atom l, Sexp.int r]
  | .insAlias l r => Sexp.app "ins" [.atom l, Sexp.int r]
  | .enumConst e n => Sexp.app "enum" [.atom e, .atom n]
  | .builtin n => Sexp.app "builtin" [.atom n]
  | .enumDummy => .atom "enum-dummy"

/-- `(key, entry)`; redefinition diagnostics sort right after the declaration's own entry -/
def entryOf : Event → Option (Nat × Sexp)
  | .selfRes id => some (2 * id, .list [Sexp.nat id, .atom "self"])
  | .redef id noun => some (2 * id + 1, .list [Sexp.nat id, .atom "redef", .atom (nounStr noun)])
  | .res id d => some (2 * id, .list [Sexp.nat id, defSexp d])
  | .err id e => some (2 * id, .list [Sexp.nat id, Sexp.app "err" [.str (errStr e)]])
  | .panic _ => none

def firstPanic : List Event → Option String
  | [] => none
  | .panic s :: _ => some s
  | _ :: r => firstPanic r

def render (evs : List Event) : Sexp :=
  match firstPanic evs with
  | some s => Sexp.app "panic" [.str "model", .str s]
  | none =>
    match applyEvents [] evs with
    | .panic s => Sexp.app "panic" [.str "model", .str s]
    | _ =>
      let entries := (evs.filterMap entryOf).toArray.qsort (fun a b => a.1 < b.1)
      let anyError := evs.any fun e => match e with
        | .redef _ _ => true
        | .err _ _ => true
        | _ => false
      Sexp.app (if anyError then "errors" else "ok") (entries.toList.map (·.2))

def resolveCase (env root : Sexp) : Sexp :=
  let g := toGlobals env
  match root.head? with
  | some "file" => render (resolveRibs g (toStmts root.args))
  | some "blk" => render (resolveRibsBlock g (toStmts root.args))
  | _ => .atom "bad-case"

def handle (case : Sexp) : Sexp :=
  match case.head? with
  | some "resolve" => resolveCase (case.args[0]!) (case.args[1]!)
  | _ => .atom "bad-case"

end TruthModel.Driver.C10
