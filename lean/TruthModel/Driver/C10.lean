import TruthModel.Model.Scope
import TruthModel.Driver.Sexp
/-
Driver glue for C10: S-expression scope tree -> `Scope.resolveRibs` -> canonical per-occurrence
resolution.  Case grammar (shared with harness/src/props/c10.rs):

  (resolve ENV ROOT)      per-occurrence resolution (`Scope.resolveRibs`)
  (ribs ENV)              `Defs::initial_ribs` as the two stacks `RibStacks::from_iter` builds
  ENV  := (env (langs L..) (funcs L) (scripts L) (reg (L NAME N)..) (ins (L NAME N)..)
               (enums E..) (enum (E NAME)..) (builtin NAME..) [(sigs (L OPCODE COLOR..)..)])
          `sigs`: the instructions that have a signature, with the enum (or `-`) each parameter
          expects; when the section is absent, 900 (E1), 901 (E2), 902 (-) and every aliased opcode (-)
          have one parameter in every language
  ROOT := (file STMT..) | (blk STMT..)
  STMT := (expr E) | (assign E E) | (ret E) | (decl (ID NAME E?)..) | (block STMT..) | (loop STMT..)
        | (while E STMT..) | (dowhile E STMT..) | (times E STMT..) | (timesc (v ID NAME) E STMT..)
        | (if (E STMT..).. [(else STMT..)])
        | (func QUAL ID NAME ((ID NAME)..) STMT..) | (funcdecl QUAL ID NAME ((ID NAME)..))
        | (const (ID NAME E)..) | (script STMT..)
  E    := (v ID NAME) | (q ID ENUM NAME) | (f ID NAME E..) | (add E E) | (ins N COLOR E..) | (lit)
          (the COLOR of `ins` is informative: the model takes the expected enums from the signatures)
-/
namespace TruthModel.Driver.C10
open TruthModel TruthModel.Scope

def optName (s : Sexp) : Option Name := if s.asAtom == "-" then none else some s.asAtom

instance : Inhabited Expr := ⟨.group []⟩

mutual
/-- the expression trees of an expression in the order `visit_expr` reaches them (a literal has none) -/
partial def exprsOf (e : Sexp) : List Expr :=
  let a := e.args
  match e.head? with
  | some "v" => [.use { id := (a[0]!).asNat, ns := .vars, name := (a[1]!).asAtom }]
  | some "q" => [.use { id := (a[0]!).asNat, ns := .vars, name := (a[2]!).asAtom, enumQual := some (a[1]!).asAtom }]
  | some "f" => [.call { id := (a[0]!).asNat, ns := .funcs, name := (a[1]!).asAtom } ((a.drop 2).map argOf)]
  | some "add" => a.flatMap exprsOf
  | some "ins" => [.raw (a[0]!).asInt ((a.drop 2).map argOf)]
  | _ => []
/-- one call argument is one expression -/
partial def argOf (e : Sexp) : Expr :=
  match exprsOf e with
  | [x] => x
  | xs => .group xs
end

def declVar (s : Sexp) : DeclVar :=
  let xs := s.items
  { id := (xs[0]!).asNat, name := (xs[1]!).asAtom, init := (xs.drop 2).flatMap exprsOf }

def useOf (e : Sexp) : Use :=
  { id := (e.args[0]!).asNat, ns := .vars, name := (e.args[1]!).asAtom }

def qualOf : String → FuncQual
  | "const" => .const
  | "inline" => .inline
  | _ => .plain

mutual
partial def toStmt (s : Sexp) : List Stmt :=
  let a := s.args
  match s.head? with
  | some "expr" => [.expr (exprsOf a[0]!)]
  | some "assign" => [.expr (exprsOf a[0]! ++ exprsOf a[1]!)]
  | some "ret" => [.expr (a.flatMap exprsOf)]
  | some "decl" => [.decl (a.map declVar)]
  | some "block" => [.block (toStmts a)]
  | some "loop" => Stmt.loop (toStmts a)
  | some "while" => Stmt.while false (exprsOf a[0]!) (toStmts (a.drop 1))
  | some "dowhile" => Stmt.while true (exprsOf a[0]!) (toStmts (a.drop 1))
  | some "times" => Stmt.times (exprsOf a[0]!) (toStmts (a.drop 1))
  | some "timesc" => Stmt.timesClobber (useOf a[0]!) (exprsOf a[1]!) (toStmts (a.drop 2))
  | some "if" =>
    let branches := a.filter (fun b => b.head? != some "else")
    let els := a.find? (fun b => b.head? == some "else")
    Stmt.condChain (branches.map fun b => (exprsOf (b.items[0]!), toStmts (b.items.drop 1)))
      (els.map fun b => toStmts b.args)
  | some "func" =>
    let ps := (a[3]!).items.map fun p => ((p.items[0]!).asNat, (p.items[1]!).asAtom)
    [.func (a[1]!).asNat (a[2]!).asAtom (qualOf (a[0]!).asAtom) ps (toStmts (a.drop 4))]
  | some "funcdecl" =>
    let ps := (a[3]!).items.map fun p => ((p.items[0]!).asNat, (p.items[1]!).asAtom)
    [.funcDecl (a[1]!).asNat (a[2]!).asAtom (qualOf (a[0]!).asAtom) ps]
  | some "const" => [.const (a.map declVar)]
  | some "script" => [.script (toStmts a)]
  | _ => []
partial def toStmts (xs : List Sexp) : List Stmt := xs.flatMap toStmt
end

def section? (env : Sexp) (name : String) : List Sexp :=
  match env.args.find? (fun s => s.head? == some name) with
  | some s => s.args
  | none => []

def triple (s : Sexp) : Lang × Name × Int :=
  ((s.items[0]!).asAtom, (s.items[1]!).asAtom, (s.items[2]!).asInt)

def hasSection (env : Sexp) (name : String) : Bool := env.args.any fun s => s.head? == some name

/-- the instruction signatures of a case: the `sigs` section, or the rule of the older case format -/
def sigsOf (env : Sexp) : List (Lang × Int × List (Option Name)) :=
  if hasSection env "sigs" then
    (section? env "sigs").map fun s => ((s.items[0]!).asAtom, (s.items[1]!).asInt, (s.items.drop 2).map optName)
  else
    let langs := (section? env "langs").map (·.asAtom)
    langs.flatMap (fun l => [(l, (900 : Int), [some "E1"]), (l, 901, [some "E2"]), (l, 902, [none])]) ++
      ((section? env "ins").map triple).map fun a => (a.1, a.2.2, [none])

def toGlobals (env : Sexp) : Globals :=
  { langs := (section? env "langs").map (·.asAtom),
    insSigs := sigsOf env,
    regAliases := (section? env "reg").map triple,
    insAliases := (section? env "ins").map triple,
    enums := (section? env "enums").map (·.asAtom),
    enumConsts := (section? env "enum").map fun s => ((s.items[0]!).asAtom, (s.items[1]!).asAtom),
    builtins := (section? env "builtin").map (·.asAtom),
    funcsLang := ((section? env "funcs").headD (.atom "?")).asAtom,
    scriptsLang := ((section? env "scripts").headD (.atom "?")).asAtom }

def localKindStr : LocalKind → String
  | .local => "local"
  | .param => "parameter"
def itemKindStr : ItemKind → String
  | .function => "function"
  | .const => "const"
def nounStr : Noun → String
  | .local => "local"
  | .param => "parameter"
  | .const => "const"
  | .func => "function"

def errStr : ErrClass → String
  | .unknown => "unknown"
  | .crossBarrier lk ik => s!"cannot use {localKindStr lk} from outside {itemKindStr ik}"
  | .ambiguousEnum => "ambiguous enum const"
  | .noSuchEnum => "no such enum"
  | .noEnumConst => "no enum const"

def defSexp : Def → Sexp
  | .decl id => Sexp.app "d" [Sexp.nat id]
  | .regAlias l r => Sexp.app "reg" [.atom l, Sexp.int r]
  | .insAlias l r => Sexp.app "ins" [.atom l, Sexp.int r]
  | .enumConst e n => Sexp.app "enum" [.atom e, .atom n]
  | .builtin n => Sexp.app "builtin" [.atom n]
  | .enumDummy => .atom "enum-dummy"

/-- `(key, entry)`; redefinition diagnostics sort right after the declaration's own entry -/
def entryOf : Event → Option (Nat × Sexp)
  | .selfRes id => some (2 * id, .list [Sexp.nat id, .atom "self"])
  | .redef id noun => some (2 * id + 1, .list [Sexp.nat id, .atom "redef", .atom (nounStr noun)])
  | .res id d => some (2 * id, .list [Sexp.nat id, defSexp d])
  | .err id e => some (2 * id, .list [Sexp.nat id, Sexp.app "err" [.str (errStr e)]])
  | .skipped id => some (2 * id, .list [Sexp.nat id, .atom "unresolved-without-diagnostic"])
  | .panic _ => none

def firstPanic : List Event → Option String
  | [] => none
  | .panic s :: _ => some s
  | _ :: r => firstPanic r

def render (evs : List Event) : Sexp :=
  match firstPanic evs with
  | some s => Sexp.app "panic" [.str "model", .str s]
  | none =>
    match applyEvents [] evs with
    | .panic s => Sexp.app "panic" [.str "model", .str s]
    | _ =>
      let entries := (evs.filterMap entryOf).toArray.qsort (fun a b => a.1 < b.1)
      let anyError := evs.any fun e => match e with
        | .redef _ _ => true
        | .err _ _ => true
        | _ => false
      Sexp.app (if anyError then "errors" else "ok") (entries.toList.map (·.2))

def resolveCase (env root : Sexp) : Sexp :=
  let g := toGlobals env
  match root.head? with
  | some "file" => render (resolveRibs g (toStmts root.args))
  | some "blk" => render (resolveRibsBlock g (toStmts root.args))
  | _ => .atom "bad-case"

/-! `(ribs ENV)`: the stacks `RibStacks::from_iter (Defs::initial_ribs)` builds, bottom first without the
dummy root.  Mapfile ribs without entries are left out and neighbouring mapfile ribs are listed in
the order of their language names (only the rib of the language of a use can answer, so their
mutual order means nothing); names in a rib are sorted. -/

def insertSorted {α} (lt : α → α → Bool) (x : α) : List α → List α
  | [] => [x]
  | y :: ys => if lt x y then x :: y :: ys else y :: insertSorted lt x ys

def sortBy {α} (lt : α → α → Bool) (xs : List α) : List α := xs.foldl (fun acc x => insertSorted lt x acc) []

def ribEntries (r : Rib) : List Sexp :=
  let names := sortBy (fun a b => decide (a < b)) (r.defs.map (·.1)).eraseDups
  names.filterMap fun n => (r.get n).map fun d => Sexp.list [.atom n, defSexp d]

/-- `(kind word, language, entries)`; `none` for the dummy root and for empty mapfile ribs -/
def ribView (r : Rib) : Option (String × String × List Sexp) :=
  match r.kind with
  | .mapfile l => if (ribEntries r).isEmpty then none else some ("mapfile", l, ribEntries r)
  | .enumConsts => some ("enum-consts", "", ribEntries r)
  | .builtinConsts => some ("builtin-consts", "", ribEntries r)
  | .dummyRoot => none
  | _ => some ("other", "", [])

/-- neighbouring mapfile ribs in the order of their languages -/
partial def sortRuns (xs : List (String × String × List Sexp)) : List (String × String × List Sexp) :=
  match xs with
  | [] => []
  | x :: rest =>
    if x.1 == "mapfile" then
      let run := xs.takeWhile (fun y => y.1 == "mapfile")
      let after := xs.dropWhile (fun y => y.1 == "mapfile")
      sortBy (fun a b => decide (a.2.1 < b.2.1)) run ++ sortRuns after
    else x :: sortRuns rest

def stackSexp (ns : String) (stack : List Rib) : Sexp :=
  Sexp.app ns ((sortRuns (stack.reverse.filterMap ribView)).map fun v =>
    Sexp.app v.1 ((if v.1 == "mapfile" then [Sexp.atom v.2.1] else []) ++ v.2.2))

def ribsCase (env : Sexp) : Sexp :=
  let g := toGlobals env
  let st := ribStacksFromIter g.initialRibsVec
  Sexp.app "ribs" [stackSexp "vars" st.vars, stackSexp "funcs" st.funcs]

def handle (case : Sexp) : Sexp :=
  match case.head? with
  | some "resolve" => resolveCase (case.args[0]!) (case.args[1]!)
  | some "ribs" => ribsCase (case.args[0]!)
  | _ => .atom "bad-case"

end TruthModel.Driver.C10
