import TruthModel.Model.Time
import TruthModel.Model.Expr
import TruthModel.Model.TimeDelta
import TruthModel.Driver.Sexp
import TruthModel.Driver.Native
import TruthModel.Driver.C11
/-
Driver glue for the extended C13 streams (trusted, not part of any theorem).
Cases:
  (xcompile LANG (consts (Kn EXPR)...) STMT...)
      STMT ::= (abs N) | (rel N ...) | (relx EXPR) | (relbad) | (ins) | (int N) | (lab NAME)
             | (goto NAME TM|none) | (tof NAME) | (tag STRING BYTE STMT) | (blk KIND STMT...)
             | (chain (KIND STMT...)...) | (func STMT...)
      EXPR in the format of the C11 driver; the value of a delta is the const evaluator's (C11)
      -> (ok ((p T M) | (int T M) | (j T M ARG) | (to T M V) ...)) | (err CLASS)
  (xvisit STMT...)  -> (ok ((K T M)...)) | (err CLASS)
  (xraise LANG INSTR...)   INSTR ::= (i T M) | (n T M) | (j T M DEST TM|none)
      -> (ok (OUT...)) | (err CLASS)
      OUT ::= (lab r|n INDEX) | (lab start) | (abs N) | (rel N) | (ins M) | (int M)
            | (goto M LAB TM|none) | (jo M LAB)
The LANG argument selects the implementation's language only; the model is the same for all.
-/
namespace TruthModel.Driver.C13X
open TruthModel TruthModel.Time

/-- `const int Kn = EXPR;` in textual order, each may use the ones before it -/
def evalConsts (defs : List Sexp) : Consts :=
  defs.foldl (fun cs d =>
    let n := C11.constIndex ((d.items)[0]!).asAtom
    match constEval nativeFloat cs (C11.toExpr ((d.items)[1]!)) with
    | .ok v => fun k => if k = n then some v else cs k
    | _ => cs) (fun _ => none)

/-- the delta of `+EXPR:` is what `const_simplify` leaves if that is an integer literal -/
def deltaStmt (cs : Consts) (e : Expr) : X.Stmt := X.deltaStmt nativeFloat cs e

partial def toStmt (cs : Consts) (s : Sexp) : X.Stmt :=
  let a := s.args
  match s.head? with
  | some "abs" => .abs (Int32.ofInt (a[0]!).asInt)
  | some "rel" => .rel (Int32.ofInt (a[0]!).asInt)
  | some "relx" => deltaStmt cs (C11.toExpr a[0]!)
  | some "relbad" => .relBad
  | some "ins" => .instr
  | some "int" => .interrupt
  | some "lab" => .label (a[0]!).asNat
  | some "goto" => .goto (a[0]!).asNat (if (a[1]!).asAtom == "none" then none else some (Int32.ofInt (a[1]!).asInt))
  | some "tof" => .timeof (a[0]!).asNat
  | some "tag" => .tagged (UInt8.ofNat (a[1]!).asNat) (toStmt cs a[2]!)
  | some "blk" => .blocks [(a.drop 1).map (toStmt cs)]
  | some "chain" => .blocks (a.map fun b => b.args.map (toStmt cs))
  | some "func" => .func (a.map (toStmt cs))
  | _ => .instr

def ofOutcome {α} (f : α → List Sexp) : Outcome α → Sexp
  | .ok a => Sexp.app "ok" (f a)
  | .err c => Sexp.app "err" [.str c]
  | .panic s => Sexp.app "panic" [.str "model", .str s]

def ofCInstr : X.CInstr → Sexp
  | .plain t m => Sexp.app "p" [Sexp.int t.toInt, Sexp.nat m.toNat]
  | .interrupt t m => Sexp.app "int" [Sexp.int t.toInt, Sexp.nat m.toNat]
  | .jump t m a => Sexp.app "j" [Sexp.int t.toInt, Sexp.nat m.toNat, Sexp.int a.toInt]
  | .timeof t m v => Sexp.app "to" [Sexp.int t.toInt, Sexp.nat m.toNat, Sexp.int v.toInt]

def xcompile (args : List Sexp) : Sexp :=
  let cs := evalConsts ((args[1]!).args)
  ofOutcome (fun is => [Sexp.list (is.map ofCInstr)]) (X.compile ((args.drop 2).map (toStmt cs)))

def kindName : X.Kind → String
  | .timeLabel => "t" | .instr => "i" | .interrupt => "n" | .label _ => "l" | .goto _ _ => "g"
  | .timeof _ => "i" | .block => "b" | .item => "f"

def xvisit (args : List Sexp) : Sexp :=
  ofOutcome (fun rs => [Sexp.list (rs.map fun r => Sexp.list [.atom (kindName r.kind), Sexp.int r.time.toInt, Sexp.nat r.mask.toNat])])
    (X.run (args.map (toStmt (fun _ => none))))

def toRInstr (s : Sexp) : X.RInstr :=
  let a := s.args
  let time := Int32.ofInt (a[0]!).asInt
  let mask := UInt8.ofNat (a[1]!).asNat
  match s.head? with
  | some "j" =>
    let tm : Option Int32 := if (a[3]!).asAtom == "none" then none else some (Int32.ofInt (a[3]!).asInt)
    { time, mask, kind := .jump (a[2]!).asNat tm }
  | some "n" => { time, mask, kind := .interrupt }
  | _ => { time, mask, kind := .plain }

def ofLabel : LabelName → Sexp
  | .dest i => Sexp.list [.atom "n", Sexp.nat i]
  | .before i => Sexp.list [.atom "r", Sexp.nat i]
  | .start => Sexp.list [.atom "start"]

def ofTm : Option Int32 → Sexp
  | some v => Sexp.int v.toInt
  | none => .atom "none"

def ofOut : X.Out → Sexp
  | .label n => Sexp.list (.atom "lab" :: (ofLabel n).items)
  | .abs v => Sexp.app "abs" [Sexp.int v.toInt]
  | .rel d => Sexp.app "rel" [Sexp.int d.toInt]
  | .instr m => Sexp.app "ins" [Sexp.nat m.toNat]
  | .interrupt m => Sexp.app "int" [Sexp.nat m.toNat]
  | .goto m d tm => Sexp.app "goto" [Sexp.nat m.toNat, ofLabel d, ofTm tm]
  | .jumpO m d => Sexp.app "jo" [Sexp.nat m.toNat, ofLabel d]

def xraise (args : List Sexp) : Sexp :=
  ofOutcome (fun os => [Sexp.list (os.map ofOut)]) (X.raise ((args.drop 1).map toRInstr))

end TruthModel.Driver.C13X
