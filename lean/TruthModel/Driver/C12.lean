import TruthModel.Model.Abi
import TruthModel.Driver.Sexp
import TruthModel.Driver.C12Parts
/- Driver glue for C12: S-expression case -> `TruthModel.Abi` -> canonical result (the format of
`harness/src/props/c12.rs`).  Trusted glue, no theorem depends on it. -/
namespace TruthModel.Driver.C12
open TruthModel TruthModel.Abi

def hexDigitVal (c : Char) : Nat :=
  if c.toNat ≥ 48 && c.toNat ≤ 57 then c.toNat - 48
  else if c.toNat ≥ 97 && c.toNat ≤ 102 then c.toNat - 87
  else 0

/-- `x6162` -> bytes -/
def unhex (s : String) : Bytes :=
  let cs := s.toList.drop 1
  let rec go : List Char → Bytes
    | a :: b :: rest => UInt8.ofNat (hexDigitVal a * 16 + hexDigitVal b) :: go rest
    | _ => []
  go cs

def hex (b : Bytes) : String :=
  b.foldl (fun acc x => (acc.push (Sexp.hexDigit (x.toNat / 16))).push (Sexp.hexDigit (x.toNat % 16))) "x"

def letterInfo : String → IntW × Bool
  | "S" | "n" | "N" | "E" => (.w4, true)
  | "U" | "C" => (.w4, false)
  | "s" => (.w2, true)
  | "u" => (.w2, false)
  | "c" => (.w1, true)
  | _ => (.w1, false)

def flag (s : Sexp) : Bool := s.asInt != 0

def toEnc (s : Sexp) : Enc :=
  let a := s.args
  match s.head? with
  | some "i" =>
    let (w, signed) := letterInfo (a[0]!).asAtom
    .int w signed (flag a[1]!) (flag a[2]!)
  | some "o" => .jumpOffset
  | some "t" => .jumpTime
  | some "pad" => .padding ((a[0]!).asInt == 4)
  | some "f" => .float (flag a[0]!)
  | some "z" =>
    let letter := (a[0]!).asAtom
    let n := (a[2]!).asNat
    let size : StrSize :=
      if (a[1]!).asAtom == "len" then .fixed n (flag a[3]!)
      else if letter == "p" then .pascal n else .toBlobEnd n
    .str size ⟨UInt8.ofNat (a[4]!).asNat, UInt8.ofNat (a[5]!).asNat, UInt8.ofNat (a[6]!).asNat⟩ (flag a[7]!)
  | _ => .padding false

def toAbi (s : Sexp) : Abi := s.items.map toEnc

def toArg (s : Sexp) : Arg :=
  let a := s.args
  match s.head? with
  | some "i" => .int (a[0]!).asInt (flag a[1]!)
  | some "f" => .float (UInt32.ofNat (a[0]!).asNat) (flag a[1]!)
  | _ => .str (unhex (a[0]!).asAtom)

def ofArg : Arg → Sexp
  | .int v r => Sexp.app "i" [Sexp.int v, Sexp.nat (if r then 1 else 0)]
  | .float b r => Sexp.app "f" [Sexp.nat b.toNat, Sexp.nat (if r then 1 else 0)]
  | .str s => Sexp.app "s" [.atom (hex s)]

def ofRaw (r : Raw) : Sexp :=
  Sexp.app "raw" [.atom (hex r.blob), Sexp.nat r.mask, match r.arg0 with | some v => Sexp.int v | none => .atom "none"]

def toRaw (s : Sexp) : Nat × Raw :=
  let l := s.items
  ((l[0]!).asNat, ⟨unhex (l[1]!).asAtom, (l[2]!).asNat,
    if (l[3]!).asAtom == "none" then none else some (l[3]!).asInt⟩)

def strs (head : String) (xs : List String) : Sexp := Sexp.app head (xs.map .str)

def xorAt (b : Bytes) (pos : Nat) (x : UInt8) : Bytes :=
  b.mapIdx fun i v => if i == pos then v ^^^ x else v

def mutate (raws : List Raw) (m : Sexp) : List Raw :=
  let a := m.args
  let ins := (a[0]!).asNat
  raws.mapIdx fun i r =>
    if i != ins then r else
    match m.head? with
    | some "byte" => { r with blob := xorAt r.blob (a[1]!).asNat (UInt8.ofNat (a[2]!).asNat) }
    | some "byte-from-end" =>
      let pos := (a[1]!).asNat
      if pos < r.blob.length then { r with blob := xorAt r.blob (r.blob.length - 1 - pos) (UInt8.ofNat (a[2]!).asNat) } else r
    | some "mask" => { r with mask := r.mask ^^^ (a[1]!).asNat }
    | some "truncate" => { r with blob := r.blob.take (r.blob.length - (a[1]!).asNat) }
    | some "extend" => { r with blob := r.blob ++ unhex (a[1]!).asAtom }
    | _ => r

/-- decode every instruction (first error wins), then compile the decoded calls again -/
def decodeAndReencode (abis : List Abi) (items : List (Nat × Raw)) : List Sexp :=
  let rec dec : List (Nat × Raw) → Outcome (List (Nat × List Arg) × List String)
    | [] => .ok ([], [])
    | (k, r) :: rest =>
      match decompileCall (abis.getD k []) r with
      | .ok (args, w) =>
        match dec rest with
        | .ok (xs, ws) => .ok ((k, args) :: xs, w ++ ws)
        | o => o
      | .err c => .err c
      | .panic p => .panic p
  match dec items with
  | .ok (calls, ws) =>
    let re := match compileSeq true none (calls.map fun (k, args) => (abis.getD k [], args)) with
      | .ok (raws, _) => Sexp.app "re" (raws.map ofRaw)
      | .err c => strs "reerr" [c]
      | .panic p => Sexp.app "panic" [.str "model", .str p]
    [Sexp.app "dec" (calls.map fun (_, args) => .list (args.map ofArg)), strs "dw" ws, re]
  | .err c => [strs "decerr" [c]]
  | .panic p => [Sexp.app "panic" [.str "model", .str p]]

def handleCall (case : Sexp) : Sexp :=
  let a := case.args
  let abis := (a[1]!).items.map toAbi
  let calls : List (Nat × List Arg) := (a[2]!).items.map fun c => ((c.items[0]!).asNat, (c.items.drop 1).map toArg)
  let muts := (a[3]?.map Sexp.items).getD []
  match compileSeq true none (calls.map fun (k, args) => (abis.getD k [], args)) with
  | .err c => strs "err" [c]
  | .panic p => Sexp.app "panic" [.str "model", .str p]
  | .ok (raws, cw) =>
    let raws1 := muts.foldl mutate raws
    let ks := calls.map (·.1)
    let mutPart := if muts.isEmpty then [] else [Sexp.app "mut" (raws1.map ofRaw)]
    Sexp.app "ok" ([strs "cw" cw, Sexp.app "ins" (raws.map ofRaw)] ++ mutPart ++ decodeAndReencode abis (ks.zip raws1))

def handleBlob (case : Sexp) : Sexp :=
  let a := case.args
  let abis := (a[1]!).items.map toAbi
  Sexp.app "ok" (decodeAndReencode abis ((a[2]!).items.map toRaw))

def handleSig (case : Sexp) : Sexp :=
  let a := case.args
  let timeline := (a[0]!).asAtom == "timeline"
  let abi := toAbi a[1]!
  -- `validate_against_language`: arg0 only in th06/th07 timelines
  if validAbi abi && (timeline || !(abi.any Enc.isArg0)) then Sexp.app "accept" [] else Sexp.app "reject" []

def handle (case : Sexp) : Sexp :=
  match case.head? with
  | some "call" | some "mutate" | some "call17" => handleCall case
  | some "blob" => handleBlob case
  | some "sig" => handleSig case
  | some "parts" => Driver.C12Parts.handleParts case
  | some "cstr" => Driver.C12Parts.handleCstr case
  | _ => .atom "bad-case"

end TruthModel.Driver.C12
