import TruthModel.Model.Types
import TruthModel.Driver.Sexp
import TruthModel.Driver.C11
/-
Driver glue for C09: S-expression -> `Ctx` / `TExpr` / `Stmts` -> `check` / `checkStmts codeCfg`
-> canonical result.  Case grammar (shared with harness/src/props/c09.rs):

  case  ::= (prog CTX (STMT*)) | (expr CTX EXPR)
  CTX   ::= (ctx (regs (ID VT)*) (vars (ID VT [c])*) (sigs (OPCODE (VT r|o)*)*))  VT ::= i | f | s | u
            (`c` marks a `const` variable)
  EXPR  ::= (i N) | (f BITS) | (s "..") | (reg ID SIG) | (var ID SIG) | (un OP E) | (bin OP A B)
          | (tern C L R) | (call OPCODE E*)                                       SIG ::= i | f | n
  STMT  ::= (estmt E) | (assign REF AOP E) | (decl ID) | (decl ID E) | (const ID E)
          | (if C (S*) (S*)) | (ifelif C (S*) (S*)) | (ifnoelse C (S*))
          | (while C (S*)) | (dowhile C (S*)) | (loop (S*)) | (times C (S*)) | (timesc REF C (S*))
          | (cjump KW KIND LABEL C) | (inert ...) | (block (S*)) | (ret) | (ret E)
          | (func NAME RT (S*)) | (script NAME (S*)) | (interrupt E) | (reltime E)
  REF   ::= (ref r|v ID SIG)

Extended cases (the constructs added to the model later; same handlers, the harness keeps the
two streams apart so that other properties that reuse the `prog` / `pipe` stream see it unchanged):

  case  ::= ... | (xprog CTX (STMT*)) | (xexpr CTX EXPR)
  CTX   ::= (ctx (regs ..) (vars ..) (sigs ..) (enums (ID i|s)*) (funcs (ID RT VT*)*))
            RT ::= int | float | string | void
  EXPR  ::= ... | (sw E CASE*)  CASE ::= _ | EXPR          difficulty switch, `_` = blank case
          | (xcr pre|post inc|dec REF)                       `++v` `v++` `--v` `v--`
          | (enum ENUM NAME)                                 `Enum.Name`
          | (lprop offsetof|timeof LABEL)
          | (callx i|u F ((ps KIND E)*) E*)                  KIND ::= pop | arg0 | nargs | mask | blob
  STMT  ::= ... | (decls (d ID [E])*) | (consts (d ID E)*) | (func NAME RT (S*) (params ID*) QUAL)
-/
namespace TruthModel.Driver.C09
open TruthModel TruthModel.Types

def varTyOf : String → VarTy
  | "i" => .typed .int
  | "f" => .typed .float
  | "s" => .typed .str
  | _ => .untyped

def lookupTy (tbl : List (Nat × VarTy)) (n : Nat) : VarTy :=
  match tbl.find? (·.1 == n) with
  | some (_, t) => t
  | none => .untyped

def pairs (s : Sexp) : List (Nat × VarTy) :=
  s.args.map fun p => ((p.items[0]!).asNat, varTyOf (p.items[1]!).asAtom)

def etyOf : String → ETy
  | "int" => .value .int
  | "float" => .value .float
  | "string" => .value .str
  | _ => .void

def toRef (s : Sexp) : VarRef :=
  let a := s.args
  { isReg := (a[0]!).asAtom == "r", id := (a[1]!).asNat, sig := Driver.C11.sigOf (a[2]!).asAtom }

def pseudoKindOf : String → PseudoKind
  | "pop" => .pop | "arg0" => .arg0 | "nargs" => .nargs | "mask" => .mask | _ => .blob

def paramOf (p : Sexp) : Param :=
  { ty := varTyOf (p.items[0]!).asAtom, optional := (p.items[1]!).asAtom == "o" }

def toCtx (c : Sexp) : Ctx :=
  let a := c.args
  let regs := pairs a[0]!
  let vars := pairs a[1]!
  let sigs : List (Nat × List Param) := (a[2]!).args.map fun s =>
    ((s.items[0]!).asNat, (s.items.drop 1).map paramOf)
  let consts : List Nat := (a[1]!).args.filterMap fun p =>
    match p.items[2]? with
    | some m => if m.asAtom == "c" then some (p.items[0]!).asNat else none
    | none => none
  let enums : List (Nat × Bool) := match a[3]? with
    | some e => e.args.map fun p => ((p.items[0]!).asNat, (p.items[1]!).asAtom == "s")
    | none => []
  let funcs : List (Nat × (List VarTy × ETy)) := match a[4]? with
    | some fs => fs.args.map fun p =>
        ((p.items[0]!).asNat, ((p.items.drop 2).map fun t => varTyOf t.asAtom, etyOf (p.items[1]!).asAtom))
    | none => []
  { regTy := lookupTy regs
    varTy := lookupTy vars
    sig := fun f => (sigs.find? (·.1 == f)).map (·.2)
    isConst := fun n => consts.contains n
    enumStr := fun en => match enums.find? (·.1 == en) with
      | some (_, b) => b
      | none => false
    fsig := fun f => match funcs.find? (·.1 == f) with
      | some (_, sg) => sg
      | none => ([], .void) }

mutual
partial def toExpr (s : Sexp) : TExpr :=
  let a := s.args
  match s.head? with
  | some "i" => .litI (Int32.ofInt (a[0]!).asInt)
  | some "f" => .litF (UInt32.ofNat (a[0]!).asNat)
  | some "s" => .litS (a[0]!).asAtom
  | some "reg" => .reg (a[0]!).asNat (Driver.C11.sigOf (a[1]!).asAtom)
  | some "var" => .var (a[0]!).asNat (Driver.C11.sigOf (a[1]!).asAtom)
  | some "un" => .unop (Driver.C11.unopOfName (a[0]!).asAtom) (toExpr a[1]!)
  | some "bin" => .binop (Driver.C11.binopOfName (a[0]!).asAtom) (toExpr a[1]!) (toExpr a[2]!)
  | some "tern" => .ternary (toExpr a[0]!) (toExpr a[1]!) (toExpr a[2]!)
  | some "call" => .call (a[0]!).asNat (toArgs (a.drop 1))
  | some "sw" => .diffSwitch (toExpr a[0]!) (toCases (a.drop 1))
  | some "xcr" => .xcrement ((a[0]!).asAtom == "pre") ((a[1]!).asAtom == "inc") (toRef a[2]!)
  | some "enum" => .enumConst (a[0]!).asNat (a[1]!).asNat
  | some "lprop" => .labelProp (a[1]!).asNat
  | some "callx" => .callx ((a[0]!).asAtom == "u") (a[1]!).asNat (toPseudos (a[2]!).items) (toArgs (a.drop 3))
  | _ => .litI 0
partial def toArgs : List Sexp → TArgs
  | [] => .nil
  | x :: xs => .cons (toExpr x) (toArgs xs)
partial def toCases : List Sexp → TCases
  | [] => .nil
  | x :: xs => match x.head? with
    | some _ => .case (toExpr x) (toCases xs)
    | none => .blank (toCases xs)
partial def toPseudos : List Sexp → TPseudos
  | [] => .nil
  | x :: xs => .cons (pseudoKindOf (x.args[0]!).asAtom) (toExpr (x.args[1]!)) (toPseudos xs)
end

def assignOpOf : String → AssignOp
  | "assign" => .assign | "add" => .add | "sub" => .sub | "mul" => .mul | "div" => .div
  | "rem" => .rem | "bor" => .bor | "xor" => .xor | "band" => .band | "shl" => .shl
  | "shr" => .shr | _ => .ushr

mutual
partial def toStmt (s : Sexp) : Stmt :=
  let a := s.args
  match s.head? with
  | some "estmt" => .exprStmt (toExpr a[0]!)
  | some "assign" => .assign (toRef a[0]!) (assignOpOf (a[1]!).asAtom) (toExpr a[2]!)
  | some "decl" => .decl (a[0]!).asNat (match a[1]? with | some e => some (toExpr e) | none => none)
  | some "const" => .constDecl (a[0]!).asNat (toExpr a[1]!)
  | some "if" => .ite (toExpr a[0]!) (toStmts (a[1]!).items) (toStmts (a[2]!).items)
  | some "ifelif" => .ite (toExpr a[0]!) (toStmts (a[1]!).items) (toStmts (a[2]!).items)
  | some "ifnoelse" => .ite (toExpr a[0]!) (toStmts (a[1]!).items) .nil
  | some "while" => .while_ (toExpr a[0]!) (toStmts (a[1]!).items)
  | some "dowhile" => .doWhile (toExpr a[0]!) (toStmts (a[1]!).items)
  | some "loop" => .loop (toStmts (a[0]!).items)
  | some "times" => .times none (toExpr a[0]!) (toStmts (a[1]!).items)
  | some "timesc" => .times (some (toRef a[0]!)) (toExpr a[1]!) (toStmts (a[2]!).items)
  | some "cjump" => .condJump (toExpr a[3]!)
  | some "inert" => .inert
  | some "block" => .block (toStmts (a[0]!).items)
  | some "ret" => .ret (match a[0]? with | some e => some (toExpr e) | none => none)
  | some "func" => .func (etyOf (a[1]!).asAtom) (toStmts (a[2]!).items)
  | some "script" => .script (toStmts (a[1]!).items)
  | some "interrupt" => .interruptLabel (toExpr a[0]!)
  | some "reltime" => .relTimeLabel (toExpr a[0]!)
  | some "decls" => .decls (a.map fun d =>
      ((d.args[0]!).asNat, match d.args[1]? with | some e => some (toExpr e) | none => none))
  | some "consts" => .constDecls (a.map fun d => ((d.args[0]!).asNat, toExpr (d.args[1]!)))
  | _ => .inert
partial def toStmts : List Sexp → Stmts
  | [] => .nil
  | x :: xs => .cons (toStmt x) (toStmts xs)
end

def etyName : ETy → String
  | .void => "void"
  | .value .int => "int"
  | .value .float => "float"
  | .value .str => "string"

def handle (case : Sexp) : Sexp :=
  let a := case.args
  match case.head? with
  | some "prog" | some "xprog" =>
    match checkStmts codeCfg (toCtx a[0]!) none (toStmts (a[1]!).items) with
    | .ok () => Sexp.app "ok" []
    | .err c => Sexp.app "err" [.str c]
    | .panic s => Sexp.app "panic" [.str "model", .str s]
  | some "expr" | some "xexpr" =>
    match check (toCtx a[0]!) (toExpr a[1]!) with
    | .ok t => Sexp.app "ok" [.atom (etyName t)]
    | .err c => Sexp.app "err" [.str c]
    | .panic s => Sexp.app "panic" [.str "model", .str s]
  | _ => .atom "bad-case"

end TruthModel.Driver.C09
