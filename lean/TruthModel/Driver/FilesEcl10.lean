import TruthModel.Model.FilesEcl10
import TruthModel.Driver.C03
/-
Driver glue for the stack ECL container model (TH10 and later; C03 / C16).

  (recl10 <game> (<text table>) x<file>)              ->  (ok <structure>) | (err c) | (panic file msg)
  (wecl10 <game> (<text table>) <structure>)          ->  (ok x<file>)     | (err c) | (panic file msg)
  (rinstrs10 x<bytes>)                                ->  (ok (i10 ..) ...) | (err c)
  (winstrs10 (i10 ..) ...)                            ->  (ok x<bytes>)    | (err c)

Structure:

  (ecl10 (anim x<utf8> ...) (ecli x<utf8> ...) (subs (s x<utf8 name> (i10 time opcode mask difficulty argcount pop x<blob>) ...) ...))

Text is printed as the hex of its UTF-8 bytes.  The text <-> bytes step of the model (`Abi.Sjis`) is
instantiated per case from the table the harness computed with `encoding_rs`:

  read table:  (x<raw bytes> x<utf8 of the decoding>|none) for every NUL-terminated segment of the file that is not plain ASCII
  write table: (x<utf8 of a string> x<encoded bytes>|none) for every string of the structure that is not plain ASCII

Plain ASCII is the identity in both directions.
-/
namespace TruthModel.Driver.FilesEcl10
open TruthModel TruthModel.InstrIO TruthModel.Files TruthModel.Driver.C03

/-- tail-recursive hex decoder (whole files); same as `Driver.Files.ofHexFast` -/
def ofHexFast (s : String) : Bytes :=
  let b := s.toUTF8
  let start := if b.size > 0 && b[0]! == 120 then 1 else 0
  let hv (c : UInt8) : UInt8 := if c >= 48 && c <= 57 then c - 48 else if c >= 97 then c - 87 else c - 55
  let n := (b.size - start) / 2
  let rec go : Nat → Bytes → Bytes
    | 0, acc => acc
    | k + 1, acc => go k ((hv b[start + 2 * k]! * 16 + hv b[start + 2 * k + 1]!) :: acc)
  go n []

def fileOutcome {α} (f : α → List Sexp) : Outcome α → Sexp
  | .ok a => Sexp.app "ok" (f a)
  | .err c => Sexp.app "err" [.str c]
  | .panic s =>
    match s.splitOn ": " with
    | file :: msg :: rest => Sexp.app "panic" [.str ("/repo/" ++ file), .str (": ".intercalate (msg :: rest))]
    | _ => Sexp.app "panic" [.str "model", .str s]

def textOfUtf8 (b : Bytes) : Text :=
  match String.fromUTF8? (ByteArray.mk b.toArray) with
  | some s => s.toList
  | none => []

def utf8OfText (t : Text) : Bytes := (String.ofList t).toUTF8.data.toList

def textSexp (t : Text) : Sexp := .atom (toHex (utf8OfText t))
def textOf (s : Sexp) : Text := textOfUtf8 (ofHexFast s.asAtom)

def asciiDec (b : Bytes) : Option Text :=
  if b.all (· < 128) then some (b.map fun x => Char.ofNat x.toNat) else none

def asciiEnc (s : Text) : Option Bytes :=
  if s.all (fun c => c.toNat < 128) then some (s.map fun c => UInt8.ofNat c.toNat) else none

/-- the codec of one case: the table first, plain ASCII otherwise -/
def sjOfTable (table : List Sexp) (reading : Bool) : Abi.Sjis :=
  if reading then
    let t : List (Bytes × Option Text) := table.map fun e =>
      let x := e.items
      (ofHexFast (x[0]!).asAtom, if (x[1]!).asAtom == "none" then none else some (textOf (x[1]!)))
    { dec := fun b => match t.lookup b with | some r => r | none => asciiDec b, enc := asciiEnc }
  else
    let t : List (Text × Option Bytes) := table.map fun e =>
      let x := e.items
      (textOf (x[0]!), if (x[1]!).asAtom == "none" then none else some (ofHexFast (x[1]!).asAtom))
    { enc := fun s => match t.lookup s with | some r => r | none => asciiEnc s, dec := asciiDec }

def instr10Sexp (i : Instr10) : Sexp :=
  Sexp.app "i10" [Sexp.int i.time, Sexp.nat i.opcode, Sexp.nat i.mask, Sexp.nat i.difficulty, Sexp.nat i.argCount,
    Sexp.nat i.pop, .atom (toHex i.blob)]

def instr10Of (s : Sexp) : Instr10 :=
  let a := s.args
  { time := (a[0]!).asInt, opcode := (a[1]!).asNat, mask := (a[2]!).asNat, difficulty := (a[3]!).asNat,
    argCount := (a[4]!).asNat, pop := (a[5]!).asNat, blob := ofHexFast (a[6]!).asAtom }

def ecl10Sexp (f : Ecl10File) : Sexp :=
  Sexp.app "ecl10" [Sexp.app "anim" (f.anim.map textSexp), Sexp.app "ecli" (f.ecli.map textSexp),
    Sexp.app "subs" (f.subs.map fun (n, is) => Sexp.app "s" (textSexp n :: is.map instr10Sexp))]

def ecl10Of (s : Sexp) : Ecl10File :=
  let a := s.args
  { anim := (a[0]!).args.map textOf, ecli := (a[1]!).args.map textOf,
    subs := (a[2]!).args.map fun x => let y := x.args; (textOf (y[0]!), (y.drop 1).map instr10Of) }

def handle (case : Sexp) : Sexp :=
  let a := case.args
  match case.head? with
  | some "recl10" =>
    let sj := sjOfTable (a[1]!).items true
    fileOutcome (fun f => [ecl10Sexp f]) (readEcl10 sj (ofHexFast (a[2]!).asAtom))
  | some "wecl10" =>
    let sj := sjOfTable (a[1]!).items false
    fileOutcome (fun b => [Sexp.atom (toHex b)]) (writeEcl10 sj (ecl10Of (a[2]!)))
  | some "rinstrs10" =>
    let bytes := ofHexFast (a[0]!).asAtom
    fileOutcome (fun is => is.map instr10Sexp) (readInstrs10 (some bytes.length) 0 bytes)
  | some "winstrs10" =>
    fileOutcome (fun b => [Sexp.atom (toHex b)]) (writeInstrs10 (a.map instr10Of))
  | _ => .atom "bad-case"

end TruthModel.Driver.FilesEcl10
