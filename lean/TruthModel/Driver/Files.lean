import TruthModel.Model.Files
import TruthModel.Model.FilesEcl
import TruthModel.Driver.C03
import TruthModel.Driver.FilesAnm
import TruthModel.Driver.FilesEcl10
/-
Driver glue for the container-level models (C03 / C16): whole files.

  (rfile <kind> <variant> (<undecodable strings as hex>...) x<hex>)  ->  (ok <structure>) | (err c) | (panic ..)
  (wfile <kind> <variant> <structure>)                               ->  (ok x<hex>)      | (err c) | (panic ..)

kind/variant: msg flags|noflags, std f06|f10, mission th095|th125, ecl th06|th07|th08|th09|th095.
Everything else is handed to `Driver.C03.handle` (instruction level).
-/
namespace TruthModel.Driver.Files
open TruthModel TruthModel.InstrIO TruthModel.Files TruthModel.Driver.C03

/-- tail-recursive hex decoder (whole files) -/
def ofHexFast (s : String) : Bytes :=
  let b := s.toUTF8
  let start := if b.size > 0 && b[0]! == 120 then 1 else 0
  let hv (c : UInt8) : UInt8 := if c >= 48 && c <= 57 then c - 48 else if c >= 97 then c - 87 else c - 55
  let n := (b.size - start) / 2
  let rec go : Nat → Bytes → Bytes
    | 0, acc => acc
    | k + 1, acc => go k ((hv b[start + 2 * k]! * 16 + hv b[start + 2 * k + 1]!) :: acc)
  go n []

/-- panic sites of the container models are `"<source file>: <message>"`; printed like the
harness prints a caught panic of the implementation (file without line number) -/
def fileOutcome {α} (f : α → List Sexp) : Outcome α → Sexp
  | .ok a => Sexp.app "ok" (f a)
  | .err c => Sexp.app "err" [.str c]
  | .panic s =>
    match s.splitOn ": " with
    | file :: msg :: rest => Sexp.app "panic" [.str ("/repo/" ++ file), .str (": ".intercalate (msg :: rest))]
    | _ => Sexp.app "panic" [.str "model", .str s]

def hexA (b : Bytes) : Sexp := .atom (toHex b)

def f2S (v : F2) : List Sexp := [Sexp.nat v.x.toNat, Sexp.nat v.y.toNat]
def f3S (v : F3) : List Sexp := [Sexp.nat v.x.toNat, Sexp.nat v.y.toNat, Sexp.nat v.z.toNat]
def u32Of (s : Sexp) : UInt32 := UInt32.ofNat s.asNat
def u16Of (s : Sexp) : UInt16 := UInt16.ofNat s.asNat
def f3Of (a : List Sexp) (i : Nat) : F3 := ⟨u32Of (a[i]!), u32Of (a[i+1]!), u32Of (a[i+2]!)⟩
def f2Of (a : List Sexp) (i : Nat) : F2 := ⟨u32Of (a[i]!), u32Of (a[i+1]!)⟩

def instrsOf (xs : List Sexp) : List Instr := xs.map fun i => instrOf i.args

/-! ### MSG -/

def msgSexp (m : MsgFile) : Sexp :=
  Sexp.app "msg" [
    Sexp.app "table" (m.table.map fun e => Sexp.app "e" [
      (match e.script with | none => .atom "zero" | some n => Sexp.nat n), Sexp.nat e.flags.toNat]),
    Sexp.app "scripts" (m.scripts.map fun (n, is) => Sexp.app "s" (Sexp.nat n :: is.map instrSexp))]

def msgOf (s : Sexp) : MsgFile :=
  let a := s.args
  { table := (a[0]!).args.map fun e =>
      let x := e.args
      { script := if (x[0]!).asAtom == "zero" then none else some (x[0]!).asNat, flags := u32Of (x[1]!) },
    scripts := (a[1]!).args.map fun sc =>
      let x := sc.args
      ((x[0]!).asNat, instrsOf (x.drop 1)) }

/-! ### STD -/

def quadSexp : Quad → Sexp
  | .rect anm pos size => Sexp.app "rect" (Sexp.nat anm.toNat :: f3S pos ++ f2S size)
  | .strip anm a b w => Sexp.app "strip" (Sexp.nat anm.toNat :: f3S a ++ f3S b ++ [Sexp.nat w.toNat])

def quadOf (s : Sexp) : Quad :=
  let a := s.args
  if s.head? == some "rect" then .rect (u16Of (a[0]!)) (f3Of a 1) (f2Of a 4)
  else .strip (u16Of (a[0]!)) (f3Of a 1) (f3Of a 4) (u32Of (a[7]!))

def extraSexp : StdExtra → Sexp
  | .th06 st n0 n1 n2 n3 p0 p1 p2 p3 => Sexp.app "extra06" ([st, n0, n1, n2, n3, p0, p1, p2, p3].map hexA)
  | .th10 p => Sexp.app "extra10" [hexA p]

def extraOf (s : Sexp) : StdExtra :=
  let a := s.args.map fun x => ofHexFast x.asAtom
  if s.head? == some "extra06" then .th06 (a[0]!) (a[1]!) (a[2]!) (a[3]!) (a[4]!) (a[5]!) (a[6]!) (a[7]!) (a[8]!)
  else .th10 (a[0]!)

def stdSexp (f : StdFile) : Sexp :=
  Sexp.app "std" [Sexp.nat f.unknown.toNat, extraSexp f.extra,
    Sexp.app "objects" (f.objects.map fun (n, o) =>
      Sexp.app "o" ([Sexp.nat n, Sexp.nat o.layer.toNat] ++ f3S o.pos ++ f3S o.size ++ [Sexp.app "quads" (o.quads.map quadSexp)])),
    Sexp.app "instances" (f.instances.map fun x =>
      Sexp.app "i" ([Sexp.nat x.object, Sexp.nat x.unknown.toNat] ++ f3S x.pos)),
    Sexp.app "script" (f.script.map instrSexp)]

def stdOf (s : Sexp) : StdFile :=
  let a := s.args
  { unknown := u32Of (a[0]!), extra := extraOf (a[1]!),
    objects := (a[2]!).args.map fun o =>
      let x := o.args
      ((x[0]!).asNat, { layer := u16Of (x[1]!), pos := f3Of x 2, size := f3Of x 5, quads := (x[8]!).args.map quadOf }),
    instances := (a[3]!).args.map fun i =>
      let x := i.args
      { object := (x[0]!).asNat, unknown := u16Of (x[1]!), pos := f3Of x 2 },
    script := instrsOf (a[4]!).args }

/-! ### mission -/

def missionSexp (es : List MissionEntry) : Sexp :=
  Sexp.app "mission" (es.map fun e => Sexp.app "e" [
    Sexp.nat e.stage.toNat, Sexp.nat e.scene.toNat, Sexp.nat e.player.toNat, Sexp.nat e.unknown1.toNat,
    Sexp.nat e.unknown2.toNat, Sexp.nat e.a.toNat, Sexp.nat e.b.toNat,
    Sexp.app "fur" (e.furigana.map fun x => Sexp.nat x.toNat), Sexp.app "text" (e.text.map hexA)])

def missionOf (s : Sexp) : List MissionEntry :=
  s.args.map fun e =>
    let x := e.args
    { stage := u16Of (x[0]!), scene := u16Of (x[1]!), player := u16Of (x[2]!), unknown1 := UInt8.ofNat (x[3]!).asNat,
      unknown2 := UInt8.ofNat (x[4]!).asNat, a := u32Of (x[5]!), b := u32Of (x[6]!),
      furigana := (x[7]!).args.map u32Of, text := (x[8]!).args.map fun t => ofHexFast t.asAtom }

/-! ### old ECL -/

def eclSexp (e : EclFile) : Sexp :=
  Sexp.app "ecl" [Sexp.app "subs" (e.subs.map fun is => Sexp.app "s" (is.map instrSexp)),
    Sexp.app "timelines" (e.timelines.map fun is => Sexp.app "s" (is.map instrSexp))]

def eclOf (s : Sexp) : EclFile :=
  let a := s.args
  { subs := (a[0]!).args.map fun x => instrsOf x.args, timelines := (a[1]!).args.map fun x => instrsOf x.args }

def eclFmtOf : String → EclFmt
  | "th06" => eclTh06 | "th07" => eclTh07 | "th08" => eclTh08 | "th09" => eclTh09 | _ => eclTh095

def handle (case : Sexp) : Sexp :=
  let a := case.args
  match case.head? with
  | some "rfile" =>
    let kind := (a[0]!).asAtom
    let variant := (a[1]!).asAtom
    let bad : List Bytes := (a[2]!).items.map fun x => ofHexFast x.asAtom
    let decOk : Bytes → Bool := fun s => !bad.contains s
    let bytes := ofHexFast (a[3]!).asAtom
    match kind with
    | "msg" => fileOutcome (fun m => [msgSexp m]) (readMsg (variant == "flags") bytes)
    | "std" => fileOutcome (fun m => [stdSexp m]) (readStd decOk (if variant == "f06" then .f06 else .f10) bytes)
    | "mission" => fileOutcome (fun m => [missionSexp m]) (readMission decOk (if variant == "th095" then .th095 else .th125) bytes)
    | "ecl" => fileOutcome (fun m => [eclSexp m]) (readEcl (eclFmtOf variant) bytes)
    | _ => .atom "bad-case"
  | some "wfile" =>
    let kind := (a[0]!).asAtom
    let variant := (a[1]!).asAtom
    let hexOut := fun (b : Bytes) => [Sexp.atom (toHex b)]
    match kind with
    | "msg" => fileOutcome hexOut (writeMsg (variant == "flags") (msgOf (a[2]!)))
    | "std" => fileOutcome hexOut (writeStd (if variant == "f06" then .f06 else .f10) (stdOf (a[2]!)))
    | "mission" => fileOutcome hexOut (writeMission (if variant == "th095" then .th095 else .th125) (missionOf (a[2]!)))
    | "ecl" => fileOutcome hexOut (writeEcl (eclFmtOf variant) (eclOf (a[2]!)))
    | _ => .atom "bad-case"
  | some "ranm" => Driver.FilesAnm.handle case
  | some "wanm" => Driver.FilesAnm.handle case
  | some "recl10" => Driver.FilesEcl10.handle case
  | some "wecl10" => Driver.FilesEcl10.handle case
  | some "rinstrs10" => Driver.FilesEcl10.handle case
  | some "winstrs10" => Driver.FilesEcl10.handle case
  | _ => Driver.C03.handle case

end TruthModel.Driver.Files
