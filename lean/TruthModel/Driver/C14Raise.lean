import TruthModel.Model.DiffRaise
import TruthModel.Driver.Sexp
/-
Driver glue for the decompile direction of C14 (trusted, not part of any theorem).

  (raise GAME (LINE...) ((OP "sig")...) INSTR...)
      LINE  ::= (INDEX "cs")                      one `!difficulty_flags` line
      INSTR ::= (ins T OP MASK ARG...)            plain instruction, signature from the table; ARG = the dword
              | (set T OP MASK REG ARG FLT)       assignment intrinsic `REG = ARG` (FLT: the value is a float)
              | (cmp T OP MASK A B FLT)           EoSD compare intrinsic (no statement syntax)
              | (jmp T OP MASK TARGET)            jump intrinsic to the instruction with index TARGET
  -> (ok STMT...)
      STMT ::= (st TIME LAB LABEL ins OP (ARG...)) | (st TIME LAB LABEL set REG (ARG)) | (st TIME LAB LABEL jmp)
      LAB ::= 0 | 1 (an offset label in front)   LABEL ::= "text" | none   ARG ::= N | (sw N|_ ...)
-/
namespace TruthModel.Driver.C14Raise
open TruthModel TruthModel.Diff TruthModel.DiffRaise

def toLines (s : Sexp) : List (Int × List Char) :=
  s.items.map fun l => ((l.items[0]!).asInt, (l.items[1]!).asAtom.toList)

def errOf {α} : Outcome α → Sexp
  | .err c => Sexp.app "err" [.str c]
  | .panic s => Sexp.app "panic" [.str "model", .str s]
  | .ok _ => .atom "ok"

def i32 (s : Sexp) : Int32 := Int32.ofInt s.asInt

/-- one described instruction -> what early raising hands to recognition (label flag filled in later) -/
def toInstr (s : Sexp) : RInstr :=
  let a := s.args
  let base : RInstr := { time := i32 a[0]!, opcode := (a[1]!).asNat, mask := BitVec.ofNat 8 (a[2]!).asNat, label := false,
                         kind := .intr, fixed := [], args := [] }
  match s.head? with
  | some "ins" => { base with kind := .ins, args := (a.drop 3).map i32 }
  | some "set" => { base with fixed := [i32 a[3]!], args := [i32 a[4]!] }
  | some "cmp" => { base with args := [i32 a[3]!, i32 a[4]!] }
  | _ => base      -- jmp

def mkCfg (d : Defs) (sigs : List (Nat × String)) (descs : List Sexp) : Cfg :=
  let flt : List (Nat × Bool) := descs.filterMap fun s => match s.head? with
    | some "set" => some ((s.args[1]!).asNat, (s.args[5]!).asInt != 0)
    | some "cmp" => some ((s.args[1]!).asNat, (s.args[5]!).asInt != 0)
    | _ => none
  let cmps : List Nat := descs.filterMap fun s => if s.head? == some "cmp" then some (s.args[1]!).asNat else none
  { defs := d
    isFloat := fun op k => match sigs.lookup op with
      | some sig => sig.toList[k]? == some 'f'
      | none => (flt.lookup op).getD false
    raisable := fun op => !cmps.contains op }

def argSexp : RArg → Sexp
  | .one v => Sexp.int v.toInt
  | .sw cs => Sexp.app "sw" (cs.map fun c => match c with | some v => Sexp.int v.toInt | none => .atom "_")

def stmtSexp (cfg : Cfg) (tags : List (Nat × String)) (s : RStmt) : Sexp :=
  let lab := match printLabel cfg.defs s.mask with
    | .ok none => Sexp.atom "none"
    | .ok (some t) => Sexp.str (String.ofList t)
    | e => errOf e
  let head := [Sexp.int s.time.toInt, Sexp.nat (if s.label then 1 else 0), lab]
  match s.kind with
  | .ins => Sexp.app "st" (head ++ [.atom "ins", Sexp.nat s.opcode, Sexp.list (s.args.map argSexp)])
  | .intr => match tags.lookup s.opcode with
    | some "set" => Sexp.app "st" (head ++ [.atom "set", Sexp.int ((s.fixed.headD 0).toInt), Sexp.list (s.args.map argSexp)])
    | _ => Sexp.app "st" (head ++ [.atom "jmp"])

def raiseCase (lines sigs : Sexp) (descs : List Sexp) : Sexp :=
  match applyLines defaultDefs (toLines lines) with
  | .ok d =>
    let sigTab : List (Nat × String) := sigs.items.map fun l => ((l.items[0]!).asNat, (l.items[1]!).asAtom)
    let cfg := mkCfg d sigTab descs
    let targets : List Nat := descs.filterMap fun s => if s.head? == some "jmp" then some (s.args[3]!).asNat else none
    let tags : List (Nat × String) := descs.filterMap fun s => match s.head? with
      | some "ins" => none
      | some t => some ((s.args[1]!).asNat, t)
      | none => none
    let is := (descs.map toInstr).mapIdx fun k i => { i with label := targets.contains k }
    Sexp.app "ok" ((recognize cfg is).map (stmtSexp cfg tags))
  | e => errOf e

end TruthModel.Driver.C14Raise
