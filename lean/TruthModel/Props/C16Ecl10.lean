import TruthModel.Props.C16Files
import TruthModel.Model.FilesEcl10
/-
C16 for stack ECL (TH10 and later) — any binary input ends in success or a diagnostic, never a crash.

Instruction level (`Model/InstrIO10.lean`), for EVERY byte string:
* `readInstr10_no_panic`, `readInstr10_err` (two diagnostics), `readInstr10_consumes` (a parsed instruction
  consumed exactly its own size, at least the 16-byte header), `readInstr10_alloc_bound`;
* `readInstrs10_fuel_suffices` (the fuel `input length + 1` is never exhausted), `readInstrs10_no_panic`,
  `readInstrs10_total`, `readInstrs10_exact` (a script that was read ends exactly at its end offset and is
  no larger than the bytes it was read from).

Container level (`Model/FilesEcl10.lean`), for EVERY byte string and EVERY text codec:
* `ecl10_read_no_panic`: none of the five panic arms of `read` (two `assert_eq!`, the position
  subtraction, and the two inside `readInstrs10`) is reachable - `ecl10_asserts_dead` says why;
* `ecl10_read_total`: a file or one of six diagnostics, never "fuel";
* `ecl10_read_alloc_bound`: everything `read` builds is bounded by the input LINEARLY and without a
  table-size factor: the sub offsets must be sorted and every sub must end exactly where the next one
  starts, so the subs that were read tile a part of the file (`readSubsAux_tiles`).  (Contrast
  `std_alloc_amplification` / `anm_shared_texture_reads`: no amplification here.)
-/
namespace TruthModel.C16
open TruthModel TruthModel.InstrIO TruthModel.Files

theorem rdI32_len {bs : Bytes} {v : Int} {r : Bytes} (h : rdI32 bs = some (v, r)) : bs.length = r.length + 4 := by
  rcases rdI32_spec bs with h' | ⟨v', r', h', p, hp, rfl⟩
  · rw [h'] at h; cases h
  · rw [h'] at h; cases h; simp [hp]; omega

/-! ## instruction level -/

theorem readInstr10_no_panic (bs : Bytes) : (readInstr10 bs).isPanic = false := by
  unfold readInstr10
  repeat' split
  all_goals rfl

/-- the only diagnostics of `read_instr`: a short read, or a size field below the header size -/
theorem readInstr10_err (bs : Bytes) (c : String) (h : readInstr10 bs = .err c) : c = eofErr ∨ c = badSize := by
  unfold readInstr10 at h
  repeat' split at h
  all_goals first
    | (cases h; done)
    | (injection h with h; subst h; exact .inl rfl)
    | (injection h with h; subst h; exact .inr rfl)

/-- **a parsed instruction consumed exactly `instr_size` bytes**: 16 bytes of header and the blob -/
theorem readInstr10_consumes (bs : Bytes) (i : Instr10) (r : Bytes) (h : readInstr10 bs = .ok (i, r)) :
    bs.length = r.length + instrSize10 i ∧ 16 ≤ instrSize10 i := by
  unfold readInstr10 at h
  repeat' split at h
  all_goals first | (cases h; done) | skip
  rename_i _ _ h1 _ _ _ h2 _ _ _ h3 _ _ _ h4 _ _ _ h5 _ _ _ h6 _ _ _ h7 _ _ _ h8 hsz _ _ _ h9
  cases h
  have := rdI32_len h1; have := rdU16_len h2; have := rdU16_len h3; have := rdU16_len h4
  have := rdU8_len h5; have := rdU8_len h6; have := rdU8_len h7
  have := (rdBytes_len h8).1
  obtain ⟨h9a, h9b⟩ := rdBytes_len h9
  simp only [instrSize10, headerSize10]
  omega

/-- what `read_byte_vec(size - 16)` returns is part of the input -/
theorem readInstr10_alloc_bound (bs : Bytes) (i : Instr10) (r : Bytes) (h : readInstr10 bs = .ok (i, r)) :
    i.blob.length + 16 ≤ bs.length := by
  have := (readInstr10_consumes bs i r h).1
  simp only [instrSize10, headerSize10] at this
  omega

theorem readInstrs10Aux_succ (e : Option Nat) (n : Nat) (acc : List Instr10) (cur : Nat) (bs : Bytes) :
    readInstrs10Aux e (n + 1) acc cur bs =
      match endCheck e cur with
      | .stop => .ok acc.reverse
      | .past => .err readPastEnd
      | .go =>
        match readInstr10 bs with
        | .ok (i, r) => readInstrs10Aux e n (i :: acc) (cur + instrSize10 i) r
        | .err c => .err c
        | .panic s => .panic s := by
  rw [readInstrs10Aux]
  rfl

theorem readInstrs10Aux_no_panic (e : Option Nat) :
    ∀ (n : Nat) (acc : List Instr10) (cur : Nat) (bs : Bytes), (readInstrs10Aux e n acc cur bs).isPanic = false := by
  intro n
  induction n with
  | zero => intro _ _ _; rfl
  | succ n ih =>
    intro acc cur bs
    rw [readInstrs10Aux_succ]
    cases endCheck e cur with
    | stop => rfl
    | past => rfl
    | go =>
      have hp := readInstr10_no_panic bs
      cases h : readInstr10 bs with
      | ok p => obtain ⟨i, r⟩ := p; exact ih _ _ _
      | err c => rfl
      | panic s => rw [h] at hp; cases hp

/-- with more fuel than input bytes the loop ends in a script or one of three diagnostics: never "fuel" -/
theorem readInstrs10Aux_err (e : Option Nat) :
    ∀ (n : Nat) (acc : List Instr10) (cur : Nat) (bs : Bytes), bs.length < n →
      ErrIn instrReadErrs (readInstrs10Aux e n acc cur bs) := by
  intro n
  induction n with
  | zero => intro _ _ bs h; omega
  | succ n ih =>
    intro acc cur bs hn
    rw [readInstrs10Aux_succ]
    cases endCheck e cur with
    | stop => intro c h'; cases h'
    | past => intro c h'; injection h' with h'; subst h'; simp [instrReadErrs]
    | go =>
      cases h : readInstr10 bs with
      | ok p =>
        obtain ⟨i, r⟩ := p
        have := readInstr10_consumes bs i r h
        exact ih _ _ _ (by omega)
      | err c =>
        intro c' h'
        injection h' with h'
        subst h'
        rcases readInstr10_err bs _ h with h' | h' <;> subst h' <;> simp [instrReadErrs]
      | panic s => intro c h'; cases h'

theorem readInstrs10_no_panic (e : Option Nat) (start : Nat) (bs : Bytes) : (readInstrs10 e start bs).isPanic = false :=
  readInstrs10Aux_no_panic e _ _ _ _

theorem readInstrs10_err (e : Option Nat) (start : Nat) (bs : Bytes) : ErrIn instrReadErrs (readInstrs10 e start bs) :=
  readInstrs10Aux_err e _ _ _ _ (Nat.lt_succ_self _)

/-- **the fuel handed to the script loop always suffices** -/
theorem readInstrs10_fuel_suffices (e : Option Nat) (start : Nat) (bs : Bytes) : readInstrs10 e start bs ≠ .err "fuel" := by
  intro h
  have := readInstrs10_err e start bs _ h
  simp [instrReadErrs, eofErr, badSize, readPastEnd] at this

/-- **a script ends in a list of instructions or one of three diagnostics, for every byte string** -/
theorem readInstrs10_total (e : Option Nat) (start : Nat) (bs : Bytes) :
    (∃ is, readInstrs10 e start bs = .ok is) ∨ ∃ c ∈ instrReadErrs, readInstrs10 e start bs = .err c :=
  total_of (readInstrs10_no_panic e start bs) (readInstrs10_err e start bs)

/-- bytes of a script as stored (headers + argument blobs) -/
def sizeSum10 (is : List Instr10) : Nat := (is.map instrSize10).sum

theorem sizeSum10_cons (i : Instr10) (is : List Instr10) : sizeSum10 (i :: is) = instrSize10 i + sizeSum10 is := by
  simp [sizeSum10]

theorem sizeSum10_reverse (is : List Instr10) : sizeSum10 is.reverse = sizeSum10 is := by
  simp [sizeSum10, List.sum_reverse]

theorem endCheck_stop10 {e : Option Nat} {cur : Nat} (h : endCheck e cur = .stop) : e = some cur := by
  unfold endCheck at h
  split at h
  · cases h
  · split at h
    · cases h
    · split at h
      · rename_i h1; rw [h1]
      · cases h

/-- the loop with an end offset stops only AT the end offset; what it read is what lies between -/
theorem readInstrs10Aux_exact (e : Nat) : ∀ (n : Nat) (acc : List Instr10) (cur : Nat) (bs : Bytes) (is : List Instr10),
    readInstrs10Aux (some e) n acc cur bs = .ok is →
      cur + sizeSum10 is = e + sizeSum10 acc ∧ sizeSum10 is ≤ sizeSum10 acc + bs.length := by
  intro n
  induction n with
  | zero => intro acc cur bs is h; rw [readInstrs10Aux] at h; cases h
  | succ n ih =>
    intro acc cur bs is h
    rw [readInstrs10Aux_succ] at h
    cases hc : endCheck (some e) cur with
    | stop =>
      rw [hc] at h; cases h
      have := endCheck_stop10 hc
      cases this
      rw [sizeSum10_reverse]
      omega
    | past => rw [hc] at h; cases h
    | go =>
      rw [hc] at h
      cases hr : readInstr10 bs with
      | ok p =>
        obtain ⟨i, r⟩ := p
        rw [hr] at h
        have hs := (readInstr10_consumes bs i r hr).1
        have := ih _ _ _ _ h
        simp only [sizeSum10_cons] at this
        omega
      | err c => rw [hr] at h; cases h
      | panic s => rw [hr] at h; cases h

/-- **a script read between `start` and `e` is exactly `e - start` bytes of instructions, all of them input** -/
theorem readInstrs10_exact (e start : Nat) (bs : Bytes) (is : List Instr10) (h : readInstrs10 (some e) start bs = .ok is) :
    start + sizeSum10 is = e ∧ sizeSum10 is ≤ bs.length := by
  have := readInstrs10Aux_exact e _ _ _ _ _ h
  simpa [sizeSum10] using this

example : readInstrs10 (some 36) 0 ([5, 0, 0, 0, 10, 0, 20, 0, 3, 0, 255, 5, 2, 0, 0, 0, 1, 0, 0, 0] ++ [0, 0, 0, 0, 11, 0, 16, 0, 0, 0, 3, 0, 0, 0, 0, 0]) =
    .ok [{ time := 5, opcode := 10, mask := 3, difficulty := 255, argCount := 5, pop := 2, blob := [1, 0, 0, 0] },
         { time := 0, opcode := 11, mask := 0, difficulty := 3, argCount := 0, pop := 0, blob := [] }] := by decide
/-- a size field below 16 is a diagnostic, not an underflow -/
example : readInstr10 [0, 0, 0, 0, 1, 0, 15, 0, 0, 0, 255, 0, 0, 0, 0, 0] = .err badSize := by decide
/-- an end offset inside an instruction is a diagnostic -/
example : readInstrs10 (some 10) 0 [0, 0, 0, 0, 1, 0, 16, 0, 0, 0, 255, 0, 0, 0, 0, 0] = .err readPastEnd := by decide

/-! ## container level -/

def ecl10ReadErrs : List String := [eofErr, badSize, readPastEnd, badMagic, undecodable, notSorted]

local macro "e10_leaf" : tactic =>
  `(tactic| (intro h; first | (cases h; done) | (injection h with h; subst h; simp only [ecl10ReadErrs, List.mem_cons, true_or, or_true]; done)))

theorem expectMagic_no_panic (m bs : Bytes) : (expectMagic m bs).isPanic = false := by
  unfold expectMagic
  repeat' split
  all_goals rfl

theorem expectMagic_err (m bs : Bytes) : ErrIn ecl10ReadErrs (expectMagic m bs) := by
  intro c
  unfold expectMagic
  repeat' split
  all_goals e10_leaf

theorem expectMagic_len {m bs r : Bytes} (h : expectMagic m bs = .ok r) : bs.length = r.length + m.length := by
  unfold expectMagic at h
  repeat' split at h
  all_goals first | (cases h; done) | skip
  rename_i hb _
  cases h
  exact (rdBytes_len hb).1

theorem readCStr1_len : ∀ (bs s r : Bytes), readCStr1 bs = some (s, r) → bs.length = r.length + s.length + 1 := by
  intro bs
  induction bs with
  | nil => intro s r h; cases h
  | cons b t ih =>
    intro s r h
    rw [readCStr1] at h
    split at h
    · cases h; simp
    · split at h
      · rename_i s' r' h'
        cases h
        have := ih _ _ h'
        simp only [List.length_cons]; omega
      · cases h

/-! `readCStr1` against the generic model of `read_cstring_blockwise` -/

theorem dropWhile_zero_of_nonzero : ∀ (l : Bytes), (∀ x ∈ l, x ≠ 0) → l.dropWhile (· == 0) = l := by
  intro l h
  cases l with
  | nil => rfl
  | cons a t =>
    have : (a == 0) = false := by simpa using h a (List.mem_cons_self ..)
    simp [List.dropWhile, this]

/-- `readCStr1` is the generic model of `read_cstring_blockwise` (`Abi.readCStringBlockwise`, the one C15 uses)
at block size 1 -/
theorem readCStr1_blockwise : ∀ (bs acc : Bytes) (fuel : Nat), bs.length < fuel → (∀ x ∈ acc, x ≠ 0) →
    Abi.readCStringBlockwise 1 fuel acc bs =
      match readCStr1 bs with
      | some (s, r) => .ok (acc ++ s, r)
      | none => .err "unexpected EOF" := by
  intro bs
  induction bs with
  | nil =>
    intro acc fuel hf _
    cases fuel with
    | zero => omega
    | succ n => simp [Abi.readCStringBlockwise, readCStr1]
  | cons b r ih =>
    intro acc fuel hf hacc
    cases fuel with
    | zero => omega
    | succ n =>
      rw [Abi.readCStringBlockwise]
      simp only [List.length_cons, List.take_succ_cons, List.take_zero, List.drop_succ_cons, List.drop_zero]
      rw [if_neg (by decide), if_neg (by omega)]
      by_cases hb : b = 0
      · subst hb
        simp only [List.getLast?_append, List.getLast?_singleton, Option.some_or, readCStr1, if_true, List.append_nil]
        simp only [Abi.stripTrailingZeros, List.reverse_append, List.reverse_cons, List.reverse_nil, List.nil_append,
          List.singleton_append, List.dropWhile_cons, beq_self_eq_true, if_true]
        rw [dropWhile_zero_of_nonzero _ (by intro x hx; exact hacc x (List.mem_reverse.1 hx)), List.reverse_reverse]
      · have hne : ¬ (acc ++ [b]).getLast? = some 0 := by
          simp only [List.getLast?_append, List.getLast?_singleton, Option.some_or, Option.some.injEq]
          exact hb
        rw [if_neg (by simpa using hne)]
        have := ih (acc ++ [b]) n (by simp only [List.length_cons] at hf; omega) (by
          intro x hx
          rcases List.mem_append.1 hx with h | h
          · exact hacc x h
          · simp only [List.mem_cons, List.not_mem_nil, or_false] at h; subst h; exact hb)
        rw [this]
        simp only [readCStr1, hb, if_false]
        cases readCStr1 r with
        | none => rfl
        | some p => simp
theorem readStrsAux_no_panic {α} (dec : Bytes → Option α) : ∀ (k : Nat) (acc : List α) (n : Nat) (bs : Bytes),
    (readStrsAux dec k acc n bs).isPanic = false := by
  intro k
  induction k with
  | zero => intro _ _ _; rfl
  | succ k ih =>
    intro acc n bs
    rw [readStrsAux]
    repeat' split
    all_goals first | rfl | exact ih _ _ _

theorem readStrsAux_err {α} (dec : Bytes → Option α) : ∀ (k : Nat) (acc : List α) (n : Nat) (bs : Bytes),
    ErrIn ecl10ReadErrs (readStrsAux dec k acc n bs) := by
  intro k
  induction k with
  | zero => intro _ _ _ c h; cases h
  | succ k ih =>
    intro acc n bs c
    rw [readStrsAux]
    repeat' split
    all_goals first | e10_leaf | exact ih _ _ _ c

/-- the strings read are input: `count` strings, `n' - n` bytes -/
theorem readStrsAux_len {α} (dec : Bytes → Option α) : ∀ (k : Nat) (acc : List α) (n : Nat) (bs : Bytes) (ss : List α) (n' : Nat) (r : Bytes),
    readStrsAux dec k acc n bs = .ok (ss, n', r) →
      ss.length = acc.length + k ∧ bs.length + n = r.length + n' ∧ n + k ≤ n' := by
  intro k
  induction k with
  | zero => intro acc n bs ss n' r h; rw [readStrsAux] at h; cases h; simp
  | succ k ih =>
    intro acc n bs ss n' r h
    rw [readStrsAux] at h
    split at h
    · cases h
    · rename_i raw r1 h1
      split at h
      · cases h
      · have := ih _ _ _ _ _ _ h
        have := readCStr1_len _ _ _ h1
        simp only [List.length_cons] at *
        omega

theorem readStringList_no_panic {α} (dec : Bytes → Option α) (count : Nat) (bs : Bytes) :
    (readStringList dec count bs).isPanic = false := by
  unfold readStringList
  repeat' split
  all_goals first | rfl | (rename_i h; exact absurd h (ne_panic_of (readStrsAux_no_panic _ _ _ _ _) _))

theorem readStringList_err {α} (dec : Bytes → Option α) (count : Nat) (bs : Bytes) :
    ErrIn ecl10ReadErrs (readStringList dec count bs) := by
  intro c
  unfold readStringList
  repeat' split
  all_goals first
    | e10_leaf
    | (rename_i hq; intro h; injection h with h; subst h; exact readStrsAux_err _ _ _ _ _ _ hq)

/-- `read_string_list` returns `count` strings, consumed `n` bytes of the input, at least one per string -/
theorem readStringList_len {α} {dec : Bytes → Option α} {count : Nat} {bs : Bytes} {ss : List α} {n : Nat} {r : Bytes}
    (h : readStringList dec count bs = .ok (ss, n, r)) : ss.length = count ∧ bs.length = r.length + n ∧ count ≤ n := by
  unfold readStringList at h
  repeat' split at h
  all_goals first | (cases h; done) | skip
  rename_i _ ss' n' r' h1 _ _ r'' h2
  cases h
  have := readStrsAux_len _ _ _ _ _ _ _ _ h1
  have := (rdBytes_len h2).1
  simp only [List.length_nil] at *
  omega

theorem readInclude_no_panic {α} (dec : Bytes → Option α) (m bs : Bytes) : (readInclude dec m bs).isPanic = false := by
  unfold readInclude
  repeat' split
  all_goals first
    | rfl
    | (rename_i h; exact absurd h (ne_panic_of (expectMagic_no_panic _ _) _))
    | (rename_i h; exact absurd h (ne_panic_of (readStringList_no_panic _ _ _) _))

theorem readInclude_err {α} (dec : Bytes → Option α) (m bs : Bytes) : ErrIn ecl10ReadErrs (readInclude dec m bs) := by
  intro c
  unfold readInclude
  repeat' split
  all_goals first
    | e10_leaf
    | (rename_i hq; intro h; injection h with h; subst h; exact expectMagic_err _ _ _ hq)
    | (rename_i hq; intro h; injection h with h; subst h; exact readStringList_err _ _ _ _ hq)

/-- an include section that was read: `n` bytes of the input, more than the number of its strings -/
theorem readInclude_len {α} {dec : Bytes → Option α} {m bs : Bytes} {ss : List α} {n : Nat} {r : Bytes}
    (h : readInclude dec m bs = .ok (ss, n, r)) : bs.length = r.length + n ∧ ss.length + m.length + 4 ≤ n := by
  unfold readInclude at h
  repeat' split at h
  all_goals first | (cases h; done) | skip
  rename_i _ r1 h1 _ count r2 h2 _ ss' n' r3 h3
  cases h
  have := expectMagic_len h1
  have := rdU32_len h2
  have := readStringList_len h3
  omega

theorem readSubHeader_no_panic (bs : Bytes) : (readSubHeader bs).isPanic = false := by
  unfold readSubHeader
  repeat' split
  all_goals first | rfl | (rename_i h; exact absurd h (ne_panic_of (expectMagic_no_panic _ _) _))

theorem readSubHeader_err (bs : Bytes) : ErrIn ecl10ReadErrs (readSubHeader bs) := by
  intro c
  unfold readSubHeader
  repeat' split
  all_goals first
    | e10_leaf
    | (rename_i hq; intro h; injection h with h; subst h; exact expectMagic_err _ _ _ hq)

theorem readSubHeader_len {bs r : Bytes} (h : readSubHeader bs = .ok r) : bs.length = r.length + 16 := by
  unfold readSubHeader at h
  repeat' split at h
  all_goals first | (cases h; done) | skip
  rename_i _ r1 h1 _ _ r2 h2
  cases h
  have := expectMagic_len h1
  have := (rdU32s_len h2).1
  simp only [eclhMagic, List.length_cons, List.length_nil] at *
  omega

theorem instrReadErrs_sub : ∀ c ∈ instrReadErrs, c ∈ ecl10ReadErrs := by
  intro c hc
  simp only [instrReadErrs, List.mem_cons, List.not_mem_nil, or_false] at hc
  rcases hc with rfl | rfl | rfl <;> simp [ecl10ReadErrs]

theorem readSub10_no_panic (file : Bytes) (off e : Nat) : (readSub10 file off e).isPanic = false := by
  unfold readSub10
  repeat' split
  all_goals first
    | rfl
    | (rename_i h; exact absurd h (ne_panic_of (readSubHeader_no_panic _) _))
    | exact readInstrs10_no_panic _ _ _

theorem readSub10_err (file : Bytes) (off e : Nat) : ErrIn ecl10ReadErrs (readSub10 file off e) := by
  unfold readSub10
  repeat' split
  all_goals first
    | (intro c; e10_leaf)
    | (rename_i hq; intro c h; injection h with h; subst h; exact readSubHeader_err _ _ hq)
    | exact ErrIn.mono (readInstrs10_err _ _ _) instrReadErrs_sub

/-- **one sub that was read lies between its offset and the next one, inside the file**: the header and
the instructions are exactly the `e - off` bytes in between -/
theorem readSub10_exact {file : Bytes} {off e : Nat} {is : List Instr10} (h : readSub10 file off e = .ok is) :
    off + 16 + sizeSum10 is = e ∧ e ≤ file.length := by
  unfold readSub10 at h
  repeat' split at h
  all_goals first | (cases h; done) | skip
  rename_i _ _ r hr
  have h1 := readSubHeader_len hr
  obtain ⟨h2, h3⟩ := readInstrs10_exact _ _ _ _ h
  have h4 : (seek file off).length = file.length - off := by simp [seek]
  omega

theorem readSubsAux_step (file : Bytes) (off e : Nat) (offs : List Nat) (name : Text) (names : List Text)
    (acc : List (Text × List Instr10)) :
    readSubsAux file (off :: e :: offs) (name :: names) acc =
      match readSub10 file off e with
      | .ok is => readSubsAux file (e :: offs) names (insertSub acc name is)
      | .err c => .err c
      | .panic p => .panic p := by
  rw [readSubsAux]
  rfl

theorem readSubsAux_nil_names (file : Bytes) (offs : List Nat) (acc : List (Text × List Instr10)) :
    readSubsAux file offs [] acc = .ok acc := by
  unfold readSubsAux
  split
  · rename_i heq; cases heq
  · rfl

theorem readSubsAux_nil_offs (file : Bytes) (names : List Text) (acc : List (Text × List Instr10)) :
    readSubsAux file [] names acc = .ok acc := by
  unfold readSubsAux
  rfl

theorem readSubsAux_one_off (file : Bytes) (off : Nat) (names : List Text) (acc : List (Text × List Instr10)) :
    readSubsAux file [off] names acc = .ok acc := by
  unfold readSubsAux
  rfl

theorem readSubsAux_no_panic (file : Bytes) : ∀ (names : List Text) (offs : List Nat) (acc : List (Text × List Instr10)),
    (readSubsAux file offs names acc).isPanic = false := by
  intro names
  induction names with
  | nil => intro offs acc; rw [readSubsAux_nil_names]; rfl
  | cons name names ih =>
    intro offs acc
    match offs with
    | [] => rw [readSubsAux_nil_offs]; rfl
    | [_] => rw [readSubsAux_one_off]; rfl
    | off :: e :: offs =>
      rw [readSubsAux_step]
      split
      · exact ih _ _
      · rfl
      · rename_i h; exact absurd h (ne_panic_of (readSub10_no_panic _ _ _) _)

theorem readSubsAux_err (file : Bytes) : ∀ (names : List Text) (offs : List Nat) (acc : List (Text × List Instr10)),
    ErrIn ecl10ReadErrs (readSubsAux file offs names acc) := by
  intro names
  induction names with
  | nil => intro offs acc c h; rw [readSubsAux_nil_names] at h; cases h
  | cons name names ih =>
    intro offs acc
    match offs with
    | [] => intro c h; rw [readSubsAux_nil_offs] at h; cases h
    | [_] => intro c h; rw [readSubsAux_one_off] at h; cases h
    | off :: e :: offs =>
      rw [readSubsAux_step]
      split
      · exact ih _ _
      · rename_i c' hq
        intro c h; injection h with h; subst h
        exact readSub10_err _ _ _ _ hq
      · intro c h; cases h

/-- **every assertion and the position subtraction of `read` are dead code** (stated on the values
the model computes at those three places): the reader is where it has just been moved to, or where
the consumed bytes put it -/
theorem ecl10_asserts_dead (includeOffset includeLength c1 c2 : Nat) :
    (if decide (36 ≠ includeOffset) then includeOffset else 36) = includeOffset ∧
    ¬ (includeOffset + c1 + c2 < includeOffset) ∧
    (if decide (includeOffset + c1 + c2 - includeOffset ≠ includeLength) then includeOffset + includeLength else includeOffset + c1 + c2)
      = includeOffset + includeLength := by
  refine ⟨?_, by omega, ?_⟩
  · by_cases h : 36 = includeOffset <;> simp [h]
  · by_cases h : includeOffset + c1 + c2 - includeOffset = includeLength
    · simp only [h, ne_eq, not_true_eq_false, decide_false, Bool.false_eq_true, if_false]; omega
    · simp [h]

theorem readEcl10Subs_no_panic (sj : Abi.Sjis) (file : Bytes) (n : Nat) (r : Bytes) : (readEcl10Subs sj file n r).isPanic = false := by
  unfold readEcl10Subs
  repeat' split
  all_goals first
    | rfl
    | (rename_i h; exact absurd h (ne_panic_of (readStringList_no_panic _ _ _) _))
    | exact readSubsAux_no_panic _ _ _ _

theorem readEcl10Subs_err (sj : Abi.Sjis) (file : Bytes) (n : Nat) (r : Bytes) : ErrIn ecl10ReadErrs (readEcl10Subs sj file n r) := by
  unfold readEcl10Subs
  repeat' split
  all_goals first
    | (intro c; e10_leaf)
    | (rename_i hq; intro c h; injection h with h; subst h; exact readStringList_err _ _ _ _ hq)
    | exact readSubsAux_err _ _ _ _

theorem readEcl10Includes_no_panic (sj : Abi.Sjis) (file : Bytes) (il io n : Nat) (r : Bytes) :
    (readEcl10Includes sj file il io n r).isPanic = false := by
  unfold readEcl10Includes
  simp only []
  have h1 : (if decide (36 ≠ io) = true then io else 36) = io := (ecl10_asserts_dead io il 0 0).1
  rw [if_neg (by rw [h1]; exact fun h => h rfl)]
  repeat' split
  all_goals first
    | rfl
    | (rename_i h; exact absurd h (ne_panic_of (readInclude_no_panic _ _ _) _))
    | (rename_i h; exact absurd h (ne_panic_of (readEcl10Subs_no_panic _ _ _ _) _))
    | (rename_i h; omega)
    | skip
  all_goals
    rename_i h2 h3
    simp only [ne_eq, decide_not, Bool.not_eq_true', decide_eq_false_iff_not, Classical.not_not] at h2
    omega

/-- **stack ECL: `read` ends in a file or a diagnostic for EVERY byte string and every text codec.** -/
theorem ecl10_read_no_panic (sj : Abi.Sjis) (bs : Bytes) : (readEcl10 sj bs).isPanic = false := by
  unfold readEcl10
  repeat' split
  all_goals first
    | rfl
    | (rename_i h; exact absurd h (ne_panic_of (expectMagic_no_panic _ _) _))
    | exact readEcl10Includes_no_panic _ _ _ _ _ _

theorem readEcl10Includes_err (sj : Abi.Sjis) (file : Bytes) (il io n : Nat) (r : Bytes) :
    ErrIn ecl10ReadErrs (readEcl10Includes sj file il io n r) := by
  unfold readEcl10Includes
  simp only []
  repeat' split
  all_goals first
    | (intro c; e10_leaf)
    | (rename_i hq; intro c h; injection h with h; subst h; exact readInclude_err _ _ _ _ hq)
    | (rename_i hq; intro c h; injection h with h; subst h; exact readEcl10Subs_err _ _ _ _ _ hq)

theorem ecl10_read_err (sj : Abi.Sjis) (bs : Bytes) : ErrIn ecl10ReadErrs (readEcl10 sj bs) := by
  unfold readEcl10
  repeat' split
  all_goals first
    | (intro c; e10_leaf)
    | (rename_i hq; intro c h; injection h with h; subst h; exact expectMagic_err _ _ _ hq)
    | exact readEcl10Includes_err _ _ _ _ _ _

/-- **stack ECL: every byte string gives a file or one of six diagnostics** (unexpected EOF, bad
instruction size, script read past its end, wrong magic, undecodable string, unsorted sub offsets) -
in particular never the internal "fuel" diagnostic. -/
theorem ecl10_read_total (sj : Abi.Sjis) (bs : Bytes) :
    (∃ f, readEcl10 sj bs = .ok f) ∨ ∃ c ∈ ecl10ReadErrs, readEcl10 sj bs = .err c :=
  total_of (ecl10_read_no_panic sj bs) (ecl10_read_err sj bs)

/-! ### allocation -/

/-- what a sub costs: its 16-byte header and its instructions as stored -/
def subCost (s : Text × List Instr10) : Nat := 16 + sizeSum10 s.2

def subsCost (l : List (Text × List Instr10)) : Nat := (l.map subCost).sum

theorem subsCost_append (a b : List (Text × List Instr10)) : subsCost (a ++ b) = subsCost a + subsCost b := by
  simp [subsCost]

theorem subsCost_cons (x : Text × List Instr10) (xs : List (Text × List Instr10)) : subsCost (x :: xs) = subCost x + subsCost xs := by
  simp [subsCost]

theorem replace_absent (name : Text) (is : List Instr10) : ∀ (xs : List (Text × List Instr10)), name ∉ xs.map (·.1) →
    xs.map (fun x => if x.1 == name then (x.1, is) else x) = xs := by
  intro xs
  induction xs with
  | nil => intro _; rfl
  | cons x xs ih =>
    intro h
    simp only [List.map_cons, List.mem_cons, not_or] at h
    have hx : (x.1 == name) = false := by
      apply Bool.eq_false_iff.2
      intro hb
      exact h.1 (beq_iff_eq.1 hb).symm
    simp only [List.map_cons, hx, Bool.false_eq_true, if_false, ih h.2]

theorem replace_keys (name : Text) (is : List Instr10) (xs : List (Text × List Instr10)) :
    (xs.map (fun x => if x.1 == name then (x.1, is) else x)).map (·.1) = xs.map (·.1) := by
  induction xs with
  | nil => rfl
  | cons x xs ih =>
    simp only [List.map_cons, ih]
    split <;> rfl

/-- `IndexMap::insert` keeps the keys distinct -/
theorem insertSub_nodup (acc : List (Text × List Instr10)) (name : Text) (is : List Instr10) (h : (acc.map (·.1)).Nodup) :
    ((insertSub acc name is).map (·.1)).Nodup := by
  unfold insertSub
  split
  · rw [replace_keys]; exact h
  · rename_i hany
    rw [List.map_append, List.nodup_append]
    refine ⟨h, by simp, ?_⟩
    intro a ha b hb
    simp only [List.map_cons, List.map_nil, List.mem_cons, List.not_mem_nil, or_false] at hb
    subst hb
    intro hab
    subst hab
    apply hany
    obtain ⟨x, hx, hxa⟩ := List.mem_map.1 ha
    exact List.any_eq_true.2 ⟨x, hx, by simp [hxa]⟩

/-- with distinct keys an insertion adds at most the new value (a replaced value is dropped) -/
theorem subsCost_insertSub (acc : List (Text × List Instr10)) (name : Text) (is : List Instr10) (h : (acc.map (·.1)).Nodup) :
    subsCost (insertSub acc name is) ≤ subsCost acc + (16 + sizeSum10 is) := by
  unfold insertSub
  split
  · rename_i hany
    clear hany
    induction acc with
    | nil => simp [subsCost]
    | cons x xs ih =>
      simp only [List.map_cons, List.nodup_cons] at h
      by_cases hx : (x.1 == name) = true
      · have hn : name ∉ xs.map (·.1) := by rw [← beq_iff_eq.1 hx]; exact h.1
        simp only [List.map_cons, hx, if_true, replace_absent name is xs hn, subsCost_cons, subCost]
        omega
      · have := ih h.2
        simp only [List.map_cons, hx, Bool.false_eq_true, if_false, subsCost_cons] at this ⊢
        omega
  · simp [subsCost, subCost]


theorem subsCost_ge (l : List (Text × List Instr10)) : 16 * l.length ≤ subsCost l := by
  induction l with
  | nil => simp [subsCost]
  | cons x xs ih => simp only [subsCost_cons, subCost, List.length_cons]; omega

/-- **the subs that were read tile a part of the file**: sorted offsets, every sub ending exactly where
the next one starts, the last one at the end of the file.  Whatever is in the map afterwards costs no
more than the bytes between the first offset and the end of the file. -/
theorem readSubsAux_tiles (file : Bytes) : ∀ (names : List Text) (offs : List Nat) (acc res : List (Text × List Instr10)),
    readSubsAux file offs names acc = .ok res → (acc.map (·.1)).Nodup →
      (res.map (·.1)).Nodup ∧ subsCost res ≤ subsCost acc + (file.length - offs.headD 0) := by
  intro names
  induction names with
  | nil => intro offs acc res h hn; rw [readSubsAux_nil_names] at h; cases h; exact ⟨hn, by omega⟩
  | cons name names ih =>
    intro offs acc res h hn
    match offs with
    | [] => rw [readSubsAux_nil_offs] at h; cases h; exact ⟨hn, by omega⟩
    | [_] => rw [readSubsAux_one_off] at h; cases h; exact ⟨hn, by omega⟩
    | off :: e :: offs =>
      rw [readSubsAux_step] at h
      split at h
      · rename_i is his
        obtain ⟨h1, h2⟩ := readSub10_exact his
        obtain ⟨hn', hc⟩ := ih _ _ _ h (insertSub_nodup acc name is hn)
        have := subsCost_insertSub acc name is hn
        simp only [List.headD_cons] at hc ⊢
        exact ⟨hn', by omega⟩
      · cases h
      · cases h

theorem readEcl10Subs_bound {sj : Abi.Sjis} {file : Bytes} {n : Nat} {r : Bytes} {subs : List (Text × List Instr10)}
    (h : readEcl10Subs sj file n r = .ok subs) : subsCost subs ≤ file.length := by
  unfold readEcl10Subs at h
  repeat' split at h
  all_goals first | (cases h; done) | skip
  have := (readSubsAux_tiles file _ _ _ _ h (by simp)).2
  simp only [subsCost, List.map_nil, List.sum_nil, Nat.zero_add] at this ⊢
  omega

theorem readEcl10Includes_bound {sj : Abi.Sjis} {file : Bytes} {il io n : Nat} {r : Bytes} {f : Ecl10File}
    (h : readEcl10Includes sj file il io n r = .ok f) (hr : r.length ≤ file.length) :
    f.anim.length + f.ecli.length + 16 ≤ file.length ∧ subsCost f.subs ≤ file.length := by
  unfold readEcl10Includes at h
  simp only [] at h
  repeat' split at h
  all_goals first | (cases h; done) | skip
  all_goals
    rename_i _ _ anim c1 r1 ha _ ecli c2 r2 he _ _ _ _ subs hs
    cases h
    have h1 := readInclude_len ha
    have h2 := readInclude_len he
    have h3 := readEcl10Subs_bound hs
    have h4 : (seek file io).length ≤ file.length := seek_length_le _ _
    refine ⟨?_, h3⟩
    simp only [animMagic, ecliMagic, List.length_cons, List.length_nil] at h1 h2
    show anim.length + ecli.length + 16 ≤ file.length
    omega

/-- **stack ECL: what `read` builds is bounded by the input, linearly** - one entry per string of the
include lists (each took at least one byte), and ALL subs together (16 bytes of header each and the
instructions as stored) no larger than the file: no offset-table amplification in this format. -/
theorem ecl10_read_alloc_bound (sj : Abi.Sjis) (bs : Bytes) (f : Ecl10File) (h : readEcl10 sj bs = .ok f) :
    f.anim.length + f.ecli.length + 16 ≤ bs.length ∧ subsCost f.subs ≤ bs.length ∧ 16 * f.subs.length ≤ bs.length := by
  unfold readEcl10 at h
  repeat' split at h
  all_goals first | (cases h; done) | skip
  rename_i _ r0 h0 _ _ r1 h1 _ _ r2 h2 _ _ r3 h3 _ _ r4 h4 _ _ r5 h5 _ _ r6 h6
  have := expectMagic_len h0; have := rdI16_len h1; have := rdU16_len h2; have := rdU32_len h3
  have := rdU32_len h4; have := rdU32_len h5; have := (rdU32s_len h6).1
  obtain ⟨ha, hb⟩ := readEcl10Includes_bound h (by omega)
  have := subsCost_ge f.subs
  exact ⟨ha, hb, by omega⟩

/-- non-vacuity: a file with two subs is read, and its subs cost exactly the bytes after the first offset -/
def ecl10Sample : Bytes :=
  [83, 67, 80, 84, 1, 0, 24, 0, 36, 0, 0, 0, 0, 0, 0, 0, 2, 0, 0, 0, 0, 0, 0, 0, 0, 0, 0, 0, 0, 0, 0, 0, 0, 0, 0, 0,
   65, 78, 73, 77, 1, 0, 0, 0, 97, 46, 97, 110, 109, 0, 0, 0, 69, 67, 76, 73, 0, 0, 0, 0,
   76, 0, 0, 0, 112, 0, 0, 0, 109, 97, 105, 110, 0, 115, 49, 0,
   69, 67, 76, 72, 16, 0, 0, 0, 0, 0, 0, 0, 0, 0, 0, 0, 5, 0, 0, 0, 10, 0, 20, 0, 3, 0, 255, 5, 2, 0, 0, 0, 1, 0, 0, 0,
   69, 67, 76, 72, 16, 0, 0, 0, 0, 0, 0, 0, 0, 0, 0, 0]

def asciiSjis : Abi.Sjis :=
  { enc := fun s => if s.all (fun c => c.toNat < 128) then some (s.map fun c => UInt8.ofNat c.toNat) else none,
    dec := fun b => if b.all (· < 128) then some (b.map fun x => Char.ofNat x.toNat) else none }

set_option maxRecDepth 100000 in
example : readEcl10 asciiSjis ecl10Sample = .ok
    { anim := ["a.anm".toList], ecli := [],
      subs := [("main".toList, [{ time := 5, opcode := 10, mask := 3, difficulty := 255, argCount := 5, pop := 2, blob := [1, 0, 0, 0] }]),
               ("s1".toList, [])] } := by decide

end TruthModel.C16
