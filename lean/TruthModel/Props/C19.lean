/-
C19 — output is a deterministic function of the inputs.

The only source of run-to-run variation in the (single-threaded) tool is the iteration order of
randomly seeded hash maps.  A consumer of such an iteration is modelled as a function of the LIST of
entries; determinism is invariance under permutation of that list.  One lemma per consumer shape
that occurs in /repo/src (the audited site table /verif/order_sites.json maps every iteration
site to one of these), and a witness that "emit in iteration order" is NOT invariant.
-/
namespace TruthModel.C19

/-! ### shape 1: membership / any / all / count -/

theorem any_perm_invariant {α} (p : α → Bool) {l₁ l₂ : List α} (h : l₁.Perm l₂) :
    l₁.any p = l₂.any p := h.any_eq

theorem all_perm_invariant {α} (p : α → Bool) {l₁ l₂ : List α} (h : l₁.Perm l₂) :
    l₁.all p = l₂.all p := h.all_eq

theorem count_perm_invariant {α} (p : α → Bool) {l₁ l₂ : List α} (h : l₁.Perm l₂) :
    l₁.countP p = l₂.countP p := h.countP_eq p

/-! ### shape 2: sort by a unique key, then consume (`collect` + `sort_by_key`, `BTreeMap`) -/

/-- insertion by key, as a left fold step -/
def ins {β} (a : Nat × β) : List (Nat × β) → List (Nat × β)
  | [] => [a]
  | c :: z => if a.1 < c.1 then a :: c :: z else c :: ins a z

def sortByKey {β} (l : List (Nat × β)) : List (Nat × β) := l.foldl (fun acc x => ins x acc) []

theorem ins_comm {β} (a b : Nat × β) (hab : a.1 ≠ b.1) (z : List (Nat × β)) :
    ins a (ins b z) = ins b (ins a z) := by
  induction z with
  | nil =>
    simp only [ins]
    by_cases h1 : a.1 < b.1
    · have h2 : ¬ b.1 < a.1 := by omega
      simp [h1, h2, ins]
    · have h2 : b.1 < a.1 := by omega
      simp [h1, h2, ins]
  | cons c z ih =>
    simp only [ins]
    by_cases hb : b.1 < c.1 <;> by_cases ha : a.1 < c.1 <;> simp only [hb, ha, if_true, if_false, ins]
    · by_cases h1 : a.1 < b.1
      · have h2 : ¬ b.1 < a.1 := by omega
        simp [h1, h2, ha, hb]
      · have h2 : b.1 < a.1 := by omega
        simp [h1, h2, ha, hb]
    · have h1 : ¬ a.1 < b.1 := by omega
      simp [h1, hb]
    · have h1 : ¬ b.1 < a.1 := by omega
      simp [h1, ha]
    · rw [ih]

theorem inj_of_nodup_keys {β} : ∀ {l : List (Nat × β)}, (l.map (·.1)).Nodup →
    ∀ {x y : Nat × β}, x ∈ l → y ∈ l → x.1 = y.1 → x = y
  | [], _, _, _, hx, _, _ => by cases hx
  | c :: z, hk, x, y, hx, hy, he => by
    simp only [List.map_cons, List.nodup_cons, List.mem_map, not_exists, not_and] at hk
    rcases List.mem_cons.mp hx with rfl | hx' <;> rcases List.mem_cons.mp hy with rfl | hy'
    · rfl
    · exact absurd he.symm (hk.1 y hy')
    · exact absurd he (hk.1 x hx')
    · exact inj_of_nodup_keys hk.2 hx' hy' he

/-- Sorting entries with pairwise distinct keys gives the same list whatever order the hash map
yielded them in; hence so does any consumer of the sorted list. -/
theorem sorted_consumer_perm_invariant {β γ} (consume : List (Nat × β) → γ) {l₁ l₂ : List (Nat × β)}
    (h : l₁.Perm l₂) (hk : (l₁.map (·.1)).Nodup) :
    consume (sortByKey l₁) = consume (sortByKey l₂) := by
  have : sortByKey l₁ = sortByKey l₂ := by
    unfold sortByKey
    apply h.foldl_eq'
    intro x hx y hy z
    by_cases hxy : x = y
    · subst hxy; rfl
    · have hne : x.1 ≠ y.1 := by
        intro he
        apply hxy
        exact inj_of_nodup_keys hk hx hy he
      exact (ins_comm y x (Ne.symm hne) z)
  rw [this]

/-! ### shape 3: minimum under a total order with a deterministic tie-break -/

def minKey (l : List Nat) : Option Nat := l.foldl (fun acc x => match acc with | none => some x | some m => some (min m x)) none

theorem min_perm_invariant {l₁ l₂ : List Nat} (h : l₁.Perm l₂) : minKey l₁ = minKey l₂ := by
  unfold minKey
  apply h.foldl_eq'
  intro x _ y _ z
  cases z with
  | none => simp [Nat.min_comm]
  | some m => simp [Nat.min_assoc, Nat.min_comm x y]

/-! ### shape 4: lookups only (a hash map used as a finite function) -/

theorem lookup_perm_invariant {β} (k : Nat) {l₁ l₂ : List (Nat × β)} (h : l₁.Perm l₂)
    (v : β) : (k, v) ∈ l₁ ↔ (k, v) ∈ l₂ := h.mem_iff

/-! ### the shape that is NOT deterministic: emit one message per entry in iteration order -/

theorem emit_in_iteration_order_not_invariant :
    ∃ l₁ l₂ : List Nat, l₁.Perm l₂ ∧ l₁.map (fun r => s!"register {r} used under multiple names")
      ≠ l₂.map (fun r => s!"register {r} used under multiple names") :=
  ⟨[1, 2], [2, 1], List.Perm.swap 2 1 [], by decide⟩

example : sortByKey [(3, "c"), (1, "a"), (2, "b")] = [(1, "a"), (2, "b"), (3, "c")] := by decide
example : sortByKey [(2, "b"), (3, "c"), (1, "a")] = [(1, "a"), (2, "b"), (3, "c")] := by decide

end TruthModel.C19
